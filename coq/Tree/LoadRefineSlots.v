(* Tree/LoadRefineSlots.v — C09, heap merge = pure merge: bookkeeping of footprints by counting.
   The sub-elements of the merged element are replaced, one by one, by the results of the sub-merges; the footprint of
   a result lies in the footprints of the two elements it was made of.  [slots]: the new content list has no id twice. *)
From Coq Require Import Permutation.
From AV Require Import Base.Bytes Base.Outcome Hash.HashModel Tree.Heap Tree.Ops Tree.Load Tree.MergeSpec Tree.MergePure
  Tree.LoadProofsBase Tree.LoadRefineBase Tree.LoadRefinePure Tree.LoadRefineHeap.
Open Scope string_scope.
Open Scope list_scope.
Open Scope N_scope.

Definition cnt (l : list id) (x : id) : nat := count_occ N.eq_dec l x.

Lemma cnt_nil x : cnt [] x = O. Proof. reflexivity. Qed.
Lemma cnt_app a b x : cnt (a ++ b) x = (cnt a x + cnt b x)%nat.
Proof. apply count_occ_app. Qed.
Lemma cnt_cons y l x : cnt (y :: l) x = ((if N.eq_dec y x then 1 else 0) + cnt l x)%nat.
Proof. unfold cnt. cbn [count_occ]. destruct (N.eq_dec y x); reflexivity. Qed.
Lemma eq_dec_one (i : id) : (if N.eq_dec i i then 1 else 0)%nat = 1%nat.
Proof. destruct (N.eq_dec i i); congruence. Qed.
Lemma nodup_cnt l : NoDup l <-> forall x, (cnt l x <= 1)%nat.
Proof. apply NoDup_count_occ. Qed.
Lemma in_cnt l x : In x l <-> (cnt l x > 0)%nat.
Proof. apply count_occ_In. Qed.
Lemma notin_cnt l x : ~ In x l <-> cnt l x = O.
Proof. apply count_occ_not_In. Qed.
Lemma incl_cnt a b : incl a b <-> forall x, (cnt a x > 0)%nat -> (cnt b x > 0)%nat.
Proof. unfold incl. split; intros H x Hx; apply in_cnt; apply H; apply in_cnt; exact Hx. Qed.
Lemma perm_cnt a b : Permutation a b -> forall x, cnt a x = cnt b x.
Proof. intros H x. apply (proj1 (Permutation_count_occ N.eq_dec a b) H). Qed.
Lemma cnt_concat_in (ls : list (list id)) l x : In l ls -> (cnt l x <= cnt (List.concat ls) x)%nat.
Proof.
  induction ls as [|l0 ls IH]; cbn [In List.concat]; [intros []|]. rewrite cnt_app.
  intros [->|H]; [lia|]. apply IH in H. lia.
Qed.

Lemma aids_items_app l1 l2 : aids_items (l1 ++ l2) = aids_items l1 ++ aids_items l2.
Proof. induction l1 as [|[c|d] r IH]; cbn [app aids_items]; [reflexivity| |exact IH]. rewrite IH, app_assoc. reflexivity. Qed.
Lemma map_el_app f l1 l2 : map_el f (l1 ++ l2) = map_el f l1 ++ map_el f l2.
Proof. induction l1 as [|[c|d] r IH]; cbn [app map_el]; [reflexivity| |]; rewrite IH; reflexivity. Qed.
Lemma map_el_id l : map_el (fun c => c) l = l.
Proof. induction l as [|[c|d] r IH]; cbn [map_el]; [reflexivity| |]; rewrite IH; reflexivity. Qed.
Lemma in_map_el f l c : In (inl c) l -> In (inl (f c)) (map_el f l).
Proof.
  induction l as [|[c0|d] r IH]; cbn [In map_el]; [intros []| |].
  - intros [[= ->]|H]; [left; reflexivity|right; auto].
  - intros [[=]|H]. right. auto.
Qed.
Lemma in_map_el_inv f l c' : In (inl c') (map_el f l) -> exists c, In (inl c) l /\ c' = f c.
Proof.
  induction l as [|[c0|d] r IH]; cbn [In map_el]; [intros []| |].
  - intros [[= <-]|H]; [exists c0; auto|]. destruct (IH H) as (c & Hc & E). exists c. auto.
  - intros [[=]|H]. destruct (IH H) as (c & Hc & E). exists c. auto.
Qed.

Lemma in_insert_at_iff {A} (l : list A) k x y : In y (insert_at l k x) <-> y = x \/ In y l.
Proof.
  revert k. induction l as [|z l IH]; intros [|k]; cbn [insert_at In]; try (split; intuition congruence).
  rewrite IH. tauto.
Qed.
Lemma in_ins_all {A} ds (xs l : list A) y : In y l -> In y (ins_all ds xs l).
Proof.
  revert xs l. induction ds as [|d ds IH]; intros [|x xs] l H; cbn [ins_all]; auto.
  apply IH. apply in_insert_at_iff. right. exact H.
Qed.
Lemma in_ins_all_inv {A} ds (xs l : list A) y : In y (ins_all ds xs l) -> In y l \/ In y xs.
Proof.
  revert xs l. induction ds as [|d ds IH]; intros [|x xs] l H; cbn [ins_all] in H; auto.
  apply IH in H as [H|H]; [|right; right; exact H]. apply in_insert_at_iff in H as [->|H]; [right; left; reflexivity|left; exact H].
Qed.
Lemma map_ins_all {A B} (f : A -> B) ds xs l : map f (ins_all ds xs l) = ins_all ds (map f xs) (map f l).
Proof.
  revert xs l. induction ds as [|d ds IH]; intros [|x xs] l; cbn [ins_all map]; try reflexivity.
  rewrite IH, insert_at_map. reflexivity.
Qed.

Lemma nodup_app_intro_g {A} (a b : list A) : NoDup a -> NoDup b -> (forall x, In x a -> ~ In x b) -> NoDup (a ++ b).
Proof.
  induction a as [|x a IH]; intros Ha Hb Hd; cbn [app]; [exact Hb|]. inversion Ha as [|? ? Hn Ha']; subst.
  constructor.
  - intros Hin. apply in_app_or in Hin as [Hin|Hin]; [contradiction|]. apply (Hd x); [left; reflexivity|exact Hin].
  - apply IH; auto. intros y Hy. apply Hd. right. exact Hy.
Qed.

Lemma nodup_map_inj {A B} (f : A -> B) l :
  NoDup l -> (forall x y, In x l -> In y l -> f x = f y -> x = y) -> NoDup (map f l).
Proof.
  induction l as [|a l IH]; intros Hnd Hinj; cbn [map]; [constructor|]. inversion Hnd as [|? ? Hn Hnd']; subst.
  constructor.
  - intros Hin. apply in_map_iff in Hin as (y & E & Hy). apply Hn. rewrite (Hinj a y); auto; [left; reflexivity|right; exact Hy].
  - apply IH; [exact Hnd'|]. intros x y Hx Hy. apply Hinj; right; assumption.
Qed.

(* ------------------------------------------------------------------ selection of the replaced elements by id *)
Fixpoint pick (i : id) (fs : list atree) : option atree :=
  match fs with [] => None | x :: r => if a_id x =? i then Some x else pick i r end.
Definition gsel (fs : list atree) (c : atree) : atree := match pick (a_id c) fs with Some c' => c' | None => c end.

Lemma pick_some i fs c' : pick i fs = Some c' -> In c' fs /\ a_id c' = i.
Proof.
  induction fs as [|x r IH]; cbn [pick]; [discriminate|]. destruct (a_id x =? i) eqn:E.
  - intros [= <-]. apply N.eqb_eq in E. split; [left; reflexivity|exact E].
  - intros H. apply IH in H as [H1 H2]. split; [right; exact H1|exact H2].
Qed.
Lemma pick_none i fs : ~ In i (map a_id fs) -> pick i fs = None.
Proof.
  induction fs as [|x r IH]; cbn [pick map In]; [reflexivity|]. intros H. destruct (a_id x =? i) eqn:E.
  - apply N.eqb_eq in E. exfalso. apply H. left. exact E.
  - apply IH. intros H0. apply H. right. exact H0.
Qed.
Lemma gsel_id fs c : a_id (gsel fs c) = a_id c.
Proof. unfold gsel. destruct (pick (a_id c) fs) as [c'|] eqn:E; [apply pick_some in E as [_ E]; exact E|reflexivity]. Qed.
Lemma gsel_none fs c : ~ In (a_id c) (map a_id fs) -> gsel fs c = c.
Proof. intros H. unfold gsel. rewrite pick_none; auto. Qed.

Section Sel.
Variable R : atree * atree -> atree -> Prop.
Hypothesis R_id : forall p c', R p c' -> a_id c' = a_id (fst p).

Lemma forall2_ids pairs finals : Forall2 R pairs finals -> map a_id finals = map (fun p => a_id (fst p)) pairs.
Proof. induction 1 as [|p c' ps fs H HF IH]; cbn [map]; [reflexivity|]. rewrite (R_id p c' H), IH. reflexivity. Qed.

Lemma pick_forall2 pairs finals :
  Forall2 R pairs finals -> NoDup (map (fun p => a_id (fst p)) pairs) ->
  forall pr, In pr pairs -> exists c', pick (a_id (fst pr)) finals = Some c' /\ R pr c'.
Proof.
  induction 1 as [|p c' ps fs H HF IH]; intros Hnd pr Hin; [destruct Hin|]. cbn [map] in Hnd.
  inversion Hnd as [|? ? Hn Hnd']; subst. cbn [pick]. destruct Hin as [->|Hin].
  - exists c'. rewrite (R_id pr c' H), N.eqb_refl. auto.
  - destruct (a_id c' =? a_id (fst pr)) eqn:E.
    + apply N.eqb_eq in E. exfalso. apply Hn. rewrite <- (R_id p c' H), E. apply (in_map (fun p => a_id (fst p))). exact Hin.
    + apply IH; auto.
Qed.
End Sel.

(* ------------------------------------------------------------------ the slots *)
Definition Rfoot (p : atree * atree) (c' : atree) : Prop :=
  a_id c' = a_id (fst p) /\ NoDup (aids c') /\ incl (aids c') (aids (fst p) ++ aids (snd p)).

Lemma slots_cnt : forall pairs finals,
  Forall2 Rfoot pairs finals ->
  forall l,
    NoDup (aids_items l ++ List.concat (map (fun p => aids (snd p)) pairs)) ->
    (forall p, In p pairs -> In (inl (fst p)) l) ->
    NoDup (map (fun p => a_id (fst p)) pairs) ->
    forall x, (cnt (aids_items (map_el (gsel finals) l)) x <= 1)%nat /\
              ((cnt (aids_items (map_el (gsel finals) l)) x > 0)%nat ->
               (cnt (aids_items l) x + cnt (List.concat (map (fun p => aids (snd p)) pairs)) x > 0)%nat).
Proof.
  induction 1 as [|[c d] c' pairs finals (Eid & Hndc & Hinc) HF IH]; intros l Hnd Hin Hids x.
  - rewrite (map_el_ext _ (fun c => c)), map_el_id; [|reflexivity]. cbn [map List.concat] in *. rewrite app_nil_r in Hnd.
    rewrite nodup_cnt in Hnd. specialize (Hnd x). rewrite cnt_nil. lia.
  - cbn [fst snd] in *. cbn [map List.concat] in *.
    destruct (in_split (inl c) l (Hin (c, d) (or_introl eq_refl))) as (l1 & l2 & ->).
    rewrite nodup_cnt in Hnd.
    assert (Hne : forall y, In (inl y) (l1 ++ l2) -> a_id y <> a_id c).
    { intros y Hy E. specialize (Hnd (a_id c)). rewrite aids_items_app in Hnd. cbn [aids_items] in Hnd. rewrite !cnt_app in Hnd.
      pose proof (proj1 (in_cnt _ _) (a_id_in_aids c)) as H1.
      apply in_app_or in Hy as [Hy|Hy]; apply child_id_in_aids in Hy; rewrite E in Hy; apply in_cnt in Hy; lia. }
    inversion Hids as [|? ? Hn Hids']; subst.
    assert (Hg : forall y, a_id y <> a_id c -> gsel (c' :: finals) y = gsel finals y).
    { intros y Hy. unfold gsel. cbn [pick]. rewrite Eid. destruct (a_id c =? a_id y) eqn:E; [apply N.eqb_eq in E; congruence|reflexivity]. }
    assert (Hgc : gsel (c' :: finals) c = c').
    { unfold gsel. cbn [pick]. rewrite Eid, N.eqb_refl. reflexivity. }
    rewrite map_el_app. cbn [map_el]. rewrite Hgc.
    rewrite (map_el_ext (gsel (c' :: finals)) (gsel finals) l1), (map_el_ext (gsel (c' :: finals)) (gsel finals) l2);
      [|intros y Hy; apply Hg, Hne, in_or_app; right; exact Hy|intros y Hy; apply Hg, Hne, in_or_app; left; exact Hy].
    specialize (IH (l1 ++ l2)).
    destruct (IH) with (x := x) as (IH1 & IH2).
    { apply nodup_cnt. intros z. specialize (Hnd z). rewrite !aids_items_app in *. cbn [aids_items] in Hnd. rewrite !cnt_app in *. lia. }
    { intros p Hp. pose proof (Hin p (or_intror Hp)) as H0. apply in_app_or in H0 as [H0|[H0|H0]]; apply in_or_app; auto.
      exfalso. apply Hn. injection H0 as H0. rewrite H0. apply (in_map (fun p => a_id (fst p))). exact Hp. }
    { exact Hids'. }
    specialize (Hnd x). rewrite map_el_app in IH1, IH2. rewrite !aids_items_app in *. cbn [aids_items] in *. rewrite !cnt_app in *.
    pose proof (proj1 (nodup_cnt _) Hndc x) as Hndx. pose proof (proj1 (incl_cnt _ _) Hinc x) as Hincx. rewrite cnt_app in Hincx. cbn [fst snd] in *. lia.
Qed.

Lemma slots pairs finals l :
  Forall2 Rfoot pairs finals ->
  NoDup (aids_items l ++ List.concat (map (fun p => aids (snd p)) pairs)) ->
  (forall p, In p pairs -> In (inl (fst p)) l) ->
  NoDup (map (fun p => a_id (fst p)) pairs) ->
  NoDup (aids_items (map_el (gsel finals) l)) /\
  incl (aids_items (map_el (gsel finals) l)) (aids_items l ++ List.concat (map (fun p => aids (snd p)) pairs)).
Proof.
  intros HF Hnd Hin Hids. pose proof (slots_cnt pairs finals HF l Hnd Hin Hids) as H. split.
  - apply nodup_cnt. intros x. apply H.
  - apply incl_cnt. intros x Hx. rewrite cnt_app. apply H. exact Hx.
Qed.
