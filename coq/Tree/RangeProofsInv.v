(* Tree/RangeProofsInv.v — C07: the order invariant of the remaining editing calls, as the combined statements that
   Properties/C07.v quotes. *)
From AV Require Import Base.Bytes Base.Outcome Hash.HashModel Spec.SpecOps Tree.Heap Tree.Ops Tree.Range Tree.SpecWF
  Tree.CopyProofsDefs Tree.RangeProofsOps Tree.RangeProofsNamed Tree.RangeProofsCopy Tree.RangeProofsMovePos Tree.RangeProofsMoveFinal.
Open Scope list_scope.
Open Scope N_scope.

Lemma order_inv_named :
  forall (T : tables) (check_fn : N -> list N -> res bool) (LATEST : N), SpecWF T ->
  forall (h : id) (n : node) (m v name : N) (item : list N) (w : world) (c : id) (w' : world) (items : list (option N)),
  w_nodes w h = Some n -> w_nodes w (w_next w) = None -> w_nodes w (w_next w + 1) = None ->
  model_of h w = Val (OK m, w) -> min_version LATEST h w = Val (OK v, w) ->
  items_of w (n_content n) = Some items -> Ordered T (n_type n) v items ->
  (forall pos, e_create_named_sub_element_at T check_fn LATEST h name item pos w = Val (OK c, w') ->
     exists n', w_nodes w' h = Some n' /\ n_type n' = n_type n /\
       items_of w' (n_content n') = Some (ins items (N.to_nat pos) (Some name)) /\
       Ordered T (n_type n) v (ins items (N.to_nat pos) (Some name))) /\
  (e_create_named_sub_element T check_fn LATEST h name item w = Val (OK c, w') \/
   e_get_or_create_named_sub_element T check_fn LATEST h name item w = Val (OK c, w') \/
   e_get_or_create_sub_element T LATEST h name w = Val (OK c, w') ->
     exists n' items', w_nodes w' h = Some n' /\ n_type n' = n_type n /\
       items_of w' (n_content n') = Some items' /\ Ordered T (n_type n) v items').
Proof.
  intros T check_fn LATEST WF h n m v name item w c w' items Hn Hf1 Hf2 Hm Hv HI HO. split.
  - intros pos H. eapply create_named_at_order_inv; eauto.
  - intros [H|[H|H]].
    + eapply create_named_order_inv; eauto.
    + eapply (get_or_create_named_order_inv T check_fn LATEST WF); eauto.
    + eapply (get_or_create_order_inv T LATEST WF); eauto.
Qed.

Lemma order_inv_copy :
  forall (T : tables) (LATEST : N), SpecWF T ->
  forall (h other : id) (n o : node) (m v : N) (w : world) (c : id) (w' : world) (items : list (option N)),
  Closed w -> w_nodes w h = Some n -> w_nodes w other = Some o ->
  model_of h w = Val (OK m, w) -> min_version LATEST h w = Val (OK v, w) ->
  items_of w (n_content n) = Some items -> Ordered T (n_type n) v items ->
  (forall pos, e_create_copied_sub_element_at T LATEST h other pos w = Val (OK c, w') ->
     exists n', w_nodes w' h = Some n' /\ n_type n' = n_type n /\
       items_of w' (n_content n') = Some (ins items (N.to_nat pos) (Some (n_name o))) /\
       Ordered T (n_type n) v (ins items (N.to_nat pos) (Some (n_name o)))) /\
  (e_create_copied_sub_element T LATEST h other w = Val (OK c, w') ->
     exists n' items', w_nodes w' h = Some n' /\ n_type n' = n_type n /\
       items_of w' (n_content n') = Some items' /\ Ordered T (n_type n) v items').
Proof.
  intros T LATEST WF h other n o m v w c w' items Cw Hn Ho Hm Hv HI HO. split.
  - intros pos H. eapply copy_at_order_inv; eauto.
  - intros H. eapply copy_order_inv; eauto.
Qed.

Lemma order_inv_move :
  forall (T : tables) (tab_en : nametab) (check_fn : N -> list N -> res bool) (LATEST : N), SpecWF T ->
  forall (h mv : id) (n mn : node) (ms m vs v : N) (w : world) (c : id) (w' : world) (items : list (option N)),
  w_nodes w h = Some n -> w_nodes w mv = Some mn ->
  model_of mv w = Val (OK ms, w) -> model_of h w = Val (OK m, w) ->
  min_version LATEST mv w = Val (OK vs, w) -> min_version LATEST h w = Val (OK v, w) ->
  items_of w (n_content n) = Some items -> Ordered T (n_type n) v items ->
  (* inside the same parent (then both belong to the same model and version) *)
  (n_parent mn = PElem h -> ms = m -> vs = v ->
   forall pos, e_move_element_here_at T tab_en check_fn LATEST h mv pos w = Val (OK c, w') ->
     exists n' items', w_nodes w' h = Some n' /\ n_type n' = n_type n /\
       items_of w' (n_content n') = Some items' /\ Ordered T (n_type n) v items') /\
  (* from another parent, same or other model: the destination and EVERY other node stay ordered *)
  (n_parent mn <> PElem h ->
   (exists pos, e_move_element_here_at T tab_en check_fn LATEST h mv pos w = Val (OK c, w')) \/
   e_move_element_here T tab_en check_fn LATEST h mv w = Val (OK c, w') ->
     (exists n' items', w_nodes w' h = Some n' /\ n_type n' = n_type n /\
        items_of w' (n_content n') = Some items' /\ Ordered T (n_type n) v items') /\
     (forall i ni itemsi vi, i <> h -> w_nodes w i = Some ni -> items_of w (n_content ni) = Some itemsi ->
        Ordered T (n_type ni) vi itemsi ->
        exists ni' itemsi', w_nodes w' i = Some ni' /\ n_type ni' = n_type ni /\
          items_of w' (n_content ni') = Some itemsi' /\ Ordered T (n_type ni) vi itemsi')).
Proof.
  intros T tab_en check_fn LATEST WF h mv n mn ms m vs v w c w' items Hn Hmn Hms Hm Hvs Hv HI HO. split.
  - intros Hp -> -> pos H. eapply (move_at_same_parent_order_inv T WF tab_en check_fn LATEST); eauto.
  - intros Hp [(pos & H)|H].
    + eapply (move_at_other_parent_order_inv T tab_en check_fn LATEST WF); eauto.
    + eapply (move_other_parent_order_inv T tab_en check_fn LATEST WF); eauto.
Qed.
