(* Tree/OrdHistCopy.v — C07, histories: ElementRaw::deep_copy keeps AllOrd for EVERY node it allocates (also the ones that are
   dropped again) and for every outcome.  Same induction as agent-c17's Tree/CompatHist3.v (deep_copy_dc), with the invariant
   "the sub-element names of the copy under construction are a sub-sequence of the names of the processed part of the source's
   child list": appending the copy of the next kept child keeps that, and a child list whose names are a sub-sequence of an
   ordered list (same type) is ordered. *)
From Coq Require Import PeanoNat Arith Lia.
From AV Require Import Base.Bytes Base.Outcome Hash.HashModel Spec.SpecOps Tree.Heap Tree.Ops Tree.Script Tree.Inv
  Tree.InvProofsBase Tree.InvProofsCore Tree.InvProofsPrim Tree.InvProofsCreate Tree.InvProofsRefs Tree.InvProofsRemove
  Tree.Range Tree.SpecWF Tree.RangeProofsLoop Tree.RangeProofsCalc Tree.RangeProofsOps Tree.RangeProofsKeep Tree.RangeProofsMoveFinal
  Tree.OrdFrame Tree.OrdFrameOps Tree.OrdHistAlloc Tree.CompatHist3.
Open Scope string_scope.
Open Scope list_scope.
Open Scope N_scope.

Lemma insert_at_end {A} (l : list A) x : insert_at l (List.length l) x = l ++ [x].
Proof. induction l as [|y l IH]; [reflexivity|]. cbn [List.length insert_at app]. rewrite IH. reflexivity. Qed.

Lemma ins_end {A} (l : list A) x : ins l (List.length l) x = l ++ [x].
Proof. induction l as [|y l IH]; [reflexivity|]. cbn [List.length ins app]. rewrite IH. reflexivity. Qed.

Lemma elems_app_elem l c : elems (l ++ [CElem c]) = elems l ++ [c].
Proof. rewrite elems_app. reflexivity. Qed.

Lemma subseq_app_r {A} (a b c : list A) : subseq a b -> subseq a (b ++ c).
Proof. intros H. rewrite <- (app_nil_r a). apply subseq_app; [exact H|apply subseq_nil]. Qed.

(* names of allocated nodes are kept *)
Definition NameExt (wa wb : world) : Prop :=
  forall k cn, w_nodes wa k = Some cn -> exists cn', w_nodes wb k = Some cn' /\ n_name cn' = n_name cn.

Lemma NameExt_refl w : NameExt w w. Proof. intros k cn H. eauto. Qed.
Lemma NameExt_trans a b c : NameExt a b -> NameExt b c -> NameExt a c.
Proof. intros H1 H2 k cn H. destruct (H1 _ _ H) as (c1 & E1 & N1). destruct (H2 _ _ E1) as (c2 & E2 & N2). exists c2. split; [auto|congruence]. Qed.
Lemma NameExt_nm wa wb l : NameExt wa wb -> (forall k, In k l -> w_nodes wa k <> None) -> map (nm wb) l = map (nm wa) l.
Proof.
  intros H Hal. apply map_nm_eq. intros k Hk. unfold nm. destruct (w_nodes wa k) as [cn|] eqn:E; [|exfalso; exact (Hal k Hk E)].
  destruct (H _ _ E) as (cn' & E' & N'). rewrite E'. exact N'.
Qed.
Lemma NameExt_ext' wa wb : Fresh wa -> ext' wa wb -> NameExt wa wb.
Proof.
  intros F (_ & E) k cn H. exists cn. split; [|reflexivity]. rewrite E; [exact H|].
  destruct (N.lt_ge_cases k (w_next wa)) as [L|G]; [exact L|]. rewrite F in H by exact G. discriminate.
Qed.
Lemma NameExt_wset w i x x' : w_nodes w i = Some x -> n_name x' = n_name x -> NameExt w (wset w i x').
Proof.
  intros Hx Hn k cn H. destruct (N.eq_dec k i) as [->|NE].
  - rewrite nodes_wset_eq. rewrite Hx in H. injection H as <-. eauto.
  - rewrite nodes_wset_neq by exact NE. eauto.
Qed.

Section DeepCopyOrd.
Variable T : tables.
Hypothesis WF : SpecWF T.
Variable v : N.

Notation AllOrd := (AllOrd T v).

Definition DCO (dc : id -> N -> W id) : Prop :=
  forall src ver w r w', dc src ver w = Val (r, w') -> AllOrd w -> Fresh w ->
    AllOrd w' /\ Fresh w' /\ ext' w w' /\
    match r with
    | OK c => exists n nc, w_nodes w src = Some n /\ w_nodes w' c = Some nc /\ n_name nc = n_name n /\ n_type nc = n_type n /\
                           w_next w <= c < w_next w'
    | ER _ => True
    end.

(* a Sh step on one node: everything is inherited *)
Lemma step_wset w i x x' : AllOrd w -> Fresh w -> w_nodes w i = Some x -> srel x x' ->
  AllOrd (wset w i x') /\ Fresh (wset w i x').
Proof.
  intros A F Hx R. assert (S : Sh w (wset w i x')) by (apply Sh_wset; [apply Sh_refl|exists x; auto]).
  split; [exact (Sh_allord T v _ _ S A)|exact (Sh_fresh _ _ S F)].
Qed.

(* the state of the copy c of the source node n while the items `pre` of n's content have been processed *)
Definition IIo (w0 : world) (n : node) (c : id) (pre : list citem) (wk : world) : Prop :=
  AllOrd wk /\ Fresh wk /\ ext' w0 wk /\ w_next w0 <= c < w_next wk /\
  exists nc, w_nodes wk c = Some nc /\ n_name nc = n_name n /\ n_type nc = n_type n /\
             subseq (map (nm wk) (elems (n_content nc))) (map (nm w0) (elems pre)).

Lemma items_spec_o dc (Hdc : DCO dc) w0 src n c ver :
  AllOrd w0 -> Fresh w0 -> w_nodes w0 src = Some n ->
  forall l pre wk r w', n_content n = pre ++ l ->
    IIo w0 n c pre wk ->
    dc_items T dc c (n_type n) ver l wk = Val (r, w') -> IIo w0 n c (n_content n) w'.
Proof.
  intros A0 F0 Hsrc.
  destruct (A0 _ _ Hsrc) as (items0 & HI0 & HO0). destruct (items_of_names w0 _ _ HI0) as (EN0 & Hal0).
  induction l as [|[s|d] l IH]; intros pre wk r w' Hl I H; cbn [dc_items] in H.
  - winv H. rewrite app_nil_r in Hl. subst pre. exact I.
  - assert (Hl' : n_content n = (pre ++ [CElem s]) ++ l) by (rewrite <- app_assoc; exact Hl).
    destruct I as (Ak & Fk & Ek & Hc & nc & Hnc & Nnc & Tnc & Sub).
    assert (Ipre : IIo w0 n c (pre ++ [CElem s]) wk).
    { split; [exact Ak|]. split; [exact Fk|]. split; [exact Ek|]. split; [exact Hc|]. exists nc. repeat split; auto.
      rewrite elems_app, map_app. apply subseq_app_r. exact Sub. }
    wstepn H sn Es; winv Es. wstepn H fs Ef; winv Ef.
    destruct v0 as [x|]; [|exact (IH _ _ _ _ Hl' Ipre H)].
    (* s is an old node *)
    assert (Hs_in : In s (elems (n_content n))).
    { rewrite Hl, elems_app, elems_cons_elem. apply in_or_app. right. left. reflexivity. }
    assert (Hs0 : exists sn0, w_nodes w0 s = Some sn0).
    { destruct (w_nodes w0 s) as [sn0|] eqn:E; [eauto|]. exfalso. exact (Hal0 s Hs_in E). }
    destruct Hs0 as (sn0 & Hsn0).
    assert (Hs_lt : s < w_next w0).
    { destruct (N.lt_ge_cases s (w_next w0)) as [L|G]; [exact L|]. rewrite F0 in Hsn0 by exact G. discriminate. }
    assert (n0 = sn0) by (rewrite (proj2 Ek) in Hn by exact Hs_lt; congruence). subst n0.
    wstepn H ro Ed. apply wtry_inv in Ed as (r0 & Ed & [= ->]).
    destruct (Hdc _ _ _ _ _ Ed Ak Fk) as (A1 & F1 & E1 & Hr0).
    assert (Hc1 : w_nodes w c = Some nc) by (rewrite (proj2 E1) by lia; exact Hnc).
    assert (NE1 : NameExt wk w) by (apply NameExt_ext'; auto).
    assert (Halc : forall k, In k (elems (n_content nc)) -> w_nodes wk k <> None).
    { destruct (Ak _ _ Hnc) as (itc & HIc & _). destruct (items_of_names wk _ _ HIc) as (_ & Hal). exact Hal. }
    assert (Sub1 : subseq (map (nm w) (elems (n_content nc))) (map (nm w0) (elems pre))).
    { rewrite (NameExt_nm wk w _ NE1 Halc). exact Sub. }
    destruct r0 as [cs|e].
    + destruct Hr0 as (sn' & ncs & Hsn' & Hncs & Nncs & Tncs & Hcs). rewrite Hn in Hsn'. injection Hsn' as <-.
      wstepn H u1 Em1. apply modify_node_wset in Em1 as (ncs' & Hncs' & _ & ->). rewrite Hncs in Hncs'. injection Hncs' as <-.
      set (w2 := wset w cs (set_parent ncs (PElem c))) in *.
      destruct (step_wset w cs ncs (set_parent ncs (PElem c)) A1 F1 Hncs) as (A2 & F2); [repeat split; auto; apply subseq_refl|].
      fold w2 in A2, F2.
      assert (Hcs_ne : cs <> c) by lia.
      assert (Hc2 : w_nodes w2 c = Some nc) by (unfold w2; rewrite nodes_wset_neq by lia; exact Hc1).
      assert (Hcs2 : w_nodes w2 cs = Some (set_parent ncs (PElem c))) by (unfold w2; apply nodes_wset_eq).
      assert (NE2 : NameExt w w2) by (apply (NameExt_wset w cs ncs); auto).
      wstepn H u2 Em2. apply modify_node_wset in Em2 as (nc' & Hnc' & _ & ->). rewrite Hc2 in Hnc'. injection Hnc' as <-.
      eapply (IH _ _ _ _ Hl'); [|exact H].
      (* the names of the extended child list *)
      assert (Halc2 : forall k, In k (elems (n_content nc)) -> w_nodes w k <> None).
      { intros k Hk. destruct (w_nodes wk k) as [ck|] eqn:E; [|exfalso; exact (Halc k Hk E)].
        destruct (NE1 _ _ E) as (ck' & E' & _). congruence. }
      assert (Sub2 : subseq (map (nm w2) (elems (n_content nc)) ++ [n_name ncs]) (map (nm w0) (elems (pre ++ [CElem s])))).
      { rewrite (NameExt_nm w w2 _ NE2 Halc2). rewrite elems_app_elem, map_app. apply subseq_app; [exact Sub1|].
        cbn [map]. unfold nm. rewrite Hsn0, Nncs. apply subseq_refl. }
      destruct (A2 _ _ Hc2) as (itc & HIc & HOc).
      assert (HOapp : Ordered T (n_type nc) v (ins itc (N.to_nat (N.of_nat (List.length (n_content nc)))) (Some (n_name ncs)))).
      { rewrite Tnc. eapply (ordered_subseq T); [|exact HO0].
        rewrite Nat2N.id, <- (items_of_length _ _ _ HIc), ins_end, somes_app. cbn [somes flat_map app].
        destruct (items_of_names w2 _ _ HIc) as (ENc & _). rewrite ENc, EN0.
        eapply subseq_trans; [exact Sub2|]. rewrite Hl. rewrite !elems_app, !map_app.
        apply subseq_app; [apply subseq_refl|]. rewrite elems_cons_elem. cbn [elems flat_map app map]. apply ss_take. apply subseq_nil. }
      pose proof (allord_insert T v w2 c nc itc (n_name ncs) (N.of_nat (List.length (n_content nc))) cs _ A2 Hc2 HIc HOapp Hcs2 eq_refl) as A3.
      rewrite Nat2N.id, insert_at_end in A3.
      split; [exact A3|]. split; [apply fresh_wset; [exact F2|congruence]|].
      split; [apply ext'_wset; [|lia]; apply ext'_wset; [|lia]; eapply ext'_trans; eauto|].
      split; [unfold w2; cbn [wset w_next]; destruct E1 as (N1 & _); lia|].
      exists (set_content nc (n_content nc ++ [CElem cs])). split; [apply nodes_wset_eq|]. cbn [set_content n_name n_type n_content].
      split; [exact Nnc|]. split; [exact Tnc|].
      rewrite elems_app_elem, map_app. cbn [map].
      set (w3 := wset w2 c _).
      assert (NE3 : NameExt w2 w3) by (apply (NameExt_wset w2 c nc); auto).
      rewrite (NameExt_nm w2 w3 _ NE3); [|intros k Hk; destruct (NE2 k) with (cn := match w_nodes w k with Some x => x | None => nc end) as (ck & E & _);
                                           [destruct (w_nodes w k) eqn:E; [reflexivity|exfalso; exact (Halc2 k Hk E)]|congruence]].
      replace (nm w3 cs) with (n_name ncs); [exact Sub2|].
      unfold nm, w3. rewrite nodes_wset_neq by exact Hcs_ne. rewrite Hcs2. reflexivity.
    + eapply (IH _ _ _ _ Hl'); [|exact H].
      split; [exact A1|]. split; [exact F1|]. split; [eapply ext'_trans; eauto|]. split; [destruct E1 as (N1 & _); lia|].
      exists nc. repeat split; auto. rewrite elems_app, map_app. apply subseq_app_r. exact Sub1.
  - assert (Hl' : n_content n = (pre ++ [CData d]) ++ l) by (rewrite <- app_assoc; exact Hl).
    destruct I as (Ak & Fk & Ek & Hc & nc & Hnc & Nnc & Tnc & Sub).
    wstepn H u Em. apply modify_node_wset in Em as (nc' & Hnc' & _ & ->). rewrite Hnc in Hnc'. injection Hnc' as <-.
    eapply (IH _ _ _ _ Hl'); [|exact H].
    set (w2 := wset wk c _).
    destruct (step_wset wk c nc (set_content nc (n_content nc ++ [CData d])) Ak Fk Hnc) as (A2 & F2).
    { split; [reflexivity|]. split; [reflexivity|]. cbn [set_content n_content]. rewrite elems_app_data. apply subseq_refl. }
    split; [exact A2|]. split; [exact F2|]. split; [apply ext'_wset; [exact Ek|lia]|]. split; [cbn [w2 wset w_next]; exact Hc|].
    eexists. split; [apply nodes_wset_eq|]. cbn [set_content n_name n_type n_content]. split; [exact Nnc|]. split; [exact Tnc|].
    rewrite elems_app_data, elems_app_data.
    assert (NE2 : NameExt wk w2) by (apply (NameExt_wset wk c nc); auto).
    rewrite (NameExt_nm wk w2 _ NE2); [exact Sub|].
    destruct (Ak _ _ Hnc) as (itc & HIc & _). destruct (items_of_names wk _ _ HIc) as (_ & Hal). exact Hal.
Qed.

Theorem deep_copy_dco : forall fuel, DCO (deep_copy T fuel).
Proof.
  induction fuel as [|f IHf]; intros src ver w r w' H A F; [discriminate|].
  rewrite deep_copy_S in H.
  wstepn H nn En. apply get_node_inv in En as (n & Hn & En & _). assert (nn = n) by congruence. subst nn. clear En.
  wstepn H c Ea. apply alloc_walloc in Ea as ([= ->] & ->).
  set (nd := mkNode _ _ _ _ _ _ _) in *. set (w1 := walloc w nd) in *.
  destruct (allord_alloc T v w nd A F eq_refl) as (A1 & F1 & Hold). fold w1 in A1, F1, Hold.
  assert (E1 : ext' w w1).
  { split; [unfold w1; cbn [walloc w_next]; lia|]. intros x Hx. unfold w1. apply nodes_walloc_old. lia. }
  wstepn H attrs Ec. 2:{ split; [exact A1|]. split; [exact F1|]. split; [exact E1|exact I]. }
  wstepn H u Em. apply modify_node_wset in Em as (nd' & Hnd' & _ & ->).
  assert (Hnd1 : w_nodes w1 (w_next w) = Some nd) by (unfold w1; apply nodes_walloc_new). rewrite Hnd1 in Hnd'. injection Hnd' as <-.
  set (w2 := wset w1 (w_next w) (set_attrs nd attrs)) in *.
  destruct (step_wset w1 (w_next w) nd (set_attrs nd attrs) A1 F1 Hnd1) as (A2 & F2); [repeat split; auto; apply subseq_refl|].
  fold w2 in A2, F2.
  assert (I2 : IIo w n (w_next w) [] w2).
  { split; [exact A2|]. split; [exact F2|]. split; [apply ext'_wset; [exact E1|lia]|].
    split; [unfold w2, w1; cbn [wset walloc w_next]; lia|].
    eexists. split; [unfold w2; apply nodes_wset_eq|]. cbn [set_attrs nd n_name n_type n_content]. repeat split; auto. apply ss_nil. }
  wstepn H u2 Ei.
  - winv H. destruct (items_spec_o _ IHf w src n (w_next w) ver A F Hn (n_content n) [] _ _ _ eq_refl I2 Ei) as (A3 & F3 & E3 & Hc3 & nc & Hnc & Nnc & Tnc & _).
    split; [exact A3|]. split; [exact F3|]. split; [exact E3|]. exists n, nc. auto.
  - destruct (items_spec_o _ IHf w src n (w_next w) ver A F Hn (n_content n) [] _ _ _ eq_refl I2 Ei) as (A3 & F3 & E3 & _). auto.
Qed.

End DeepCopyOrd.
