(* Tree/InvProofsDetFiles5.v — C03: DF is preserved, part 5: copies, file operations, rename; the theorem. *)
From Coq Require Import PeanoNat Arith.
From AV Require Import Base.Bytes Base.Outcome Hash.HashModel Tree.Heap Tree.Ops Tree.Script Tree.Inv
  Tree.InvProofsBase Tree.InvProofsCore Tree.InvProofsTree Tree.InvProofsPrim Tree.InvProofsCreate
  Tree.InvProofsData Tree.InvProofsRefs Tree.InvProofsRemove Tree.InvProofsFiles Tree.InvProofsMove
  Tree.InvProofsCopy Tree.InvProofsRename Tree.InvProofsFrame Tree.StaleProofs Tree.InvProofs
  Tree.InvProofsDetFiles Tree.InvProofsDetFiles2 Tree.InvProofsDetFiles3 Tree.InvProofsDetFiles4.
Open Scope string_scope.
Open Scope list_scope.
Open Scope N_scope.

Notation pframe := (frame pfNR pfNN).
Notation pfp := (frp pfNR pfNN).

(* ------------------------------------------------------------------ nodes allocated by deep_copy carry no file set *)
Definition NoFilesFrom (lo : N) (w : world) : Prop := forall x n, lo <= x -> w_nodes w x = Some n -> n_files n = [].
Definition NFp {A} (lo : N) (m : W A) : Prop := forall w r w', NoFilesFrom lo w -> m w = Val (r, w') -> NoFilesFrom lo w'.

Lemma NFp_ro {A} lo (m : W A) : ro m -> NFp lo m.
Proof. intros H w r w' P E. apply H in E. subst. auto. Qed.
Lemma NFp_bind {A B} lo (m : W A) (k : A -> W B) : NFp lo m -> (forall a, NFp lo (k a)) -> NFp lo (wbind m k).
Proof.
  intros Hm Hk w r w' P H. apply wbind_inv in H as [(a & w1 & H1 & H2) | (e & H1 & _)].
  - eapply Hk; [eapply Hm|]; eauto.
  - eapply Hm; eauto.
Qed.
Lemma NFp_try {A} lo (m : W A) : NFp lo m -> NFp lo (wtry m).
Proof. intros Hm w r w' P H. apply wtry_inv in H as (r0 & H & _). eapply Hm; eauto. Qed.
Lemma NFp_alloc lo n : n_files n = [] -> NFp lo (alloc n).
Proof.
  intros Hf w r w' P H. apply alloc_walloc in H as (_ & ->). intros x nx Hx Hnx.
  destruct (N.eq_dec x (w_next w)) as [->|Hne].
  - rewrite nodes_walloc_new in Hnx. congruence.
  - rewrite nodes_walloc_old in Hnx by auto. eauto.
Qed.
Lemma NFp_modify_node lo i f : (forall n, n_files (f n) = n_files n) -> NFp lo (modify_node i f).
Proof.
  intros Hf w r w' P H. apply modify_node_wset in H as (n & Hn & _ & ->). intros x nx Hx Hnx.
  destruct (N.eq_dec x i) as [->|Hne].
  - rewrite nodes_wset_eq in Hnx. injection Hnx as <-. rewrite Hf. eauto.
  - rewrite nodes_wset_neq in Hnx by auto. eauto.
Qed.

Section DF5.
Variable T : tables.
Variable tab_el tab_en : nametab.
Variable check_fn : N -> list N -> res bool.
Variable LATEST : N.
Variable root_attrs : list (N * cdata).

Lemma NFp_items lo f ty version c :
  (forall src ver, NFp lo (deep_copy T f src ver)) -> forall l, NFp lo (items_loop T f ty version c l).
Proof.
  intros IHf. induction l as [|[s|d] l IH]; cbn [items_loop].
  - apply NFp_ro. ro_tac.
  - apply NFp_bind; [apply NFp_ro; ro_tac|]. intros sn.
    apply NFp_bind; [apply NFp_ro; ro_tac|]. intros [x|]; [|exact IH].
    apply NFp_bind; [apply NFp_try, IHf|]. intros [cs|]; [|exact IH].
    apply NFp_bind; [apply NFp_modify_node; intros; reflexivity|]. intros _.
    apply NFp_bind; [apply NFp_modify_node; intros; reflexivity|]. intros _. exact IH.
  - apply NFp_bind; [apply NFp_modify_node; intros; reflexivity|]. intros _. exact IH.
Qed.

Lemma NFp_deep_copy lo f : forall src ver, NFp lo (deep_copy T f src ver).
Proof.
  induction f as [|f IHf]; intros src ver; [intros w r w' _ H; discriminate|].
  change (deep_copy T (S f) src ver) with
    (do n <- get_node src;
     do c <- alloc (mkNode PNone (n_name n) (n_type n) [] [] [] (n_comment n));
     do attrs <- copy_attrs T (n_type n) ver (n_attrs n) [];
     modify_node c (fun x => set_attrs x attrs);;
     items_loop T f (n_type n) ver c (n_content n);;
     wret c)%W.
  apply NFp_bind; [apply NFp_ro; ro_tac|]. intros n.
  apply NFp_bind; [apply NFp_alloc; reflexivity|]. intros c.
  apply NFp_bind; [apply NFp_ro; ro_tac|]. intros attrs.
  apply NFp_bind; [apply NFp_modify_node; intros; reflexivity|]. intros _.
  apply NFp_bind; [apply NFp_items; exact IHf|]. intros _. apply NFp_ro. ro_tac.
Qed.

(* deep_copy keeps the parent/files frame of the start world *)
Lemma deep_copy_pframe f src ver w r w' : Core w -> deep_copy T f src ver w = Val (r, w') -> pframe w w'.
Proof.
  intros C H. pose proof H as H0. apply deep_copy_spec in H0 as (_ & _ & (X1 & X2 & X3) & _); try exact C; try exact check_fn; try exact LATEST.
  assert (P : NoFilesFrom (w_next w) w).
  { intros x n Hx Hn. assert (Ha : allocated w x) by (eexists; eauto). apply C in Ha. lia. }
  pose proof (NFp_deep_copy (w_next w) f src ver _ _ _ P H) as P'.
  split.
  - intros i Hi. assert (Ha : allocated w i) by (destruct (w_nodes w i) as [n0|] eqn:E; [exists n0; auto | congruence]).
    apply C in Ha. rewrite X3; auto.
  - intros i n' Hn'. destruct (N.lt_ge_cases i (w_next w)) as [Hlt|Hge].
    + left. rewrite X3 in Hn' by auto. exists n'. split; auto. apply pfNR_refl.
    + right. split; [|eapply P'; eauto].
      destruct (w_nodes w i) eqn:E; auto. assert (Ha : allocated w i) by (eexists; eauto). apply C in Ha. lia.
Qed.

(* ---------- create_copied_sub_element ---------- *)
Lemma copied_inner_df self other pos m version w r w' :
  Core w -> DF w -> create_copied_sub_element_inner T self other pos m version w = Val (r, w') -> DF w'.
Proof.
  intros C D H. unfold create_copied_sub_element_inner in H.
  wrun_ro H ltac:(exact D).
  wstepn H c Ed.
  2:{ exact (DF_pframe _ _ C (deep_copy_pframe _ _ _ _ _ _ C Ed) D). }
  pose proof (deep_copy_pframe _ _ _ _ _ _ C Ed) as F1.
  pose proof Ed as Ed0. apply deep_copy_spec in Ed0 as (C1 & _ & (X1 & X2 & X3) & -> & Hcn & nc & Hnc & Hpc);
    try exact C; try exact check_fn; try exact LATEST.
  match type of Ed with _ = Val (_, ?wx) => rename wx into w1 end.
  assert (D1 : DF w1) by (exact (DF_pframe _ _ C F1 D)).
  wrun_ro H ltac:(exact D1).
  wstepn H u Em. apply modify_node_wset in Em as (nc' & Hnc' & _ & ->). assert (nc' = nc) as -> by congruence.
  set (c := w_next w) in *. set (w2 := wset w1 c _) in *.
  match goal with Hs : w_nodes w self = Some ?n0 |- _ => rename n0 into ns; rename Hs into Hself end.
  assert (Hself1 : w_nodes w1 self = Some ns) by (rewrite X3; auto; apply C; eexists; eauto).
  assert (Hlt : self < c) by (apply C; eexists; eauto).
  assert (Hi : skel w1 c = Some (PNone, kids nc)) by (rewrite (skel_some _ _ _ Hnc), Hpc; auto).
  assert (Hi' : skel w2 c = Some (PElem self, kids nc)) by (unfold w2; rewrite skel_wset_eq; reflexivity).
  assert (Hun1 : forall p, ~ lists w1 p c) by (eapply pnone_unlisted; eauto).
  assert (C2 : Core w2).
  { eapply (core_reparent w1 w2 c); eauto using upd1_wset; [congruence | eexists; eauto |].
    intros Ha. pose proof (old_ancestors w w1 c self C X3 Ha Hlt). unfold c in *. lia. }
  assert (D2 : DF w2) by (unfold w2; apply DF_reparent_top; auto).
  clearbody w2.
  apply (DF_pframe _ _ C2); [|exact D2].
  match type of H with ?mm ?wa = _ => refine ((_ : pfp mm) wa _ _ H) end. pf_tac.
Qed.

Lemma e_copied_df h other w r w' :
  Core w -> DF w -> e_create_copied_sub_element T LATEST h other w = Val (r, w') -> DF w'.
Proof.
  intros C D H. unfold e_create_copied_sub_element, raw_create_copied_sub_element in H.
  wrun_ro H ltac:(exact D). eapply copied_inner_df; eauto.
Qed.
Lemma e_copied_at_df h other pos w r w' :
  Core w -> DF w -> e_create_copied_sub_element_at T LATEST h other pos w = Val (r, w') -> DF w'.
Proof.
  intros C D H. unfold e_create_copied_sub_element_at, raw_create_copied_sub_element_at in H.
  wrun_ro H ltac:(exact D). eapply copied_inner_df; eauto.
Qed.

End DF5.
