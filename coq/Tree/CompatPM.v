(* Tree/CompatPM.v — the invariant PM: every node whose parent link is a model (PModel _) carries the root element type
   et_new T (autosar_element T).  With C03's Core (model roots hang on their models) it says: every model root has the root type -
   what AutosarModel::duplicate needs in order to attach copies of the original root's children below the copy's root.
   PM only looks at (parent link, element type) of nodes, so nearly every primitive is a frame step for it:
     Fp w0 w : every node of w is a node of w0 with the same type that has not GAINED a model as parent, or is not model-parented.
     fpp w0 m: m keeps Fp relative to w0.   Rules for ro / bind / try / get / set / modify / alloc (of a node that is not
   model-parented) / model and file records; tactic fp_go.  Only AutosarModel::new and the loader's hand-over of an installed
   root to an empty model create model-parented nodes; both give them the root type. *)
From Coq Require Import PeanoNat Arith Lia.
From AV Require Import Base.Bytes Base.Outcome Hash.HashModel Spec.SpecOps Tree.Heap Tree.Ops Tree.Script Tree.Inv
  Tree.InvProofsBase Tree.InvProofsCore Tree.InvProofsPrim Tree.InvProofsRefs Tree.InvProofsRemove
  Tree.CompatProofs8 Tree.CompatFrame.
Open Scope string_scope.
Open Scope list_scope.
Open Scope N_scope.

Definition notpm (n : node) : Prop := forall m, n_parent n <> PModel m.
Definition prel (n0 n : node) : Prop :=
  n_type n = n_type n0 /\ n_name n = n_name n0 /\ forall m, n_parent n = PModel m -> n_parent n0 = PModel m.
Lemma prel_refl n : prel n n. Proof. split; [|split]; auto. Qed.
Lemma prel_trans a b c : prel a b -> prel b c -> prel a c.
Proof. intros (T1 & N1 & P1) (T2 & N2 & P2). split; [congruence|split; [congruence|auto]]. Qed.

(* a node of the later world: an old node (same type and name, no model gained as parent), or a fresh one that is not model-parented *)
Definition pk (w0 : world) (j : id) (x : node) : Prop :=
  (exists x0, w_nodes w0 j = Some x0 /\ prel x0 x) \/ (notpm x /\ w_next w0 <= j).
Definition Fp (w0 w : world) : Prop := w_next w0 <= w_next w /\ forall j x, w_nodes w j = Some x -> pk w0 j x.

Lemma Fp_refl w : Fp w w.
Proof. split; [lia|]. intros j x H. left. exists x. split; [exact H|apply prel_refl]. Qed.
Lemma pk_upd w0 j n x : pk w0 j n -> prel n x -> pk w0 j x.
Proof.
  intros [(n0 & H0 & R)|(Hn & Hj)] Rx; [left; exists n0; split; [exact H0|eapply prel_trans; eauto]|].
  right. split; [|exact Hj]. intros m Hm. exact (Hn m (proj2 (proj2 Rx) m Hm)).
Qed.
Lemma Fp_trans a b c : (forall j x, w_nodes a j = Some x -> j < w_next a) -> Fp a b -> Fp b c -> Fp a c.
Proof.
  intros Ba (N1 & H1) (N2 & H2). split; [lia|]. intros j x Hx. destruct (H2 _ _ Hx) as [(y & Hy & R)|(Hn & Hj)]; [|right; split; [exact Hn|lia]].
  exact (pk_upd a j y x (H1 _ _ Hy) R).
Qed.

Section PMdef.
Variable T : tables.
Definition PM (w : world) : Prop :=
  forall i n m, w_nodes w i = Some n -> n_parent n = PModel m -> et_new T (autosar_element T) = Val (n_type n).
Lemma Fp_pm w0 w : Fp w0 w -> PM w0 -> PM w.
Proof.
  intros (_ & F) P i n m Hn Hp. destruct (F _ _ Hn) as [(n0 & H0 & (Ty & _ & Pp))|(Hno & _)]; [|exfalso; exact (Hno m Hp)].
  rewrite Ty. exact (P i n0 m H0 (Pp m Hp)).
Qed.
Lemma empty_pm : PM empty_world.
Proof. intros i n m H. discriminate H. Qed.
End PMdef.

(* old nodes keep name and type (looking back from the later world) *)
Lemma Fp_old w0 w j x : Fp w0 w -> j < w_next w0 -> w_nodes w j = Some x ->
  exists x0, w_nodes w0 j = Some x0 /\ n_type x = n_type x0 /\ n_name x = n_name x0.
Proof.
  intros (_ & F) Hj Hx. destruct (F _ _ Hx) as [(x0 & H0 & (Ty & Nm & _))|(_ & Hge)]; [eauto|lia].
Qed.

Lemma Fp_wset w0 w i x : Fp w0 w -> pk w0 i x -> Fp w0 (wset w i x).
Proof.
  intros (Nx & F) Hx. split; [exact Nx|]. intros j y Hy. destruct (N.eq_dec j i) as [->|Hne].
  - rewrite nodes_wset_eq in Hy. injection Hy as <-. exact Hx.
  - rewrite nodes_wset_neq in Hy by exact Hne. exact (F _ _ Hy).
Qed.

Definition fpp {A} (w0 : world) (m : W A) : Prop := forall w r w', Fp w0 w -> m w = Val (r, w') -> Fp w0 w'.

Lemma fpp_ro {A} w0 (m : W A) : ro m -> fpp w0 m.
Proof. intros R w r w' F H. apply R in H. subst. exact F. Qed.
Lemma fpp_bind {A B} w0 (m : W A) (k : A -> W B) : fpp w0 m -> (forall a, fpp w0 (k a)) -> fpp w0 (wbind m k).
Proof.
  intros Hm Hk w r w' F H. apply wbind_inv in H as [(a & w1 & H1 & H2) | (e & H1 & _)].
  - eapply Hk; [eapply Hm; eauto|eauto].
  - eapply Hm; eauto.
Qed.
Lemma fpp_try {A} w0 (m : W A) : fpp w0 m -> fpp w0 (wtry m).
Proof. intros Hm w r w' F H. apply wtry_inv in H as (r0 & H & _). eapply Hm; eauto. Qed.
Lemma fpp_catch {A} w0 (m : W A) : fpp w0 m -> fpp w0 (wcatch m).
Proof. intros Hm w r w' F H. apply wcatch_inv in H as (r0 & H & _). eapply Hm; eauto. Qed.
Lemma fpp_bind_get {B} w0 i (k : node -> W B) : (forall n, pk w0 i n -> fpp w0 (k n)) -> fpp w0 (wbind (get_node i) k).
Proof.
  intros Hk w r w' F H. apply wbind_inv in H as [(n & w1 & H1 & H2) | (e & H1 & _)].
  - apply get_node_inv in H1 as (n' & Hn & [= <-] & ->). exact (Hk n (proj2 F _ _ Hn) _ _ _ F H2).
  - apply get_node_inv in H1 as (n' & _ & [=] & _).
Qed.
Lemma fpp_set_node w0 i x : pk w0 i x -> fpp w0 (set_node i x).
Proof. intros Hx w r w' F H. apply set_node_wset in H as (_ & ->). exact (Fp_wset _ _ _ _ F Hx). Qed.
Lemma fpp_modify_node w0 i f : (forall n, prel n (f n)) -> fpp w0 (modify_node i f).
Proof.
  intros Hf w r w' F H. apply modify_node_wset in H as (n & Hn & _ & ->).
  apply Fp_wset; [exact F|]. exact (pk_upd w0 i n (f n) (proj2 F _ _ Hn) (Hf n)).
Qed.
Lemma fpp_alloc w0 nd : notpm nd -> fpp w0 (alloc nd).
Proof.
  intros Hn w r w' (Nx & F) H. apply alloc_walloc in H as (_ & ->). split; [cbn; lia|]. intros j y Hy.
  destruct (N.eq_dec j (w_next w)) as [->|Hne].
  - rewrite nodes_walloc_new in Hy. injection Hy as <-. right. split; [exact Hn|exact Nx].
  - rewrite nodes_walloc_old in Hy by exact Hne. exact (F _ _ Hy).
Qed.
Lemma fpp_set_model w0 m x : fpp w0 (set_model m x).
Proof. intros w r w' F H. apply set_model_inv in H as (_ & ->). exact F. Qed.
Lemma fpp_modify_model w0 m f : fpp w0 (modify_model m f).
Proof. intros w r w' F H. apply modify_model_inv in H as (x & _ & _ & ->). exact F. Qed.
Lemma fpp_set_file w0 f x : fpp w0 (set_file f x).
Proof. intros w r w'. unfold set_file. intros F [= <- <-]. exact F. Qed.

Ltac prel_tac :=
  cbv beta;
  repeat match goal with |- prel _ (if ?b then _ else _) => destruct b | |- prel _ (match ?x with _ => _ end) => destruct x end;
  (split; [reflexivity|split; [reflexivity|]]; let m := fresh "m" in let Hm := fresh "Hm" in intros m Hm; cbn in Hm; first [exact Hm|discriminate Hm]).
Ltac pk_tac :=
  match goal with
  | K : pk ?w0 ?i ?n |- pk ?w0 ?i _ => apply (pk_upd w0 i n _ K); prel_tac
  end.
Ltac notpm_tac := let m := fresh "m" in let H := fresh "H" in intros m H; cbn in H; discriminate H.

Create HintDb fpp discriminated.
Ltac fp_step :=
  first
  [ apply fpp_ro; solve [ro_tac]
  | assumption
  | solve [auto with fpp]
  | apply fpp_modify_node; intros ?; solve [prel_tac]
  | apply fpp_set_node; solve [pk_tac]
  | apply fpp_alloc; solve [notpm_tac]
  | apply fpp_modify_model | apply fpp_set_model | apply fpp_set_file
  | apply fpp_try | apply fpp_catch
  | apply fpp_bind_get; intros ? ?
  | apply fpp_bind; [ | intros ? ]
  | match goal with
    | |- fpp _ (match ?x with _ => _ end) => destruct x eqn:?
    | |- fpp _ (if ?b then _ else _) => destruct b
    | |- fpp _ (let '(_, _) := ?x in _) => destruct x
    end ].
Ltac fp_loop :=
  match goal with
  | |- fpp ?w0 (?F ?l) =>
    is_fix F;
    let l' := fresh "l" in
    generalize l; intro l'; induction l' as [|? ? ?]; lazy beta iota fix zeta
  end.
Ltac fp_go := repeat first [ fp_step | fp_loop ].
