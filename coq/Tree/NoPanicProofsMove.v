(* Tree/NoPanicProofsMove.v — C12, layer 8: move_element_here / _at WITHIN one model never panic or run out of fuel
   (move_element_local, move_element_position).  After the element was unlinked and re-parented no upward walk runs any
   more; what has to be kept until the final `self.content.insert(position, ..)` is that the content list of the
   destination never gets shorter ([selflen]): the source parent is another element, the SHORT-NAME rewritten by
   make_unique_item_name keeps its single text item, a rewritten referrer keeps or gains an item.
   Cross-model moves (move_element_full) are NOT covered here: [cross_model]. *)
From Coq Require Import Lia.
From AV Require Import Base.Bytes Base.Outcome Hash.HashModel Spec.SpecOps Xml.TablesOk Tree.Heap Tree.Ops Tree.Script Tree.Inv.
From AV Require Import Tree.NoPanic Tree.NoPanicProofsBase Tree.NoPanicProofsOps1 Tree.NoPanicProofsClosed Tree.NoPanicProofsOps2.
From AV Require Import Tree.NoPanicProofsOps3 Tree.NoPanicProofsOps5 Tree.NoPanicProofsDepth Tree.NoPanicProofsDec Tree.NoPanicProofsCopy.
From AV Require Import Tree.NoPanicProofsCopy2.
Open Scope string_scope.
Open Scope list_scope.
Open Scope N_scope.

Definition selflen (self : id) (L : N) (w : world) : Prop :=
  exists ns, w_nodes w self = Some ns /\ L <= N.of_nat (List.length (n_content ns)).

(* the two elements live in different models: the case this file does not cover *)
Definition cross_model (w : world) (h mv : N) : Prop :=
  exists m m', model_of h w = Val (OK m, w) /\ model_of mv w = Val (OK m', w) /\ m <> m'.

Section Move.
Variable T : tables.
Variable tab_el tab_en : nametab.
Variable check_fn : N -> list N -> res bool.
Variable LATEST : N.
Variable root_attrs : list (N * cdata).
Hypothesis OK12 : tables_ok12 T = true.
Hypothesis CHECK : forall fn s, exists b, check_fn fn s = Val b.
Collection Env := T tab_el tab_en check_fn LATEST root_attrs OK12 CHECK.
Set Default Proof Using "Env".

Notation ENV f := (f T tab_el tab_en check_fn LATEST root_attrs OK12 CHECK) (only parsing).
Notation TOK := (ok12_tables T OK12) (only parsing).
Notation node_ok := (node_ok T tab_el tab_en).
Notation Closed := (Closed T tab_el tab_en).
Notation PanicFree := (PanicFree T tab_el tab_en).

(* the judgement of the mutating tail of a move *)
Definition mj {A} (self : id) (L : N) (w : world) : out A -> world -> Prop :=
  fun _ w' => Closed w' /\ ext w w' /\ selflen self L w' /\ w_next w' = w_next w.

Lemma mj_rd {A B} (m : W A) (k : A -> W B) self L w PA :
  Closed w -> selflen self L w -> rd m w PA -> (forall a, PA a -> runsQ (k a) w (mj self L w)) -> runsQ (wbind m k) w (mj self L w).
Proof.
  intros C S (r & E & F) H. unfold runsQ, wbind. rewrite E. destruct r as [a|e].
  - apply H. apply F. reflexivity.
  - exists (ER e), w. split; [reflexivity|]. split; [exact C|]. split; [apply ext_refl|]. split; [exact S|reflexivity].
Qed.
Lemma mj_bind {A B} (m : W A) (k : A -> W B) self L w :
  runsQ m w (mj self L w) ->
  (forall a w1, Closed w1 -> ext w w1 -> selflen self L w1 -> w_next w1 = w_next w -> runsQ (k a) w1 (mj self L w1)) ->
  runsQ (wbind m k) w (mj self L w).
Proof.
  intros (r & w1 & E & C1 & X1 & S1 & N1) H. unfold runsQ, wbind. rewrite E. destruct r as [a|e].
  - destruct (H a w1 C1 X1 S1 N1) as (r2 & w2 & E2 & C2 & X2 & S2 & N2). exists r2, w2. split; [exact E2|].
    split; [exact C2|]. split; [eapply ext_trans; eauto|]. split; [exact S2|congruence].
  - exists (ER e), w1. split; [reflexivity|]. split; [exact C1|]. split; [exact X1|]. split; [exact S1|exact N1].
Qed.
Lemma mj_ret {A} (a : A) self L w : Closed w -> selflen self L w -> runsQ (wret a) w (mj self L w).
Proof. intros C S. exists (OK a), w. split; [reflexivity|]. split; [exact C|]. split; [apply ext_refl|]. split; [exact S|reflexivity]. Qed.
Lemma mj_fail {A} e self L w : Closed w -> selflen self L w -> runsQ (@wfail A e) w (mj self L w).
Proof. intros C S. exists (ER e), w. split; [reflexivity|]. split; [exact C|]. split; [apply ext_refl|]. split; [exact S|reflexivity]. Qed.

Lemma mj_set_node self L w i n n0 : Closed w -> selflen self L w -> w_nodes w i = Some n0 -> node_ok w n ->
  (i = self -> (List.length (n_content n0) <= List.length (n_content n))%nat) ->
  runsQ (set_node i n) w (@mj unit self L w).
Proof.
  intros C (ns & ES & LS) E NO LEN. exists (OK tt), (wset w i n). split; [reflexivity|].
  assert (Li : i < w_next w) by (apply (cl_alloc _ _ _ _ C); congruence).
  split; [apply Closed_wset; auto|]. split; [apply ext_wset|]. split; [|reflexivity].
  unfold selflen. cbn [wset w_nodes]. unfold upd. destruct (self =? i) eqn:EQ.
  - apply N.eqb_eq in EQ. subst i. exists n. split; [reflexivity|]. rewrite ES in E. injection E as <-. specialize (LEN eq_refl). lia.
  - exists ns. split; [exact ES|exact LS].
Qed.

Lemma mj_modify_model self L w m f : Closed w -> selflen self L w -> m < N.of_nat (List.length (w_models w)) ->
  (forall x, model_ok w x -> model_ok w (f x)) -> runsQ (modify_model m f) w (@mj unit self L w).
Proof.
  intros C S Lm F. destruct (ENV get_model_ok w m C Lm) as (x & _ & EX & MO).
  exists (OK tt), (wmodel w m (f x)). split; [apply modify_model_val; exact EX|].
  split; [apply Closed_wmodel; auto|]. split; [apply ext_wmodel|]. split; [exact S|reflexivity].
Qed.

(* ElementRaw::set_character_data on any element: the content list does not get shorter *)
Lemma mj_raw_set_character_data self L w i v version : Closed w -> selflen self L w -> i < w_next w -> cdata_ok tab_en v ->
  runsQ (raw_set_character_data T check_fn i v version) w (@mj unit self L w).
Proof.
  intros C S Li CV. unfold raw_set_character_data.
  destruct (ENV get_node_ok w i C Li) as (n & EG & EN & NO).
  eapply mj_rd; [exact C|exact S|exists (OK n); split; [exact EG|]; intros a [= <-]; exact (eq_refl n)|]. intros a <-.
  pose proof NO as (ET & NM & KIDS & CD & PO).
  destruct (content_mode_ok T OK12 _ ET) as (mode & EM).
  eapply mj_rd; [exact C|exact S|apply (rd_wl _ mode w (fun a => a = mode) EM); reflexivity|]. intros a ->.
  destruct ((mode =? MCharacters) || ((mode =? MMixed) && Nat.leb (List.length (n_content n)) 1)); [|apply mj_fail; assumption].
  destruct (chardata_spec_ok T TOK _ ET) as (spec & ES & _).
  eapply mj_rd; [exact C|exact S|apply (rd_wl _ spec w (fun a => a = spec) ES); reflexivity|]. intros a ->.
  destruct spec as [cs|]; [|apply mj_fail; assumption].
  destruct (ENV check_value_ok v cs version) as (b & EB).
  eapply mj_rd; [exact C|exact S|apply (rd_wl _ b w (fun a => a = b) EB); reflexivity|]. intros a ->.
  destruct b; [|apply mj_fail; assumption].
  apply (mj_set_node self L w i _ n C S EN).
  - split; [exact ET|]. split; [exact NM|]. cbn [set_content n_content n_parent]. split; [|split; [|exact PO]].
    + intros c IN. apply KIDS. destruct (n_content n) as [|it r]; [destruct IN as [[=]|[]]|]. destruct IN as [[=]|IN]. right. exact IN.
    + intros d IN. destruct (n_content n) as [|it r]; [destruct IN as [[= <-]|[]]; exact CV|].
      destruct IN as [[= <-]|IN]; [exact CV|]. apply CD. right. exact IN.
  - intros _. cbn [set_content n_content]. destruct (n_content n); cbn; lia.
Qed.

(* what item_name = Some says about the SHORT-NAME *)
Lemma item_name_some w n orig : item_name T n w = Val (OK (Some orig), w) ->
  exists s rest sn d, n_content n = CElem s :: rest /\ w_nodes w s = Some sn /\ n_content sn = [CData d].
Proof.
  unfold item_name, wbind, wl, wlift. destruct (is_named T (n_type n)) as [[|]| |]; cbn [negb]; try discriminate.
  destruct (n_content n) as [|[s|d] rest]; try discriminate.
  unfold get_node. destruct (w_nodes w s) as [sn|] eqn:ES; [|discriminate].
  destruct (n_name sn =? SHORT T); [|discriminate].
  destruct (character_data T sn) as [cd| |] eqn:ECD; try discriminate.
  intros H. exists s, rest, sn.
  unfold character_data in ECD. destruct (n_content sn) as [|[c|d] [|? ?]]; try (injection ECD as <-; discriminate H).
  exists d. auto.
Qed.

(* the size assumption for one model *)
Definition SizeM (w : world) (m : N) : Prop :=
  forall x, nth_opt (w_models w) (N.to_nat m) = Some x -> N.of_nat (List.length (m_idents x)) < 10 ^ 39.
Lemma SizeOk_M w m : SizeOk w -> SizeM w m.
Proof. intros S x E. apply S. eapply nth_opt_In. exact E. Qed.

(* make_unique_item_name in general: the first sub-element keeps exactly one text item *)
Lemma mj_make_unique self L w c m pp : Closed w -> SizeM w m -> selflen self L w -> c < w_next w ->
  m < N.of_nat (List.length (w_models w)) -> runsQ (make_unique_item_name T c m pp) w (@mj (list N) self L w).
Proof.
  intros C SZ SL Lcw Lm. unfold make_unique_item_name.
  destruct (ENV get_node_ok w c C Lcw) as (n & EG & EN & NO).
  eapply mj_rd; [exact C|exact SL|exists (OK n); split; [exact EG|]; intros a [= <-]; exact (eq_refl n)|]. intros a <-.
  destruct (ENV item_name_ok w n C NO) as (nm & ENM).
  eapply mj_rd; [exact C|exact SL|exists (OK nm); split; [exact ENM|]; intros a [= <-]; exact (eq_refl nm)|]. intros a <-.
  destruct nm as [orig|]; [|apply mj_fail; assumption].
  destruct (ENV get_model_ok w m C Lm) as (x & EGM & EX & MO).
  eapply mj_rd; [exact C|exact SL|exists (OK x); split; [exact EGM|]; intros a [= <-]; exact (eq_refl x)|]. intros a <-.
  pose proof (SZ x EX) as SZx.
  destruct (pigeon (m_idents x) (fun k => pp ++ [47] ++ cand orig k)) as (j & Lj & FREE).
  { intros i j0 Hi Hj E. apply app_inv_head in E. apply app_inv_head in E. apply (ENV cand_inj orig i j0); [| |exact E].
    - assert (N.of_nat i <= N.of_nat (List.length (m_idents x))) by lia. assert (10 ^ 39 < 10 ^ 40) by (apply N.pow_lt_mono_r; lia). lia.
    - assert (N.of_nat j0 <= N.of_nat (List.length (m_idents x))) by lia. assert (10 ^ 39 < 10 ^ 40) by (apply N.pow_lt_mono_r; lia). lia. }
  eapply mj_rd; [exact C|exact SL|apply (ENV unique_loop_ok w m pp orig x C Lm EX (S (S (List.length (m_idents x)))) 0 j ltac:(lia) FREE ltac:(lia))|].
  intros [name counter] _.
  eapply mj_bind; [|intros [] w1 C1 X1 S1 N1; apply mj_ret; assumption].
  destruct (1 <? counter); [|apply mj_ret; assumption].
  destruct (item_name_some w n orig ENM) as (s & rest & sn & d & ECN & ES & ECS).
  rewrite ECN. unfold modify_node.
  eapply mj_rd; [exact C|exact SL|exists (OK sn); split; [apply get_node_val; exact ES|]; intros a [= <-]; exact (eq_refl sn)|]. intros a <-.
  apply (mj_set_node self L w s _ sn C SL ES).
  - pose proof (cl_node _ _ _ _ C _ _ ES) as (A & B & _ & _ & P). split; [exact A|]. split; [exact B|]. cbn.
    split; [intros y [[=]|[]]|]. split; [intros d0 [[= <-]|[]]; exact I|exact P].
  - intros _. rewrite ECS. cbn. lia.
Qed.

(* ---------- the read-only prefix ---------- *)
Lemma named_paths_ok w : Closed w -> UpWF w -> forall ids, (forall i, In i ids -> i < w_next w) -> rd (named_paths T ids) w (fun _ => True).
Proof.
  intros C U. induction ids as [|i rest IH]; intros LI; cbn [named_paths].
  - apply rd_ret. exact I.
  - eapply rd_bind; [apply (ENV rd_get_node w i (fun n => node_ok w n) C (LI i (or_introl eq_refl))); auto|]. intros n NO.
    pose proof NO as (ET & _). destruct (is_named_ok T OK12 _ ET) as (named & ENM).
    eapply rd_bind; [apply (rd_wl _ named w (fun a => a = named) ENM); reflexivity|]. intros a ->.
    eapply rd_bind; [apply IH; intros i0 H0; apply LI; right; exact H0|]. intros r _.
    destruct named; [|apply rd_ret; exact I].
    eapply rd_bind; [apply rd_try; apply (ENV path_of_ok w n C U NO)|]. intros p _. apply rd_ret. exact I.
Qed.

Lemma in_remove_at' {A} (l : list A) : forall k y, In y (remove_at l k) -> In y l.
Proof.
  induction l as [|z l IH]; intros k y IN; [destruct k; destruct IN|].
  destruct k; cbn in IN; [right; exact IN|]. destruct IN as [<-|IN]; [left; reflexivity|right; eapply IH; eauto].
Qed.

(* ---------- ElementRaw::move_element_local ---------- *)
Lemma np_move_local w self mv pos m version n :
  Closed w -> UpWF w -> HBall w -> SizeOk w -> w_nodes w self = Some n -> mv < w_next w -> self <> mv ->
  (forall mn, w_nodes w mv = Some mn -> n_parent mn <> PElem self) ->
  m < N.of_nat (List.length (w_models w)) -> pos <= N.of_nat (List.length (n_content n)) ->
  runs (move_element_local T check_fn self mv pos m version) w.
Proof.
  intros C U HB SZ EN Lmv NEQ NPAR Lm LE. unfold move_element_local.
  assert (L : self < w_next w) by (apply (cl_alloc _ _ _ _ C); congruence).
  pose proof (cl_node _ _ _ _ C _ _ EN) as NO.
  eapply runs_bind; [apply get_node_val; exact EN|]. intros ? [= <-].
  eapply runs_bind; [apply wget_val|]. intros ? [= <-].
  eapply rd_bind_runs.
  { apply (ENV ancestor_is_pref_ok w (n_parent n) mv C U). destruct NO as (_ & _ & _ & _ & P). destruct (n_parent n); auto. }
  intros anc _. destruct anc; [apply runs_fail|].
  destruct (ENV get_node_ok w mv C Lmv) as (mn & EGM & EMN & NOM).
  eapply runs_bind; [exact EGM|]. intros ? [= <-].
  pose proof NOM as (_ & _ & _ & _ & POM).
  unfold parent_of. destruct (n_parent mn) as [|pm|src_parent] eqn:EPM.
  - eapply runs_bind; [reflexivity|]. intros ? [=].
  - eapply runs_bind; [reflexivity|]. intros ? [= <-]. apply runs_fail.
  - eapply runs_bind; [reflexivity|]. intros ? [= <-].
    assert (SNE : src_parent <> self). { intros ->. eapply NPAR; eauto. }
    eapply rd_bind_runs; [apply (dfs_ids_runs T tab_el tab_en w C (fuel_of w) mv Lmv (HB mv Lmv))|]. intros ids IDS.
    eapply rd_bind_runs; [apply (named_paths_ok w C U ids IDS)|]. intros original _. cbv zeta.
    eapply rd_bind_runs.
    { apply (ENV ancestor_is_pref_ok w (PElem src_parent) self C U). exact POM. }
    intros self_above _. destruct self_above; [apply runs_fail|].
    eapply rd_bind_runs; [apply (ENV path_unchecked_ok w mn C U NOM)|]. intros src_prefix _.
    eapply rd_bind_runs; [apply (ENV path_unchecked_ok w n C U NO)|]. intros dest_prefix _.
    (* detach_from: a concrete step (the models are untouched) *)
    destruct (ENV get_node_ok w src_parent C POM) as (pn & EGP & EPN & NOP).
    unfold detach_from.
    destruct (index_of (citem_is mv) (n_content pn)) as [k|] eqn:EIX;
      [|eapply runs_bind; [unfold wbind; rewrite EGP, EIX; reflexivity|]; intros ? [=]].
    eapply runs_bind; [unfold wbind; rewrite EGP, EIX; reflexivity|]. intros ? [= <-].
    set (w1 := wset w src_parent (set_content pn (remove_at (n_content pn) k))).
    assert (C1 : Closed w1).
    { apply Closed_wset; auto. destruct NOP as (A & B & D & E & P). split; [exact A|]. split; [exact B|]. cbn.
      split; [intros c IN; apply D; exact (in_remove_at' _ _ _ IN)|]. split; [intros d IN; apply E; exact (in_remove_at' _ _ _ IN)|exact P]. }
    assert (EN1 : w_nodes w1 self = Some n) by (unfold w1; cbn [wset w_nodes]; rewrite upd_other; [exact EN|congruence]).
    (* re-parent *)
    assert (Lmv1 : mv < w_next w1) by exact Lmv.
    destruct (ENV get_node_ok w1 mv C1 Lmv1) as (mn1 & _ & EMN1 & NOM1).
    eapply runs_bind; [apply (modify_node_val mv _ w1 mn1 EMN1)|]. intros ? [= <-].
    set (w2 := wset w1 mv (set_parent mn1 (PElem self))).
    assert (C2 : Closed w2).
    { apply Closed_wset; auto. destruct NOM1 as (A & B & D & E & _). split; [exact A|]. split; [exact B|]. split; [exact D|]. split; [exact E|exact L]. }
    assert (EN2 : w_nodes w2 self = Some n) by (unfold w2; cbn [wset w_nodes]; rewrite upd_other; [exact EN1|congruence]).
    assert (SZ2 : SizeM w2 m) by (apply SizeOk_M; exact SZ).
    assert (S2 : selflen self pos w2) by (exists n; split; [exact EN2|exact LE]).
    assert (Lmv2 : mv < w_next w2) by exact Lmv.
    assert (Lm2 : m < N.of_nat (List.length (w_models w2))) by exact Lm.
    eapply (runsQ_runs _ w2 (mj (A:=id) self pos w2)).
    destruct (ENV get_node_ok w2 mv C2 Lmv2) as (mn2 & EG2 & EMN2 & NOM2).
    eapply mj_rd; [exact C2|exact S2|exists (OK mn2); split; [exact EG2|]; intros a [= <-]; exact (eq_refl mn2)|]. intros ? <-.
    destruct (ENV is_identifiable_ok w2 mn2 C2 NOM2) as (ident & EID).
    eapply mj_rd; [exact C2|exact S2|exists (OK ident); split; [exact EID|]; intros a [= <-]; exact (eq_refl ident)|]. intros ? <-.
    (* dest_path *)
    eapply mj_bind.
    { destruct ident; [|apply mj_ret; assumption].
      eapply mj_bind; [apply (mj_make_unique self pos w2 mv m dest_prefix C2 SZ2 S2 Lmv2 Lm2)|].
      intros nm w3 C3 X3 S3 N3. apply mj_ret; assumption. }
    intros dest_path w3 C3 X3 S3 N3.
    assert (Lm3 : m < N.of_nat (List.length (w_models w3))) by (eapply (ENV ext_models); eauto).
    (* the identifiables map *)
    eapply mj_bind.
    { destruct ident.
      - unfold fix_identifiables. apply mj_modify_model; auto; intros y; apply (ENV mok_fix_identifiables).
      - generalize (map fst original). intros paths. revert w3 C3 X3 S3 N3 Lm3.
        induction paths as [|op r IH]; intros w3 C3 X3 S3 N3 Lm3.
        + apply mj_ret; assumption.
        + eapply mj_bind.
          * destruct (strip_prefix src_prefix op); [|apply mj_ret; assumption].
            unfold fix_identifiables. apply mj_modify_model; auto; intros y; apply (ENV mok_fix_identifiables).
          * intros [] w4 C4 X4 S4 N4. apply (IH w4 C4); auto.
            -- eapply ext_trans; eauto.
            -- lia.
            -- eapply (ENV ext_models); eauto. }
    intros [] w4 C4 X4 S4 N4.
    assert (Lm4 : m < N.of_nat (List.length (w_models w4))) by (eapply (ENV ext_models); eauto).
    (* the referrers *)
    eapply mj_bind.
    { generalize (map fst original). intros paths. clear X4. revert w4 C4 S4 N4 Lm4.
      induction paths as [|orig_ref r IH]; intros w4 C4 S4 N4 Lm4.
      - apply mj_ret; assumption.
      - eapply mj_bind.
        + destruct (strip_prefix src_prefix orig_ref) as [suffix|]; [|apply mj_ret; assumption].
          destruct (ENV get_model_ok w4 m C4 Lm4) as (x & EGX & EX & MOX).
          eapply mj_rd; [exact C4|exact S4|exists (OK x); split; [exact EGX|]; intros a [= <-]; exact (eq_refl x)|]. intros ? <-.
          destruct (assoc_get orig_ref (m_origins x)) as [refs|] eqn:EA; [|apply mj_ret; assumption].
          assert (FR : Forall (fun e => e < w_next w4) refs).
          { apply model_ok_iff in MOX as (_ & D). eapply assoc_get_ok; eauto. }
          eapply mj_bind.
          { exists (OK tt), (wmodel w4 m (set_origins x (assoc_remove orig_ref (m_origins x)))). split; [reflexivity|].
            split; [|split; [apply ext_wmodel|split; [exact S4|reflexivity]]].
            apply Closed_wmodel; [exact C4|]. apply model_ok_iff in MOX as (A & D). apply model_ok_iff. cbn.
            split; [exact A|apply assoc_remove_ok; exact D]. }
          intros [] w5 C5 X5 S5 N5. cbv zeta.
          eapply mj_bind.
          { assert (UPD : forall rl w6, Closed w6 -> selflen self pos w6 -> Forall (fun e => e < w_next w6) rl ->
               runsQ ((fix upd_refs (rl : list id) : W unit :=
                         match rl with
                         | [] => wret tt
                         | re :: rr => wbind (raw_set_character_data T check_fn re (DString (dest_path ++ suffix)) version) (fun _ => upd_refs rr)
                         end) rl) w6 (mj (A:=unit) self pos w6)).
            { induction rl as [|re rr IHr]; intros w6 C6 S6 F6.
              - apply mj_ret; assumption.
              - inversion F6 as [|? ? Lre Frr]; subst.
                eapply mj_bind; [apply (mj_raw_set_character_data self pos w6 re (DString (dest_path ++ suffix)) version C6 S6 Lre I)|].
                intros [] w7 C7 X7 S7 N7. apply IHr; auto. rewrite Forall_forall in *. intros y IN. rewrite N7. auto. }
            apply UPD; auto. rewrite Forall_forall in *. intros y IN. rewrite N5. auto. }
          intros [] w6 C6 X6 S6 N6.
          apply mj_modify_model; auto.
          * eapply (ENV ext_models); [exact X6|]. eapply (ENV ext_models); [exact X5|exact Lm4].
          * intros z MOZ. apply model_ok_iff in MOZ as (A & D). apply model_ok_iff. cbn.
            split; [exact A|].
            assert (FR6 : Forall (fun e => e < w_next w6) refs).
            { rewrite Forall_forall in *. intros e IN. rewrite N6, N5. auto. }
            destruct (assoc_get _ (m_origins z)) as [l0|] eqn:EZ.
            -- apply assoc_insert_ok; [exact D|]. apply Forall_app. split; [eapply assoc_get_ok; eauto|exact FR6].
            -- apply vals_ok_app; [exact D|]. apply vals_ok_one. exact FR6.
        + intros [] w5 C5 X5 S5 N5. apply IH; auto.
          * lia.
          * eapply (ENV ext_models); eauto. }
    intros [] w5 C5 X5 S5 N5.
    (* the insertion *)
    destruct S5 as (ns & ENS & LNS).
    eapply mj_bind.
    { unfold content_insert.
      eapply mj_rd; [exact C5|exists ns; split; [exact ENS|exact LNS]|exists (OK ns); split; [apply get_node_val; exact ENS|]; intros a [= <-]; exact (eq_refl ns)|].
      intros ? <-. destruct (N.of_nat (List.length (n_content ns)) <? pos) eqn:EL; [apply N.ltb_lt in EL; lia|].
      apply (mj_set_node self pos w5 self _ ns C5 (ex_intro _ ns (conj ENS LNS)) ENS).
      - pose proof (cl_node _ _ _ _ C5 _ _ ENS) as (A & B & D & E & P). split; [exact A|]. split; [exact B|]. cbn.
        split; [|split; [|exact P]].
        + intros y IN. apply (ENV in_insert_at) in IN as [[= ->]|IN]; [lia|apply D; exact IN].
        + intros d IN. apply (ENV in_insert_at) in IN as [[=]|IN]. apply E. exact IN.
      - intros _. cbn [set_content n_content].
        assert (GE : forall (l : list citem) k x, (List.length l <= List.length (insert_at l k x))%nat).
        { induction l as [|z l IHl]; intros k0 x0; destruct k0; cbn; try lia. specialize (IHl k0 x0). lia. }
        apply GE. }
    intros [] w6 C6 X6 S6 N6. apply mj_ret; assumption.
Qed.

(* ---------- ElementRaw::move_element_position ---------- *)
Lemma np_move_position w self mv pos e : Closed w -> self < w_next w -> runs (move_element_position self mv pos e) w.
Proof.
  intros C L. unfold move_element_position.
  eapply rd_bind_runs; [apply (ENV rd_get_node w self (fun _ => True) C L); auto|]. intros n _.
  destruct (pos <? e); [|apply runs_fail].
  destruct (index_of (citem_is mv) (n_content n)); [|apply runs_fail].
  eapply runs_then; [eapply runs_val; apply set_node_val'|intros; apply runs_ret].
Qed.

(* ---------- Element::move_element_here / _at within one model ---------- *)
Lemma np_move w h mv : PanicFree w -> SizeOk w -> h < w_next w -> mv < w_next w -> ~ cross_model w h mv ->
  runs (e_move_element_here T tab_en check_fn LATEST h mv) w.
Proof.
  intros PF SZ L Lmv NX. pose proof PF as [C U CU].
  pose proof (Live12_of_PanicFree T tab_el tab_en check_fn LATEST root_attrs OK12 CHECK w PF) as (_ & HB).
  unfold e_move_element_here. destruct (h =? mv) eqn:EHM; [apply runs_fail|]. apply N.eqb_neq in EHM.
  destruct (ENV model_of_ok w mv C U Lmv) as (r1 & E1 & F1).
  eapply runs_bind; [exact E1|]. intros m_src ->. specialize (F1 m_src eq_refl).
  destruct (ENV model_of_ok w h C U L) as (r2 & E2 & F2).
  eapply runs_bind; [exact E2|]. intros m ->. specialize (F2 m eq_refl).
  eapply rd_bind_runs; [apply (ENV min_version_ok w mv C U Lmv)|]. intros v_src _.
  eapply rd_bind_runs; [apply (ENV min_version_ok w h C U L)|]. intros v _.
  destruct (negb (v =? v_src)); [apply runs_fail|].
  destruct (ENV get_node_ok w h C L) as (n & EG & EN & NO).
  eapply runs_bind; [exact EG|]. intros ? [= <-].
  destruct (ENV get_node_ok w mv C Lmv) as (mn & EGM & EMN & NOM).
  eapply runs_bind; [exact EGM|]. intros ? [= <-].
  eapply rd_bind_runs; [apply (ENV calc_range_ok w n (n_name mn) v C NO)|]. intros [s e] [_ LE]. cbn [fst snd] in LE.
  destruct (m =? m_src) eqn:EMM.
  - unfold parent_of. destruct (n_parent mn) as [|pm|p] eqn:EP.
    + eapply runs_bind; [reflexivity|]. intros ? [=].
    + eapply runs_bind; [reflexivity|]. intros ? [= <-]. apply runs_fail.
    + eapply runs_bind; [reflexivity|]. intros ? [= <-].
      destruct (p =? h) eqn:EPH; [apply runs_ret|]. apply N.eqb_neq in EPH.
      eapply (np_move_local w h mv e m v n); eauto.
      intros mn0 E0. rewrite EMN in E0. injection E0 as <-. rewrite EP. intros [= ->]. congruence.
  - exfalso. apply NX. exists m, m_src. split; [exact E2|]. split; [exact E1|]. apply N.eqb_neq. exact EMM.
Qed.

Lemma np_move_at w h mv pos : PanicFree w -> SizeOk w -> h < w_next w -> mv < w_next w -> ~ cross_model w h mv ->
  runs (e_move_element_here_at T tab_en check_fn LATEST h mv pos) w.
Proof.
  intros PF SZ L Lmv NX. pose proof PF as [C U CU].
  pose proof (Live12_of_PanicFree T tab_el tab_en check_fn LATEST root_attrs OK12 CHECK w PF) as (_ & HB).
  unfold e_move_element_here_at. destruct (h =? mv) eqn:EHM; [apply runs_fail|]. apply N.eqb_neq in EHM.
  destruct (ENV model_of_ok w mv C U Lmv) as (r1 & E1 & F1).
  eapply runs_bind; [exact E1|]. intros m_src ->. specialize (F1 m_src eq_refl).
  destruct (ENV model_of_ok w h C U L) as (r2 & E2 & F2).
  eapply runs_bind; [exact E2|]. intros m ->. specialize (F2 m eq_refl).
  eapply rd_bind_runs; [apply (ENV min_version_ok w mv C U Lmv)|]. intros v_src _.
  eapply rd_bind_runs; [apply (ENV min_version_ok w h C U L)|]. intros v _.
  destruct (negb (v =? v_src)); [apply runs_fail|].
  destruct (ENV get_node_ok w h C L) as (n & EG & EN & NO).
  eapply runs_bind; [exact EG|]. intros ? [= <-].
  destruct (ENV get_node_ok w mv C Lmv) as (mn & EGM & EMN & NOM).
  eapply runs_bind; [exact EGM|]. intros ? [= <-].
  eapply rd_bind_runs; [apply (ENV calc_range_ok w n (n_name mn) v C NO)|]. intros [s e] [_ LE]. cbn [fst snd] in LE.
  destruct ((s <=? pos) && (pos <=? e)) eqn:B; [|apply runs_fail].
  apply andb_true_iff in B as [_ B]. apply N.leb_le in B.
  destruct (m =? m_src) eqn:EMM.
  - unfold parent_of. destruct (n_parent mn) as [|pm|p] eqn:EP.
    + eapply runs_bind; [reflexivity|]. intros ? [=].
    + eapply runs_bind; [reflexivity|]. intros ? [= <-]. apply runs_fail.
    + eapply runs_bind; [reflexivity|]. intros ? [= <-].
      destruct (p =? h) eqn:EPH; [apply np_move_position; auto|]. apply N.eqb_neq in EPH.
      eapply (np_move_local w h mv pos m v n); eauto; [|lia].
      intros mn0 E0. rewrite EMN in E0. injection E0 as <-. rewrite EP. intros [= ->]. congruence.
  - exfalso. apply NX. exists m, m_src. split; [exact E2|]. split; [exact E1|]. apply N.eqb_neq. exact EMM.
Qed.

End Move.
