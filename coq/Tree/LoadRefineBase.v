(* Tree/LoadRefineBase.v — C09, the link between the heap model (Tree/Load.v) and the pure merge (Tree/MergePure.v),
   layer 0: element trees annotated with node ids ([atree]), the abstraction relation [AbsA w a] ("the subtree of the
   heap below a_id a is the tree a"), its footprint [aids a], frame lemmas, and the accessors of Ops.v / Load.v read
   through the abstraction (keys of the sub-elements = MergePure.hkey of the erased trees, with the heap ids). *)
From AV Require Import Base.Bytes Base.Outcome Hash.HashModel Tree.Heap Tree.Ops Tree.Script Tree.Load Tree.MergeSpec
  Tree.MergePure Tree.LoadProofsBase.
Open Scope string_scope.
Open Scope list_scope.
Open Scope N_scope.

Inductive atree :=
| ANode (i : id) (name : N) (ty : N * N) (attrs : list (N * cdata)) (content : list (atree + cdata))
        (comment : option (list N)) (local : list N).

Definition a_id (a : atree) := match a with ANode i _ _ _ _ _ _ => i end.
Definition a_name (a : atree) := match a with ANode _ n _ _ _ _ _ => n end.
Definition a_ty (a : atree) := match a with ANode _ _ t _ _ _ _ => t end.
Definition a_content (a : atree) := match a with ANode _ _ _ _ c _ _ => c end.
Definition a_local (a : atree) := match a with ANode _ _ _ _ _ _ l => l end.
Definition a_set_local (a : atree) (l : list N) : atree :=
  match a with ANode i n t ats c cm _ => ANode i n t ats c cm l end.
Definition a_set_content (a : atree) (c : list (atree + cdata)) : atree :=
  match a with ANode i n t ats _ cm l => ANode i n t ats c cm l end.

Fixpoint erase (a : atree) {struct a} : htree :=
  match a with
  | ANode _ name ty attrs content comment local =>
    HNode name ty attrs
      ((fix go (l : list (atree + cdata)) : list (htree + cdata) :=
          match l with [] => [] | inl c :: r => inl (erase c) :: go r | inr d :: r => inr d :: go r end) content)
      comment local
  end.
Fixpoint erase_items (l : list (atree + cdata)) : list (htree + cdata) :=
  match l with [] => [] | inl c :: r => inl (erase c) :: erase_items r | inr d :: r => inr d :: erase_items r end.

Fixpoint aids (a : atree) {struct a} : list id :=
  match a with
  | ANode i _ _ _ content _ _ =>
    i :: (fix go (l : list (atree + cdata)) : list id :=
            match l with [] => [] | inl c :: r => aids c ++ go r | inr _ :: r => go r end) content
  end.
Fixpoint aids_items (l : list (atree + cdata)) : list id :=
  match l with [] => [] | inl c :: r => aids c ++ aids_items r | inr _ :: r => aids_items r end.

Definition citem_of (it : atree + cdata) : citem := match it with inl c => CElem (a_id c) | inr d => CData d end.

Fixpoint AbsA (w : world) (a : atree) {struct a} : Prop :=
  match a with
  | ANode i name ty attrs content comment local =>
    (exists p, w_nodes w i = Some (mkNode p name ty (map citem_of content) attrs local comment)) /\
    (fix all (l : list (atree + cdata)) : Prop :=
       match l with [] => True | inl c :: r => AbsA w c /\ all r | inr _ :: r => all r end) content
  end.
Fixpoint AbsItems (w : world) (l : list (atree + cdata)) : Prop :=
  match l with [] => True | inl c :: r => AbsA w c /\ AbsItems w r | inr _ :: r => AbsItems w r end.

Fixpoint adepth (a : atree) {struct a} : nat :=
  match a with
  | ANode _ _ _ _ content _ _ =>
    S ((fix go (l : list (atree + cdata)) : nat :=
          match l with [] => O | inl c :: r => Nat.max (adepth c) (go r) | inr _ :: r => go r end) content)
  end.
Fixpoint adepth_items (l : list (atree + cdata)) : nat :=
  match l with [] => O | inl c :: r => Nat.max (adepth c) (adepth_items r) | inr _ :: r => adepth_items r end.

Lemma erase_unfold i name ty attrs content comment local :
  erase (ANode i name ty attrs content comment local) = HNode name ty attrs (erase_items content) comment local.
Proof. reflexivity. Qed.
Lemma aids_unfold i name ty attrs content comment local :
  aids (ANode i name ty attrs content comment local) = i :: aids_items content.
Proof. reflexivity. Qed.
Lemma adepth_unfold i name ty attrs content comment local :
  adepth (ANode i name ty attrs content comment local) = S (adepth_items content).
Proof. reflexivity. Qed.
Lemma AbsA_unfold w i name ty attrs content comment local :
  AbsA w (ANode i name ty attrs content comment local) <->
  ((exists p, w_nodes w i = Some (mkNode p name ty (map citem_of content) attrs local comment)) /\ AbsItems w content).
Proof.
  cbn [AbsA].
  assert (E : forall l, (fix all (l : list (atree + cdata)) : Prop :=
                           match l with [] => True | inl c :: r => AbsA w c /\ all r | inr _ :: r => all r end) l
                        <-> AbsItems w l).
  { induction l as [|[c|d] r IH]; cbn [AbsItems]; [tauto| |exact IH]. rewrite IH. tauto. }
  rewrite E. tauto.
Qed.

Lemma adepth_items_in c l : In (inl c) l -> (adepth c <= adepth_items l)%nat.
Proof.
  induction l as [|[c0|d] r IH]; cbn [In adepth_items]; [intros []| |].
  - intros [[= ->]|H]; [lia|]. apply IH in H. lia.
  - intros [[=]|H]. auto.
Qed.

Lemma AbsItems_in w l c : AbsItems w l -> In (inl c) l -> AbsA w c.
Proof.
  induction l as [|[c0|d] r IH]; cbn [AbsItems In]; [intros _ []| |].
  - intros [H1 H2] [[= ->]|H]; auto.
  - intros H [[=]|H0]; auto.
Qed.

Lemma aids_items_in l c x : In (inl c) l -> In x (aids c) -> In x (aids_items l).
Proof.
  induction l as [|[c0|d] r IH]; cbn [In aids_items]; [intros []| |].
  - intros [[= ->]|H] Hx; apply in_or_app; [left; exact Hx|right; apply IH; auto].
  - intros [[=]|H] Hx. apply IH; auto.
Qed.

Lemma a_id_in_aids a : In (a_id a) (aids a).
Proof. destruct a. rewrite aids_unfold. left. reflexivity. Qed.

(* ------------------------------------------------------------------ frame *)
Definition agree (w w' : world) (ids : list id) : Prop := forall i, In i ids -> w_nodes w' i = w_nodes w i.

Lemma agree_incl w w' a b : incl a b -> agree w w' b -> agree w w' a.
Proof. intros Hi H i Hin. apply H, Hi, Hin. Qed.

Lemma AbsA_frame n : forall a, (adepth a <= n)%nat -> forall w w', agree w w' (aids a) -> AbsA w a -> AbsA w' a.
Proof.
  induction n as [|n IH]; intros [i name ty attrs content comment local] Hd w w' Hag; rewrite adepth_unfold in Hd; [lia|].
  rewrite !AbsA_unfold. rewrite aids_unfold in Hag. intros ((p & Hp) & Hc). split.
  - exists p. rewrite (Hag i (or_introl eq_refl)). exact Hp.
  - assert (Hag' : agree w w' (aids_items content)) by (intros x Hx; apply Hag; right; exact Hx).
    assert (Hdc : forall c, In (inl c) content -> (adepth c <= n)%nat).
    { intros c Hin. apply adepth_items_in in Hin. lia. }
    assert (G : forall l, (forall c, In (inl c) l -> (adepth c <= n)%nat) -> agree w w' (aids_items l) ->
                          AbsItems w l -> AbsItems w' l).
    { induction l as [|[c|d] r IHr]; intros Hdl Hagl; cbn [AbsItems aids_items] in *; [auto| |].
      - intros [H1 H2]. split.
        + apply (IH c (Hdl c (or_introl eq_refl)) w w'); [|exact H1]. intros x Hx. apply Hagl. apply in_or_app. left. exact Hx.
        + apply IHr; [intros c0 H0; apply Hdl; right; exact H0| |exact H2].
          intros x Hx. apply Hagl. apply in_or_app. right. exact Hx.
      - apply IHr; [intros c0 H0; apply Hdl; right; exact H0|exact Hagl]. }
    apply G; auto.
Qed.

Lemma AbsA_frame' a w w' : agree w w' (aids a) -> AbsA w a -> AbsA w' a.
Proof. apply (AbsA_frame (adepth a) a (le_n _)). Qed.

Lemma AbsItems_frame l w w' : agree w w' (aids_items l) -> AbsItems w l -> AbsItems w' l.
Proof.
  induction l as [|[c|d] r IH]; cbn [AbsItems aids_items]; [auto| |].
  - intros Hag [H1 H2]. split.
    + apply (AbsA_frame' c w w'); [|exact H1]. intros x Hx. apply Hag. apply in_or_app. left. exact Hx.
    + apply IH; [|exact H2]. intros x Hx. apply Hag. apply in_or_app. right. exact Hx.
  - apply IH.
Qed.

(* the node of an abstracted tree *)
Lemma AbsA_node w a : AbsA w a ->
  exists p, w_nodes w (a_id a) =
            Some (mkNode p (a_name a) (a_ty a) (map citem_of (a_content a))
                         (match a with ANode _ _ _ ats _ _ _ => ats end) (a_local a)
                         (match a with ANode _ _ _ _ _ cm _ => cm end)).
Proof. destruct a. intros H. apply AbsA_unfold in H as [H _]. exact H. Qed.

Lemma AbsA_items w a : AbsA w a -> AbsItems w (a_content a).
Proof. destruct a. intros H. apply AbsA_unfold in H as [_ H]. exact H. Qed.

Lemma erase_name a : h_name (erase a) = a_name a. Proof. destruct a. reflexivity. Qed.
Lemma erase_ty a : h_ty (erase a) = a_ty a. Proof. destruct a. reflexivity. Qed.
Lemma erase_local a : h_local (erase a) = a_local a. Proof. destruct a. reflexivity. Qed.
Lemma erase_content a : h_content (erase a) = erase_items (a_content a). Proof. destruct a. reflexivity. Qed.
