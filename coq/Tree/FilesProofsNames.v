(* Tree/FilesProofsNames.v — C10 proofs: NamesUnique (the files of a model have pairwise different names) is preserved,
   together with FilesOwned, by all 26 operations of Script.v (create_file's duplicate-name check is what keeps it). *)
From Coq Require Import PeanoNat Arith Lia.
From AV Require Import Base.Bytes Base.Outcome Hash.HashModel Tree.Heap Tree.Ops Tree.Script Tree.Serialize
  Tree.Inv Tree.InvProofsBase Tree.InvProofsCore Tree.InvProofsPrim
  Tree.Files Tree.FilesProofsBase Tree.FilesProofsProj Tree.FilesProofsFrame Tree.FilesProofsOps
  Tree.FilesProofsAdd Tree.FilesProofsMove Tree.FilesProofsInv Tree.FilesProofsHist Tree.FilesProofsOwned.
Open Scope string_scope.
Open Scope list_scope.
Open Scope N_scope.

Lemma name_at_files w w' : w_files w' = w_files w -> forall f, name_at w' f = name_at w f.
Proof. intros E f. unfold name_at. rewrite E. reflexivity. Qed.

Lemma names_posrel w w' : NamesUnique w -> PosRel w w' -> NamesUnique w'.
Proof.
  intros NU (F & M) m x' Hx'. rewrite (map_ext _ _ (name_at_files w w' F)).
  destruct (M m x' Hx') as [(x & Hx & (_ & Hn))|E]; [apply Hn; apply (NU m x Hx)|rewrite E; constructor].
Qed.

Lemma NoDup_snoc {A} (l : list A) a : NoDup l -> ~ In a l -> NoDup (l ++ [a]).
Proof.
  intros Hl Ha. apply (Permutation.Permutation_NoDup (l := a :: l)); [apply Permutation.Permutation_cons_append|].
  constructor; auto.
Qed.

Lemma empty_names : NamesUnique empty_world.
Proof. intros m x H. unfold model_b in H. cbn in H. destruct (N.to_nat m); discriminate H. Qed.

Section Names.
Variable T : tables.
Variable tab_el tab_en : nametab.
Variable check_fn : N -> list N -> res bool.
Variable LATEST : N.
Variable root_attrs : list (N * cdata).

Let run := run_op T tab_el tab_en check_fn LATEST root_attrs.

(* create_file: the new name differs from the names of the model's files *)
Lemma names_create_file m name version w r w' : FilesOwned w -> NamesUnique w ->
  m_create_file T m name version w = Val (r, w') -> NamesUnique w'.
Proof.
  intros O NU H. unfold m_create_file in H.
  apply wbind_inv in H as [(x & w1 & H1 & H) | (e0 & H1 & _)]; [|apply get_model_inv in H1 as (? & _ & [=] & _)].
  apply get_model_inv in H1 as (x' & Hx & [= <-] & ->).
  apply wbind_inv in H as [(w0 & w1 & H1 & H) | (e0 & H1 & _)]; [|apply wget_inv in H1 as ([=] & _)].
  apply wget_inv in H1 as ([= ->] & ->).
  destruct (existsb _ (m_files x)) eqn:Eex; [apply wfail_inv in H as (_ & ->); exact NU|].
  set (fid := N.of_nat (List.length (w_files w))) in *.
  apply wbind_inv in H as [(u & w1 & H1 & H) | (e0 & H1 & _)]; [|discriminate H1].
  injection H1 as _ <-.
  apply wbind_inv in H as [(u2 & w2 & H2 & H) | (e0 & H2 & _)]; [|apply modify_model_inv in H2 as (? & _ & [=] & _)].
  apply modify_model_inv in H2 as (x0 & Hx0 & _ & ->). cbn in Hx0. assert (x0 = x) by congruence. subst x0.
  match type of H with wbind wget _ ?W = _ => set (w2 := W) in * end.
  apply wbind_inv in H as [(w0 & w3 & H3 & H) | (e0 & H3 & _)]; [|apply wget_inv in H3 as ([=] & _)].
  apply wget_inv in H3 as ([= ->] & ->).
  apply wbind_inv in H as [(o & w3 & H3 & H) | (e0 & H3 & _)]; [|apply wtry_inv in H3 as (? & _ & [=])].
  apply wret_inv in H as (_ & Ew). subst w3. apply wtry_inv in H3 as (r0 & H3 & _).
  destruct (km_atfr T fid _ _ _ _ _ H3) as (M & F).
  (* names of old files are the same in w2 *)
  assert (forall g, (exists fl, nth_opt (w_files w) (N.to_nat g) = Some fl) -> name_at w2 g = name_at w g) as Old.
  { intros g (fl & Hg). unfold name_at, w2. cbn. rewrite Hg. rewrite nth_opt_error in *. rewrite nth_error_app1, Hg; auto.
    apply nth_error_Some. congruence. }
  assert (name_at w2 fid = name) as Hnew.
  { unfold name_at, w2, fid. cbn. rewrite nth_opt_error, Nnat.Nat2N.id, nth_error_app2 by lia. rewrite Nat.sub_diag. reflexivity. }
  assert (forall m0 x0, model_b w m0 = Some x0 -> map (name_at w2) (m_files x0) = map (name_at w) (m_files x0)) as OldM.
  { intros m0 x0 Hx0'. apply map_ext_in. intros g Hg. apply Old. destruct (O m0 x0 g Hx0' Hg) as (fl & Hfl & _). eauto. }
  intros m' x' Hx'. unfold model_b in Hx'. rewrite M in Hx'.
  rewrite (map_ext _ _ (name_at_files w2 w' F)).
  unfold w2 in Hx'. cbn in Hx'. rewrite nth_opt_error, nth_error_list_set in Hx'. rewrite <- !nth_opt_error in Hx'.
  destruct (Nat.eqb (N.to_nat m') (N.to_nat m)) eqn:E.
  - apply Nat.eqb_eq in E. rewrite E in Hx'. rewrite Hx in Hx'. injection Hx' as <-. cbn [m_files set_mfiles]. rewrite map_app. cbn [map]. rewrite Hnew.
    rewrite (OldM m x Hx). apply NoDup_snoc; [apply (NU m x Hx)|].
    intros Hin. apply in_map_iff in Hin as (g & Hg & Hgin).
    destruct (O m x g Hx Hgin) as (fl & Hfl & _).
    assert (existsb (fun f => match nth_opt (w_files w) (N.to_nat f) with Some fl => bytes_eqb (f_name fl) name | None => false end) (m_files x) = true) as Ht.
    { apply existsb_exists. exists g. split; auto. rewrite Hfl. apply bytes_eqb_spec. unfold name_at in Hg. rewrite Hfl in Hg. exact Hg. }
    congruence.
  - assert (model_b w m' = Some x') as Hx0' by exact Hx'. rewrite (OldM m' x' Hx0'). apply (NU m' x' Hx0').
Qed.

Hypothesis core_step : CoreStep T tab_el tab_en check_fn LATEST root_attrs.

(* every operation preserves NamesUnique (given FilesOwned) *)
Theorem names_step o w r w' : Core w -> FilesOwned w -> NamesUnique w -> run o w = Val (r, w') -> NamesUnique w'.
Proof.
  intros C O NU H. assert (Core w') as C' by (eapply core_step; eauto).
  destruct (frame_op o) eqn:Efo.
  - destruct (ff_run T tab_el tab_en check_fn LATEST root_attrs o Efo _ _ _ (core_fresh _ C) H) as (F & _).
    eapply names_posrel; eauto. apply frame_pos; auto.
  - destruct o; cbn [frame_op] in Efo; try discriminate; unfold run in H; cbn [run_op] in H.
    + unfold welem in H. apply run_bind_inv in H as (r0 & H).
      eapply names_posrel; eauto. eapply moverel_pos. eapply mr_e_move_element_here; eauto.
    + unfold welem in H. apply run_bind_inv in H as (r0 & H).
      eapply names_posrel; eauto. eapply moverel_pos. eapply mr_e_move_element_here_at; eauto.
    + apply run_bind_inv in H as (r0 & H). eapply names_create_file; eauto.
    + unfold wunit in H. apply run_bind_inv in H as (r0 & H).
      destruct (cp_m_remove_file T _ _ _ _ _ H C) as (_ & P). eapply names_posrel; eauto.
    + unfold wunit in H. apply run_bind_inv in H as (r0 & H).
      destruct (cp_e_add_to_file T _ _ _ _ _ H C) as (_ & P). eapply names_posrel; eauto.
    + unfold wunit in H. apply run_bind_inv in H as (r0 & H).
      destruct (cp_e_remove_from_file T _ _ _ _ _ H C) as (_ & P). eapply names_posrel; eauto.
Qed.

End Names.

(* ====================================================================== ArxmlFile::set_filename *)
Lemma nodup_map_replace (g g' : N -> list N) (f : N) (name : list N) l :
  (forall y, y <> f -> g' y = g y) -> g' f = name ->
  NoDup (map g l) -> (forall y, In y l -> y <> f -> g y <> name) -> NoDup (map g' l).
Proof.
  intros Hsame Hf. induction l as [|a l IH]; intros ND Hne; cbn [map] in *; [constructor|].
  apply NoDup_cons_iff in ND as (Hna & ND'). constructor.
  - intros Hin. apply in_map_iff in Hin as (y & Hy & Hyl).
    destruct (N.eq_dec a f) as [->|Haf]; destruct (N.eq_dec y f) as [->|Hyf].
    + apply Hna. apply in_map. exact Hyl.
    + rewrite Hf, (Hsame y Hyf) in Hy. apply (Hne y (or_intror Hyl) Hyf). exact Hy.
    + rewrite Hf, (Hsame a Haf) in Hy. apply (Hne a (or_introl eq_refl) Haf). symmetry. exact Hy.
    + rewrite (Hsame y Hyf), (Hsame a Haf) in Hy. apply Hna. rewrite <- Hy. apply in_map. exact Hyl.
  - apply IH; auto. intros y Hy. apply Hne. right. exact Hy.
Qed.

(* a rejected rename leaves the world as it is *)
Theorem set_filename_rejected f name w e w' : f_set_filename f name w = Val (ER e, w') -> w' = w /\ e = DuplicateFilenameError.
Proof.
  intros H. unfold f_set_filename in H.
  apply wbind_inv in H as [(fl & w1 & H1 & H) | (e0 & H1 & _)]; [|apply get_file_inv in H1 as (? & _ & [=] & _)].
  apply get_file_inv in H1 as (fl' & Hfl & [= <-] & ->).
  apply wbind_inv in H as [(x & w1 & H1 & H) | (e0 & H1 & _)]; [|apply get_model_inv in H1 as (? & _ & [=] & _)].
  apply get_model_inv in H1 as (x' & Hx & [= <-] & ->).
  apply wbind_inv in H as [(w0 & w1 & H1 & H) | (e0 & H1 & _)]; [|apply wget_inv in H1 as ([=] & _)].
  apply wget_inv in H1 as ([= ->] & ->).
  destruct (name_taken w x f name).
  - apply wfail_inv in H as ([= <-] & ->). auto.
  - unfold set_file in H. discriminate H.
Qed.

(* a successful rename changes only the record of that file (its name), and keeps FilesOwned and NamesUnique *)
Theorem set_filename_ok f name w u w' : FilesOwned w -> NamesUnique w -> f_set_filename f name w = Val (OK u, w') ->
  (exists fl, nth_opt (w_files w) (N.to_nat f) = Some fl /\
     w' = mkWorld (w_nodes w) (w_next w) (list_set (w_files w) (N.to_nat f) (mkFile (f_model fl) name (f_version fl) (f_standalone fl))) (w_models w)) /\
  FilesOwned w' /\ NamesUnique w'.
Proof.
  intros O NU H. unfold f_set_filename in H.
  apply wbind_inv in H as [(fl & w1 & H1 & H) | (e0 & H1 & [=])].
  apply get_file_inv in H1 as (fl' & Hfl & [= <-] & ->).
  apply wbind_inv in H as [(x & w1 & H1 & H) | (e0 & H1 & [=])].
  apply get_model_inv in H1 as (x' & Hx & [= <-] & ->).
  apply wbind_inv in H as [(w0 & w1 & H1 & H) | (e0 & H1 & [=])].
  apply wget_inv in H1 as ([= ->] & ->).
  destruct (name_taken w x f name) eqn:Et; [apply wfail_inv in H as ([=] & _)|].
  unfold set_file in H. injection H as _ <-.
  set (nfl := mkFile (f_model fl) name (f_version fl) (f_standalone fl)).
  set (w2 := mkWorld (w_nodes w) (w_next w) (list_set (w_files w) (N.to_nat f) nfl) (w_models w)).
  assert (forall g, g <> f -> name_at w2 g = name_at w g) as Hsame.
  { intros g Hg. unfold name_at, w2. cbn. rewrite !nth_opt_error, nth_error_list_set.
    destruct (Nat.eqb (N.to_nat g) (N.to_nat f)) eqn:E; [|reflexivity]. apply Nat.eqb_eq in E. apply Nnat.N2Nat.inj in E. contradiction. }
  assert (name_at w2 f = name) as Hnew.
  { unfold name_at, w2. cbn. rewrite nth_opt_error, nth_error_list_set, Nat.eqb_refl. rewrite nth_opt_error in Hfl. rewrite Hfl. reflexivity. }
  split; [exists fl; split; auto|]. split.
  - intros m0 x0 f0 Hx0 Hf0. unfold model_b in Hx0. cbn in Hx0 |- *.
    destruct (O m0 x0 f0 Hx0 Hf0) as (gl & Hgl & Hm).
    rewrite nth_opt_error, nth_error_list_set. rewrite nth_opt_error in Hgl, Hfl.
    destruct (Nat.eqb (N.to_nat f0) (N.to_nat f)) eqn:E.
    + apply Nat.eqb_eq in E. rewrite E in *. rewrite Hgl. eexists. split; [reflexivity|]. cbn. congruence.
    + exists gl. auto.
  - intros m0 x0 Hx0. change (model_b w m0 = Some x0) in Hx0.
    destruct (in_dec N.eq_dec f (m_files x0)) as [Hin|Hnin].
    + (* f is a file of this model: then this is the model the check looked at *)
      destruct (O m0 x0 f Hx0 Hin) as (gl & Hgl & Hm). assert (gl = fl) by congruence. subst gl.
      assert (x0 = x) by (unfold model_b in Hx0; rewrite <- Hm in Hx0; congruence). subst x0.
      apply (nodup_map_replace (name_at w) (name_at w2) f name); auto; [apply (NU m0 x Hx0)|].
      intros y Hy Hyf Hyn. destruct (O m0 x y Hx0 Hy) as (yl & Hyl & _).
      assert (name_taken w x f name = true) as Ht; [|congruence].
      unfold name_taken. apply existsb_exists. exists y. split; auto.
      apply Bool.andb_true_iff. split; [apply Bool.negb_true_iff, N.eqb_neq; exact Hyf|].
      rewrite Hyl. apply bytes_eqb_spec. unfold name_at in Hyn. rewrite Hyl in Hyn. exact Hyn.
    + rewrite (map_ext_in _ (name_at w)); [apply (NU m0 x0 Hx0)|]. intros y Hy. apply Hsame. intros ->. contradiction.
Qed.
