(* Tree/IndexProofsBase.v — C04/C05 proofs, layer 0:
   - the readers of Ops.v (item_name, is_identifiable, character_data, up_names, path_unchecked, path_of) return the
     pure readings of Tree/Index.v and never change the world;
   - algebra of the top-down path relation dpath;
   - association lists (IndexMap / HashMap behaviour of assoc_get / assoc_insert / assoc_swap_remove / assoc_remove). *)
From Coq Require Import Permutation.
From AV Require Import Base.Bytes Base.Outcome Hash.HashModel Tree.Heap Tree.Ops Tree.Script Tree.IndexProofsW
  Tree.Index.
Open Scope string_scope.
Open Scope list_scope.
Open Scope N_scope.

(* ------------------------------------------------------------------ small things *)
Lemma in_elem_ids c l : In c (elem_ids l) <-> In (CElem c) l.
Proof.
  unfold elem_ids. rewrite in_flat_map. split.
  - intros ([x|d] & Hx & Hc); cbn in Hc; [destruct Hc as [->|[]]; auto | destruct Hc].
  - intros H. exists (CElem c). split; auto. cbn. auto.
Qed.

Section Readers.
Variable T : tables.

Lemma named_val ty b : is_named T ty = Val b -> named T ty = b.
Proof. unfold named. intros ->. reflexivity. Qed.
Lemma isref_val ty b : is_ref T ty = Val b -> isref T ty = b.
Proof. unfold isref. intros ->. reflexivity. Qed.
Lemma cdata_of_val n o : character_data T n = Val o -> cdata_of T n = o.
Proof. unfold cdata_of. intros ->. reflexivity. Qed.

(* ---------- item_name / is_identifiable *)
Lemma item_name_val n w r w' :
  item_name T n w = Val (r, w') -> w' = w /\ r = OK (item_name_n T w n).
Proof.
  intros H. assert (Hw : w' = w) by (eapply ro_item_name; eauto). subst w'. split; [reflexivity|].
  unfold item_name in H. unfold item_name_n, short_child.
  wstep H; [|winv E]. winv E. rewrite (named_val _ _ Hv).
  destruct v; cbn [negb] in H; [|winv H; reflexivity].
  destruct (n_content n) as [|[s|d] rest]; try (winv H; reflexivity).
  wstep H; [|winv E]. winv E. rewrite Hn.
  unfold SHORT in H. destruct (n_name n0 =? name_short_name T); [|winv H; reflexivity].
  wstep H; [|winv E]. winv E. rewrite (cdata_of_val _ _ Hv0). winv H. reflexivity.
Qed.

Lemma is_identifiable_val n w r w' :
  is_identifiable T n w = Val (r, w') -> w' = w /\ r = OK (identifiable_n T w n).
Proof.
  intros H. assert (Hw : w' = w) by (eapply ro_is_identifiable; eauto). subst w'. split; [reflexivity|].
  unfold is_identifiable in H. unfold identifiable_n, short_child.
  wstep H; [|winv E]. winv E. rewrite (named_val _ _ Hv).
  destruct v; cbn [negb andb] in *; [|winv H; reflexivity].
  destruct (n_content n) as [|[s|d] rest]; try (winv H; reflexivity).
  wstep H; [|winv E]. winv E. rewrite Hn. winv H.
  unfold SHORT. destruct (n_name n0 =? name_short_name T); reflexivity.
Qed.

Lemma item_name_identifiable w n nm : item_name_n T w n = Some nm -> identifiable_n T w n = true.
Proof.
  unfold item_name_n, identifiable_n. destruct (named T (n_type n)); [|discriminate].
  destruct (short_child T w n); [reflexivity|discriminate].
Qed.

(* ---------- the upward walk *)
(* upath w m p s : following parent links from the link p one arrives at the root of model m, and s is the
   concatenation (root first) of the segments of the elements passed *)
Inductive upath (w : world) (m : N) : pref -> list N -> Prop :=
| up_model : upath w m (PModel m) []
| up_elem i n q : w_nodes w i = Some n -> upath w m (n_parent n) q -> upath w m (PElem i) (q ++ seg_n T w n).

(* the chain from link p ends in PNone *)
Inductive udead (w : world) : pref -> Prop :=
| ud_none : udead w PNone
| ud_elem i n : w_nodes w i = Some n -> udead w (n_parent n) -> udead w (PElem i).

Lemma upath_fun w m p s1 : upath w m p s1 -> forall m2 s2, upath w m2 p s2 -> m2 = m /\ s2 = s1.
Proof.
  induction 1 as [|i n q Hn Hu IH]; intros m2 s2 H2; inversion H2; subst; auto.
  rewrite Hn in H0. injection H0 as <-. destruct (IH _ _ H1) as [-> ->]. auto.
Qed.

Lemma upath_not_dead w m p s : upath w m p s -> udead w p -> False.
Proof.
  induction 1 as [|i n q Hn Hu IH]; intros Hd; inversion Hd; subst.
  rewrite Hn in H0. injection H0 as <-. auto.
Qed.

Lemma join_path_app a b : join_path (a ++ b) = join_path a ++ join_path b.
Proof. unfold join_path. rewrite map_app, concat_app. reflexivity. Qed.

Definition oname (o : option (list N)) : list (list N) := match o with Some x => [x] | None => [] end.
Lemma join_oname w n : join_path (oname (item_name_n T w n)) = seg_n T w n.
Proof. unfold seg_n, oname, join_path. destruct (item_name_n T w n); cbn; [rewrite app_nil_r|]; reflexivity. Qed.

Lemma up_names_val f : forall p acc w r w',
  up_names T f p acc w = Val (r, w') ->
  w' = w /\ ((exists m l, r = OK (l ++ acc) /\ upath w m p (join_path l)) \/ (r = ER ItemDeleted /\ udead w p)).
Proof.
  induction f as [|f IH]; intros p acc w r w' H; cbn [up_names] in H; [discriminate|].
  destruct p as [|m|i].
  - winv H. split; [reflexivity|]. right. split; [reflexivity|constructor].
  - winv H. split; [reflexivity|]. left. exists m, []. split; [reflexivity|]. constructor.
  - wstep H; [|winv E]. winv E. wstep H.
    2:{ apply item_name_val in E as (_ & [=]). }
    apply item_name_val in E as (_ & [= ->]).
    apply IH in H as (-> & H). split; [reflexivity|].
    destruct H as [(m & l & -> & Hu)|(-> & Hd)].
    + left. exists m, (l ++ oname (item_name_n T w n)). split.
      * rewrite <- app_assoc. f_equal. destruct (item_name_n T w n); reflexivity.
      * rewrite join_path_app, join_oname. econstructor; eauto.
    + right. split; [reflexivity|]. econstructor; eauto.
Qed.

(* path_unchecked of node i: the upward path of the link PElem i *)
Lemma path_unchecked_val i n w r w' :
  w_nodes w i = Some n ->
  path_unchecked T n w = Val (r, w') ->
  w' = w /\ ((exists m s, r = OK s /\ upath w m (PElem i) s) \/ (r = ER ItemDeleted /\ udead w (PElem i))).
Proof.
  intros Hn H. unfold path_unchecked in H.
  wstep H. 2:{ apply item_name_val in E as (_ & [=]). }
  apply item_name_val in E as (_ & [= ->]).
  wstep H; [|winv E]. winv E.
  wstep H.
  - apply up_names_val in E as (_ & [(m & l & [= ->] & Hu)|([=] & _)]).
    winv H. split; [reflexivity|]. left. exists m. eexists. split; [reflexivity|].
    replace (match item_name_n T w n with Some x => [x] | None => [] end) with (oname (item_name_n T w n)) by reflexivity.
    rewrite join_path_app, join_oname. econstructor; eauto.
  - apply up_names_val in E as (_ & [(m & l & [=] & _)|([= ->] & Hd)]).
    split; [reflexivity|]. right. split; [reflexivity|]. econstructor; eauto.
Qed.

Lemma path_of_val i n w r w' :
  w_nodes w i = Some n ->
  path_of T n w = Val (r, w') ->
  w' = w /\
  ( (identifiable_n T w n = false /\ r = ER ElementNotIdentifiable)
    \/ (identifiable_n T w n = true /\
        ((exists m s, r = OK s /\ upath w m (PElem i) s) \/ (r = ER ItemDeleted /\ udead w (PElem i))))).
Proof.
  intros Hn H. unfold path_of in H.
  wstep H. 2:{ apply is_identifiable_val in E as (_ & [=]). }
  apply is_identifiable_val in E as (_ & [= ->]).
  destruct (identifiable_n T w n) eqn:Ei.
  - eapply path_unchecked_val in H as (-> & H); eauto.
  - winv H. auto.
Qed.

Lemma path_id_val i w r w' :
  path_id T i w = Val (r, w') ->
  w' = w /\ exists n, w_nodes w i = Some n /\
  ( (identifiable_n T w n = false /\ r = ER ElementNotIdentifiable)
    \/ (identifiable_n T w n = true /\
        ((exists m s, r = OK s /\ upath w m (PElem i) s) \/ (r = ER ItemDeleted /\ udead w (PElem i))))).
Proof.
  intros H. unfold path_id in H. wstep H; [|winv E]. winv E.
  eapply path_of_val in H as (-> & H); eauto.
Qed.

(* ---------- model_of : the walk ends at PModel m exactly when the upward path exists *)
Lemma model_walk_val f : forall i w r w',
  model_walk f i w = Val (r, w') ->
  w' = w /\ ((exists m s, r = OK m /\ upath w m (PElem i) s) \/ (r = ER ItemDeleted /\ udead w (PElem i))).
Proof.
  induction f as [|f IH]; intros i w r w' H; cbn [model_walk] in H; [discriminate|].
  wstep H; [|winv E]. winv E.
  destruct (n_parent n) as [|m|p] eqn:Ep.
  - winv H. split; [reflexivity|]. right. split; [reflexivity|]. econstructor; eauto. rewrite Ep. constructor.
  - winv H. split; [reflexivity|]. left. exists m. eexists. split; [reflexivity|].
    econstructor; eauto. rewrite Ep. constructor.
  - apply IH in H as (-> & [(m & s & -> & Hu)|(-> & Hd)]); (split; [reflexivity|]).
    + left. exists m. eexists. split; [reflexivity|]. econstructor; eauto. rewrite Ep. exact Hu.
    + right. split; [reflexivity|]. econstructor; eauto. rewrite Ep. exact Hd.
Qed.

Lemma model_of_val i w r w' :
  model_of i w = Val (r, w') ->
  w' = w /\ ((exists m s, r = OK m /\ upath w m (PElem i) s) \/ (r = ER ItemDeleted /\ udead w (PElem i))).
Proof.
  intros H. unfold model_of in H. wstep H; [|winv E]. winv E. eapply model_walk_val; eauto.
Qed.

(* ------------------------------------------------------------------ dpath algebra *)
Lemma dpath_trans w a b c q1 q2 : dpath T w a b q1 -> dpath T w b c q2 -> dpath T w a c (q1 ++ q2).
Proof.
  intros H1 H2. induction H2 as [|p c q Hp IH Hc].
  - rewrite app_nil_r. exact H1.
  - rewrite app_assoc. econstructor; eauto.
Qed.

Lemma dpath_child w p c : child_of w p c -> dpath T w p c (seg T w c).
Proof. intros H. change (seg T w c) with ([] ++ seg T w c). econstructor; [constructor|exact H]. Qed.

Lemma reach_refl w r : reach T w r r.
Proof. exists []. constructor. Qed.
Lemma reach_step w r p c : reach T w r p -> child_of w p c -> reach T w r c.
Proof. intros (q & H) Hc. eexists. econstructor; eauto. Qed.
Lemma reach_trans w a b c : reach T w a b -> reach T w b c -> reach T w a c.
Proof. intros (q1 & H1) (q2 & H2). eexists. eapply dpath_trans; eauto. Qed.

(* ---------- top-down and upward paths agree under C03's invariant *)
Lemma seg_node w i n : w_nodes w i = Some n -> seg T w i = seg_n T w n.
Proof. unfold seg. intros ->. reflexivity. Qed.

Lemma dpath_upath w m r n s0 :
  TreeFacts w -> w_nodes w r = Some n -> upath w m (PElem r) s0 ->
  forall i q, dpath T w r i q -> upath w m (PElem i) (s0 ++ q).
Proof.
  intros HC Hr H0 i q H. induction H as [|p c q Hp IH Hc].
  - rewrite app_nil_r. exact H0.
  - apply (tf_up _ HC) in Hc as (cn & Hcn & Hpar).
    rewrite app_assoc. rewrite (seg_node _ _ _ Hcn). econstructor; eauto. rewrite Hpar. exact IH.
Qed.

Lemma root_upath w m x :
  TreeFacts w -> model_at w m = Some x -> exists n, w_nodes w (m_root x) = Some n /\ upath w m (PElem (m_root x)) (seg T w (m_root x)).
Proof.
  intros HC Hx.
  destruct (tf_roots _ HC _ _ Hx) as (n & Hn & Hp).
  exists n. split; [exact Hn|]. rewrite (seg_node _ _ _ Hn).
  change (seg_n T w n) with ([] ++ seg_n T w n). econstructor; eauto. rewrite Hp. constructor.
Qed.

Lemma spath_upath w m x i p :
  TreeFacts w -> model_at w m = Some x -> spath T w (m_root x) i p -> upath w m (PElem i) p.
Proof.
  intros HC Hx (q & Hd & ->). destruct (root_upath _ _ _ HC Hx) as (n & Hn & Hu).
  eapply dpath_upath; eauto.
Qed.

Lemma upath_spath w m :
  TreeFacts w -> forall i p, upath w m (PElem i) p ->
  exists x, model_at w m = Some x /\ spath T w (m_root x) i p.
Proof.
  intros HC i p H. remember (PElem i) as l eqn:El. revert i El.
  induction H as [|j n q Hn Hu IH]; intros i El; [discriminate|]. injection El as ->.
  destruct (n_parent n) as [|m'|pp] eqn:Ep.
  - inversion Hu.
  - inversion Hu; subst. destruct (tf_pmodel _ HC _ _ _ Hn Ep) as (x & Hx & Hroot).
    exists x. split; [exact Hx|]. subst i.
    exists []. split; [constructor|]. rewrite app_nil_r. cbn [app]. symmetry. apply seg_node. exact Hn.
  - destruct (IH pp eq_refl) as (x & Hx & (q0 & Hd & ->)).
    exists x. split; [exact Hx|]. exists (q0 ++ seg T w i). split.
    + econstructor; eauto. eapply tf_down; eauto.
    + rewrite <- app_assoc. f_equal. f_equal. symmetry. apply seg_node. exact Hn.
Qed.

(* every node has at most one top-down path, and lies in at most one model *)
Lemma spath_fun w m1 m2 x1 x2 i p1 p2 :
  TreeFacts w -> model_at w m1 = Some x1 -> model_at w m2 = Some x2 ->
  spath T w (m_root x1) i p1 -> spath T w (m_root x2) i p2 -> m1 = m2 /\ p1 = p2.
Proof.
  intros HC H1 H2 S1 S2. eapply spath_upath in S1; eauto. eapply spath_upath in S2; eauto.
  destruct (upath_fun _ _ _ _ S1 _ _ S2) as [-> ->]. auto.
Qed.

Lemma reach_spath w r i : reach T w r i -> exists p, spath T w r i p.
Proof. intros (q & H). exists (seg T w r ++ q). exists q. auto. Qed.

Lemma mreach_specpath w m i : MReach T w m i -> exists p, SpecPath T w m i p.
Proof. intros (x & Hx & Hr). apply reach_spath in Hr as (p & Hp). exists p, x. auto. Qed.

Lemma specpath_mreach w m i p : SpecPath T w m i p -> MReach T w m i.
Proof. intros (x & Hx & (q & Hd & _)). exists x. split; [exact Hx|]. exists q. exact Hd. Qed.

Lemma specpath_fun w m1 m2 i p1 p2 :
  TreeFacts w -> SpecPath T w m1 i p1 -> SpecPath T w m2 i p2 -> m1 = m2 /\ p1 = p2.
Proof. intros HC (x1 & H1 & S1) (x2 & H2 & S2). eapply spath_fun; eauto. Qed.

(* the upward path of a node, as a specification path *)
Lemma upath_specpath w m i p : TreeFacts w -> upath w m (PElem i) p -> SpecPath T w m i p.
Proof. intros HT H. exact (upath_spath _ _ HT _ _ H). Qed.
Lemma specpath_upath w m i p : TreeFacts w -> SpecPath T w m i p -> upath w m (PElem i) p.
Proof. intros HC (x & Hx & S). eapply spath_upath; eauto. Qed.

(* a reachable node is allocated *)
Lemma dpath_alloc w r i q : dpath T w r i q -> i = r \/ exists p, child_of w p i.
Proof. destruct 1; eauto. Qed.

Lemma mreach_alloc w m i : TreeFacts w -> MReach T w m i -> exists n, w_nodes w i = Some n.
Proof.
  intros HC (x & Hx & (q & Hd)). destruct (dpath_alloc _ _ _ _ Hd) as [->|(p & Hc)].
  - destruct (root_upath _ _ _ HC Hx) as (n & Hn & _). eauto.
  - apply (tf_up _ HC) in Hc as (cn & Hcn & _). eauto.
Qed.


(* ------------------------------------------------------------------ fuel: parent chains are shorter than w_next *)
Lemma pdepth_fun w i h1 : pdepth w i h1 -> forall h2, pdepth w i h2 -> h1 = h2.
Proof.
  induction 1 as [i n Hn Ht|i n p h Hn Hp Hd IH]; intros h2 H2; inversion H2; subst.
  - reflexivity.
  - rewrite Hn in H. injection H as <-. exfalso. eapply Ht; eauto.
  - rewrite Hn in H. injection H as <-. exfalso. eapply H0; eauto.
  - rewrite Hn in H. injection H as <-. rewrite Hp in H0. injection H0 as <-. f_equal. auto.
Qed.

Lemma pdepth_chain w i h :
  pdepth w i h ->
  exists l, List.length l = S h /\ NoDup l /\
            forall j, In j l -> (exists n, w_nodes w j = Some n) /\ exists k, (k <= h)%nat /\ pdepth w j k.
Proof.
  induction 1 as [i n Hn Ht|i n p h Hn Hp Hd IH].
  - exists [i]. split; [reflexivity|]. split; [repeat constructor; intros []|].
    intros j [<-|[]]. split; [eauto|]. exists 0%nat. split; [lia|]. econstructor; eauto.
  - destruct IH as (l & Hl & Hnd & Hall). exists (i :: l). split; [cbn; lia|]. split.
    + constructor; [|exact Hnd]. intros Hin. destruct (Hall _ Hin) as (_ & k & Hk & Hdk).
      assert (Hs : pdepth w i (S h)) by (econstructor; eauto).
      pose proof (pdepth_fun _ _ _ Hs _ Hdk). lia.
    + intros j [<-|Hin].
      * split; [eauto|]. exists (S h). split; [lia|]. econstructor; eauto.
      * destruct (Hall _ Hin) as (Ha & k & Hk & Hdk). split; [exact Ha|]. exists k. split; [lia|exact Hdk].
Qed.

Lemma pdepth_bound w i h : TreeFacts w -> pdepth w i h -> (S h <= N.to_nat (w_next w))%nat.
Proof.
  intros HF Hd. destruct (pdepth_chain _ _ _ Hd) as (l & Hl & Hnd & Hall).
  rewrite <- Hl. rewrite <- (seq_length (N.to_nat (w_next w)) 0), <- (map_length N.of_nat).
  apply NoDup_incl_length; [exact Hnd|].
  intros j Hj. destruct (Hall _ Hj) as ((n & Hn) & _). pose proof (tf_alloc _ HF _ _ Hn) as Hlt.
  apply in_map_iff. exists (N.to_nat j). split; [apply N2Nat.id|]. apply in_seq. lia.
Qed.

Lemma bind_nofuel {A B} (m : res A) (f : A -> res B) : m <> Fuel -> (forall a, f a <> Fuel) -> bind m f <> Fuel.
Proof. destruct m; cbn; auto; discriminate. Qed.
Lemma unwrap_nofuel {A} s (o : option A) : unwrap s o <> Fuel.
Proof. destruct o; discriminate. Qed.
Ltac nofuel :=
  repeat first
    [ apply bind_nofuel; [|intros ?]
    | apply unwrap_nofuel
    | discriminate
    | match goal with
      | |- (match ?x with _ => _ end) <> Fuel => destruct x
      | |- (if ?x then _ else _) <> Fuel => destruct x
      | |- (let '(_, _) := ?x in _) <> Fuel => destruct x
      end ].

Lemma is_named_nofuel ty : is_named T ty <> Fuel.
Proof.
  unfold is_named, short_name_version_mask, sub_slice, dt, subel, elem, vinfo, slice_chk. nofuel.
Qed.
Lemma character_data_nofuel n : character_data T n <> Fuel.
Proof.
  unfold character_data, content_mode, dt. nofuel.
Qed.

Lemma item_name_nofuel n w : item_name T n w <> Fuel.
Proof.
  unfold item_name, wbind, wl, wlift, wret, get_node.
  pose proof (is_named_nofuel (n_type n)).
  destruct (is_named T (n_type n)) as [[|]| |]; cbn [negb]; try discriminate; try congruence.
  destruct (n_content n) as [|[s|d] rest]; try discriminate.
  destruct (w_nodes w s) as [sn|]; try discriminate.
  destruct (n_name sn =? SHORT T); try discriminate.
  pose proof (character_data_nofuel sn).
  destruct (character_data T sn); try discriminate; congruence.
Qed.
Lemma is_identifiable_nofuel n w : is_identifiable T n w <> Fuel.
Proof.
  unfold is_identifiable, wbind, wl, wlift, wret, get_node.
  pose proof (is_named_nofuel (n_type n)).
  destruct (is_named T (n_type n)) as [[|]| |]; cbn [negb]; try discriminate; try congruence.
  destruct (n_content n) as [|[s|d] rest]; try discriminate.
  destruct (w_nodes w s) as [sn|]; discriminate.
Qed.

Lemma up_names_fuel w i h : pdepth w i h -> forall f acc, (h + 2 <= f)%nat -> up_names T f (PElem i) acc w <> Fuel.
Proof.
  induction 1 as [i n Hn Ht|i n p h Hn Hp Hd IH]; intros f acc Hf.
  - destruct f as [|[|f]]; try lia. cbn [up_names]. unfold wbind at 1. unfold get_node at 1. rewrite Hn.
    unfold wbind. pose proof (item_name_nofuel n w). destruct (item_name T n w) as [[[o|e] w1]| |] eqn:E; try discriminate; try congruence.
    apply item_name_val in E as (-> & _). destruct (n_parent n) as [|m|p]; cbn; try discriminate. exfalso. eapply Ht; eauto.
  - destruct f as [|f]; try lia. cbn [up_names]. unfold wbind at 1. unfold get_node at 1. rewrite Hn.
    unfold wbind. pose proof (item_name_nofuel n w). destruct (item_name T n w) as [[[o|e] w1]| |] eqn:E; try discriminate; try congruence.
    apply item_name_val in E as (-> & _). rewrite Hp. apply IH. lia.
Qed.

Lemma path_unchecked_nofuel w i n : TreeFacts w -> w_nodes w i = Some n -> path_unchecked T n w <> Fuel.
Proof.
  intros HF Hn. unfold path_unchecked. unfold wbind at 1.
  pose proof (item_name_nofuel n w). destruct (item_name T n w) as [[[o|e] w1]| |] eqn:E; try discriminate; try congruence.
  apply item_name_val in E as (-> & _). unfold wbind at 1. unfold wget. unfold wbind.
  destruct (tf_depth _ HF _ _ Hn) as (h & Hd). pose proof (pdepth_bound _ _ _ HF Hd) as Hb.
  match goal with |- match ?X with _ => _ end <> _ => assert (HX : X <> Fuel) end.
  { inversion Hd; subst.
    - rewrite Hn in H0. injection H0 as <-. unfold fuel_of.
      destruct (n_parent n) as [|m|p]; cbn; try discriminate. exfalso. eapply H1; eauto.
    - rewrite Hn in H0. injection H0 as <-. rewrite H1. eapply up_names_fuel; eauto. unfold fuel_of. lia. }
  destruct (up_names T (fuel_of w) (n_parent n) _ w) as [[[l|e] w1]| |]; try discriminate; congruence.
Qed.

Lemma path_of_nofuel w i n : TreeFacts w -> w_nodes w i = Some n -> path_of T n w <> Fuel.
Proof.
  intros HF Hn. unfold path_of, wbind. pose proof (is_identifiable_nofuel n w).
  destruct (is_identifiable T n w) as [[[b|e] w1]| |] eqn:E; try discriminate; try congruence.
  apply is_identifiable_val in E as (-> & _). destruct b; [|discriminate].
  eapply path_unchecked_nofuel; eauto.
Qed.

(* ------------------------------------------------------------------ C04, "an element's own path" *)
(* Element::path() / path_unchecked of a node that is part of model m return exactly the top-down specification path
   (the concatenation of "/" ++ item name over the identifiable ancestors-or-self), never an error other than
   ElementNotIdentifiable, and the walk never runs out of fuel. *)
Theorem path_unchecked_spec w m i n :
  TreeFacts w -> w_nodes w i = Some n -> MReach T w m i ->
  path_unchecked T n w <> Fuel /\
  forall r w', path_unchecked T n w = Val (r, w') -> w' = w /\ exists p, r = OK p /\ SpecPath T w m i p.
Proof.
  intros HF Hn HR. split; [eapply path_unchecked_nofuel; eauto|].
  intros r w' H. destruct (mreach_specpath _ _ _ HR) as (p & HS).
  pose proof (specpath_upath _ _ _ _ HF HS) as Hu.
  eapply path_unchecked_val in H as (-> & [(m2 & s & -> & Hu2)|(-> & Hd)]); eauto.
  - split; [reflexivity|]. destruct (upath_fun _ _ _ _ Hu _ _ Hu2) as [-> ->]. eauto.
  - exfalso. eapply upath_not_dead; eauto.
Qed.

Theorem path_of_spec w m i n :
  TreeFacts w -> w_nodes w i = Some n -> MReach T w m i ->
  path_of T n w <> Fuel /\
  forall r w', path_of T n w = Val (r, w') ->
    w' = w /\
    if identifiable T w i then exists p, r = OK p /\ SpecPath T w m i p else r = ER ElementNotIdentifiable.
Proof.
  intros HF Hn HR. split; [eapply path_of_nofuel; eauto|].
  intros r w' H. unfold identifiable. rewrite Hn.
  destruct (mreach_specpath _ _ _ HR) as (p & HS).
  pose proof (specpath_upath _ _ _ _ HF HS) as Hu.
  eapply path_of_val in H as (-> & [(Hi & ->)|(Hi & [(m2 & s & -> & Hu2)|(-> & Hd)])]); eauto; rewrite Hi; (split; [reflexivity|]).
  - reflexivity.
  - destruct (upath_fun _ _ _ _ Hu _ _ Hu2) as [-> ->]. eauto.
  - exfalso. eapply upath_not_dead; eauto.
Qed.

End Readers.
