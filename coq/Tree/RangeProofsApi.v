(* Tree/RangeProofsApi.v — C07, end to end: a file of a world BUILT BY THE API in one version, whose values pass the boolean
   checker of Tree/WorldCheck.v, is written by ArxmlFile::serialize as a text that the loader (strict or lenient) reads back as
   exactly the file's projection, without any warning, in the version of the file.
   Structure comes from the history theorem (Tree/OrdHist.v: every child list in specification order), the rest of the
   hypotheses of C07_reload_clean_world from the checker (Tree/RangeProofsCheck.v), the text from C10 (file_self_contained). *)
From Coq Require Import Arith Lia.
From AV Require Import Base.Bytes Base.Outcome Hash.HashModel Spec.SpecOps Tree.Heap Tree.Ops Tree.Script Tree.Inv Tree.Serialize Tree.Range
  Tree.InvProofsBase Tree.SpecWF Tree.Project Tree.ProjectCanon Tree.WorldCheck Tree.Files Tree.FilesProofsLoad
  Tree.RangeProofsReloadFile Tree.RangeProofsCanon Tree.RangeProofsCheck
  Tree.OrdFrame Tree.OrdFrameOps Tree.OrdHistOps Tree.OrdHist.
From AV Require Xml.Parser Xml.RoundTripFile.
Open Scope list_scope.
Open Scope N_scope.

Section Api.
Variable T : tables.
Variable tab_el tab_at tab_en : nametab.
Variable check_fn : N -> list N -> res bool.
Variable float_fmt : N -> list N.
Variable attr_schema_location : N.

(* ArxmlFile::serialize only rewrites one attribute of the root *)
Lemma shp_f_serialize w0 f : shp w0 (f_serialize T tab_el tab_at tab_en check_fn float_fmt attr_schema_location f).
Proof.
  unfold f_serialize.
  repeat first [ apply shp_bind; [ first [ apply shp_ro; solve [ro_tac] | apply shp_try; apply shp_raw_set_attribute ] | intros ? ]
               | match goal with
                 | |- shp _ (if ?b then _ else _) => destruct b
                 | |- shp _ (let '(_, _) := ?x in _) => destruct x
                 end
               | apply shp_ro; solve [ro_tac] ].
  apply shp_ro. intros w r w' H. destruct (ser_heap _ _ _ _ _ _ _ _ _ _ _); try discriminate. injection H as _ <-. reflexivity.
Qed.

End Api.

Theorem api_built_reloads :
  forall (strict : bool) (T : tables) (tab_el tab_at tab_en : nametab) (check_fn : N -> list N -> res bool)
         (float_fmt : N -> list N) (float_parse : list N -> option N) (attr_schema_location LATEST : N)
         (root_attrs : list (N * cdata)) (v : N),
  SpecWF T -> v <= LATEST ->
  forall (ops : list op) (w : world),
  single_version v ops = true ->
  run_ops T tab_el tab_en check_fn LATEST root_attrs ops empty_world = Val w ->
  forall (f : N) (text : list N) (w' : world),
  f_serialize T tab_el tab_at tab_en check_fn float_fmt attr_schema_location f w = Val (OK text, w') ->
  exists fl x, nth_opt (w_files w) (N.to_nat f) = Some fl /\ nth_opt (w_models w) (N.to_nat (f_model fl)) = Some x /\
    f_version fl = v /\
    (world_checkb T tab_el tab_at tab_en check_fn float_fmt float_parse v w' (Some f) (m_root x) = true ->
     exists t st, proj (fuel_of w') w' (Some f) (m_root x) = Some t /\
       Parser.load strict T tab_el tab_at tab_en check_fn float_parse text = Val (Parser.Ret t st) /\
       Parser.p_warnings st = [] /\ Parser.p_version st = v /\ Parser.p_standalone st = f_standalone fl).
Proof.
  intros strict T tab_el tab_at tab_en check_fn float_fmt float_parse asl LATEST root_attrs v WF Hv ops w SV HR f text w' HS.
  destruct (hinv_histories T WF tab_el tab_en check_fn LATEST root_attrs v Hv ops empty_world w SV (hinv_empty T v) HR)
    as (C & A & FV & NF).
  pose proof (shp_f_serialize T tab_el tab_at tab_en check_fn float_fmt asl w f w _ w' (Sh_refl w) HS) as S.
  pose proof (Sh_allord T v _ _ S A) as A'. pose proof (Sh_fresh _ _ S (core_fresh _ C)) as F'.
  destruct (file_self_contained strict T tab_el tab_at tab_en check_fn float_fmt float_parse asl v f w text w' HS)
    as (fl & x & Hfl & Hx & _ & HL).
  exists fl, x. split; [exact Hfl|]. split; [exact Hx|]. split; [exact (FV _ _ Hfl)|].
  intros HC.
  destruct (world_check_sound strict T tab_el tab_at tab_en check_fn float_fmt float_parse v w' (Some f) (m_root x) F' HC)
    as (HTS & HWC & HRH & HNH & (t & Ht)).
  assert (WS : WorldStruct T v w' (Some f)).
  { intros i n Hn. destruct (HTS i n Hn) as (H1 & H2). split; [exact (A' i n Hn)|]. split; [exact H1|exact H2]. }
  pose proof (proj_rootcanon_struct strict T tab_el tab_at tab_en check_fn float_fmt float_parse v WF w' (Some f) (m_root x)
                WS HWC HRH _ _ Ht) as RC.
  destruct (HL t) as (st & L1 & L2 & L3 & L4); [rewrite <- proj_eq_fproj; exact Ht|exact HNH|exact RC|].
  exists t, st. auto.
Qed.
