(* Tree/FilesProofsMerge.v — C10 proofs, load: the pure merge keeps the membership invariant HInv when it is started
   with the effective set of the element it merges into (which merge_file_data does iff the root is in all files). *)
From Coq Require Import PeanoNat Arith Lia.
From AV Require Import Base.Bytes Base.Outcome Hash.HashModel Tree.Heap Tree.Ops Tree.Script Tree.Inv Tree.Load Tree.MergeSpec
  Tree.MergePure Tree.Files Tree.FilesLoad Tree.FilesProofsBase.
Open Scope string_scope.
Open Scope list_scope.
Open Scope N_scope.

Lemma eff_of_nonempty inh loc : inh <> [] -> eff_of inh loc <> [].
Proof. unfold eff_of. destruct loc; cbn; auto. discriminate. Qed.

Lemma eff_of_incl inh loc F : incl inh F -> incl loc F -> incl (eff_of inh loc) F.
Proof. unfold eff_of. destruct loc; cbn; auto. Qed.

Lemma HInv_mono F inh t : HInv F inh t -> forall F' inh', incl F F' -> incl inh inh' -> HInv F' inh' t.
Proof.
  induction 1 as [name ty attrs content comment loc inh Hl Hp Hk IH]; intros F' inh' HF Hi. constructor.
  - intros x Hx. apply HF, Hl, Hx.
  - intros Hne x Hx. apply Hi, (Hp Hne), Hx.
  - intros k Hin. apply IH; auto. unfold eff_of. destruct loc; cbn; [exact Hi|apply incl_refl].
Qed.

Lemma NoLocal_HInv F inh t : NoLocal t -> HInv F inh t.
Proof.
  intros H. revert inh. induction H as [name ty attrs content comment Hk IH]; intros inh. constructor.
  - intros x Hx. destruct Hx.
  - intros Hne. exfalso. apply Hne. reflexivity.
  - intros k Hin. apply IH. exact Hin.
Qed.

Lemma in_insert_at_gen {A} (x y : A) l k : In x (insert_at l k y) -> x = y \/ In x l.
Proof.
  revert l. induction k as [|k IH]; intros l H.
  - destruct l; cbn in H; destruct H as [<-|H]; auto.
  - destruct l as [|z l]; cbn in H.
    + destruct H as [<-|[]]; auto.
    + destruct H as [<-|H]; [right; left; reflexivity|]. destruct (IH _ H); auto. right. right. auto.
Qed.

Lemma nth_opt_in {A} (l : list A) k x : nth_opt l k = Some x -> In x l.
Proof. revert k. induction l as [|a l IH]; intros [|k] H; cbn in H; try discriminate; [left; congruence|right; eauto]. Qed.

Section Merge.
Variable T : tables.
Variable LATEST defref : N.
Variable fver : N -> option N.
Variables (F : list N) (nf : N).

Notation PM := (pmerge T LATEST defref fver).

Lemma map_kids_in (f : N -> htree -> res (out htree)) (Q : htree -> Prop) : forall l i l',
  map_kids f i l = Val (OK l') ->
  (forall j c c', In (inl c) l -> f j c = Val (OK c') -> Q c') ->
  forall k, In (inl k) l' -> Q k.
Proof.
  induction l as [|[c|d] r IH]; intros i l' H Hf k Hk; cbn [map_kids] in H.
  - injection H as <-. destruct Hk.
  - destruct (f i c) as [[c'|e]| |] eqn:Ec; cbn [bind] in H; try discriminate.
    destruct (map_kids f (i + 1) r) as [[rr|e]| |] eqn:Er; cbn [bind] in H; try discriminate. injection H as <-.
    destruct Hk as [[= <-]|Hk].
    + eapply Hf; eauto. left. reflexivity.
    + eapply (IH (i + 1) rr Er); eauto. intros j c0 c0' Hin. apply Hf. right. exact Hin.
  - destruct (map_kids f (i + 1) r) as [[rr|e]| |] eqn:Er; cbn [bind] in H; try discriminate. injection H as <-.
    destruct Hk as [[=]|Hk]. eapply (IH (i + 1) rr Er); eauto. intros j c0 c0' Hin. apply Hf. right. exact Hin.
Qed.

Lemma p_import_in ty bc mv (Q : htree -> Prop) : forall l idx cur res,
  p_import T ty bc l idx nf mv cur = Val (OK res) ->
  (forall k, In (inl k) cur -> Q k) ->
  (forall nb, In (inl nb) bc -> Q (h_import nf nb)) ->
  forall k, In (inl k) res -> Q k.
Proof.
  induction l as [|[bid pos] r IH]; intros idx cur res H Hc Hb k Hk; cbn [p_import] in H.
  - injection H as <-. auto.
  - destruct (nth_opt bc (N.to_nat bid)) as [[nb|d]|] eqn:En; try discriminate.
    destruct (p_insert_range T ty cur (h_name nb) mv) as [[[fp lp]|e]| |]; cbn [bind] in H; try discriminate.
    destruct (N.of_nat (List.length cur) <? _); [discriminate|].
    eapply (IH _ _ _ H); eauto. intros k0 Hk0. apply in_insert_at_gen in Hk0 as [[= ->]|Hk0]; auto.
    apply Hb. eapply nth_opt_in; eauto.
Qed.

Theorem pmerge_hinv : forall fuel a files b a' inh,
  HInv F inh a -> incl inh F -> inh <> [] ->
  seteq files (eff_of inh (h_local a)) -> NoLocal b ->
  PM fuel a files b nf = Val (OK a') ->
  h_local a' = h_local a /\
  forall k, In (inl k) (h_content a') -> HInv (nf :: F) (nf :: eff_of inh (h_local a)) k.
Proof.
  induction fuel as [|fl IH]; intros a files b a' inh Ha HiF Hine (Hf1 & Hf2) Hb H; [discriminate|].
  cbn [pmerge] in H.
  destruct (splittable_in T (h_ty a) _) as [sp| |]; cbn [bind] in H; try discriminate.
  destruct (walk _ _ _ _ _ _ _ _ _) as [[wk|e]| |]; cbn [bind] in H; try discriminate.
  destruct (map_kids _ 0 (h_content a)) as [[c1|e]| |] eqn:E1; cbn [bind] in H; try discriminate.
  destruct (p_import T (h_ty a) (h_content b) (wk_b_only wk) 0 nf _ c1) as [[c2|e]| |] eqn:E2; cbn [bind] in H; try discriminate.
  injection H as <-.
  destruct a as [name ty attrs content comment loc]. cbn [h_set_content h_local h_content h_ty] in *.
  split; [reflexivity|].
  inversion Ha as [? ? ? ? ? ? ? Hl Hp Hk]; subst.
  set (E := eff_of inh loc) in *.
  assert (incl E F) as HEF by (apply eff_of_incl; auto).
  assert (E <> []) as HEne by (apply eff_of_nonempty; auto).
  assert (files <> []) as Hfne.
  { intros ->. destruct E as [|g l]; [congruence|]. apply (Hf2 g). left. reflexivity. }
  inversion Hb as [? ? ? bcontent ? Hbk]; subst. cbn [h_content] in *.
  apply (p_import_in ty bcontent _ (fun k => HInv (nf :: F) (nf :: E) k) _ _ _ _ E2).
  - (* the sub-elements of a: restricted, merged, or left alone *)
    apply (map_kids_in _ (fun k => HInv (nf :: F) (nf :: E) k) _ _ _ E1).
    intros j c c' Hin Hstep. specialize (Hk c Hin). unfold child_step in Hstep.
    destruct (existsb (N.eqb j) (wk_a_only wk)).
    + injection Hstep as <-. destruct c as [cn cty cat cc ccm cloc]. cbn [h_restrict].
      destruct cloc as [|g l]; cbn [is_empty].
      * inversion Hk as [? ? ? ? ? ? ? Hl' Hp' Hk']; subst. constructor.
        -- intros x Hx. right. apply HEF, Hf1, Hx.
        -- intros _ x Hx. right. apply Hf1, Hx.
        -- intros k Hkin. specialize (Hk' k Hkin). unfold eff_of in Hk' |- *. cbn [is_empty] in Hk'.
           destruct files as [|f0 fr]; [congruence|]. cbn [is_empty].
           eapply HInv_mono; [exact Hk'|intros x Hx; right; exact Hx|exact Hf2].
      * eapply HInv_mono; [exact Hk|intros x Hx; right; exact Hx|intros x Hx; right; exact Hx].
    + destruct (lookup_merge j (wk_merge wk)) as [ib|].
      2:{ injection Hstep as <-. eapply HInv_mono; [exact Hk|intros x Hx; right; exact Hx|intros x Hx; right; exact Hx]. }
      destruct (nth_opt bcontent (N.to_nat ib)) as [[eb|d]|] eqn:Eb; try discriminate.
      destruct (PM fl c _ eb nf) as [[ea'|e]| |] eqn:Erec; cbn [bind] in Hstep; try discriminate. injection Hstep as <-.
      assert (NoLocal eb) as Heb by (apply Hbk; eapply nth_opt_in; eauto).
      assert (seteq (if negb (is_empty (h_local c)) then h_local c else files) (eff_of E (h_local c))) as Hse.
      { unfold eff_of. destruct (h_local c) as [|g l]; cbn [is_empty negb]; [split; auto|split; apply incl_refl]. }
      destruct (IH c _ eb ea' E Hk HEF HEne Hse Heb Erec) as (Hloc & Hkids).
      destruct c as [cn cty cat cc ccm cloc]. destruct ea' as [an aty aat ac acm aloc]. cbn [h_local h_content] in *. subst aloc.
      inversion Hk as [? ? ? ? ? ? ? Hl' Hp' Hk']; subst.
      unfold h_bump. cbn [h_local]. destruct cloc as [|g l]; cbn [is_empty negb h_set_local].
      * constructor; [intros x Hx; destruct Hx|intros Hne; exfalso; apply Hne; reflexivity|]. intros k Hkin. unfold eff_of in Hkids |- *. cbn [is_empty] in *. apply Hkids, Hkin.
      * constructor.
        -- intros x Hx. apply set_add_in in Hx as [->|Hx]; [left; auto|right; apply Hl', Hx].
        -- intros _ x Hx. apply set_add_in in Hx as [->|Hx]; [left; auto|right]. apply Hp'; [discriminate|exact Hx].
        -- intros k Hkin. specialize (Hkids k Hkin). unfold eff_of in Hkids |- *. cbn [is_empty] in Hkids.
           destruct (set_add nf (g :: l)) as [|s0 sr] eqn:Es.
           { exfalso. assert (In nf (set_add nf (g :: l))) as Hi by (apply set_add_in; left; reflexivity). rewrite Es in Hi. destruct Hi. }
           cbn [is_empty]. rewrite <- Es. eapply HInv_mono; [exact Hkids|apply incl_refl|].
           intros x [<-|Hx]; apply set_add_in; [left; reflexivity|right; exact Hx].
  - (* the imported sub-elements of b *)
    intros nb Hnb. pose proof (Hbk nb Hnb) as Hn. inversion Hn as [? ? ? nbc ? Hnk]; subst. cbn [h_import].
    constructor.
    + intros x Hx. apply set_add_in in Hx as [->|[]]. left. reflexivity.
    + intros _ x Hx. apply set_add_in in Hx as [->|[]]. left. reflexivity.
    + intros k Hkin. apply NoLocal_HInv. apply Hnk, Hkin.
Qed.

End Merge.
