(* Tree/InvProofsLoadWalk.v — C03 over OpLoad: where the ids in the result of Load.walk come from
   (merge pairs: an element of la with an element of all_b; b-only: elements of lb, each once). *)
From Coq Require Import PeanoNat Arith Lia.
From AV Require Import Base.Bytes Base.Outcome Hash.HashModel Tree.Heap Tree.Ops Tree.Script Tree.Inv
  Tree.InvProofsBase Tree.InvProofsTree Tree.Load Tree.InvLoad Tree.InvProofsLoadBase.
Open Scope string_scope.
Open Scope list_scope.
Open Scope N_scope.

Section Walk.
Variable T : tables.
Variable name_definition_ref : N.

Lemma keys_of_ids w pty : forall l ks, keys_of T name_definition_ref w pty l = Val ks -> map k_id ks = elems l.
Proof.
  induction l as [|[c|d] l IH]; intros ks H; cbn [keys_of] in H.
  - injection H as <-. reflexivity.
  - unfold key_of in H. destruct (w_nodes w c) as [n|]; [|discriminate H]. unfold bind in H. cbv beta iota in H.
    destruct (keys_of T name_definition_ref w pty l) as [ks0| |]; try discriminate H. injection H as <-.
    rewrite elems_cons_elem. cbn. f_equal. apply IH. reflexivity.
  - rewrite elems_cons_data. apply IH. exact H.
Qed.

Lemma find_sibling_item_in name item : forall l b, find_sibling_item name item l = Val (Some b) -> In b (map k_id l).
Proof.
  induction l as [|kb l IH]; intros b H; cbn [find_sibling_item] in H; [discriminate|].
  destruct (k_name kb =? name); [|right; auto].
  destruct (k_item kb) as [it| |]; try discriminate. cbn in H.
  destruct (opt_bytes_eqb it item); [injection H as <-; left; reflexivity|right; auto].
Qed.
Lemma find_sibling_defref_in name dr : forall l b, find_sibling_defref name dr l = Val (Some b) -> In b (map k_id l).
Proof.
  induction l as [|kb l IH]; intros b H; cbn [find_sibling_defref] in H; [discriminate|].
  destruct (k_name kb =? name); [|right; auto].
  destruct (k_defref kb) as [it| |]; try discriminate. cbn in H.
  destruct (opt_bytes_eqb it dr); [injection H as <-; left; reflexivity|right; auto].
Qed.
Lemma find_merge_partner_in l k b : find_merge_partner l k = Val (Some b) -> In b (map k_id l).
Proof.
  unfold find_merge_partner. destruct (k_ident k) as [[|]| |]; try discriminate; cbn.
  - destruct (k_item k) as [it| |]; try discriminate; cbn. apply find_sibling_item_in.
  - destruct (k_defref k) as [it| |]; try discriminate; cbn. apply find_sibling_defref_in.
Qed.

Lemma merge_action_unequal all_a all_b sp pos ka kb b :
  merge_action all_a all_b sp pos ka kb = Val (OK (MergeUnequal b)) -> In b (map k_id all_b).
Proof.
  unfold merge_action. destruct (k_name ka =? k_name kb).
  - destruct (k_ident ka) as [[|]| |]; try discriminate; cbn.
    + unfold calc_identifiables_merge. destruct (k_item ka) as [ia| |]; try discriminate; cbn.
      destruct (k_item kb) as [ib| |]; try discriminate; cbn.
      destruct (opt_bytes_eqb ia ib); [discriminate|].
      destruct (find_sibling_item (k_name ka) ia all_b) as [[s|]| |] eqn:E; try discriminate; cbn.
      * intros [= <-]. eapply find_sibling_item_in; eauto.
      * destruct sp; discriminate.
    + unfold calc_element_merge. destruct (k_defref ka) as [da| |]; try discriminate; cbn.
      destruct (k_defref kb) as [db| |]; try discriminate; cbn.
      destruct (opt_bytes_eqb da db); [discriminate|].
      destruct (find_sibling_defref (k_name ka) da all_b) as [[s|]| |] eqn:E; try discriminate; cbn.
      intros [= <-]. eapply find_sibling_defref_in; eauto.
  - destruct (k_idx ka) as [[ia|]| |]; try discriminate; cbn.
    destruct (k_idx kb) as [[ib|]| |]; try discriminate; cbn.
    destruct (find_merge_partner all_b ka) as [[s|]| |] eqn:E; try discriminate; cbn.
    + intros [= <-]. eapply find_merge_partner_in; eauto.
    + destruct (find_merge_partner all_a kb) as [[s|]| |]; try discriminate; cbn.
      destruct (lex_cmp ia ib); discriminate.
Qed.

Definition bo (wk : walked) : list id := map fst (wk_b_only wk).

Lemma map_fst_pair (l : list ckey) (cnt : N) : map fst (map (fun kb0 : ckey => (k_id kb0, cnt)) l) = map k_id l.
Proof. rewrite map_map. apply map_ext. reflexivity. Qed.
Lemma filter_ids_nodup (p : ckey -> bool) l : NoDup (map k_id l) -> NoDup (map k_id (filter p l)).
Proof.
  induction l as [|k l IH]; cbn [filter map]; intros ND; [constructor|].
  apply NoDup_cons_iff in ND as (Hk & ND). destruct (p k); cbn [map]; auto.
  constructor; auto. intros Hin. apply Hk. apply in_map_iff in Hin as (k' & E & Hk').
  apply filter_In in Hk' as (Hk' & _). rewrite <- E. apply in_map. exact Hk'.
Qed.

(* where the ids come from; every b-only id once *)
Lemma walk_ids all_a all_b sp cnt : forall fuel pos la lb acc wk,
  walk fuel all_a all_b sp cnt pos la lb acc = Val (OK wk) ->
  NoDup (map k_id lb) -> NoDup (bo acc) -> (forall x, In x (bo acc) -> ~ In x (map k_id lb)) ->
  (forall x, In x (map fst (wk_merge wk)) -> In x (map fst (wk_merge acc)) \/ In x (map k_id la)) /\
  (forall x, In x (map snd (wk_merge wk)) -> In x (map snd (wk_merge acc)) \/ In x (map k_id lb) \/ In x (map k_id all_b)) /\
  (forall x, In x (bo wk) -> In x (bo acc) \/ In x (map k_id lb)) /\
  NoDup (bo wk).
Proof.
  induction fuel as [|f IH]; intros pos la lb acc wk H ND NDa Hdis; cbn [walk] in H; [discriminate|].
  destruct la as [|ka la']; [|destruct lb as [|kb lb']].
  - (* la exhausted *)
    destruct lb as [|kb lb'].
    + injection H as <-. cbn [wk_merge wk_a_only wk_b_only]. unfold bo. cbn [wk_b_only]. repeat split; auto.
    + injection H as <-. unfold bo. cbn [wk_merge wk_a_only wk_b_only].
      split; [auto|]. split; [auto|].
      rewrite map_app, map_fst_pair.
      set (rest := filter (fun kb0 => negb (merged_b (wk_merge acc) (k_id kb0))) (kb :: lb')).
      assert (Hr : forall x, In x (map k_id rest) -> In x (map k_id (kb :: lb'))).
      { intros x Hx. apply in_map_iff in Hx as (k & <- & Hk). apply filter_In in Hk as (Hk & _). apply in_map. exact Hk. }
      split.
      * intros x Hx. apply in_app_or in Hx as [Hx|Hx]; auto.
      * apply NoDup_app_intro; auto.
        -- exact (filter_ids_nodup (fun kb0 => negb (merged_b (wk_merge acc) (k_id kb0))) (kb :: lb') ND).
        -- intros x Hx Hx2. apply Hr in Hx2. eapply Hdis; eauto.
  - (* lb exhausted *)
    injection H as <-. unfold bo. cbn [wk_merge wk_a_only wk_b_only]. repeat split; auto.
  - (* one iteration *)
    destruct (merge_action all_a all_b sp pos ka kb) as [[act|e]| |] eqn:EA; try discriminate H; unfold bind in H; cbv beta iota in H.
    assert (ND' : NoDup (map k_id lb')) by (cbn [map] in ND; apply NoDup_cons_iff in ND; tauto).
    assert (Hkb : ~ In (k_id kb) (map k_id lb')) by (cbn [map] in ND; apply NoDup_cons_iff in ND; tauto).
    assert (Hdis' : forall x, In x (bo acc) -> ~ In x (map k_id lb')).
    { intros x Hx Hin. eapply Hdis; eauto. right. exact Hin. }
    destruct act as [| other_b | | position].
    + (* MergeEqual *)
      apply IH in H as (A & B & Cc & Dd); auto. cbn [wk_merge wk_b_only] in *. unfold bo in *. cbn [wk_b_only] in *.
      split; [|split; [|split]]; auto.
      * intros x Hx. apply A in Hx as [Hx|Hx]; [|right; right; auto].
        rewrite map_app in Hx. apply in_app_or in Hx as [Hx|[<-|[]]]; [auto|right; left; reflexivity].
      * intros x Hx. apply B in Hx as [Hx|[Hx|Hx]]; auto; [|right; left; right; auto].
        rewrite map_app in Hx. apply in_app_or in Hx as [Hx|[<-|[]]]; [auto|right; left; left; reflexivity].
      * intros x Hx. apply Cc in Hx as [Hx|Hx]; auto. right. right. auto.
    + (* MergeUnequal *)
      pose proof (merge_action_unequal _ _ _ _ _ _ _ EA) as Hob.
      apply IH in H as (A & B & Cc & Dd); auto. cbn [wk_merge wk_b_only] in *. unfold bo in *. cbn [wk_b_only] in *.
      split; [|split; [|split]]; auto.
      * intros x Hx. apply A in Hx as [Hx|Hx]; [|right; right; auto].
        rewrite map_app in Hx. apply in_app_or in Hx as [Hx|[<-|[]]]; [auto|right; left; reflexivity].
      * intros x Hx. apply B in Hx as [Hx|[Hx|Hx]]; auto.
        rewrite map_app in Hx. apply in_app_or in Hx as [Hx|[<-|[]]]; [auto|right; right; auto].
    + (* AOnly *)
      apply IH in H as (A & B & Cc & Dd); auto. cbn [wk_merge wk_b_only] in *. unfold bo in *. cbn [wk_b_only] in *.
      split; [|split; [|split]]; auto.
      intros x Hx. apply A in Hx as [Hx|Hx]; auto. right. right. auto.
    + (* BOnly *)
      destruct (merged_b (wk_merge acc) (k_id kb)) eqn:EM.
      * apply IH in H as (A & B & Cc & Dd); auto. cbn [wk_merge wk_b_only] in *. unfold bo in *. cbn [wk_b_only] in *.
        split; [|split; [|split]]; auto.
        -- intros x Hx. apply B in Hx as [Hx|[Hx|Hx]]; auto. right. left. right. auto.
        -- intros x Hx. apply Cc in Hx as [Hx|Hx]; auto. right. right. auto.
      * apply IH in H as (A & B & Cc & Dd); auto; unfold bo in *; cbn [wk_merge wk_b_only] in *.
        -- split; [|split; [|split]]; auto.
           ++ intros x Hx. apply B in Hx as [Hx|[Hx|Hx]]; auto. right. left. right. auto.
           ++ intros x Hx. apply Cc in Hx as [Hx|Hx]; [|right; right; auto].
              rewrite map_app in Hx. apply in_app_or in Hx as [Hx|[<-|[]]]; [auto|right; left; reflexivity].
        -- rewrite map_app. apply NoDup_app_intro; auto; [repeat constructor; intros []|].
           intros x Hx [<-|[]]. eapply Hdis; eauto. left. reflexivity.
        -- intros x Hx. rewrite map_app in Hx. apply in_app_or in Hx as [Hx|[<-|[]]]; auto.
Qed.

End Walk.
