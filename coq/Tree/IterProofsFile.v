(* Tree/IterProofsFile.v — C03: ArxmlFileElementsDfsIterator drained = PreF: the pre-order of the sub-forest of the
   elements whose LOCAL file membership is empty or contains the file; an element outside the file is pruned with
   its whole subtree (next_sibling). *)
From Coq Require Import PeanoNat Arith.
From AV Require Import Base.Bytes Base.Outcome Hash.HashModel Tree.Heap Tree.Ops Tree.Script Tree.Inv
  Tree.InvProofsBase Tree.InvProofsCore Tree.InvProofsTree Tree.InvProofsPrim Tree.InvProofsNav Tree.Iter
  Tree.IterProofs.
Open Scope string_scope.
Open Scope list_scope.
Open Scope N_scope.

(* ------------------------------------------------------------------ nested induction for PreF *)
Section PreFInd.
Variables (w : world) (lim : option nat) (file : N).
Variable P : nat -> id -> list (nat * id) -> Prop.
Hypothesis Hskip : forall d i n, w_nodes w i = Some n -> in_file file n = false -> P d i [].
Hypothesis Hcut : forall d i n, w_nodes w i = Some n -> in_file file n = true -> deeper lim d = false -> P d i [(d, i)].
Hypothesis Hnode : forall d i n ls, w_nodes w i = Some n -> in_file file n = true -> deeper lim d = true ->
  Forall2 (PreF w lim file (S d)) (kids n) ls -> Forall2 (P (S d)) (kids n) ls -> P d i ((d, i) :: List.concat ls).

Fixpoint PreF_ind2 d i l (H : PreF w lim file d i l) {struct H} : P d i l :=
  match H in PreF _ _ _ d0 i0 l0 return P d0 i0 l0 with
  | PreF_skip _ _ _ d i n Hn Hf => Hskip d i n Hn Hf
  | PreF_cut _ _ _ d i n Hn Hf Hd => Hcut d i n Hn Hf Hd
  | PreF_node _ _ _ d i n ls Hn Hf Hd Hall =>
    Hnode d i n ls Hn Hf Hd Hall
      ((fix go ks ls (hf : Forall2 (PreF w lim file (S d)) ks ls) {struct hf} : Forall2 (P (S d)) ks ls :=
          match hf in Forall2 _ ks0 ls0 return Forall2 (P (S d)) ks0 ls0 with
          | Forall2_nil _ => Forall2_nil _
          | Forall2_cons _ _ hp hr => Forall2_cons _ _ (PreF_ind2 _ _ _ hp) (go _ _ hr)
          end) _ _ Hall)
  end.
End PreFInd.

Lemma pref_exists w lim file : Core w -> forall f i d, allocated w i -> enough w i f -> exists l, PreF w lim file d i l.
Proof.
  intros C. induction f as [|f IH]; intros i d (n & Hn) He.
  - destruct (in_file file n) eqn:Hf; [|exists []; eapply PreF_skip; eauto].
    destruct (deeper lim d) eqn:Hd; [|exists [(d, i)]; eapply PreF_cut; eauto].
    exists ((d, i) :: List.concat []). eapply PreF_node; eauto. rewrite (enough_leaf _ _ _ C He Hn). constructor.
  - destruct (in_file file n) eqn:Hf; [|exists []; eapply PreF_skip; eauto].
    destruct (deeper lim d) eqn:Hd; [|exists [(d, i)]; eapply PreF_cut; eauto].
    destruct (forall2_exists (PreF w lim file (S d)) (kids n)) as (ls & Hls).
    { intros c Hc. assert (Hl : lists w i c) by (exists n; auto).
      destruct (enough_kid _ _ _ _ C He Hl) as (f' & [= <-] & He'). apply IH; auto.
      apply C in Hl. destruct Hl as (nc & ? & _). eexists; eauto. }
    exists ((d, i) :: List.concat ls). eapply PreF_node; eauto.
Qed.

(* ------------------------------------------------------------------ runs with pruning *)
Inductive RunF (w : world) (file : N) : dfs_state -> nat -> list (nat * id) -> dfs_state -> Prop :=
| RF_done s : RunF w file s 0 [] s
| RF_cont s s1 n l s' : dfs_step s w = Val (DCont s1) -> RunF w file s1 n l s' -> RunF w file s (S n) l s'
| RF_keep s d e s1 nd n l s' : dfs_step s w = Val (DYield d e s1) -> w_nodes w e = Some nd -> in_file file nd = true ->
    RunF w file s1 n l s' -> RunF w file s (S n) ((d, e) :: l) s'
| RF_skip s d e s1 nd n l s' : dfs_step s w = Val (DYield d e s1) -> w_nodes w e = Some nd -> in_file file nd = false ->
    RunF w file (dfs_pop s1) n l s' -> RunF w file s (S n) l s'.

Lemma RunF_trans w file s1 n1 l1 s2 n2 l2 s3 :
  RunF w file s1 n1 l1 s2 -> RunF w file s2 n2 l2 s3 -> RunF w file s1 (n1 + n2) (l1 ++ l2) s3.
Proof.
  induction 1; intros Hx; cbn; auto.
  - eapply RF_cont; eauto.
  - eapply RF_keep; eauto.
  - eapply RF_skip; eauto.
Qed.

Lemma kids_runF w file max i n d E P :
  w_nodes w i = Some n -> deeper (lim_of max) d = true -> List.length E = d -> List.length P = d ->
  forall suf pre ls, n_content n = pre ++ suf ->
    Forall2 (fun c lc => forall E' P', List.length E' = S d -> List.length P' = S d ->
                         exists m, RunF w file (mkDfs (c :: E') P' max) m lc (mkDfs E' P' max)) (elems suf) ls ->
    exists m, RunF w file (mkDfs (i :: E) (N.of_nat (List.length pre) :: P) max) m (List.concat ls) (mkDfs E P max).
Proof.
  intros Hn Hd HE HP. subst d. rewrite deeper_lim_of in Hd.
  induction suf as [|[c|x] suf IH]; intros pre ls Hc Hf.
  - inversion Hf; subst. exists 1%nat. eapply RF_cont; [|apply RF_done].
    unfold dfs_step. cbn [d_elems d_pos d_max]. cbn [List.length]. rewrite HP.
    rewrite (proj2 (Nat.eqb_neq _ _)) by lia. rewrite Nat.eqb_refl. rewrite Hn.
    rewrite Hc, app_nil_r. rewrite N.ltb_irrefl. rewrite andb_false_r. reflexivity.
  - rewrite elems_cons_elem in Hf. inversion Hf as [|? lc ? ls' Hc0 Hrest]; subst.
    destruct (Hc0 (i :: E) (N.of_nat (S (List.length pre)) :: P)) as (m1 & R1); [cbn; lia | cbn; lia|].
    destruct (IH (pre ++ [CElem c]) ls') as (m2 & R2); [rewrite <- app_assoc; auto | auto|].
    rewrite app_length in R2. cbn [List.length] in R2. rewrite Nat.add_1_r in R2.
    exists (S (m1 + m2)). cbn [List.concat]. eapply RF_cont; [|eapply RunF_trans; eauto].
    unfold dfs_step. cbn [d_elems d_pos d_max]. cbn [List.length]. rewrite HP.
    rewrite (proj2 (Nat.eqb_neq _ _)) by lia. rewrite Nat.eqb_refl. rewrite Hn, Hd. cbn [orb andb].
    assert (Hlt : N.of_nat (List.length pre) <? N.of_nat (List.length (n_content n)) = true).
    { apply N.ltb_lt. rewrite Hc, app_length. cbn. lia. }
    rewrite Hlt. rewrite Nat2N.id. rewrite Hc. rewrite nth_opt_app_mid.
    replace (N.of_nat (List.length pre) + 1) with (N.of_nat (S (List.length pre))) by lia. reflexivity.
  - rewrite elems_cons_data in Hf.
    destruct (IH (pre ++ [CData x]) ls) as (m2 & R2); [rewrite <- app_assoc; auto | auto|].
    rewrite app_length in R2. cbn [List.length] in R2. rewrite Nat.add_1_r in R2.
    exists (S m2). eapply RF_cont; [|exact R2].
    unfold dfs_step. cbn [d_elems d_pos d_max]. cbn [List.length]. rewrite HP.
    rewrite (proj2 (Nat.eqb_neq _ _)) by lia. rewrite Nat.eqb_refl. rewrite Hn, Hd. cbn [orb andb].
    assert (Hlt : N.of_nat (List.length pre) <? N.of_nat (List.length (n_content n)) = true).
    { apply N.ltb_lt. rewrite Hc, app_length. cbn. lia. }
    rewrite Hlt. rewrite Nat2N.id. rewrite Hc. rewrite nth_opt_app_mid.
    replace (N.of_nat (List.length pre) + 1) with (N.of_nat (S (List.length pre))) by lia. reflexivity.
Qed.

Lemma subtree_runF w file max d i l : PreF w (lim_of max) file d i l ->
  forall E P, List.length E = d -> List.length P = d ->
  exists m, RunF w file (mkDfs (i :: E) P max) m l (mkDfs E P max).
Proof.
  intros H. induction H using PreF_ind2; intros E P HE HP.
  - exists 1%nat. apply (RF_skip w file _ d i (mkDfs (i :: E) (0 :: P) max) n 0 [] (mkDfs E P max)); auto; [|apply RF_done].
    unfold dfs_step. cbn [d_elems d_pos d_max]. rewrite HE, HP, Nat.eqb_refl. reflexivity.
  - exists 2%nat. eapply RF_keep; eauto; [|eapply RF_cont; [|apply RF_done]].
    + unfold dfs_step. cbn [d_elems d_pos d_max]. rewrite HE, HP, Nat.eqb_refl. reflexivity.
    + unfold dfs_step. cbn [d_elems d_pos d_max]. rewrite HE. cbn [List.length]. rewrite HP.
      rewrite (proj2 (Nat.eqb_neq _ _)) by lia. rewrite Nat.eqb_refl. rewrite H.
      rewrite deeper_lim_of in H1. rewrite H1. reflexivity.
  - destruct (kids_runF w file max i n d E P H H1 HE HP (n_content n) [] ls eq_refl) as (m & R).
    { fold (kids n). clear H2. induction H3; constructor; auto. }
    exists (S m). eapply RF_keep; eauto.
    unfold dfs_step. cbn [d_elems d_pos d_max]. rewrite HE, HP, Nat.eqb_refl. reflexivity.
Qed.

(* ------------------------------------------------------------------ from runs to fi_next / fi_drain *)
Definition fi_go (fuel : nat) (file : N) (it : dfs_state) (w : world) : res (option (nat * id) * dfs_state) :=
  (let* '(first, it1) := dfs_next fuel it w in fi_loop fuel file first it1 w)%res.

Lemma fi_loop_mono w file : forall f cur it r, fi_loop f file cur it w = Val r ->
  forall f', (f <= f')%nat -> fi_loop f' file cur it w = Val r.
Proof.
  induction f as [|f IH]; intros cur it r H f' Hf; [discriminate|]. destruct f' as [|f']; [lia|].
  cbn [fi_loop] in *. destruct cur as [[d e]|]; auto. destruct (w_nodes w e) as [n|]; auto.
  destruct (in_file file n); auto. unfold dfs_next_sibling in *.
  destruct (dfs_next f (dfs_pop it) w) as [[nx it']|s|] eqn:En; try discriminate.
  rewrite (dfs_next_mono w _ _ _ En f') by lia. cbn [bind] in *. eapply IH; eauto. lia.
Qed.

Lemma fi_go_mono w file f it r : fi_go f file it w = Val r -> forall f', (f <= f')%nat -> fi_go f' file it w = Val r.
Proof.
  unfold fi_go. intros H f' Hf. destruct (dfs_next f it w) as [[first it1]|s|] eqn:En; try discriminate.
  rewrite (dfs_next_mono w _ _ _ En f') by lia. cbn [bind] in *. eapply fi_loop_mono; eauto.
Qed.

Lemma fi_next_go f file it w :
  fi_next f (mkFI file (Some it)) w =
  (let* '(o, it2) := fi_go f file it w in Val (o, mkFI file (Some it2)))%res.
Proof.
  unfold fi_next, fi_go. cbn [fi_dfs fi_file]. destruct (dfs_next f it w) as [[first it1]|s|]; reflexivity.
Qed.

Lemma fi_drain_S f s w :
  fi_drain (S f) s w =
  (let* '(o, s') := fi_next f s w in
   match o with
   | Some y => let* r := fi_drain f s' w in Val (y :: r)
   | None => Val []
   end)%res.
Proof. reflexivity. Qed.

Lemma fi_drain_mono w file : forall f it l, fi_drain f (mkFI file (Some it)) w = Val l ->
  forall f', (f <= f')%nat -> fi_drain f' (mkFI file (Some it)) w = Val l.
Proof.
  induction f as [|f IH]; intros it l H f' Hf; [discriminate|]. destruct f' as [|f']; [lia|].
  rewrite fi_drain_S in *. rewrite fi_next_go in *.
  destruct (fi_go f file it w) as [[o it2]|s|] eqn:Eg; try discriminate.
  rewrite (fi_go_mono w file _ _ _ Eg f') by lia. cbn [bind] in *. destruct o as [y|]; auto.
  destruct (fi_drain f (mkFI file (Some it2)) w) as [r|s|] eqn:Ed; try discriminate.
  rewrite (IH _ _ Ed f') by lia. auto.
Qed.

Lemma fi_go_cont w file f s s1 : dfs_step s w = Val (DCont s1) ->
  forall r, fi_go f file s1 w = Val r -> fi_go (S f) file s w = Val r.
Proof.
  intros Hs r H. unfold fi_go in *. cbn [dfs_next]. rewrite Hs.
  destruct (dfs_next f s1 w) as [[first it1]|site|] eqn:En; try discriminate. cbn [bind] in *.
  eapply fi_loop_mono; eauto.
Qed.
Lemma fi_go_keep w file f s d e s1 nd : dfs_step s w = Val (DYield d e s1) -> w_nodes w e = Some nd ->
  in_file file nd = true -> fi_go (S f) file s w = Val (Some (d, e), s1).
Proof. intros Hs Hn Hf. unfold fi_go. cbn [dfs_next]. rewrite Hs. cbn [bind fi_loop]. rewrite Hn, Hf. reflexivity. Qed.
Lemma fi_go_skip w file f s d e s1 nd : dfs_step s w = Val (DYield d e s1) -> w_nodes w e = Some nd ->
  in_file file nd = false -> fi_go (S f) file s w = fi_go f file (dfs_pop s1) w.
Proof. intros Hs Hn Hf. unfold fi_go. cbn [dfs_next]. rewrite Hs. cbn [bind fi_loop]. rewrite Hn, Hf. reflexivity. Qed.
Lemma fi_go_done w file f s : dfs_step s w = Val DDone -> fi_go (S f) file s w = Val (None, s).
Proof. intros Hs. unfold fi_go. cbn [dfs_next]. rewrite Hs. reflexivity. Qed.

Lemma drain_of_runF w file s n l s' : RunF w file s n l s' -> dfs_step s' w = Val DDone ->
  fi_drain (n + List.length l + 2) (mkFI file (Some s)) w = Val l.
Proof.
  intros R Hdone.
  induction R as [s | s s1 n l s' Hs R IH | s d e s1 nd n l s' Hs Hn Hf R IH | s d e s1 nd n l s' Hs Hn Hf R IH].
  - cbn [Nat.add List.length]. rewrite fi_drain_S, fi_next_go, (fi_go_done _ _ _ _ Hdone). reflexivity.
  - specialize (IH Hdone). replace (S n + List.length l + 2)%nat with (S (n + List.length l + 2)) by lia.
    remember (n + List.length l + 2)%nat as f0 eqn:Ef. destruct f0 as [|f]; [lia|].
    rewrite fi_drain_S, fi_next_go in IH. rewrite fi_drain_S, fi_next_go.
    destruct (fi_go f file s1 w) as [[o it2]|site|] eqn:Eg; try discriminate.
    rewrite (fi_go_cont _ _ _ _ _ Hs _ Eg). cbn [bind] in *. destruct o as [y|]; auto.
    destruct (fi_drain f (mkFI file (Some it2)) w) as [r|site|] eqn:Ed; try discriminate.
    rewrite (fi_drain_mono w file _ _ _ Ed (S f)) by lia. exact IH.
  - specialize (IH Hdone). cbn [List.length].
    replace (S n + S (List.length l) + 2)%nat with (S (S (n + List.length l + 2))) by lia.
    remember (n + List.length l + 2)%nat as f eqn:Ef.
    rewrite fi_drain_S, fi_next_go, (fi_go_keep _ _ _ _ _ _ _ _ Hs Hn Hf). cbn [bind].
    rewrite (fi_drain_mono w file _ _ _ IH (S f)) by lia. reflexivity.
  - specialize (IH Hdone). replace (S n + List.length l + 2)%nat with (S (n + List.length l + 2)) by lia.
    remember (n + List.length l + 2)%nat as f0 eqn:Ef. destruct f0 as [|f]; [lia|].
    rewrite fi_drain_S, fi_next_go in IH. rewrite fi_drain_S, fi_next_go.
    rewrite (fi_go_skip _ _ _ _ _ _ _ _ Hs Hn Hf).
    destruct (fi_go f file (dfs_pop s1) w) as [[o it2]|site|] eqn:Eg; try discriminate.
    cbn [bind] in *. destruct o as [y|]; auto.
    destruct (fi_drain f (mkFI file (Some it2)) w) as [r|site|] eqn:Ed; try discriminate.
    rewrite (fi_drain_mono w file _ _ _ Ed (S f)) by lia. exact IH.
Qed.

(* ---------- the theorem for ArxmlFileElementsDfsIterator ---------- *)
Theorem fi_iter_spec w file max fl x : Core w ->
  nth_opt (w_files w) (N.to_nat file) = Some fl -> nth_opt (w_models w) (N.to_nat (f_model fl)) = Some x ->
  exists l f0, PreF w (lim_of max) file 0 (m_root x) l /\
               forall f, (f0 <= f)%nat -> file_elements_dfs f file max w = Val l.
Proof.
  intros C Hfl Hx.
  assert (Ha : allocated w (m_root x)).
  { rewrite nth_opt_nth_error in Hx. assert (Hr : nth_error (roots w) (N.to_nat (f_model fl)) = Some (m_root x)).
    { unfold roots. rewrite nth_error_map, Hx. reflexivity. }
    destruct (c_roots _ C _ _ Hr) as (n & Hn & _). eexists; eauto. }
  destruct (pref_exists w (lim_of max) file C _ (m_root x) 0%nat Ha (enough_top _ _ C Ha)) as (l & Hl).
  destruct (subtree_runF w file max 0 (m_root x) l Hl [] [] eq_refl eq_refl) as (m & R).
  exists l, (m + List.length l + 2)%nat. split; auto. intros f Hf. unfold file_elements_dfs, fi_new. rewrite Hfl, Hx.
  eapply fi_drain_mono; [|exact Hf]. eapply drain_of_runF; eauto.
Qed.
