(* Tree/OrdHistReal.v — C07: the history theorem on the regenerated real tables (SpecWF RT: Tree/SpecWFReal.v). *)
From AV Require Import Base.Bytes Base.Outcome Hash.HashModel Spec.SpecOps Spec.SpecReal Tree.Heap Tree.Ops Tree.Script Tree.Inv Tree.Range
  Tree.SpecWF Tree.SpecWFReal Tree.RangeProofsReal Tree.OrdHist.
Open Scope list_scope.
Open Scope N_scope.

Theorem order_histories_real :
  forall (tab_el tab_en : nametab) (check_fn : N -> list N -> res bool) (root_attrs : list (N * cdata)) (v : N),
  v <= REAL_LATEST ->
  forall (ops : list op) (w : world),
  single_version v ops = true ->
  run_ops RT tab_el tab_en check_fn REAL_LATEST root_attrs ops empty_world = Val w ->
  forall (i : id) (n : node), w_nodes w i = Some n ->
  exists items, items_of w (n_content n) = Some items /\ Ordered RT (n_type n) v items.
Proof. intros tab_el tab_en check_fn root_attrs v. exact (order_histories RT SpecWF_real tab_el tab_en check_fn REAL_LATEST root_attrs v). Qed.
