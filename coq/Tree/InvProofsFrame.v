(* Tree/InvProofsFrame.v — C03 proofs: a generic per-node frame.
   frame NR NN w w' : every node allocated in w is still allocated in w' and is related to its old self by NR
                      (reflexive, transitive); every node allocated since satisfies NN (closed under NR).
   `frp NR NN m` (m keeps the frame) is compositional; the only non-compositional shape in Ops.v, a `set_node i (g n)`
   where n was read from i earlier in the same function, is covered by `frp_at` (the node at i is known to be n).
   Instances: files/parent frame (DetFiles), type/kids frame (CharsLeaf). *)
From Coq Require Import PeanoNat Arith.
From AV Require Import Base.Bytes Base.Outcome Hash.HashModel Tree.Heap Tree.Ops Tree.Script Tree.Inv
  Tree.InvProofsBase Tree.InvProofsCore Tree.InvProofsTree Tree.InvProofsPrim Tree.InvProofsRemove.
Open Scope string_scope.
Open Scope list_scope.
Open Scope N_scope.

Section Frame.
Variable NR : node -> node -> Prop.
Variable NN : node -> Prop.
Hypothesis NR_refl : forall n, NR n n.
Hypothesis NR_trans : forall a b c, NR a b -> NR b c -> NR a c.
Hypothesis NN_NR : forall a b, NN a -> NR a b -> NN b.

Definition frame (w w' : world) : Prop :=
  (forall i, w_nodes w i <> None -> w_nodes w' i <> None) /\
  forall i n', w_nodes w' i = Some n' ->
    (exists n, w_nodes w i = Some n /\ NR n n') \/ (w_nodes w i = None /\ NN n').

Lemma frame_refl w : frame w w.
Proof. split; auto. intros i n' H. left. eauto. Qed.

Lemma frame_trans a b c : frame a b -> frame b c -> frame a c.
Proof.
  intros (A1 & A2) (B1 & B2). split; [auto|]. intros i n' Hc.
  destruct (B2 _ _ Hc) as [(nb & Hb & Rbc)|(Hb & Nc)].
  - destruct (A2 _ _ Hb) as [(na & Ha & Rab)|(Ha & Nb)]; [left; eauto | right; eauto].
  - right. split; auto. destruct (w_nodes a i) eqn:E; auto. exfalso. apply (A1 i); congruence.
Qed.

Lemma frame_nodes_eq w w' : (forall x, w_nodes w' x = w_nodes w x) -> frame w w'.
Proof. intros H. split; [intros i; rewrite H; auto|]. intros i n' Hn. rewrite H in Hn. left. eauto. Qed.

Lemma frame_wset w i n n' : w_nodes w i = Some n -> NR n n' -> frame w (wset w i n').
Proof.
  intros Hn Hr. split.
  - intros x Hx. destruct (N.eq_dec x i) as [->|Hxi]; [rewrite nodes_wset_eq; congruence | rewrite nodes_wset_neq; auto].
  - intros x nx Hx. destruct (N.eq_dec x i) as [->|Hxi].
    + rewrite nodes_wset_eq in Hx. injection Hx as <-. left. eauto.
    + rewrite nodes_wset_neq in Hx by auto. left. eauto.
Qed.

Lemma frame_walloc w n : w_nodes w (w_next w) = None -> NN n -> frame w (walloc w n).
Proof.
  intros Hf Hn. split.
  - intros x Hx. rewrite nodes_walloc_old; auto. intros ->. auto.
  - intros x nx Hx. destruct (N.eq_dec x (w_next w)) as [->|Hxi].
    + rewrite nodes_walloc_new in Hx. injection Hx as <-. right. auto.
    + rewrite nodes_walloc_old in Hx by auto. left. eauto.
Qed.

Definition frp {A} (m : W A) : Prop := forall w r w', m w = Val (r, w') -> frame w w'.

Lemma frp_ro {A} (m : W A) : ro m -> frp m.
Proof. intros H w r w' E. apply H in E. subst. apply frame_refl. Qed.
Lemma frp_nfp {A} (m : W A) : nfp m -> frp m.
Proof. intros H w r w' E. apply frame_nodes_eq. apply (H _ _ _ E). Qed.
Lemma frp_bind {A B} (m : W A) (k : A -> W B) : frp m -> (forall a, frp (k a)) -> frp (wbind m k).
Proof.
  intros Hm Hk w r w' H. apply wbind_inv in H as [(a & w1 & H1 & H2) | (e & H1 & _)].
  - eapply frame_trans; [eapply Hm | eapply Hk]; eauto.
  - eapply Hm; eauto.
Qed.
Lemma frp_try {A} (m : W A) : frp m -> frp (wtry m).
Proof. intros Hm w r w' H. apply wtry_inv in H as (r0 & H & _). eapply Hm; eauto. Qed.
Lemma frp_modify_node i f : (forall n, NR n (f n)) -> frp (modify_node i f).
Proof. intros Hf w r w' H. apply modify_node_wset in H as (n & Hn & _ & ->). eapply frame_wset; eauto. Qed.
Lemma frp_modify_model m f : frp (modify_model m f).
Proof. intros w r w' H. apply modify_model_inv in H as (x & _ & _ & ->). apply frame_nodes_eq. reflexivity. Qed.
Lemma frp_set_model m x : frp (set_model m x).
Proof. intros w r w' H. apply set_model_inv in H as (_ & ->). apply frame_nodes_eq. reflexivity. Qed.
Lemma frp_set_file f x : frp (set_file f x).
Proof. intros w r w'. unfold set_file. intros [= <- <-]. apply frame_nodes_eq. reflexivity. Qed.

(* the node at i is known *)
Definition frp_at {A} (i : id) (n : node) (m : W A) : Prop :=
  forall w r w', w_nodes w i = Some n -> m w = Val (r, w') -> frame w w'.

Lemma frp_get {A} i (k : node -> W A) : (forall n, frp_at i n (k n)) -> frp (wbind (get_node i) k).
Proof.
  intros Hk w r w' H. apply wbind_inv in H as [(a & w1 & H1 & H2) | (e & H1 & _)].
  - apply get_node_inv in H1 as (n & Hn & [= <-] & ->). eapply Hk; eauto.
  - apply get_node_inv in H1 as (n & _ & [=] & _).
Qed.
Lemma frp_at_frp {A} i n (m : W A) : frp m -> frp_at i n m.
Proof. intros H w r w' _ E. eapply H; eauto. Qed.
Lemma frp_at_bind_ro {A B} i n (m : W A) (k : A -> W B) :
  ro m -> (forall a, frp_at i n (k a)) -> frp_at i n (wbind m k).
Proof.
  intros Hm Hk w r w' Hn H. apply wbind_inv in H as [(a & w1 & H1 & H2) | (e & H1 & _)].
  - pose proof (Hm _ _ _ H1). subst. eapply Hk; eauto.
  - pose proof (Hm _ _ _ H1). subst. apply frame_refl.
Qed.
Lemma frp_at_bind {A B} i n (m : W A) (k : A -> W B) :
  frp_at i n m -> (forall a, frp (k a)) -> frp_at i n (wbind m k).
Proof.
  intros Hm Hk w r w' Hn H. apply wbind_inv in H as [(a & w1 & H1 & H2) | (e & H1 & _)].
  - eapply frame_trans; [eapply Hm | eapply Hk]; eauto.
  - eapply Hm; eauto.
Qed.
Lemma frp_at_set i n n' : NR n n' -> frp_at i n (set_node i n').
Proof. intros Hr w r w' Hn H. apply set_node_wset in H as (_ & ->). eapply frame_wset; eauto. Qed.

Lemma frp_kloop step l : (forall c, frp (step c)) -> frp (kloop step l).
Proof.
  intros Hs. induction l as [|[c|d] l IH]; cbn [kloop]; auto.
  - apply frp_ro. ro_tac.
  - apply frp_bind; auto.
Qed.

End Frame.

(* decompose goals `frp NR NN m` / `frp_at NR NN i n m`; [leaf] solves NR side conditions; the laws of NR / NN
   (premises of the generic lemmas) are taken from the hint database frp *)
Create HintDb frp discriminated.
Ltac fr_side := solve [auto with frp | eauto with frp].
Ltac fr_step leaf :=
  first
  [ apply frp_ro; [ fr_side .. | solve [ro_tac] ]
  | assumption
  | solve [auto with frp]
  | apply frp_modify_model; fr_side
  | apply frp_set_model; fr_side
  | apply frp_modify_node; [ fr_side .. | intros ?; solve [leaf] ]
  | match goal with |- frp _ _ (wtry _) => apply frp_try; [ fr_side .. | ] end
  | match goal with
    | |- frp _ _ (wbind (get_node ?i) _) => apply frp_get; [ fr_side .. | intros ? ]
    end
  | match goal with |- frp _ _ (wbind _ _) => apply frp_bind; [ fr_side .. | | intros ? ] end
  | apply frp_at_set; [ fr_side .. | solve [leaf] ]
  | match goal with
    | |- frp_at _ _ _ _ (wbind ?m _) =>
      first [ apply frp_at_bind_ro; [ fr_side .. | solve [ro_tac] | intros ? ]
            | apply frp_at_bind; [ fr_side .. | | intros ? ] ]
    end
  | match goal with
    | |- frp _ _ (match ?x with _ => _ end) => destruct x
    | |- frp _ _ (if ?b then _ else _) => destruct b
    | |- frp_at _ _ _ _ (match ?x with _ => _ end) => destruct x eqn:?
    | |- frp_at _ _ _ _ (if ?b then _ else _) => destruct b
    end
  | progress cbv zeta
  | apply frp_at_frp ].
Ltac fr_tac leaf := repeat (fr_step leaf).
