(* Tree/CopyProofsRegId.v — C13 proofs, layer 2c: the registration walk of create_copied_sub_element_inner and the path
   index (identifiables) of the destination model.  After the walk over an element i with path prefix cur:
     (A) every index entry is an old one or belongs to an identifiable element below i under its relative path,
     (B) no key disappears,
     (C) if no two identifiable elements below i share a relative path (UniqueRel), every identifiable element j below
         i is found under cur ++ (relative path of j).
   For every table set.  (Without UniqueRel (C) fails: known finding C13-copy-nameless-shortname.) *)
From AV Require Import Base.Bytes Base.Outcome Hash.HashModel Tree.Heap Tree.Ops Tree.Script
  Tree.CopyProofsW Tree.CopyProofsDefs Tree.CopyProofsDeep Tree.CopyProofsCreate Tree.CopyProofsTop Tree.CopyProofsReg.
From Coq Require Import Lia.
Open Scope string_scope.
Open Scope list_scope.
Open Scope N_scope.

(* ------------------------------------------------------------------ queries that only look at the nodes *)
Definition NO {A} (c : W A) : Prop :=
  forall w w', w_nodes w' = w_nodes w -> forall r, c w = Val (r, w) -> c w' = Val (r, w').

Lemma NO_ret {A} (a : A) : NO (wret a).
Proof. intros w w' _ r H. apply wret_inv in H as (-> & _). reflexivity. Qed.
Lemma NO_fail {A} e : NO (@wfail A e).
Proof. intros w w' _ r H. apply wfail_inv in H as (-> & _). reflexivity. Qed.
Lemma NO_wl {A} (x : res A) : NO (wl x).
Proof. intros w w' _ r H. apply wl_inv in H as (a & -> & -> & _). reflexivity. Qed.
Lemma NO_get_node i : NO (get_node i).
Proof.
  intros w w' E r H. apply get_node_inv in H as (n & Hn & -> & _). unfold get_node. rewrite E, Hn. reflexivity.
Qed.
Lemma NO_bind {A B} (c : W A) (k : A -> W B) : ro c -> NO c -> (forall a, NO (k a)) -> NO (wbind c k).
Proof.
  intros Hro Hc Hk w w' E r H. apply wbind_inv in H as [(a & w1 & E1 & H) | (e & E1 & ->)].
  - assert (w1 = w) by (eapply Hro; eauto). subst w1.
    unfold wbind. rewrite (Hc _ _ E _ E1). apply (Hk a _ _ E). exact H.
  - unfold wbind. rewrite (Hc _ _ E _ E1). reflexivity.
Qed.
Ltac no_step :=
  first
  [ apply NO_ret | apply NO_fail | apply NO_wl | apply NO_get_node
  | apply NO_bind; [ solve [ro_tac] | | intros ? ]
  | match goal with
    | |- NO (match ?x with _ => _ end) => destruct x
    | |- NO (if ?b then _ else _) => destruct b
    end ].
Ltac no_tac := repeat no_step.

(* association lists: lookup after an insertion *)
Lemma assoc_get_insert_cases {A} k k2 (a : A) l :
  assoc_get k2 (assoc_insert k a l) = if bytes_eqb k k2 then Some a else assoc_get k2 l.
Proof.
  destruct (bytes_eqb k k2) eqn:E.
  - apply bytes_eqb_spec in E. subst k2. apply assoc_get_insert_eq.
  - apply assoc_get_insert_neq. intros ->. rewrite bytes_eqb_refl in E. discriminate.
Qed.

Section RegId.
Variable T : tables.
Variable LATEST : N.

Lemma NO_is_identifiable n : NO (is_identifiable T n).
Proof. unfold is_identifiable. no_tac. Qed.
Lemma NO_character_data_wl n : NO (wl (character_data T n)).
Proof. apply NO_wl. Qed.
Lemma NO_item_name n : NO (item_name T n).
Proof. unfold item_name. no_tac. Qed.

Lemma IsIdent_nodes w w' i : w_nodes w' = w_nodes w -> IsIdent T w i -> IsIdent T w' i.
Proof. intros E (n & Hn & H). exists n. rewrite E. split; auto. apply (NO_is_identifiable n _ _ E). exact H. Qed.
Lemma SegOf_nodes w w' i s : w_nodes w' = w_nodes w -> SegOf T w i s -> SegOf T w' i s.
Proof.
  intros E (n & b & Hn & Hb & Hs). exists n, b. rewrite E. split; auto.
  split; [apply (NO_is_identifiable n _ _ E); exact Hb|].
  destruct Hs as [Hs|(-> & o & Ho & ->)]; [left; exact Hs|].
  right. split; auto. exists o. split; auto. apply (NO_item_name n _ _ E). exact Ho.
Qed.
Lemma RPath_nodes w w' i j q : w_nodes w' = w_nodes w -> RPath T w i j q -> RPath T w' i j q.
Proof.
  intros E H. induction H as [i s Hs | i n c j s q Hs Hn Hin _ IH].
  - constructor. eapply SegOf_nodes; eauto.
  - econstructor; eauto. eapply SegOf_nodes; eauto. rewrite E. exact Hn.
Qed.

(* the segment is a function of the element *)
Lemma SegOf_fun w i s1 s2 : SegOf T w i s1 -> SegOf T w i s2 -> s1 = s2.
Proof.
  intros (n1 & b1 & Hn1 & Hb1 & H1) (n2 & b2 & Hn2 & Hb2 & H2).
  rewrite Hn1 in Hn2. injection Hn2 as <-. rewrite Hb1 in Hb2. injection Hb2 as <-.
  destruct H1 as [(-> & ->)|(-> & o1 & Ho1 & ->)]; destruct H2 as [(E & ->)|(E & o2 & Ho2 & ->)]; try discriminate; auto.
  rewrite Ho1 in Ho2. injection Ho2 as <-. reflexivity.
Qed.

(* ------------------------------------------------------------------ effect of the index primitives on lookups *)
Lemma add_identifiable_HasId m p e w r w' :
  add_identifiable m p e w = Val (r, w') ->
  w_nodes w' = w_nodes w /\
  forall k j, HasId w' m k j <-> (k = p /\ j = e) \/ (k <> p /\ HasId w m k j).
Proof.
  intros H. apply modify_model_inv in H as (x & Hx & _ & ->). split; auto.
  intros k j. unfold HasId, wmodels; cbn [w_models].
  rewrite (nth_opt_list_set_eq _ _ (set_idents x (assoc_insert p e (m_idents x))) _ Hx).
  split.
  - intros (y & [= <-] & Hy). cbn in Hy. rewrite assoc_get_insert_cases in Hy.
    destruct (bytes_eqb p k) eqn:E.
    + apply bytes_eqb_spec in E. subst k. injection Hy as <-. auto.
    + right. split; [intros ->; rewrite bytes_eqb_refl in E; discriminate|]. eauto.
  - intros [(-> & ->)|(Hne & y & Hy & Hk)].
    + eexists. split; [reflexivity|]. cbn. apply assoc_get_insert_eq.
    + rewrite Hx in Hy. injection Hy as <-. eexists. split; [reflexivity|]. cbn.
      rewrite assoc_get_insert_neq; auto.
Qed.

Lemma add_reference_origin_HasId m p e w r w' :
  add_reference_origin m p e w = Val (r, w') ->
  w_nodes w' = w_nodes w /\ forall k j, HasId w' m k j <-> HasId w m k j.
Proof.
  intros H. apply modify_model_inv in H as (x & Hx & _ & ->). split; auto.
  intros k j. unfold HasId, wmodels; cbn [w_models].
  match goal with |- context [list_set _ _ ?y] => rewrite (nth_opt_list_set_eq _ _ y _ Hx) end.
  split.
  - intros (y & [= <-] & Hy). cbn in Hy. eauto.
  - intros (y & Hy & Hk). rewrite Hx in Hy. injection Hy as <-. eexists. split; [reflexivity|]. exact Hk.
Qed.

(* ------------------------------------------------------------------ the walk *)
(* entries the walk below i (prefix cur) is entitled to write *)
Definition J (cur : list N) (i : id) (w : world) (k : list N) (j : id) : Prop :=
  exists q, RPath T w i j q /\ IsIdent T w j /\ k = cur ++ q.

Definition WalkSpec (m : N) (cur : list N) (i : id) (w w' : world) : Prop :=
  w_nodes w' = w_nodes w /\
  (forall k j, HasId w' m k j -> HasId w m k j \/ J cur i w k j) /\
  (forall k j, HasId w m k j -> exists j', HasId w' m k j') /\
  (UniqueRel T w i -> forall k j, J cur i w k j -> HasId w' m k j).

Lemma HasId_fun w m k j1 j2 : HasId w m k j1 -> HasId w m k j2 -> j1 = j2.
Proof. intros (x & Hx & H1) (y & Hy & H2). rewrite Hx in Hy. injection Hy as <-. congruence. Qed.

(* the children: the union of the walks over the sub-elements listed in l *)
Definition JL (cur : list N) (l : list citem) (w : world) (k : list N) (j : id) : Prop :=
  exists c, In (CElem c) l /\ J cur c w k j.
Definition UniqueL (cur : list N) (l : list citem) (w : world) : Prop :=
  forall k j1 j2, JL cur l w k j1 -> JL cur l w k j2 -> j1 = j2.

Lemma rs_kids_ids m cur (rs : id -> W unit) w0 :
  (forall c w r w', w_nodes w = w_nodes w0 -> rs c w = Val (r, w') -> WalkSpec m cur c w w') ->
  (forall c, noer (rs c)) ->
  forall l w r w', w_nodes w = w_nodes w0 -> rs_kids rs l w = Val (r, w') ->
  w_nodes w' = w_nodes w /\
  (forall k j, HasId w' m k j -> HasId w m k j \/ JL cur l w0 k j) /\
  (forall k j, HasId w m k j -> exists j', HasId w' m k j') /\
  (UniqueL cur l w0 -> forall k j, JL cur l w0 k j -> HasId w' m k j).
Proof.
  intros Hrs Hok. induction l as [|[c|d] l IH]; intros w r w' Ew H; cbn [rs_kids] in H.
  - apply wret_inv in H as (_ & ->). split; auto. split; auto. split; eauto.
    intros _ k j (c & [] & _).
  - apply wbind_inv in H as [(u & w1 & E & H) | (e & E & _)].
    2: { apply Hok in E as (a & [=]). }
    destruct (Hrs _ _ _ _ Ew E) as (N1 & A1 & B1 & C1).
    assert (Ew1 : w_nodes w1 = w_nodes w0) by congruence.
    destruct (IH _ _ _ Ew1 H) as (N2 & A2 & B2 & C2).
    (* J over w and over w0 coincide: same nodes *)
    assert (JW : forall k j, J cur c w k j -> J cur c w0 k j).
    { intros k j (q & HP & HI & ->). exists q. split; [|split; [|reflexivity]].
      - eapply RPath_nodes; [symmetry; exact Ew | exact HP].
      - eapply IsIdent_nodes; [symmetry; exact Ew | exact HI]. }
    assert (JW' : forall k j, J cur c w0 k j -> J cur c w k j).
    { intros k j (q & HP & HI & ->). exists q. split; [|split; [|reflexivity]].
      - eapply RPath_nodes; [exact Ew | exact HP].
      - eapply IsIdent_nodes; [exact Ew | exact HI]. }
    split; [congruence|]. split; [|split].
    + intros k j Hk. destruct (A2 k j Hk) as [Hk1|(c' & Hc' & HJ)].
      * destruct (A1 k j Hk1) as [Hk0|HJ]; auto. right. exists c. split; [left; reflexivity|]. auto.
      * right. exists c'. split; [right; exact Hc'|exact HJ].
    + intros k j Hk. destruct (B1 k j Hk) as (j1 & Hj1). eapply B2; eauto.
    + intros HU k j (c' & Hc' & HJ).
      assert (HUc : UniqueRel T w c).
      { intros j1 j2 q P1 P2 I1 I2. apply (HU (cur ++ q)).
        - exists c. split; [left; reflexivity|]. apply JW. exists q. auto.
        - exists c. split; [left; reflexivity|]. apply JW. exists q. auto. }
      assert (HUl : UniqueL cur l w0).
      { intros k0 j1 j2 (c1 & H1 & J1) (c2 & H2 & J2). apply (HU k0); [exists c1|exists c2]; split; auto; right; auto. }
      destruct Hc' as [[= <-]|Hc'].
      * (* written by the walk over c, then kept by the walks over the rest *)
        pose proof (C1 HUc k j (JW' _ _ HJ)) as Hw1.
        destruct (B2 k j Hw1) as (j' & Hj').
        destruct (A2 k j' Hj') as [Hold|(c2 & Hc2 & HJ2)].
        -- rewrite (HasId_fun _ _ _ _ _ Hw1 Hold). exact Hj'.
        -- assert (j = j'). { apply (HU k); [exists c|exists c2]; split; auto; [left|right]; auto. }
           subst j'. exact Hj'.
      * apply (C2 HUl). exists c'. auto.
  - destruct (IH _ _ _ Ew H) as (N2 & A2 & B2 & C2). split; auto. split; [|split].
    + intros k j Hk. destruct (A2 k j Hk) as [?|(c' & Hc' & HJ)]; auto. right. exists c'. split; [right|]; auto.
    + exact B2.
    + intros HU k j (c' & [[=]|Hc'] & HJ). apply C2; [|exists c'; auto].
      intros k0 j1 j2 (c1 & H1 & J1) (c2 & H2 & J2). apply (HU k0); [exists c1|exists c2]; split; auto; right; auto.
Qed.

Lemma app_inv_head_N (a b c : list N) : a ++ b = a ++ c -> b = c.
Proof. apply app_inv_head. Qed.

Theorem register_subtree_ids f : forall m cur i w r w',
  register_subtree T f m cur i w = Val (r, w') -> WalkSpec m cur i w w'.
Proof.
  induction f as [|f IH]; intros m cur i w r w' H; [discriminate H|].
  rewrite register_subtree_S in H.
  apply wbind_inv in H as [(n & w1 & E & H) | (e & E & _)].
  2: { apply get_node_inv in E as (? & _ & [=] & _). }
  apply get_node_inv in E as (n' & Hn & [= <-] & ->).
  apply wbind_inv in H as [(b & w1 & Hb & H) | (e & E & _)].
  2: { apply noer_is_identifiable in E as (a & [=]). }
  assert (w1 = w) by (eapply ro_is_identifiable; eauto). subst w1.
  apply wbind_inv in H as [(cur' & w1 & E & H) | (e & E & _)].
  2: { exfalso. revert E. clear. intros E.
       assert (N0 : noer (if b then (do nm <- item_name T n;
                          let p := match nm with Some x => cur ++ [47] ++ x | None => cur end in
                          add_identifiable m p i;; wret p)%W else wret cur)).
       { destruct b; noer_tac; try apply noer_item_name. }
       apply N0 in E as (a & [=]). }
  (* the own entry *)
  assert (OWN : exists s, SegOf T w i s /\ cur' = cur ++ s /\ w_nodes w1 = w_nodes w /\
            forall k j, HasId w1 m k j <-> (b = true /\ k = cur' /\ j = i) \/ ((b = false \/ k <> cur') /\ HasId w m k j)).
  { destruct b.
    - apply wbind_inv in E as [(nm & w2 & Enm & E) | (e & Enm & [=])].
      assert (w2 = w) by (eapply ro_item_name; eauto). subst w2.
      apply wbind_inv in E as [(u & w2 & Ea & E) | (e & Ea & [=])].
      apply wret_inv in E as ([= ->] & ->).
      apply add_identifiable_HasId in Ea as (Nn & Hh).
      exists (match nm with Some x => [47] ++ x | None => [] end). split; [|split; [|split; [exact Nn|]]].
      + exists n, true. split; auto. split; auto. right. split; auto. exists nm. auto.
      + destruct nm; [reflexivity | rewrite app_nil_r; reflexivity].
      + intros k j. rewrite Hh. split.
        * intros [(-> & ->)|(Hne & Hk)]; [left; auto | right; auto].
        * intros [(_ & -> & ->)|([[=]|Hne] & Hk)]; [left; auto | right; auto].
    - apply wret_inv in E as ([= ->] & ->). exists []. split; [|split; [|split; [reflexivity|]]].
      + exists n, false. auto.
      + rewrite app_nil_r. reflexivity.
      + intros k j. split; [intros Hk; right; auto | intros [([=] & _)|(_ & Hk)]; exact Hk]. }
  clear E. destruct OWN as (s & Hseg & -> & Nn1 & Hh1).
  apply wbind_inv in H as [(isr & w2 & E & H) | (e & E & _)].
  2: { apply wl_inv in E as (? & _ & [=] & _). }
  apply wl_inv in E as (isr' & _ & [= <-] & ->).
  apply wbind_inv in H as [(u & w2 & E & H) | (e & E & _)].
  2: { exfalso. revert E. clear. intros E.
       assert (N0 : noer (if isr then (do cd <- wl (character_data T n);
                          match cd with Some (DString r0) => add_reference_origin m r0 i | _ => wret tt end)%W else wret tt)).
       { noer_tac. }
       apply N0 in E as (a & [=]). }
  assert (REF : w_nodes w2 = w_nodes w1 /\ forall k j, HasId w2 m k j <-> HasId w1 m k j).
  { destruct isr.
    - apply wbind_inv in E as [(cd & w3 & E1 & E) | (e & E1 & [=])].
      apply wl_inv in E1 as (cd' & _ & [= <-] & ->).
      destruct cd as [[| r0 | |]|]; try (apply wret_inv in E as (_ & ->); split; [reflexivity | intros; tauto]).
      apply add_reference_origin_HasId in E. exact E.
    - apply wret_inv in E as (_ & ->). split; [reflexivity | intros; tauto]. }
  clear E. destruct REF as (Nn2 & Hh2).
  assert (Ew2 : w_nodes w2 = w_nodes w) by congruence.
  destruct (rs_kids_ids m (cur ++ s) (register_subtree T f m (cur ++ s)) w
              (fun c wa ra wb _ Hc => IH m (cur ++ s) c wa ra wb Hc)
              (fun c => noer_register_subtree T f m (cur ++ s) c)
              (n_content n) w2 r w' Ew2 H) as (Nn3 & KA & KB & KC).
  (* the entries of i = its own entry + the entries of its children *)
  assert (JSPLIT : forall k j, J cur i w k j <->
            (IsIdent T w i /\ k = cur ++ s /\ j = i) \/ JL (cur ++ s) (n_content n) w k j).
  { intros k j. split.
    - intros (q & HP & HI & ->). inversion HP as [i0 s0 Hs0 | i0 n0 c j0 s0 q0 Hs0 Hn0 Hin HP0]; subst.
      + left. rewrite (SegOf_fun _ _ _ _ Hs0 Hseg). auto.
      + right. rewrite Hn in Hn0. injection Hn0 as <-. rewrite (SegOf_fun _ _ _ _ Hs0 Hseg).
        exists c. split; auto. exists q0. split; auto. split; auto. rewrite app_assoc. reflexivity.
    - intros [(HI & -> & ->)|(c & Hc & q & HP & HI & ->)].
      + exists s. split; [constructor; exact Hseg|auto].
      + exists (s ++ q). split; [econstructor; eauto|]. split; auto. rewrite app_assoc. reflexivity. }
  assert (Hbt : IsIdent T w i -> b = true).
  { intros (n2 & Hn2 & Hi). rewrite Hn in Hn2. injection Hn2 as <-. rewrite Hb in Hi. injection Hi as ->. reflexivity. }
  split; [congruence|]. split; [|split].
  - (* A *)
    intros k j Hk. destruct (KA k j Hk) as [Hk2|HJ].
    + apply Hh2, Hh1 in Hk2. destruct Hk2 as [(-> & -> & ->)|(_ & Hk0)]; auto.
      right. apply JSPLIT. left. split; auto. exists n. auto.
    + right. apply JSPLIT. auto.
  - (* B *)
    intros k j Hk.
    assert (exists j1, HasId w1 m k j1).
    { destruct b.
      - destruct (bytes_dec k (cur ++ s)) as [->|Hne].
        + exists i. apply Hh1. left. auto.
        + exists j. apply Hh1. right. auto.
      - exists j. apply Hh1. right. auto. }
    destruct H0 as (j1 & Hj1). apply Hh2 in Hj1. eapply KB; eauto.
  - (* C *)
    intros HU k j HJ.
    assert (HUL : UniqueL (cur ++ s) (n_content n) w).
    { intros k0 j1 j2 (c1 & Hc1 & q1 & P1 & I1 & ->) (c2 & Hc2 & q2 & P2 & I2 & Eq).
      apply app_inv_head_N in Eq. subst q2.
      apply (HU j1 j2 (s ++ q1)); [eapply RP_down with (c := c1); eauto | eapply RP_down with (c := c2); eauto | exact I1 | exact I2]. }
    apply JSPLIT in HJ. destruct HJ as [(HI & -> & ->)|HJ].
    + assert (Hw1 : HasId w1 m (cur ++ s) i) by (apply Hh1; left; auto).
      apply Hh2 in Hw1. destruct (KB _ _ Hw1) as (j' & Hj').
      destruct (KA _ _ Hj') as [Hold|(c & Hc & q & P & I & Eq)].
      * rewrite (HasId_fun _ _ _ _ _ Hw1 Hold). exact Hj'.
      * assert (q = []). { rewrite <- (app_nil_r (cur ++ s)) in Eq at 1. apply app_inv_head_N in Eq. auto. }
        subst q. assert (i = j').
        { apply (HU i j' s); auto.
          - constructor. exact Hseg.
          - rewrite <- (app_nil_r s). econstructor; eauto. }
        subst j'. exact Hj'.
    + apply (KC HUL). exact HJ.
Qed.

(* ------------------------------------------------------------------ two worlds that agree below an element *)
Lemma is_identifiable_agree n w w' r :
  (forall s, In (CElem s) (n_content n) -> w_nodes w' s = w_nodes w s) ->
  is_identifiable T n w = Val (r, w) -> is_identifiable T n w' = Val (r, w').
Proof.
  intros Hk H. unfold is_identifiable in *.
  apply wbind_inv in H as [(named & w1 & E & H) | (e & E & ->)].
  2: { apply wl_inv in E as (? & _ & [=] & _). }
  apply wl_inv in E as (nm & Hnm & [= <-] & ->).
  unfold wbind at 1. unfold wl, wlift. rewrite Hnm.
  destruct (negb named); [apply wret_inv in H as (-> & _); reflexivity|].
  destruct (n_content n) as [|[s|d] rest]; try (apply wret_inv in H as (-> & _); reflexivity).
  apply wbind_inv in H as [(sn & w1 & E & H) | (e & E & _)].
  2: { apply get_node_inv in E as (? & _ & [=] & _). }
  apply get_node_inv in E as (sn' & Hs & [= <-] & ->). apply wret_inv in H as (-> & _).
  unfold wbind, get_node. rewrite (Hk s (or_introl eq_refl)), Hs. reflexivity.
Qed.

Lemma item_name_agree n w w' r :
  (forall s, In (CElem s) (n_content n) -> w_nodes w' s = w_nodes w s) ->
  item_name T n w = Val (r, w) -> item_name T n w' = Val (r, w').
Proof.
  intros Hk H. unfold item_name in *.
  apply wbind_inv in H as [(named & w1 & E & H) | (e & E & ->)].
  2: { apply wl_inv in E as (? & _ & [=] & _). }
  apply wl_inv in E as (nm & Hnm & [= <-] & ->).
  unfold wbind at 1. unfold wl, wlift. rewrite Hnm.
  destruct (negb named); [apply wret_inv in H as (-> & _); reflexivity|].
  destruct (n_content n) as [|[s|d] rest]; try (apply wret_inv in H as (-> & _); reflexivity).
  apply wbind_inv in H as [(sn & w1 & E & H) | (e & E & _)].
  2: { apply get_node_inv in E as (? & _ & [=] & _). }
  apply get_node_inv in E as (sn' & Hs & [= <-] & ->).
  unfold wbind at 1. unfold get_node. rewrite (Hk s (or_introl eq_refl)), Hs.
  destruct (n_name sn =? SHORT T); [|apply wret_inv in H as (-> & _); reflexivity].
  apply wbind_inv in H as [(cd & w1 & E & H) | (e & E & ->)].
  2: { apply wl_inv in E as (? & _ & [=] & _). }
  apply wl_inv in E as (cd' & Hcd & [= <-] & ->). apply wret_inv in H as (-> & _).
  unfold wbind, wl, wlift. rewrite Hcd. reflexivity.
Qed.

Definition AgreeBelow (w w' : world) (i : id) : Prop := forall j, Sub w i j -> w_nodes w' j = w_nodes w j.

Lemma AgreeBelow_child w w' i n c :
  AgreeBelow w w' i -> w_nodes w i = Some n -> In (CElem c) (n_content n) -> AgreeBelow w w' c.
Proof. intros H Hn Hin j HS. apply H. eapply Sub_prepend; eauto. Qed.

Lemma SegOf_agree w w' i s : AgreeBelow w w' i -> SegOf T w i s -> SegOf T w' i s.
Proof.
  intros HA (n & b & Hn & Hb & Hs).
  assert (Hk : forall k, In (CElem k) (n_content n) -> w_nodes w' k = w_nodes w k).
  { intros k Hin. apply HA. econstructor; [constructor | exact Hn | exact Hin]. }
  exists n, b. split; [rewrite (HA i (Sub_refl _ _)); exact Hn|].
  split; [eapply is_identifiable_agree; eauto|].
  destruct Hs as [Hs|(-> & o & Ho & ->)]; [left; exact Hs|].
  right. split; auto. exists o. split; auto. eapply item_name_agree; eauto.
Qed.

Lemma IsIdent_agree w w' i : AgreeBelow w w' i -> IsIdent T w i -> IsIdent T w' i.
Proof.
  intros HA (n & Hn & Hb). exists n. split; [rewrite (HA i (Sub_refl _ _)); exact Hn|].
  eapply is_identifiable_agree; [|exact Hb]. intros k Hin. apply HA. econstructor; [constructor | exact Hn | exact Hin].
Qed.

Lemma RPath_agree w w' i j q : AgreeBelow w w' i -> RPath T w i j q -> RPath T w' i j q.
Proof.
  intros HA H. induction H as [i s Hs | i n c j s q Hs Hn Hin _ IH].
  - constructor. eapply SegOf_agree; eauto.
  - econstructor.
    + eapply SegOf_agree; eauto.
    + rewrite (HA i (Sub_refl _ _)). exact Hn.
    + exact Hin.
    + apply IH. eapply AgreeBelow_child; eauto.
Qed.

Lemma RPath_Sub w i j q : RPath T w i j q -> Sub w i j.
Proof.
  induction 1 as [i s Hs | i n c j s q Hs Hn Hin _ IH]; [constructor|]. eapply Sub_prepend; eauto.
Qed.

(* ------------------------------------------------------------------ the public copy calls *)
Theorem copy_registered_ids h other pos w c w' m :
  Closed w -> copy_call T LATEST h other pos w = Val (OK c, w') ->
  model_of h w = Val (OK m, w) ->
  exists nh w1 path,
    w_nodes w h = Some nh /\ Ext w w1 /\ path_unchecked T nh w1 = Val (OK path, w1) /\
    (UniqueRel T w' c -> forall j q, RPath T w' c j q -> IsIdent T w' j -> HasId w' m (path ++ q) j).
Proof.
  intros Cw H Hm.
  apply copy_call_inner in H as [(_ & e & [=]) | (m' & v & ps & _ & Hm' & _ & H)].
  rewrite Hm in Hm'. injection Hm' as <-.
  destruct (ccsei_spec T _ _ _ _ _ _ _ _ Cw H)
    as (_ & _ & ns & Hns & _ & w1 & Hd & HR & w3 & w4 & path & E4 & Hmod & Hsame & Hself3 & Hpath).
  destruct (deep_copy_fresh T _ _ _ _ _ _ Cw Hd) as (HF & Ex & _).
  exists ns, w1, path. split; auto. split; auto. split; auto.
  assert (Hself : h < w_next w) by (eapply (proj1 Cw); eauto).
  assert (HF' : FreshTree (w_next w) w' c).
  { eapply FreshTree_transport; [exact HF|]. intros i n1 Hi Hn1. eapply (CopyRel_kids T); eauto. lia. }
  assert (HF3 : FreshTree (w_next w) w3 c).
  { eapply FreshTree_transport; [exact HF'|]. intros i n1 Hi Hn1. exists n1. rewrite <- Hsame by lia. auto. }
  assert (A1 : AgreeBelow w' w3 c).
  { intros j HS. pose proof (FreshTree_Sub _ _ _ _ HF' HS) as HFj. inversion HFj; subst. symmetry. apply Hsame. lia. }
  assert (A2 : AgreeBelow w3 w' c).
  { intros j HS. pose proof (FreshTree_Sub _ _ _ _ HF3 HS) as HFj. inversion HFj; subst. apply Hsame. lia. }
  assert (A1j : forall j, Sub w' c j -> AgreeBelow w' w3 j).
  { intros j HSj x HSx. apply A1. clear - HSj HSx. induction HSx; auto. econstructor; eauto. }
  assert (A2j : forall j, Sub w3 c j -> AgreeBelow w3 w' j).
  { intros j HSj x HSx. apply A2. clear - HSj HSx. induction HSx; auto. econstructor; eauto. }
  intros HU j q HP HI.
  destruct (register_subtree_ids _ _ _ _ _ _ _ E4) as (_ & _ & _ & C).
  assert (HU3 : UniqueRel T w3 c).
  { intros j1 j2 q0 P1 P2 I1 I2. apply (HU j1 j2 q0).
    - eapply RPath_agree; eauto.
    - eapply RPath_agree; eauto.
    - eapply IsIdent_agree; [apply A2j; eapply RPath_Sub; eauto | exact I1].
    - eapply IsIdent_agree; [apply A2j; eapply RPath_Sub; eauto | exact I2]. }
  assert (HO : HasId w4 m (path ++ q) j).
  { apply (C HU3). exists q. split; [eapply RPath_agree; eauto|]. split; auto.
    eapply IsIdent_agree; [apply A1j; eapply RPath_Sub; eauto | exact HI]. }
  destruct HO as (x & Hx & Hk). exists x. rewrite Hmod. auto.
Qed.

End RegId.
