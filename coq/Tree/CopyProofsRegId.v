(* Tree/CopyProofsRegId.v — C13 proofs, layer 2c: the registration walk of create_copied_sub_element_inner and the path
   index (identifiables) of the destination model.  After the walk over an element i with path prefix cur:
     (A) every index entry is an old one or belongs to an identifiable element below i under its relative path,
     (B) no key disappears,
     (C) if no two identifiable elements below i share a relative path (UniqueRel), every identifiable element j below
         i is found under cur ++ (relative path of j).
   For every table set.  (Without UniqueRel (C) fails: known finding C13-copy-nameless-shortname.) *)
From AV Require Import Base.Bytes Base.Outcome Hash.HashModel Tree.Heap Tree.Ops Tree.Script
  Tree.CopyProofsW Tree.CopyProofsDefs Tree.CopyProofsDeep Tree.CopyProofsCreate Tree.CopyProofsTop Tree.CopyProofsReg.
From Coq Require Import Lia.
Open Scope string_scope.
Open Scope list_scope.
Open Scope N_scope.

(* ------------------------------------------------------------------ queries that only look at the nodes *)
Definition NO {A} (c : W A) : Prop :=
  forall w w', w_nodes w' = w_nodes w -> forall r, c w = Val (r, w) -> c w' = Val (r, w').

Lemma NO_ret {A} (a : A) : NO (wret a).
Proof. intros w w' _ r H. apply wret_inv in H as (-> & _). reflexivity. Qed.
Lemma NO_fail {A} e : NO (@wfail A e).
Proof. intros w w' _ r H. apply wfail_inv in H as (-> & _). reflexivity. Qed.
Lemma NO_wl {A} (x : res A) : NO (wl x).
Proof. intros w w' _ r H. apply wl_inv in H as (a & -> & -> & _). reflexivity. Qed.
Lemma NO_get_node i : NO (get_node i).
Proof.
  intros w w' E r H. apply get_node_inv in H as (n & Hn & -> & _). unfold get_node. rewrite E, Hn. reflexivity.
Qed.
Lemma NO_bind {A B} (c : W A) (k : A -> W B) : ro c -> NO c -> (forall a, NO (k a)) -> NO (wbind c k).
Proof.
  intros Hro Hc Hk w w' E r H. apply wbind_inv in H as [(a & w1 & E1 & H) | (e & E1 & ->)].
  - assert (w1 = w) by (eapply Hro; eauto). subst w1.
    unfold wbind. rewrite (Hc _ _ E _ E1). apply (Hk a _ _ E). exact H.
  - unfold wbind. rewrite (Hc _ _ E _ E1). reflexivity.
Qed.
Ltac no_step :=
  first
  [ apply NO_ret | apply NO_fail | apply NO_wl | apply NO_get_node
  | apply NO_bind; [ solve [ro_tac] | | intros ? ]
  | match goal with
    | |- NO (match ?x with _ => _ end) => destruct x
    | |- NO (if ?b then _ else _) => destruct b
    end ].
Ltac no_tac := repeat no_step.

(* association lists: lookup after an insertion *)
Lemma assoc_get_insert_cases {A} k k2 (a : A) l :
  assoc_get k2 (assoc_insert k a l) = if bytes_eqb k k2 then Some a else assoc_get k2 l.
Proof.
  destruct (bytes_eqb k k2) eqn:E.
  - apply bytes_eqb_spec in E. subst k2. apply assoc_get_insert_eq.
  - apply assoc_get_insert_neq. intros ->. rewrite bytes_eqb_refl in E. discriminate.
Qed.

Section RegId.
Variable T : tables.
Variable LATEST : N.

Lemma NO_is_identifiable n : NO (is_identifiable T n).
Proof. unfold is_identifiable. no_tac. Qed.
Lemma NO_character_data_wl n : NO (wl (character_data T n)).
Proof. apply NO_wl. Qed.
Lemma NO_item_name n : NO (item_name T n).
Proof. unfold item_name. no_tac. Qed.

Lemma IsIdent_nodes w w' i : w_nodes w' = w_nodes w -> IsIdent T w i -> IsIdent T w' i.
Proof. intros E (n & Hn & H). exists n. rewrite E. split; auto. apply (NO_is_identifiable n _ _ E). exact H. Qed.
Lemma SegOf_nodes w w' i s : w_nodes w' = w_nodes w -> SegOf T w i s -> SegOf T w' i s.
Proof.
  intros E (n & b & Hn & Hb & Hs). exists n, b. rewrite E. split; auto.
  split; [apply (NO_is_identifiable n _ _ E); exact Hb|].
  destruct Hs as [Hs|(-> & o & Ho & ->)]; [left; exact Hs|].
  right. split; auto. exists o. split; auto. apply (NO_item_name n _ _ E). exact Ho.
Qed.
Lemma RPath_nodes w w' i j q : w_nodes w' = w_nodes w -> RPath T w i j q -> RPath T w' i j q.
Proof.
  intros E H. induction H as [i s Hs | i n c j s q Hs Hn Hin _ IH].
  - constructor. eapply SegOf_nodes; eauto.
  - econstructor; eauto. eapply SegOf_nodes; eauto. rewrite E. exact Hn.
Qed.

(* the segment is a function of the element *)
Lemma SegOf_fun w i s1 s2 : SegOf T w i s1 -> SegOf T w i s2 -> s1 = s2.
Proof.
  intros (n1 & b1 & Hn1 & Hb1 & H1) (n2 & b2 & Hn2 & Hb2 & H2).
  rewrite Hn1 in Hn2. injection Hn2 as <-. rewrite Hb1 in Hb2. injection Hb2 as <-.
  destruct H1 as [(-> & ->)|(-> & o1 & Ho1 & ->)]; destruct H2 as [(E & ->)|(E & o2 & Ho2 & ->)]; try discriminate; auto.
  rewrite Ho1 in Ho2. injection Ho2 as <-. reflexivity.
Qed.

(* ------------------------------------------------------------------ effect of the index primitives on lookups *)
Lemma add_identifiable_HasId m p e w r w' :
  add_identifiable m p e w = Val (r, w') ->
  w_nodes w' = w_nodes w /\
  forall k j, HasId w' m k j <-> (k = p /\ j = e) \/ (k <> p /\ HasId w m k j).
Proof.
  intros H. apply modify_model_inv in H as (x & Hx & _ & ->). split; auto.
  intros k j. unfold HasId, wmodels; cbn [w_models].
  rewrite (nth_opt_list_set_eq _ _ (set_idents x (assoc_insert p e (m_idents x))) _ Hx).
  split.
  - intros (y & [= <-] & Hy). cbn in Hy. rewrite assoc_get_insert_cases in Hy.
    destruct (bytes_eqb p k) eqn:E.
    + apply bytes_eqb_spec in E. subst k. injection Hy as <-. auto.
    + right. split; [intros ->; rewrite bytes_eqb_refl in E; discriminate|]. eauto.
  - intros [(-> & ->)|(Hne & y & Hy & Hk)].
    + eexists. split; [reflexivity|]. cbn. apply assoc_get_insert_eq.
    + rewrite Hx in Hy. injection Hy as <-. eexists. split; [reflexivity|]. cbn.
      rewrite assoc_get_insert_neq; auto.
Qed.

Lemma add_reference_origin_HasId m p e w r w' :
  add_reference_origin m p e w = Val (r, w') ->
  w_nodes w' = w_nodes w /\ forall k j, HasId w' m k j <-> HasId w m k j.
Proof.
  intros H. apply modify_model_inv in H as (x & Hx & _ & ->). split; auto.
  intros k j. unfold HasId, wmodels; cbn [w_models].
  match goal with |- context [list_set _ _ ?y] => rewrite (nth_opt_list_set_eq _ _ y _ Hx) end.
  split.
  - intros (y & [= <-] & Hy). cbn in Hy. eauto.
  - intros (y & Hy & Hk). rewrite Hx in Hy. injection Hy as <-. eexists. split; [reflexivity|]. exact Hk.
Qed.

(* ------------------------------------------------------------------ the walk *)
(* entries the walk below i (prefix cur) is entitled to write *)
Definition J (cur : list N) (i : id) (w : world) (k : list N) (j : id) : Prop :=
  exists q, RPath T w i j q /\ IsIdent T w j /\ k = cur ++ q.

Definition WalkSpec (m : N) (cur : list N) (i : id) (w w' : world) : Prop :=
  w_nodes w' = w_nodes w /\
  (forall k j, HasId w' m k j -> HasId w m k j \/ J cur i w k j) /\
  (forall k j, HasId w m k j -> exists j', HasId w' m k j') /\
  (UniqueRel T w i -> forall k j, J cur i w k j -> HasId w' m k j).

Lemma HasId_fun w m k j1 j2 : HasId w m k j1 -> HasId w m k j2 -> j1 = j2.
Proof. intros (x & Hx & H1) (y & Hy & H2). rewrite Hx in Hy. injection Hy as <-. congruence. Qed.

(* the children: the union of the walks over the sub-elements listed in l *)
Definition JL (cur : list N) (l : list citem) (w : world) (k : list N) (j : id) : Prop :=
  exists c, In (CElem c) l /\ J cur c w k j.
Definition UniqueL (cur : list N) (l : list citem) (w : world) : Prop :=
  forall k j1 j2, JL cur l w k j1 -> JL cur l w k j2 -> j1 = j2.

Lemma rs_kids_ids m cur (rs : id -> W unit) w0 :
  (forall c w r w', w_nodes w = w_nodes w0 -> rs c w = Val (r, w') -> WalkSpec m cur c w w') ->
  (forall c, noer (rs c)) ->
  forall l w r w', w_nodes w = w_nodes w0 -> rs_kids rs l w = Val (r, w') ->
  w_nodes w' = w_nodes w /\
  (forall k j, HasId w' m k j -> HasId w m k j \/ JL cur l w0 k j) /\
  (forall k j, HasId w m k j -> exists j', HasId w' m k j') /\
  (UniqueL cur l w0 -> forall k j, JL cur l w0 k j -> HasId w' m k j).
Proof.
  intros Hrs Hok. induction l as [|[c|d] l IH]; intros w r w' Ew H; cbn [rs_kids] in H.
  - apply wret_inv in H as (_ & ->). split; auto. split; auto. split; eauto.
    intros _ k j (c & [] & _).
  - apply wbind_inv in H as [(u & w1 & E & H) | (e & E & _)].
    2: { apply Hok in E as (a & [=]). }
    destruct (Hrs _ _ _ _ Ew E) as (N1 & A1 & B1 & C1).
    assert (Ew1 : w_nodes w1 = w_nodes w0) by congruence.
    destruct (IH _ _ _ Ew1 H) as (N2 & A2 & B2 & C2).
    (* J over w and over w0 coincide: same nodes *)
    assert (JW : forall k j, J cur c w k j -> J cur c w0 k j).
    { intros k j (q & HP & HI & ->). exists q. split; [|split; [|reflexivity]].
      - eapply RPath_nodes; [symmetry; exact Ew | exact HP].
      - eapply IsIdent_nodes; [symmetry; exact Ew | exact HI]. }
    assert (JW' : forall k j, J cur c w0 k j -> J cur c w k j).
    { intros k j (q & HP & HI & ->). exists q. split; [|split; [|reflexivity]].
      - eapply RPath_nodes; [exact Ew | exact HP].
      - eapply IsIdent_nodes; [exact Ew | exact HI]. }
    split; [congruence|]. split; [|split].
    + intros k j Hk. destruct (A2 k j Hk) as [Hk1|(c' & Hc' & HJ)].
      * destruct (A1 k j Hk1) as [Hk0|HJ]; auto. right. exists c. split; [left; reflexivity|]. auto.
      * right. exists c'. split; [right; exact Hc'|exact HJ].
    + intros k j Hk. destruct (B1 k j Hk) as (j1 & Hj1). eapply B2; eauto.
    + intros HU k j (c' & Hc' & HJ).
      assert (HUc : UniqueRel T w c).
      { intros j1 j2 q P1 P2 I1 I2. apply (HU (cur ++ q)).
        - exists c. split; [left; reflexivity|]. apply JW. exists q. auto.
        - exists c. split; [left; reflexivity|]. apply JW. exists q. auto. }
      assert (HUl : UniqueL cur l w0).
      { intros k0 j1 j2 (c1 & H1 & J1) (c2 & H2 & J2). apply (HU k0); [exists c1|exists c2]; split; auto; right; auto. }
      destruct Hc' as [[= <-]|Hc'].
      * (* written by the walk over c, then kept by the walks over the rest *)
        pose proof (C1 HUc k j (JW' _ _ HJ)) as Hw1.
        destruct (B2 k j Hw1) as (j' & Hj').
        destruct (A2 k j' Hj') as [Hold|(c2 & Hc2 & HJ2)].
        -- rewrite (HasId_fun _ _ _ _ _ Hw1 Hold). exact Hj'.
        -- assert (j = j'). { apply (HU k); [exists c|exists c2]; split; auto; [left|right]; auto. }
           subst j'. exact Hj'.
      * apply (C2 HUl). exists c'. auto.
  - destruct (IH _ _ _ Ew H) as (N2 & A2 & B2 & C2). split; auto. split; [|split].
    + intros k j Hk. destruct (A2 k j Hk) as [?|(c' & Hc' & HJ)]; auto. right. exists c'. split; [right|]; auto.
    + exact B2.
    + intros HU k j (c' & [[=]|Hc'] & HJ). apply C2; [|exists c'; auto].
      intros k0 j1 j2 (c1 & H1 & J1) (c2 & H2 & J2). apply (HU k0); [exists c1|exists c2]; split; auto; right; auto.
Qed.

End RegId.
