(* Tree/Heap.v — the state of the data crate as one explicit heap ("world"):
     Element   = Arc<RwLock<ElementRaw>>    -> a node id; ElementRaw -> [node]
     ArxmlFile = Arc<RwLock<ArxmlFileRaw>>  -> a file id; index into [w_files]
     AutosarModel                           -> a model id; index into [w_models]
   Parent links are explicit (C03 is about both directions agreeing).  Weak references always upgrade: the
   correspondence harness keeps every handle it ever obtained, so nothing is ever deallocated (DESIGN.md section 5).
   MODEL ONLY: definitions, no proofs. *)
From AV Require Import Base.Bytes Base.Outcome.
From AV Require Export Spec.SpecOps.
Open Scope string_scope.
Open Scope list_scope.
Open Scope N_scope.

Definition id := N.

(* CharacterData *)
Inductive cdata := DEnum (item : N) | DString (s : list N) | DUInt (n : N) | DFloat (bits : N).

Inductive pref := PNone | PModel (m : N) | PElem (p : id).          (* ElementOrModel *)
Inductive citem := CElem (c : id) | CData (d : cdata).              (* ElementContent *)

Record node := mkNode {
  n_parent : pref;
  n_name : N;                      (* ElementName discriminant *)
  n_type : N * N;                  (* ElementType {def, typ} *)
  n_content : list citem;
  n_attrs : list (N * cdata);      (* (AttributeName, value) in insertion order *)
  n_files : list N;                (* file_membership: a set of file ids, kept sorted and duplicate-free *)
  n_comment : option (list N)
}.

Record file := mkFile { f_model : N; f_name : list N; f_version : N; f_standalone : option bool }.

Record model := mkModel {
  m_root : id;
  m_files : list N;                          (* Vec<ArxmlFile>, in Vec order (swap_remove) *)
  m_idents : list (list N * id);             (* IndexMap<String, WeakElement> in index order *)
  m_origins : list (list N * list id)        (* HashMap<String, Vec<WeakElement>>: key order is NOT observable *)
}.

Record world := mkWorld {
  w_nodes : id -> option node;
  w_next : id;                               (* ids < w_next are allocated *)
  w_files : list file;                       (* file id = position; files are never deallocated *)
  w_models : list model                      (* model id = position *)
}.

(* AutosarDataError variants (payloads are not modelled) *)
Inductive err :=
| ItemDeleted | ParentElementLocked | ElementNotIdentifiable | ItemNameRequired | IncorrectContentType
| ElementInsertionConflict | InvalidSubElement | ElementNotFound | ShortNameRemovalForbidden | NotReferenceElement
| InvalidReference | DuplicateItemName | ForbiddenMoveToSubElement | ForbiddenCopyOfParent | InvalidPosition
| VersionMismatch | VersionIncompatibleData | InvalidAttribute | InvalidAttributeValue | NoFilesInModel
| InvalidFile | FilesetModificationForbidden | DuplicateFilenameError | EmptyFile | InvalidFileMerge
| OverlappingDataError | LoadError.

(* result of a Rust function returning Result<A, AutosarDataError> *)
Inductive out (A : Type) := OK (a : A) | ER (e : err).
Arguments OK {A} a. Arguments ER {A} e.

(* a computation that reads and writes the world.  Pan = the Rust panics or (site "HANG...") blocks forever on a lock
   the same thread holds; Fuel = the model's recursion bound was hit (a cyclic parent chain: the Rust would loop). *)
Definition W (A : Type) := world -> res (out A * world).

Definition wret {A} (a : A) : W A := fun w => Val (OK a, w).
Definition wfail {A} (e : err) : W A := fun w => Val (ER e, w).
Definition wpanic {A} (s : string) : W A := fun _ => Pan s.
Definition wfuel {A} : W A := fun _ => Fuel.
(* the `?` operator: an error stops the computation but KEEPS the world as mutated so far *)
Definition wbind {A B} (m : W A) (f : A -> W B) : W B :=
  fun w => match m w with
           | Val (OK a, w') => f a w'
           | Val (ER e, w') => Val (ER e, w')
           | Pan s => Pan s
           | Fuel => Fuel
           end.
(* `let _ = f();` / `.ok()` : the error is discarded, the effects stay *)
Definition wtry {A} (m : W A) : W (option A) :=
  fun w => match m w with
           | Val (OK a, w') => Val (OK (Some a), w')
           | Val (ER _, w') => Val (OK None, w')
           | Pan s => Pan s
           | Fuel => Fuel
           end.
(* inspect the Result *)
Definition wcatch {A} (m : W A) : W (out A) :=
  fun w => match m w with
           | Val (r, w') => Val (OK r, w')
           | Pan s => Pan s
           | Fuel => Fuel
           end.
Definition wget : W world := fun w => Val (OK w, w).
Definition wput (w' : world) : W unit := fun _ => Val (OK tt, w').
Definition wlift {A} (r : res A) : W A :=
  fun w => match r with Val a => Val (OK a, w) | Pan s => Pan s | Fuel => Fuel end.
Definition wout {A} (o : out A) : W A := fun w => Val (o, w).

Declare Scope w_scope.
Delimit Scope w_scope with W.
Notation "'do' x '<-' m ';' k" := (wbind m (fun x => k))
  (at level 200, x name, m at level 100, k at level 200, right associativity) : w_scope.
Notation "'do' ' p '<-' m ';' k" := (wbind m (fun x => match x with p => k end))
  (at level 200, p pattern, m at level 100, k at level 200, right associativity) : w_scope.
Notation "m ';;' k" := (wbind m (fun _ => k)) (at level 100, k at level 200, right associativity) : w_scope.

(* ---------- heap primitives ---------- *)
Definition upd (f : id -> option node) (i : id) (n : node) : id -> option node :=
  fun x => if x =? i then Some n else f x.

Definition get_node (i : id) : W node :=
  fun w => match w_nodes w i with Some n => Val (OK n, w) | None => Pan "dangling node id" end.

Definition set_node (i : id) (n : node) : W unit :=
  fun w => Val (OK tt, mkWorld (upd (w_nodes w) i n) (w_next w) (w_files w) (w_models w)).

Definition alloc (n : node) : W id :=
  fun w => Val (OK (w_next w), mkWorld (upd (w_nodes w) (w_next w) n) (w_next w + 1) (w_files w) (w_models w)).

Definition modify_node (i : id) (f : node -> node) : W unit :=
  (do n <- get_node i; set_node i (f n))%W.

Definition set_parent n p := mkNode p (n_name n) (n_type n) (n_content n) (n_attrs n) (n_files n) (n_comment n).
Definition set_content n c := mkNode (n_parent n) (n_name n) (n_type n) c (n_attrs n) (n_files n) (n_comment n).
Definition set_attrs n a := mkNode (n_parent n) (n_name n) (n_type n) (n_content n) a (n_files n) (n_comment n).
Definition set_files n f := mkNode (n_parent n) (n_name n) (n_type n) (n_content n) (n_attrs n) f (n_comment n).
Definition set_comment n c := mkNode (n_parent n) (n_name n) (n_type n) (n_content n) (n_attrs n) (n_files n) c.

Definition get_model (m : N) : W model :=
  fun w => match nth_opt (w_models w) (N.to_nat m) with Some x => Val (OK x, w) | None => Pan "dangling model id" end.

Fixpoint list_set {A} (l : list A) (k : nat) (x : A) : list A :=
  match l, k with
  | [], _ => []
  | _ :: l', O => x :: l'
  | y :: l', S k' => y :: list_set l' k' x
  end.

Definition set_model (m : N) (x : model) : W unit :=
  fun w => Val (OK tt, mkWorld (w_nodes w) (w_next w) (w_files w) (list_set (w_models w) (N.to_nat m) x)).

Definition modify_model (m : N) (f : model -> model) : W unit :=
  (do x <- get_model m; set_model m (f x))%W.

Definition get_file (f : N) : W file :=
  fun w => match nth_opt (w_files w) (N.to_nat f) with Some x => Val (OK x, w) | None => Pan "dangling file id" end.

Definition set_file (f : N) (x : file) : W unit :=
  fun w => Val (OK tt, mkWorld (w_nodes w) (w_next w) (list_set (w_files w) (N.to_nat f) x) (w_models w)).

Definition set_root m r := mkModel r (m_files m) (m_idents m) (m_origins m).
Definition set_mfiles m f := mkModel (m_root m) f (m_idents m) (m_origins m).
Definition set_idents m i := mkModel (m_root m) (m_files m) i (m_origins m).
Definition set_origins m o := mkModel (m_root m) (m_files m) (m_idents m) o.

(* ---------- small list helpers (Vec / IndexMap / HashSet behaviour) ---------- *)
Fixpoint insert_at {A} (l : list A) (k : nat) (x : A) : list A :=
  match k, l with
  | O, _ => x :: l
  | S k', y :: l' => y :: insert_at l' k' x
  | S _, [] => [x]      (* not reached: callers check k <= length l (Vec::insert panics otherwise) *)
  end.

Fixpoint remove_at {A} (l : list A) (k : nat) : list A :=
  match l, k with
  | [], _ => []
  | _ :: l', O => l'
  | y :: l', S k' => y :: remove_at l' k'
  end.

(* Vec::swap_remove(k) on a list *)
Definition swap_remove_at {A} (l : list A) (k : nat) : list A :=
  match rev l with
  | [] => []
  | lst :: _ => if Nat.eqb (S k) (List.length l) then removelast l else removelast (list_set l k lst)
  end.

Fixpoint index_of {A} (p : A -> bool) (l : list A) : option nat :=
  match l with [] => None | x :: l' => if p x then Some O else option_map S (index_of p l') end.

(* sorted duplicate-free set of N *)
Fixpoint set_add (x : N) (l : list N) : list N :=
  match l with
  | [] => [x]
  | y :: l' => if x <? y then x :: l else if x =? y then l else y :: set_add x l'
  end.
Definition set_mem (x : N) (l : list N) : bool := existsb (N.eqb x) l.
Definition set_remove (x : N) (l : list N) : list N := filter (fun y => negb (y =? x)) l.
Definition is_empty {A} (l : list A) : bool := match l with [] => true | _ => false end.

Definition citem_is (c : id) (it : citem) : bool := match it with CElem x => x =? c | CData _ => false end.

(* String::strip_prefix *)
Fixpoint strip_prefix (pre s : list N) : option (list N) :=
  match pre, s with
  | [], _ => Some s
  | p :: pre', x :: s' => if p =? x then strip_prefix pre' s' else None
  | _ :: _, [] => None
  end.

Definition starts_with_slash (s : list N) : bool := match s with 47 :: _ => true | _ => false end.

(* IndexMap operations on the identifiables list *)
Fixpoint assoc_get {A} (k : list N) (l : list (list N * A)) : option A :=
  match l with [] => None | (k', a) :: l' => if bytes_eqb k' k then Some a else assoc_get k l' end.
(* insert: an existing key keeps its position and gets the new value, a new key goes last *)
Fixpoint assoc_insert {A} (k : list N) (a : A) (l : list (list N * A)) : list (list N * A) :=
  match l with
  | [] => [(k, a)]
  | (k', a') :: l' => if bytes_eqb k' k then (k', a) :: l' else (k', a') :: assoc_insert k a l'
  end.
Definition assoc_index {A} (k : list N) (l : list (list N * A)) : option nat :=
  index_of (fun e => bytes_eqb (fst e) k) l.
Definition assoc_swap_remove {A} (k : list N) (l : list (list N * A)) : list (list N * A) :=
  match assoc_index k l with Some i => swap_remove_at l i | None => l end.
(* HashMap::remove (order not observable: plain removal) *)
Definition assoc_remove {A} (k : list N) (l : list (list N * A)) : list (list N * A) :=
  filter (fun e => negb (bytes_eqb (fst e) k)) l.

(* u64 / i32 to decimal text (format!("{counter}")) *)
Fixpoint dec_aux (fuel : nat) (n : N) (acc : list N) : list N :=
  match fuel with
  | O => acc
  | S f => if n <? 10 then (48 + n) :: acc else dec_aux f (n / 10) ((48 + n mod 10) :: acc)
  end.
Definition to_dec (n : N) : list N := dec_aux 40 n [].
