(* Tree/FollowProofsOp2.v — C06 over the extended alphabet op2 (Tree/Script2.v).
     follow_frame w w'     what a reference is, says and designates is the same in the two worlds: the same live references
                           in every model, the same text of every reference, the same designated element, the same
                           "below" relation
     C06_op2_frame         sort, sort_model (agent-c14's `kept`, agent-c04's sx_* transfer), set_version,
                           check_version_compatibility, serialize (file / element): whatever they return, follow_frame
     C06_duplicate_refs    duplicate: the original's references are untouched; a reference of the COPY that resolves
                           resolves to an element of the copy (a node allocated by the call, reachable from the copy's
                           root), namely the copy's element at the path the text spells - i.e. at the path at which the
                           original's reference with the same text finds its target in the original; and Inv06 holds
                           in the result, so the rename / move theorems apply to the copy as well
     C06_history2_partial  Inv06 after every history over op2 from the empty world whose steps avoid the finding
                           classes of C03 / C04 / C05 and the one PENDING constructor: OpLoad (pending_op2)
     C06_after_history2    hence the clauses of a rename and the total case split of a move after such a history *)
From Coq Require Import Lia.
From AV Require Import Base.Bytes Base.Outcome Hash.HashModel Spec.SpecOps Tree.Heap Tree.Ops Tree.Script Tree.Script2
  Tree.Sort Tree.Copy Tree.Load Tree.Compat Tree.Serialize
  Tree.IndexProofsW Tree.Index Tree.IndexProofsBase Tree.IndexProofsFrame Tree.IndexProofs Tree.Refs Tree.RefsProofs Tree.RefsAll
  Tree.RefsProofsOps Tree.IndexProofsNodeInv Tree.IndexProofsAll Tree.SortProofsOrder Tree.SortProofsHeap Tree.SortProofsNames
  Tree.RefsProofsSetName Tree.IndexProofsFilesOps Tree.IndexProofsSort Tree.Inv Tree.InvProofs Tree.IndexProofsBridge Tree.IndexProofsDup Tree.IndexProofsOp2
  Tree.InvProofsReal Tree.InvProofsOp2 Tree.InvProofsOp2Lift Tree.InvLoad
  Tree.CopyProofsDefs Tree.CopyProofsDup Tree.CopyProofsBridge
  Tree.Follow Tree.FollowProofsPath Tree.FollowProofsRename Tree.FollowProofsMove Tree.FollowProofsAll.
Open Scope string_scope.
Open Scope list_scope.
Open Scope N_scope.

Section Op2.
Variable T : tables.
Variable tab_el tab_at tab_en : nametab.
Variable check_fn : N -> list N -> res bool.
Variable float_parse : list N -> option N.
Variable float_fmt : N -> list N.
Variable LATEST name_index name_definition_ref attr_schema_location : N.
Variable root_attrs : list (N * cdata).

Notation run2 := (run_op2 T tab_el tab_at tab_en check_fn float_parse float_fmt LATEST name_index name_definition_ref
                          attr_schema_location root_attrs).
Notation Inv06 := (Inv06 T check_fn).

Definition follow_frame (w w' : world) : Prop :=
  (forall m r, live_ref T w' m r <-> live_ref T w m r) /\
  (forall r, ref_text T w' r = ref_text T w r) /\
  (forall m r x, designates T w' m r x <-> designates T w m r x) /\
  (forall e x, below T w' e x <-> below T w e x).

Lemma follow_frame_refl w : follow_frame w w.
Proof. repeat split; auto. Qed.

Lemma designates_sv1 w w' m r x : SV w w' -> designates T w m r x -> designates T w' m r x.
Proof.
  intros HS (xm & p & Hxm & Hr & Hp). destruct (model_at_sv _ _ _ _ HS Hxm) as (x' & Hx' & Hv).
  exists x', p. split; [exact Hx'|]. split; [rewrite (ref_text_sv T w w' r (proj1 HS)); exact Hr|].
  unfold mview in Hv. assert (m_idents x' = m_idents xm) by congruence. congruence.
Qed.

Lemma below_nv1 w w' e x : NV w w' -> below T w e x -> below T w' e x.
Proof. intros HN (q & Hd). exists q. eapply dpath_sv; eauto. Qed.

Lemma follow_frame_sv w w' : SV w w' -> follow_frame w w'.
Proof.
  intros HS. pose proof (SV_sym _ _ HS) as HS'. split; [|split; [|split]].
  - intros m r. split; apply mreach_iv; apply SV_IV; assumption.
  - intros r. apply ref_text_sv. exact (proj1 HS).
  - intros m r x. split; apply designates_sv1; assumption.
  - intros e x. split; apply below_nv1; [exact (proj1 HS')|exact (proj1 HS)].
Qed.

(* ---------- sort *)
Lemma follow_frame_kept w w' : J5 T check_fn w -> kept T w w' -> NameFirst T w -> follow_frame w w'.
Proof.
  intros HJ HK NF. split; [|split; [|split]].
  - intros m r. apply (sx_mreach T check_fn w w' HJ HK NF).
  - intros r. apply (sx_ref_text T w w' HK).
  - intros m r x. unfold designates. rewrite (sx_ref_text T w w' HK r).
    split; intros (xm & p & Hxm & Hr & Hp); exists xm, p; (split; [|split; assumption]).
    + rewrite <- (sx_model_at T w w' HK m). exact Hxm.
    + rewrite (sx_model_at T w w' HK m). exact Hxm.
  - intros e x. unfold below, reach. split; intros (q & Hd); exists q; apply (sx_dpath T check_fn w w' HJ HK NF); exact Hd.
Qed.

Definition is_frame_op (o : op2) : bool :=
  match o with
  | OpSort _ | OpSortModel _ | OpSetVersion _ _ | OpCheckCompat _ _ | OpSerializeFile _ | OpSerializeElem _ => true
  | _ => false
  end.

Theorem C06_op2_frame o w r w' :
  MaskOk T -> Inv06 w -> is_frame_op o = true ->
  (match o with OpSort _ | OpSortModel _ => late_short T w = false | _ => True end) ->
  run2 o w = Val (r, w') -> follow_frame w w'.
Proof.
  intros MO HI Hf Hside H. pose proof HI as (HF & H4 & H5).
  destruct o; try discriminate Hf; cbn [run_op2] in H.
  - apply wmap2_inv in H as (r0 & H). pose proof (nolate_namefirst T w (late_short_false T w HF Hside)) as NF.
    apply follow_frame_kept; [exact HI| |exact NF]. eapply e_sort_kept; eauto.
  - apply wmap2_inv in H as (r0 & H). pose proof (nolate_namefirst T w (late_short_false T w HF Hside)) as NF.
    apply follow_frame_kept; [exact HI| |exact NF]. eapply m_sort_kept; eauto.
  - apply wmap2_inv in H as (r0 & H). destruct (set_version_frame _ _ _ _ _ _ H) as (E1 & E2).
    apply follow_frame_sv. apply SV_same; assumption.
  - assert (w' = w); [|subst; apply follow_frame_refl].
    apply wbind_inv in H as [((errs & mask) & w1 & E & H)|(e & E & _)]; [|exact (ro_check _ _ _ _ _ _ E)].
    apply ro_check in E. subst w1. apply wret_inv in H as (_ & ->). reflexivity.
  - apply wmap2_inv in H as (r0 & H). apply follow_frame_sv. eapply psv_f_serialize; eauto.
  - apply wmap2_inv in H as (r0 & H). apply ro_e_ser in H. subst. apply follow_frame_refl.
Qed.

(* ---------- duplicate *)
Lemma short_child_ext w w' n :
  (forall s rest, n_content n = CElem s :: rest -> w_nodes w' s = w_nodes w s) -> short_child T w' n = short_child T w n.
Proof.
  intros H. unfold short_child. destruct (n_content n) as [|[s|d] rest] eqn:E; try reflexivity. rewrite (H s rest eq_refl). reflexivity.
Qed.

Lemma seg_ext w w' i :
  TreeFacts w -> (forall j, j < w_next w -> w_nodes w' j = w_nodes w j) ->
  (exists n, w_nodes w i = Some n) -> seg T w' i = seg T w i.
Proof.
  intros HF Hsame (n & Hn). unfold seg. rewrite (Hsame i (tf_alloc _ HF _ _ Hn)), Hn.
  unfold seg_n, item_name_n. rewrite (short_child_ext w w' n); [reflexivity|].
  intros s rest E. apply Hsame. destruct (tf_up _ HF i s) as (cn & Hcn & _).
  { exists n. split; [exact Hn|]. rewrite E. left. reflexivity. }
  exact (tf_alloc _ HF _ _ Hcn).
Qed.

Lemma dpath_ext w w' a i q :
  TreeFacts w -> (forall j, j < w_next w -> w_nodes w' j = w_nodes w j) ->
  (exists n, w_nodes w a = Some n) -> dpath T w a i q -> dpath T w' a i q.
Proof.
  intros HF Hsame Ha Hd.
  apply (dpath_fwd T (fun j => exists n, w_nodes w j = Some n) w w'); [|exact Ha|exact Hd].
  intros p c (pn & Hpn) (pn' & Hpn' & Hin). assert (pn' = pn) by congruence. subst pn'.
  destruct (tf_up _ HF p c) as (cn & Hcn & _); [exists pn; auto|].
  split; [|split].
  - exists pn. split; [|exact Hin]. rewrite (Hsame p (tf_alloc _ HF _ _ Hpn)). exact Hpn.
  - eauto.
  - apply seg_ext; eauto.
Qed.

Lemma dpath_Sub w a i q : dpath T w a i q -> Sub w a i.
Proof. induction 1 as [|p c q Hp IH (n & Hn & Hin)]; [constructor|]. eapply Sub_step; eauto. Qed.

Lemma ref_text_ext w w' r p :
  TreeFacts w -> (forall j, j < w_next w -> w_nodes w' j = w_nodes w j) -> ref_text T w r = Some p -> ref_text T w' r = Some p.
Proof.
  intros HF Hsame H. unfold ref_text in *. destruct (w_nodes w r) as [n|] eqn:Hn; [|discriminate].
  rewrite (Hsame r (tf_alloc _ HF _ _ Hn)), Hn. exact H.
Qed.

Hypothesis TK : TablesOK T check_fn.
Hypothesis RootTy : forall ty, et_new T (autosar_element T) = Val ty -> plainty T ty.

Theorem C06_duplicate_refs m w c w' :
  TreeInv w -> Inv06 w -> RX T w ->
  dup_clean T tab_el tab_en check_fn LATEST root_attrs w m = true ->
  m_duplicate T tab_el tab_en check_fn LATEST root_attrs m w = Val (OK c, w') ->
  (* the invariants hold again: the rename / move theorems apply in the result, in the original and in the copy *)
  Inv06 w' /\ TreeInv w' /\ RX T w' /\
  (* the original (every old model) is untouched *)
  (forall m0 r, live_ref T w m0 r -> live_ref T w' m0 r) /\
  (forall r p, ref_text T w r = Some p -> ref_text T w' r = Some p) /\
  (forall m0 r x, designates T w m0 r x -> designates T w' m0 r x) /\
  (* a reference of the copy that resolves, resolves INSIDE the copy, to the element at the path its text spells *)
  (forall r' x', live_ref T w' c r' -> designates T w' c r' x' ->
     live_ref T w' c x' /\ w_next w <= x' /\ exists p, ref_text T w' r' = Some p /\ SpecPath T w' c x' p) /\
  (* ... which is the path of the original's target: equal texts designate elements with equal paths, the one in the
     original, the other in the copy *)
  (forall r x r' x' p, ref_text T w r = Some p -> ref_text T w' r' = Some p ->
     designates T w m r x -> designates T w' c r' x' -> SpecPath T w m x p /\ SpecPath T w' c x' p /\ x < w_next w <= x').
Proof.
  intros HT (HF & H4 & H5) HX Hc H.
  destruct (C45_duplicate T tab_el tab_en check_fn LATEST root_attrs TK RootTy m w (OK c) w' (conj HT (conj H4 (conj H5 HX))) Hc H)
    as (H4' & H5' & HX' & HT'). specialize (HT' c eq_refl). pose proof (treeinv_treefacts w' HT') as HF'.
  destruct (duplicate_spec T tab_el tab_en check_fn LATEST root_attrs m w (OK c) w') as (Hsame & Hnext & _ & Hmods & HD).
  { apply Core_Closed. exact (proj1 HT). }
  { intros x Hx. destruct (tf_roots _ HF m x Hx) as (n & Hn & _). eauto. }
  { exact H. }
  destruct HD as (Hcnum & x0 & rn & xc & rc & Hx0 & Hrn & Hxc & Hrootc & Hrc & _ & _ & _ & HFK & HCl & Hsub).
  assert (Hmod : forall m0 xm, model_at w m0 = Some xm -> model_at w' m0 = Some xm).
  { intros m0 xm Hxm. unfold model_at in *. rewrite <- Hmods in Hxm. eapply nth_opt_firstn; eauto. }
  assert (Hin_copy : forall x', MReach T w' c x' -> w_next w <= x').
  { intros x' (xc' & Hxc' & (q & Hd)). unfold model_at in Hxc'. assert (xc' = xc) by congruence. subst xc'.
    rewrite Hrootc in Hd. apply Hsub. eapply dpath_Sub; eauto. }
  split; [split; [exact HF'|split; assumption]|]. split; [exact HT'|]. split; [exact HX'|].
  split.
  { intros m0 r (xm & Hxm & (q & Hd)). exists xm. split; [apply Hmod; exact Hxm|]. exists q.
    apply (dpath_ext w w' (m_root xm) r q HF Hsame); [|exact Hd]. destruct (tf_roots _ HF m0 xm Hxm) as (n & Hn & _). eauto. }
  split; [intros r p Hr; exact (ref_text_ext w w' r p HF Hsame Hr)|].
  split.
  { intros m0 r x (xm & p & Hxm & Hr & Hp). exists xm, p. split; [apply Hmod; exact Hxm|]. split; [exact (ref_text_ext w w' r p HF Hsame Hr)|exact Hp]. }
  split.
  { intros r' x' Hl (xm & p & Hxm & Hr & Hp).
    apply (i4_exact _ _ _ H4' c xm Hxm) in Hp as (Hp1 & Hp2 & Hp3).
    split; [exact Hp1|]. split; [apply Hin_copy; exact Hp1|]. exists p. auto. }
  intros r x r' x' p Hr Hr' (xm & p1 & Hxm & Hr1 & Hp1) (xm' & p2 & Hxm' & Hr2 & Hp2).
  assert (p1 = p) by congruence. assert (p2 = p) by congruence. subst p1 p2.
  apply (i4_exact _ _ _ H4 m xm Hxm) in Hp1 as (A1 & A2 & A3).
  apply (i4_exact _ _ _ H4' c xm' Hxm') in Hp2 as (B1 & B2 & B3).
  split; [exact A3|]. split; [exact B3|]. split; [|apply Hin_copy; exact B1].
  destruct (mreach_alloc T w m x HF A1) as (nx & Hnx). exact (tf_alloc _ HF _ _ Hnx).
Qed.

(* ---------- histories over op2 *)
Hypothesis RC : RefChars T.
Hypothesis MO : MaskOk T.

Notation Known_real2 := (Known_real2 T tab_el tab_at tab_en check_fn float_parse float_fmt LATEST name_index name_definition_ref
                                     attr_schema_location root_attrs).
Notation Side45_2 := (Side45_2 T tab_el tab_en check_fn LATEST root_attrs).
Notation run_hist2 := (run_hist2 T tab_el tab_at tab_en check_fn float_parse float_fmt LATEST name_index name_definition_ref
                                 attr_schema_location root_attrs).

(* the invariant carried along: C03's RealInv (TreeInv, character leaves, referrer entries are references), C04's Inv04,
   C05's Inv05 and the node invariant RX *)
Definition J06 (w : world) : Prop := RealInv T w /\ Inv04 T check_fn w /\ Inv05 T w /\ RX T w.

(* every step: not the PENDING constructor (pending_op2 = OpLoad), not in a finding class of C03 (Known_real2: a move / copy
   that fails after re-parenting, a duplicate that fails half-way), and the side conditions of C04/C05 (Side45_2: their
   finding classes for the 26 constructors, no late SHORT-NAME for the sorts, dup_clean for duplicate) *)
Fixpoint steps06_2 (l : list op2) (w : world) : Prop :=
  match l with
  | [] => True
  | o :: rest =>
    pending_op2 o = false /\ Known_real2 w o = false /\ Side45_2 w o /\
    match run2 o w with Val (_, w') => steps06_2 rest w' | _ => True end
  end.

Lemma J06_step o w r w' :
  J06 w -> pending_op2 o = false -> Known_real2 w o = false -> Side45_2 w o -> run2 o w = Val (r, w') -> J06 w'.
Proof.
  intros (HR & H4 & H5 & HX) Hp HK HS H.
  assert (HR' : RealInv T w').
  { eapply (RealInv_step2_partial T tab_el tab_at tab_en check_fn float_parse float_fmt LATEST name_index name_definition_ref
                                  attr_schema_location root_attrs o w r w'); eauto. }
  assert (Hp3 : Pending45_3 o = false) by (destruct o; try reflexivity; discriminate Hp).
  destruct (C45_inv2 T tab_el tab_at tab_en check_fn float_parse float_fmt LATEST name_index name_definition_ref
                     attr_schema_location root_attrs TK RootTy MO w o r w' (proj1 HR) H4 H5 HX HS Hp3 H) as (A & B & C).
  split; [exact HR'|]. split; [exact A|]. split; [exact B|exact C].
Qed.

Lemma J06_history l : forall w w', J06 w -> steps06_2 l w -> run_hist2 l w = Val w' -> J06 w'.
Proof.
  induction l as [|o rest IH]; intros w w' HJ Hok H; cbn [IndexProofsOp2.run_hist2 steps06_2] in *.
  - injection H as <-. exact HJ.
  - destruct Hok as (Hp & HK & HS & Hrest). destruct (run2 o w) as [[r w1]| |] eqn:E; try discriminate H.
    eapply IH; [|exact Hrest|exact H]. eapply J06_step; eauto.
Qed.

Lemma J06_empty : J06 empty_world.
Proof.
  split; [apply RealInv_empty|]. split; [apply Inv04_empty|]. split; [apply Inv05_empty|]. intros i n Hn. discriminate Hn.
Qed.

Lemma J06_Inv06 w : J06 w -> Inv06 w.
Proof. intros ((HT & _) & H4 & H5 & _). split; [apply treeinv_treefacts; exact HT|]. split; assumption. Qed.

Theorem C06_history2_partial l w :
  steps06_2 l empty_world -> run_hist2 l empty_world = Val w -> Inv06 w /\ TreeInv w /\ RX T w.
Proof.
  intros Hok H. pose proof (J06_history l empty_world w J06_empty Hok H) as HJ.
  split; [apply J06_Inv06; exact HJ|]. destruct HJ as ((HT & _) & _ & _ & HX). split; assumption.
Qed.

(* after such a history: the clauses of a rename, the total case split of a move, the frame of the read-only / sorting
   operations, and the duplicate theorem all apply *)
Theorem C06_after_history2 l w o v w' :
  steps06_2 l empty_world -> run_hist2 l empty_world = Val w ->
  run_op T tab_el tab_en check_fn LATEST root_attrs o w = Val (OK v, w') ->
  (forall h nn, o = OpSetItemName h nn -> rename_clauses T w w' h) /\
  (forall h mv, (o = OpMove h mv \/ exists pos, o = OpMoveAt h mv pos) ->
     move_clauses T w w' h mv \/
     (exists m, model_of h w = Val (OK m, w) /\ model_of mv w = Val (OK m, w) /\
                identifiable T w mv = false /\ collision06 T w h mv = true)).
Proof.
  intros Hok Hr H. destruct (C06_history2_partial l w Hok Hr) as (HI & _).
  split.
  - intros h nn ->. eapply C06_rename_op; eauto.
  - intros h mv Ho. eapply C06_move_total; eauto.
Qed.

End Op2.
