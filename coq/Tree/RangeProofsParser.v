(* Tree/RangeProofsParser.v — C07: the two predicates of Tree/Range.v that define LoaderAccepts are exactly "the parser model's
   check raises nothing": when Range.choice_conflict / Range.too_many say `Some false`, Xml/Parser.v check_element_conflict /
   check_multiplicity return without a warning and without touching the parser state (strict or lenient), for every state. *)
From AV Require Import Base.Bytes Base.Outcome Hash.HashModel Spec.SpecOps Tree.Range Tree.RangeProofsPath.
From AV Require Xml.Parser.
Open Scope list_scope.
Open Scope N_scope.

Lemma parser_list_eqbN_ix a b : Parser.list_eqbN a b = ix_eqb a b.
Proof. revert b. induction a as [|x a IH]; intros [|y b]; cbn [Parser.list_eqbN ix_eqb]; try reflexivity; try (rewrite IH; reflexivity). Qed.

Section Bridge.
Variable strict : bool.
Variable T : tables.

(* the names the parser has seen so far, as Range.v abstracts them *)
Definition seen_of (content : list (Parser.etree + Parser.cdata)) : list (option N) :=
  map (fun c => match c with inl e => Some (Parser.e_name e) | inr _ => None end) content.

Lemma check_element_conflict_quiet name ty prev ix st :
  choice_conflict T ty prev ix = Some false ->
  Parser.check_element_conflict strict T name ty prev ix st = Val (Parser.Ret tt st).
Proof.
  unfold choice_conflict, Parser.check_element_conflict. destruct prev as [|p0 prev']; [reflexivity|].
  change (Parser.list_eqbN (p0 :: prev') ix) with (ix_eqb (p0 :: prev') ix). destruct (ix_eqb (p0 :: prev') ix); [reflexivity|].
  unfold Parser.mbind, Parser.lift. destruct (find_common_group T ty (p0 :: prev') ix) as [g| |]; try discriminate.
  unfold group_mode. destruct (dt T g) as [d| |]; try discriminate.
  destruct (dt_mode d =? MCharacters) eqn:EC; [discriminate|].
  destruct (dt_mode d =? MChoice) eqn:ECh; [discriminate|]. reflexivity.
Qed.

Lemma existsb_seen name content :
  existsb (fun c : Parser.etree + Parser.cdata => match c with inl e => Parser.e_name e =? name | inr _ => false end) content =
  existsb (fun s : option N => match s with Some n => n =? name | None => false end) (seen_of content).
Proof. induction content as [|[e|d] r IH]; cbn [existsb seen_of map]; [reflexivity| |]; rewrite IH; reflexivity. Qed.

Lemma check_multiplicity_quiet name ty ix content st :
  content <> [] ->
  too_many T ty ix name (seen_of content) = Some false ->
  Parser.check_multiplicity strict T name ty ix content st = Val (Parser.Ret tt st).
Proof.
  intros NE. unfold too_many, Parser.check_multiplicity.
  destruct content as [|c0 content']; [congruence|]. cbn [seen_of map].
  change (match c0 with inl e => Some (Parser.e_name e) | inr _ => None end :: map _ content') with (seen_of (c0 :: content')).
  unfold Parser.mbind, Parser.lift.
  destruct (get_sub_element_container_mode T ty ix) as [m| |]; try discriminate.
  destruct ((m =? MSequence) || (m =? MChoice)); [|reflexivity].
  destruct (get_sub_element_multiplicity T ty ix) as [[mu|]| |]; try discriminate; [|reflexivity].
  intros H. rewrite (existsb_seen name (c0 :: content')).
  match type of H with Some ?b = Some false => assert (E : b = false) by congruence; rewrite E end. reflexivity.
Qed.

End Bridge.

Lemma loader_checks_quiet :
  forall (strict : bool) (T : tables) (name : N) (ty : etype) (prev ix : list N)
         (content : list (Parser.etree + Parser.cdata)) (st : Parser.pstate),
  (choice_conflict T ty prev ix = Some false ->
   Parser.check_element_conflict strict T name ty prev ix st = Val (Parser.Ret tt st)) /\
  (content <> [] -> too_many T ty ix name (seen_of content) = Some false ->
   Parser.check_multiplicity strict T name ty ix content st = Val (Parser.Ret tt st)).
Proof.
  intros. split; [apply check_element_conflict_quiet | apply check_multiplicity_quiet].
Qed.
