(* Tree/InvProofsTree.v — C03 proofs: pure facts about a world that satisfies Core: ancestors and depths, the bound
   on the length of parent chains (fuel of the upward walks), the list of nodes below a node, its disjointness
   and closure properties (fuel of the downward walks). *)
From Coq Require Import PeanoNat Arith FinFun.
From AV Require Import Base.Bytes Base.Outcome Hash.HashModel Tree.Heap Tree.Ops Tree.Script Tree.Inv
  Tree.InvProofsBase Tree.InvProofsCore.
Open Scope string_scope.
Open Scope list_scope.
Open Scope N_scope.

(* ------------------------------------------------------------------ ancestors and depth *)
Lemma par_depth w x p h : par w x p -> Depth w x h -> exists h', h = S h' /\ Depth w p h'.
Proof.
  intros (n & Hn & Hp) Hd. destruct Hd as [x n' Hn' Ht | x n' p' h' Hn' Hp' Hd].
  - exfalso. rewrite Hn in Hn'. injection Hn' as <-. eapply Ht; eauto.
  - rewrite Hn in Hn'. injection Hn' as <-. rewrite Hp in Hp'. injection Hp' as <-. eauto.
Qed.

Lemma ancs_depth_le w a x : AncS w a x -> forall ha hx, Depth w a ha -> Depth w x hx -> (ha <= hx)%nat.
Proof.
  induction 1 as [|x p Hp Ha IH]; intros ha hx Da Dx.
  - rewrite (depth_fun _ _ _ Da _ Dx). auto.
  - destruct (par_depth _ _ _ _ Hp Dx) as (h' & -> & Dp). specialize (IH _ _ Da Dp). lia.
Qed.

Lemma ancs_same_depth w a b x h : AncS w a x -> AncS w b x -> Depth w a h -> Depth w b h -> a = b.
Proof.
  intros Ha. revert b. induction Ha as [|x p Hp Ha IH]; intros b Hb Da Db.
  - destruct Hb as [|a' p Hp Hb]; auto.
    destruct (par_depth _ _ _ _ Hp Da) as (h' & -> & Dp).
    pose proof (ancs_depth_le _ _ _ Hb _ _ Db Dp). lia.
  - destruct Hb as [|x' p' Hp' Hb].
    + destruct (par_depth _ _ _ _ Hp Db) as (h' & -> & Dp).
      pose proof (ancs_depth_le _ _ _ Ha _ _ Da Dp). lia.
    + rewrite (par_fun _ _ _ _ Hp' Hp) in Hb. auto.
Qed.

Lemma ancs_trans w a b x : AncS w a b -> AncS w b x -> AncS w a x.
Proof. intros Hab Hbx. induction Hbx; auto. eapply A_up; eauto. Qed.

(* a node is not its own proper ancestor *)
Lemma ancs_par_irrefl w c p : (exists h, Depth w c h) -> par w c p -> ~ AncS w c p.
Proof.
  intros (h & Dc) Hp Ha. destruct (par_depth _ _ _ _ Hp Dc) as (h' & -> & Dp).
  pose proof (ancs_depth_le _ _ _ Ha _ _ Dc Dp). lia.
Qed.

(* ------------------------------------------------------------------ chains are shorter than w_next *)
Lemma nodup_bounded (l : list N) (n : N) : NoDup l -> (forall y, In y l -> y < n) -> (List.length l <= N.to_nat n)%nat.
Proof.
  intros Hnd Hb.
  assert (H : incl (map N.to_nat l) (seq 0 (N.to_nat n))).
  { intros k Hk. apply in_map_iff in Hk as (y & <- & Hy). apply in_seq. specialize (Hb _ Hy). lia. }
  apply NoDup_incl_length in H.
  - rewrite map_length, seq_length in H. exact H.
  - apply FinFun.Injective_map_NoDup; auto. intros a b. apply N2Nat.inj.
Qed.

Lemma depth_chain w x h :
  (forall i, allocated w i -> i < w_next w) -> Depth w x h ->
  exists l, List.length l = S h /\ NoDup l /\ forall y, In y l -> y < w_next w /\ exists hy, Depth w y hy /\ (hy <= h)%nat.
Proof.
  intros Hal Hd. induction Hd as [x n Hn Ht | x n p h Hn Hp Hd IH].
  - exists [x]. split; auto. split; [repeat constructor; auto|].
    intros y [<-|[]]. split; [apply Hal; eexists; eauto|]. exists O. split; auto. eapply D_top; eauto.
  - destruct IH as (l & Hlen & Hnd & Hl). exists (x :: l). split; [cbn; lia|]. split.
    + constructor; auto. intros Hx. destruct (Hl _ Hx) as (_ & hy & Dy & Hle).
      assert (Dx : Depth w x (S h)) by (eapply D_step; eauto).
      pose proof (depth_fun _ _ _ Dx _ Dy). lia.
    + intros y [<-|Hy].
      * split; [apply Hal; eexists; eauto|]. exists (S h). split; auto. eapply D_step; eauto.
      * destruct (Hl _ Hy) as (? & hy & ? & ?). split; auto. exists hy. split; auto.
Qed.

Lemma depth_bound w x h : Core w -> Depth w x h -> (S h <= N.to_nat (w_next w))%nat.
Proof.
  intros C Hd. destruct (depth_chain w x h) as (l & Hlen & Hnd & Hl); auto.
  - intros i Hi. apply C. auto.
  - rewrite <- Hlen. apply nodup_bounded; auto. intros y Hy. apply Hl. auto.
Qed.

(* ------------------------------------------------------------------ the nodes below a node *)
Fixpoint subl (f : nat) (w : world) (i : id) : list id :=
  match f with
  | O => [i]
  | S f' => i :: match w_nodes w i with Some n => flat_map (subl f' w) (kids n) | None => [] end
  end.

Lemma subl_self f w i : In i (subl f w i).
Proof. destruct f; cbn; auto. Qed.

Lemma subl_ancs f w : Core w -> forall i x, In x (subl f w i) -> AncS w i x.
Proof.
  intros C. induction f as [|f IH]; intros i x Hx; cbn in Hx.
  - destruct Hx as [<-|[]]. constructor.
  - destruct Hx as [<-|Hx]; [constructor|]. destruct (w_nodes w i) as [n|] eqn:Hn; [|destruct Hx].
    apply in_flat_map in Hx as (c & Hc & Hx). apply IH in Hx.
    eapply ancs_trans; [|exact Hx]. eapply A_up; [|constructor]. apply C. exists n; auto.
Qed.

Lemma subl_alloc f w : Core w -> forall i x, allocated w i -> In x (subl f w i) -> allocated w x.
Proof.
  intros C. induction f as [|f IH]; intros i x Hi Hx; cbn in Hx.
  - destruct Hx as [<-|[]]. auto.
  - destruct Hx as [<-|Hx]; auto. destruct (w_nodes w i) as [n|] eqn:Hn; [|destruct Hx].
    apply in_flat_map in Hx as (c & Hc & Hx). eapply IH; [|exact Hx].
    assert (Hl : lists w i c) by (exists n; auto). apply C in Hl as (nc & Hnc & _). exists nc; auto.
Qed.

(* two different children of the same node have disjoint sub-lists; the node itself is in none of them *)
Lemma subl_disjoint f w p c1 c2 x :
  Core w -> lists w p c1 -> lists w p c2 -> c1 <> c2 -> In x (subl f w c1) -> In x (subl f w c2) -> False.
Proof.
  intros C H1 H2 Hne Hx1 Hx2. apply subl_ancs in Hx1; auto. apply subl_ancs in Hx2; auto.
  apply C in H1. apply C in H2.
  assert (allocated w c1) as A1 by (destruct H1 as (n & ? & _); eexists; eauto).
  destruct (c_depth _ C _ A1) as (h1 & D1).
  destruct (par_depth _ _ _ _ H1 D1) as (h' & -> & Dp).
  assert (D2 : Depth w c2 (S h')).
  { destruct H2 as (n2 & Hn2 & Hp2). eapply D_step; eauto. }
  apply Hne. eapply ancs_same_depth; eauto.
Qed.

Lemma subl_not_parent f w p c : Core w -> lists w p c -> ~ In p (subl f w c).
Proof.
  intros C Hl Hin. apply subl_ancs in Hin; auto. apply C in Hl.
  eapply ancs_par_irrefl; eauto. apply C. destruct Hl as (n & ? & _). eexists; eauto.
Qed.

Lemma NoDup_app_intro {A} (a b : list A) :
  NoDup a -> NoDup b -> (forall x, In x a -> In x b -> False) -> NoDup (a ++ b).
Proof.
  induction a as [|y a IH]; intros Ha Hb Hd; cbn; auto.
  inversion Ha; subst. constructor.
  - rewrite in_app_iff. intros [H|H]; auto. eapply Hd; eauto. left; auto.
  - apply IH; auto. intros x Hx. apply Hd. right; auto.
Qed.

Lemma NoDup_flat_map {A B} (g : A -> list B) (l : list A) :
  NoDup l -> (forall a, In a l -> NoDup (g a)) ->
  (forall a b x, In a l -> In b l -> a <> b -> In x (g a) -> In x (g b) -> False) ->
  NoDup (flat_map g l).
Proof.
  induction l as [|a l IH]; intros Hnd Hg Hdis; cbn; [constructor|].
  inversion Hnd; subst. apply NoDup_app_intro.
  - apply Hg. left; auto.
  - apply IH; auto.
    + intros b Hb. apply Hg. right; auto.
    + intros b c x Hb Hc. apply Hdis; right; auto.
  - intros x Hx Hx'. apply in_flat_map in Hx' as (b & Hb & Hx').
    eapply (Hdis a b x); eauto; [left; auto | right; auto | intros ->; auto].
Qed.

Lemma subl_nodup w : Core w -> forall f i, NoDup (subl f w i).
Proof.
  intros C. induction f as [|f IH]; intros i; cbn.
  - repeat constructor. auto.
  - destruct (w_nodes w i) as [n|] eqn:Hn; [|repeat constructor; auto]. constructor.
    + intros Hin. apply in_flat_map in Hin as (c & Hc & Hin).
      eapply (subl_not_parent f w i c); eauto. exists n; auto.
    + apply NoDup_flat_map; auto.
      * eapply c_nodup; eauto.
      * intros a b x Ha Hb Hab. apply (subl_disjoint f w i a b x); auto; exists n; auto.
Qed.

(* every member except the top is listed by a member *)
Lemma subl_up w : forall f i c, In c (subl f w i) -> c <> i -> exists p, In p (subl f w i) /\ lists w p c.
Proof.
  induction f as [|f IH]; intros i c Hc Hne; cbn in Hc.
  - destruct Hc as [<-|[]]. congruence.
  - destruct Hc as [<-|Hc]; [congruence|]. destruct (w_nodes w i) as [n|] eqn:Hn; [|destruct Hc].
    apply in_flat_map in Hc as (c' & Hc' & Hc). destruct (N.eq_dec c c') as [->|Hcc].
    + exists i. split; [apply subl_self|]. exists n; auto.
    + destruct (IH _ _ Hc Hcc) as (p & Hp & Hl). exists p. split; auto.
      cbn. rewrite Hn. right. apply in_flat_map. eauto.
Qed.

(* the fuel f is enough to reach every node below i *)
Definition enough (w : world) (i : id) (f : nat) : Prop :=
  exists h, Depth w i h /\ (N.to_nat (w_next w) <= h + f)%nat.

Lemma enough_top w i : Core w -> allocated w i -> enough w i (N.to_nat (w_next w)).
Proof. intros C Ha. destruct (c_depth _ C _ Ha) as (h & Hd). exists h. split; auto. lia. Qed.

Lemma enough_kid w i c f : Core w -> enough w i f -> lists w i c -> exists f', f = S f' /\ enough w c f'.
Proof.
  intros C (h & Hd & Hf) Hl. apply C in Hl. destruct Hl as (n & Hn & Hp).
  assert (Dc : Depth w c (S h)) by (eapply D_step; eauto).
  pose proof (depth_bound _ _ _ C Dc). destruct f as [|f']; [lia|].
  exists f'. split; auto. exists (S h). split; auto. lia.
Qed.

Lemma enough_leaf w i n : Core w -> enough w i 0 -> w_nodes w i = Some n -> kids n = [].
Proof.
  intros C He Hn. destruct (kids n) as [|c l] eqn:Hk; auto.
  assert (Hl : lists w i c) by (exists n; rewrite Hk; split; auto; left; auto).
  destruct (enough_kid _ _ _ _ C He Hl) as (f' & [=] & _).
Qed.

Lemma subl_closed w : Core w -> forall f i, enough w i f ->
  forall p c, In p (subl f w i) -> lists w p c -> In c (subl f w i).
Proof.
  intros C. induction f as [|f IH]; intros i He p c Hp Hl; cbn in Hp.
  - destruct Hp as [<-|[]]. destruct (enough_kid _ _ _ _ C He Hl) as (f' & [=] & _).
  - cbn. destruct Hp as [<-|Hp].
    + destruct Hl as (n & Hn & Hc). rewrite Hn. right. apply in_flat_map. exists c. split; auto. apply subl_self.
    + destruct (w_nodes w i) as [n|] eqn:Hn; [|destruct Hp]. right.
      apply in_flat_map in Hp as (c' & Hc' & Hp). apply in_flat_map. exists c'. split; auto.
      assert (Hl' : lists w i c') by (exists n; auto).
      destruct (enough_kid _ _ _ _ C He Hl') as (f' & [= <-] & He'). eapply IH; eauto.
Qed.

Lemma reach_trans w a b c : Reach w a b -> Reach w b c -> Reach w a c.
Proof. intros Hab Hbc. induction Hbc; auto. eapply R_kid; eauto. Qed.

Lemma subl_reach w f i x : Core w -> allocated w i -> enough w i f -> (In x (subl f w i) <-> Reach w i x).
Proof.
  intros C Ha He. split.
  - revert i x Ha He. induction f as [|f IH]; intros i x Ha He Hx; cbn in Hx.
    + destruct Hx as [<-|[]]. constructor; auto.
    + destruct Hx as [<-|Hx]; [constructor; auto|]. destruct (w_nodes w i) as [n|] eqn:Hn; [|destruct Hx].
      apply in_flat_map in Hx as (c & Hc & Hx). assert (Hl : lists w i c) by (exists n; auto).
      destruct (enough_kid _ _ _ _ C He Hl) as (f' & [= <-] & He').
      eapply reach_trans; [eapply R_kid; [constructor; auto|exact Hl]|].
      apply IH; auto. apply C in Hl. destruct Hl as (nc & ? & _). eexists; eauto.
  - intros Hr. induction Hr as [|p c Hr IH Hl]; [apply subl_self|]. eapply subl_closed; eauto.
Qed.

(* ------------------------------------------------------------------ the structural pre-order *)
Lemma subl_pre w : Core w -> forall f i, allocated w i -> enough w i f -> Pre w i (subl f w i).
Proof.
  intros C. induction f as [|f IH]; intros i (n & Hn) He.
  - cbn. pose proof (enough_leaf _ _ _ C He Hn) as Hk.
    change [i] with (i :: List.concat []). econstructor; eauto. rewrite Hk. constructor.
  - cbn. rewrite Hn. rewrite flat_map_concat_map. econstructor; eauto.
    assert (Hall : forall c, In c (kids n) -> Pre w c (subl f w c)).
    { intros c Hc. assert (Hl : lists w i c) by (exists n; auto).
      destruct (enough_kid _ _ _ _ C He Hl) as (f' & [= <-] & He'). apply IH; auto.
      apply C in Hl. destruct Hl as (nc & ? & _). eexists; eauto. }
    clear Hn. induction (kids n) as [|c l IHl]; cbn; constructor.
    + apply Hall. left; auto.
    + apply IHl. intros c' Hc'. apply Hall. right; auto.
Qed.

Lemma pre_unique_subl w : Core w -> forall f i l, enough w i f -> Pre w i l -> l = subl f w i.
Proof.
  intros C. induction f as [|f IH]; intros i l He Hp; destruct Hp as [i n ls Hn Hf].
  - cbn. pose proof (enough_leaf _ _ _ C He Hn) as Hk. rewrite Hk in Hf. inversion Hf. reflexivity.
  - cbn. rewrite Hn. f_equal. rewrite flat_map_concat_map. f_equal.
    assert (Hall : forall c, In c (kids n) -> enough w c f).
    { intros c Hc. assert (Hl : lists w i c) by (exists n; auto).
      destruct (enough_kid _ _ _ _ C He Hl) as (f' & [= <-] & He'). auto. }
    clear Hn. induction Hf as [|c l0 ks ls0 Hc Hf IHf]; cbn; auto. f_equal.
    + apply IH; auto. apply Hall. left; auto.
    + apply IHf. intros c' Hc'. apply Hall. right; auto.
Qed.

Lemma pre_unique w i l l' : Core w -> Pre w i l -> Pre w i l' -> l = l'.
Proof.
  intros C H H'. assert (Ha : allocated w i) by (destruct H; eexists; eauto).
  pose proof (enough_top _ _ C Ha) as He.
  rewrite (pre_unique_subl _ C _ _ _ He H), (pre_unique_subl _ C _ _ _ He H'). reflexivity.
Qed.

(* ------------------------------------------------------------------ where chains end *)
Lemma top_fun w x t : Top w x t -> forall t', Top w x t' -> t = t'.
Proof.
  induction 1 as [x n Hn Ht | x n p t Hn Hp Htop IH]; intros t' H'.
  - destruct H' as [x n' Hn' Ht' | x n' p' t' Hn' Hp' Htop'].
    + congruence.
    + exfalso. rewrite Hn in Hn'. injection Hn' as <-. eapply Ht; eauto.
  - destruct H' as [x n' Hn' Ht' | x n' p' t' Hn' Hp' Htop'].
    + exfalso. rewrite Hn in Hn'. injection Hn' as <-. eapply Ht'; eauto.
    + apply IH. rewrite Hn in Hn'. injection Hn' as <-. rewrite Hp in Hp'. injection Hp' as <-. auto.
Qed.

Lemma top_ancs w a x t : AncS w a x -> Top w x t -> Top w a t.
Proof.
  induction 1 as [|x p Hp Ha IH]; intros Ht; auto. apply IH.
  destruct Hp as (n & Hn & Hpp). destruct Ht as [x n' Hn' Ht | x n' p' t Hn' Hp' Htop].
  - exfalso. rewrite Hn in Hn'. injection Hn' as <-. eapply Ht; eauto.
  - rewrite Hn in Hn'. injection Hn' as <-. rewrite Hpp in Hp'. injection Hp' as <-. auto.
Qed.

Lemma top_not_pelem w x t : Top w x t -> forall p, t <> PElem p.
Proof. induction 1; auto. Qed.

Lemma depth_top w x h : Depth w x h -> exists t, Top w x t.
Proof.
  induction 1 as [x n Hn Ht | x n p h Hn Hp Hd (t & IH)].
  - exists (n_parent n). eapply T_here; eauto.
  - exists t. eapply T_up; eauto.
Qed.

Lemma model_walk_top f : forall x w r w', model_walk f x w = Val (r, w') ->
  w' = w /\ exists t, Top w x t /\ match t with
                                   | PModel m => r = OK m
                                   | _ => r = ER ItemDeleted
                                   end.
Proof.
  induction f as [|f IH]; intros x w r w' H; cbn [model_walk] in H; [discriminate|].
  wstep H; winv E. destruct (n_parent n) as [|m|p] eqn:Hp.
  - winv H. split; auto. exists PNone. split; auto. rewrite <- Hp. eapply T_here; eauto. rewrite Hp. congruence.
  - winv H. split; auto. exists (PModel m). split; auto. rewrite <- Hp. eapply T_here; eauto. rewrite Hp. congruence.
  - apply IH in H as (-> & t & Ht & Hr). split; auto. exists t. split; auto. eapply T_up; eauto.
Qed.

Lemma model_of_top x w r w' : model_of x w = Val (r, w') ->
  w' = w /\ exists t, Top w x t /\ match t with PModel m => r = OK m | _ => r = ER ItemDeleted end.
Proof. unfold model_of. intros H. wstep H; winv E. eapply model_walk_top; eauto. Qed.
