(* Tree/NoPanicProofsOp3HistEx.v — C12: non-vacuity of the op2 history theorem with duplicate as a step, on the regenerated
   tables: a model with a file and two packages is duplicated (the call succeeds, SizeOk holds at each copy), the copy is
   sorted and serialized. *)
From Coq Require Import Lia.
From AV Require Import Base.Bytes Base.Outcome Hash.HashModel Spec.SpecOps Spec.SpecReal Xml.TablesOk
  Tree.Heap Tree.Ops Tree.Script Tree.Script2 Tree.Copy Tree.Inv Tree.SortProofsReal.
From AV Require Import Hash.HashRealElement Hash.HashRealAttr Hash.HashRealEnum.
From AV Require Import Tree.NoPanic Tree.NoPanicProofsCopy2 Tree.NoPanicFloat Tree.NoPanicProofsHist Tree.NoPanicProofsHistEx
  Tree.NoPanicProofsOp2 Tree.NoPanicProofsFiles Tree.NoPanicProofsOp2Hist Tree.NoPanicProofsOp2HistEx Tree.NoPanicProofsDup
  Tree.NoPanicProofsOp3Hist Tree.NoPanicProofsOp3HistReal.
Open Scope list_scope.
Open Scope N_scope.

Definition ex3_hist : list op2 :=
  [ Op1 OpNewModel; Op1 (OpCreateFile 0 [102] 1048576);
    Op1 (OpCreateSub 0 5413);                     (* AR-PACKAGES        -> node 1 *)
    Op1 (OpCreateNamed 1 5250 [113]);             (* AR-PACKAGE "q"     -> node 2 (SHORT-NAME 3) *)
    Op1 (OpCreateNamed 1 5250 [112]);             (* AR-PACKAGE "p"     -> node 4 (SHORT-NAME 5) *)
    OpDuplicate 0;                                (* model 1, root 6 *)
    OpSortModel 1;
    OpSerializeFile 1 ].

Notation wf3_ex := (wf_ops3 RT tab_element tab_attr tab_enum nv_check (fun _ => None) ex_fmt 1048576 3516 6311 78 []).
Notation run3_ex := (run_ops2F RT tab_element tab_attr tab_enum nv_check (fun _ => None) ex_fmt 1048576 3516 6311 78 []).

Ltac hyp_eval H := vm_compute in H; first [ injection H as <- <- | injection H as <- | injection H as _ <- ].

Ltac wf3_dup :=
  cbn [op3_wfh]; split; [vm_compute; reflexivity|split];
  [ let xx := fresh "xx" in let cc := fresh "cc" in let ww1 := fresh "ww" in let rn := fresh "rn" in let cx := fresh "cx" in
    let u := fresh "u" in let ww2 := fresh "ww" in let fm := fresh "fm" in let ww3 := fresh "ww" in
    intros xx cc ww1 rn cx u ww2 fm ww3 H1 H2 H3 H4 H5 H6;
    vm_compute in H1; injection H1 as <-;
    vm_compute in H2; injection H2 as <- <-;
    vm_compute in H3; injection H3 as <-;
    vm_compute in H4; injection H4 as <-;
    vm_compute in H5; injection H5 as _ <-;
    vm_compute in H6; injection H6 as _ <-;
    cbn [sized_copies n_content];
    repeat (split; [size_ok|let r := fresh "r" in let w := fresh "w" in let E := fresh "E" in intros r w E; vm_compute in E; injection E as _ <-; cbn [sized_copies]]);
    exact I
  | let e := fresh "e" in let ww := fresh "ww" in let H := fresh "H" in intros e ww H; vm_compute in H; discriminate H ].

Ltac wf3_step :=
  cbn [wf_ops3]; split; [reflexivity|split; [lazymatch goal with |- op3_wfh _ _ _ _ _ _ _ (OpDuplicate _) => wf3_dup | _ => cbn [op3_wfh]; wfh_solve end|]];
  let x := fresh "x" in let w' := fresh "w" in let E := fresh "E" in
  intros x w' E; vm_compute in E; injection E as _ <-.

Example ex3_wf : wf3_ex ex3_hist empty_world.
Proof.
  unfold ex3_hist. do 8 wf3_step. exact I.
Qed.

Example ex3_runs : exists w', run3_ex ex3_hist empty_world = Val w' /\
  List.length (w_models w') = 2%nat /\ option_map n_parent (w_nodes w' 6) = Some (PModel 1).
Proof.
  destruct (no_panic3_histories_real nv_check (fun _ => None) ex_fmt 1048576 3516 6311 78 [] (fun fn s => ex_intro _ true eq_refl)
              (fun a (F : In a []) => match F with end) ex3_hist ex3_wf) as (w' & E).
  exists w'. split; [exact E|]. vm_compute in E. injection E as <-. vm_compute. split; reflexivity.
Qed.
