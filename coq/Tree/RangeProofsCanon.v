(* Tree/RangeProofsCanon.v — C07 (reload clause): RootCanon of the projection of a file from node-wise conditions on the world.
   WorldOK (Tree/Project.v; maintained structurally by the editing calls: order invariant, resolved types) gives every
   structural premise of C01's Canon: the child resolves with its type, ConflictOk, MultOk (both read off the loader's own
   scan of the kept child list, which is silent for an ordered list: ordered_loader_accepts), SHORT-NAME where named.
   WorldCanon / RootHeader (Tree/ProjectCanon.v) supply the value-level premises.  Result: the projection is a canonical root,
   so (C10 file_self_contained) the text ArxmlFile::serialize writes loads back to exactly the projection, silently. *)
From Coq Require Import Arith Lia.
From AV Require Import Base.Bytes Base.Outcome Hash.HashModel Spec.SpecOps Spec.Versions Tree.Heap Tree.Ops Tree.Serialize Tree.Range
  Tree.RangeProofsPath Tree.SpecWF Tree.RangeProofsLoop Tree.RangeProofsLoader Tree.RangeProofsKeep Tree.RangeProofsMoveFinal
  Tree.Project Tree.ProjectCanon Tree.RangeProofsProject Tree.Files Tree.FilesProofsLoad Tree.RangeProofsReloadFile.
From AV Require Import Xml.Parser Xml.StrictValidDef Xml.RoundTripAttrs Xml.RoundTripElem Xml.RoundTripFile.
Open Scope list_scope.
Open Scope N_scope.

Definition kind_of (c : etree + Parser.cdata) : option N := match c with inl e => Some (e_name e) | inr _ => None end.

Section Canon.
Variable strict : bool.
Variable T : tables.
Variable tab_el tab_at tab_en : nametab.
Variable check_fn : N -> list N -> res bool.
Variable float_fmt : N -> list N.
Variable float_parse : list N -> option N.
Variable ver : N.
Hypothesis WF : SpecWF T.

Notation CANON := (Canon T tab_el tab_at tab_en check_fn float_fmt float_parse ver).
Notation CHILDREN := (ChildrenOk T tab_el tab_at tab_en check_fn float_fmt float_parse ver).
Notation TEXTOK := (TextOk T tab_en check_fn float_fmt float_parse ver).

(* ---- the loader's scan, one element further ---- *)
Lemma scan_step ty prev seen name ks :
  loader_scan T ty ver prev seen (Some name :: ks) = Some [] ->
  exists ix, idx_of T ty ver name = Some ix /\ choice_conflict T ty prev ix = Some false /\
             too_many T ty ix name seen = Some false /\ loader_scan T ty ver ix (seen ++ [Some name]) ks = Some [].
Proof.
  cbn [loader_scan]. destruct (idx_of T ty ver name) as [ix|]; [|discriminate].
  destruct (choice_conflict T ty prev ix) as [cc|] eqn:ECC; [|discriminate].
  destruct (too_many T ty ix name seen) as [tm|] eqn:ETM; [|discriminate].
  destruct (loader_scan T ty ver ix (seen ++ [Some name]) ks) as [rest|] eqn:ELS; [|discriminate].
  intros H. injection H as H. exists ix. destruct cc; [discriminate|]. destruct tm; [discriminate|]. cbn [app] in H. subst. auto.
Qed.

Lemma conflict_of_scan ty prev ix : choice_conflict T ty prev ix = Some false -> ConflictOk T ty prev ix.
Proof.
  unfold choice_conflict, ConflictOk. destruct prev as [|p0 pr]; [left; reflexivity|].
  destruct (ix_eqb (p0 :: pr) ix) eqn:EE; [intros _; right; left; apply ix_eqb_eq; exact EE|].
  destruct (find_common_group T ty (p0 :: pr) ix) as [g| |] eqn:EG; try discriminate.
  unfold group_mode. destruct (dt T g) as [d| |] eqn:ED; try discriminate.
  destruct (dt_mode d =? MCharacters) eqn:EC; [discriminate|].
  intros H. injection H as H. right. right. exists g, d. repeat split; auto; apply N.eqb_neq; assumption.
Qed.

Lemma existsb_kinds cname pre :
  existsb (fun s : option N => match s with Some n => n =? cname | None => false end) (map kind_of pre) =
  existsb (same_name cname) pre.
Proof. induction pre as [|[e|v] r IH]; cbn [map existsb kind_of same_name]; [reflexivity|rewrite IH; reflexivity|exact IH]. Qed.

Lemma mult_of_scan ty ix cname pre : too_many T ty ix cname (map kind_of pre) = Some false -> MultOk T ty ix cname pre.
Proof.
  unfold too_many, MultOk. destruct pre as [|p0 pr]; [left; reflexivity|]. cbn [map].
  change (kind_of p0 :: map kind_of pr) with (map kind_of (p0 :: pr)).
  remember (p0 :: pr) as pre eqn:EP. destruct (map kind_of pre) as [|s0 sr] eqn:ES; [subst pre; discriminate|]. rewrite <- ES. clear ES.
  destruct (get_sub_element_container_mode T ty ix) as [m| |]; try discriminate.
  intros H. right. exists m. split; [reflexivity|].
  destruct ((m =? MSequence) || (m =? MChoice)); [|left; reflexivity].
  right. destruct (get_sub_element_multiplicity T ty ix) as [[mu|]| |]; try discriminate.
  - exists (Some mu). split; [reflexivity|]. injection H as H. rewrite existsb_kinds in H.
    apply andb_false_iff in H as [H|H]; [left; apply negb_false_iff in H; apply N.eqb_eq in H; exact H|right; exact H].
  - exists None. split; [reflexivity|exact I].
Qed.

(* ---- the children ---- *)
Lemma proj_items_canon (rec : id -> option etree) w ff ty mode :
  forall l kitems prev pre out,
  (forall c t, In (CElem c) l -> rec c = Some t ->
     CANON t /\ exists cn, w_nodes w c = Some cn /\ e_name t = n_name cn /\ e_type t = n_type cn) ->
  (forall d, In (CData d) l -> TEXTOK ty (to_pc d)) ->
  (forall c cn, In (CElem c) l -> w_nodes w c = Some cn ->
     exists idx, find_sub_element T ty (n_name cn) ver = Val (Some (n_type cn, idx))) ->
  kept_items w ff l = Some kitems ->
  loader_scan T ty ver prev (map kind_of pre) kitems = Some [] ->
  (mode = MCharacters -> (List.length pre + List.length kitems <= 1)%nat) ->
  proj_items rec w ff l = Some out ->
  CHILDREN ty mode prev pre out /\ map kind_of out = kitems.
Proof.
  induction l as [|x l IH]; intros kitems prev pre out Hrec Htext Htype HK HS HM HPI.
  - cbn [proj_items kept_items] in *. injection HPI as <-. injection HK as <-. split; [apply ck_nil|reflexivity].
  - destruct x as [c|d]; cbn [proj_items kept_items] in *.
    + destruct (w_nodes w c) as [cn|] eqn:EN; [|discriminate].
      destruct (Project.passes ff cn).
      * destruct (rec c) as [t|] eqn:ER; [|discriminate].
        destruct (proj_items rec w ff l) as [rest|] eqn:EPI; [|discriminate]. injection HPI as <-.
        destruct (kept_items w ff l) as [ks|] eqn:EKS; [|discriminate]. cbn [option_map] in HK. injection HK as <-.
        destruct (Hrec c t (or_introl eq_refl) ER) as (HC & cn' & EN' & Hname & Htype'). rewrite EN in EN'. injection EN' as <-.
        destruct (scan_step _ _ _ _ _ HS) as (ix & EX & HCC & HTM & HS').
        destruct (Htype c cn (or_introl eq_refl) EN) as (idx & EF).
        assert (idx = ix) as -> by (unfold idx_of in EX; rewrite EF in EX; congruence).
        destruct (IH ks ix (pre ++ [inl t]) rest) as (IH1 & IH2); auto.
        -- intros c0 t0 Hc0. apply Hrec. right. exact Hc0.
        -- intros d0 Hd0. apply Htext. right. exact Hd0.
        -- intros c0 cn0 Hc0. apply Htype. right. exact Hc0.
        -- rewrite map_app. cbn [map kind_of]. rewrite Hname. exact HS'.
        -- intros E. specialize (HM E). rewrite app_length. cbn [List.length] in *. lia.
        -- split; [|cbn [map kind_of]; rewrite Hname, IH2; reflexivity].
           apply ck_elem with (idx := ix); [rewrite Hname, Htype'; exact EF|apply conflict_of_scan; exact HCC| |exact HC|exact IH1].
           rewrite Hname. apply mult_of_scan. exact HTM.
      * apply (IH kitems prev pre out); auto.
        -- intros c0 t0 Hc0. apply Hrec. right. exact Hc0.
        -- intros d0 Hd0. apply Htext. right. exact Hd0.
        -- intros c0 cn0 Hc0. apply Htype. right. exact Hc0.
    + destruct (proj_items rec w ff l) as [rest|] eqn:EPI; [|discriminate]. cbn [option_map] in HPI. injection HPI as <-.
      destruct (kept_items w ff l) as [ks|] eqn:EKS; [|discriminate]. cbn [option_map] in HK. injection HK as <-.
      cbn [loader_scan] in HS.
      destruct (IH ks prev (pre ++ [inr (to_pc d)]) rest) as (IH1 & IH2); auto.
      * intros c0 t0 Hc0. apply Hrec. right. exact Hc0.
      * intros d0 Hd0. apply Htext. right. exact Hd0.
      * intros c0 cn0 Hc0. apply Htype. right. exact Hc0.
      * rewrite map_app. cbn [map kind_of]. exact HS.
      * intros E. specialize (HM E). rewrite app_length. cbn [List.length] in *. lia.
      * split; [|cbn [map kind_of]; rewrite IH2; reflexivity].
        apply ck_text; [apply Htext; left; reflexivity| |exact IH1].
        intros E. specialize (HM E). cbn [List.length] in HM. destruct pre; [reflexivity|cbn [List.length] in HM; lia].
Qed.

(* ---- the layout ---- *)
Lemma is_text_kind c : is_text c = true <-> kind_of c = None.
Proof. destruct c; cbn; split; intros; congruence. Qed.

Lemma shape_of_kept mode out k : map kind_of out = k -> ShapeKept mode k -> ShapeOk mode out.
Proof.
  intros <-. unfold ShapeKept, ShapeOk. destruct (mode =? MCharacters).
  - intros [H|H].
    + left. destruct out; [reflexivity|discriminate].
    + right. destruct out as [|x [|y r]]; try discriminate. destruct x as [e|v]; [discriminate|]. exists v. reflexivity.
  - destruct (mode =? MMixed).
    + intros H a b pre post E Ha. subst out. rewrite map_app in H. cbn [map] in H.
      specialize (H (kind_of a) (kind_of b) _ _ eq_refl (proj1 (is_text_kind a) Ha)).
      destruct (is_text b) eqn:Eb; [|reflexivity]. exfalso. apply H. apply is_text_kind. exact Eb.
    + intros H. rewrite Forall_map in H. eapply Forall_impl; [|exact H]. intros c Hc. cbn beta in Hc.
      destruct (is_text c) eqn:Ec; [|reflexivity]. exfalso. apply Hc. apply is_text_kind. exact Ec.
Qed.

Lemma shape_chars_len mode k : ShapeKept mode k -> mode = MCharacters -> (0 + List.length k <= 1)%nat.
Proof. intros H ->. unfold ShapeKept in H. cbn in H. destruct H as [->| ->]; cbn; lia. Qed.

(* ---- one node, given its children ---- *)
Lemma node_canon w ff n va c (rec : id -> option etree) :
  (forall c0 t, In (CElem c0) (n_content n) -> rec c0 = Some t ->
     CANON t /\ exists cn, w_nodes w c0 = Some cn /\ e_name t = n_name cn /\ e_type t = n_type cn) ->
  node_struct T ver w ff n -> NodeCanonAt T tab_el tab_at tab_en check_fn float_fmt float_parse ver va w ff n ->
  proj_items rec w ff (n_content n) = Some c ->
  CommentsOk (n_comment n) /\ (exists nm, ElemNameOk tab_el (n_name n) nm) /\
  AttrsOk T tab_at tab_en check_fn float_fmt float_parse va (n_type n) (map (fun a => (fst a, to_pc (snd a))) (n_attrs n)) /\
  exists mode named, content_mode T (n_type n) = Val mode /\ ShapeOk mode c /\ CHILDREN (n_type n) mode [] [] c /\
    is_named_in_version T (n_type n) ver = Val named /\ (named = true -> head_short T c = true).
Proof.
  intros Hrec ((items & HI & HO) & Hty & Hsn) (HCm & HNm & HAt & (mode & kitems & named & HMo & HK & HSh & HNa & HFirst) & HTx) EPI.
  split; [exact HCm|]. split; [exact HNm|]. split; [exact HAt|]. exists mode, named. split; [exact HMo|].
  destruct (kept_items_sub w ff _ _ HI) as (kitems' & HK' & SK). rewrite HK in HK'. injection HK' as <-.
  pose proof (ordered_subseq T (n_type n) ver items kitems SK HO) as HOK.
  pose proof (ordered_loader_accepts T WF _ _ _ HOK) as HLA. unfold LoaderAccepts, loader_complaints in HLA.
  destruct (proj_items_canon rec w ff (n_type n) mode (n_content n) kitems [] [] c Hrec HTx Hty HK HLA (shape_chars_len _ _ HSh) EPI)
    as (HCh & HKi).
  split; [exact (shape_of_kept _ _ _ HKi HSh)|]. split; [exact HCh|]. split; [exact HNa|].
  intros ->. destruct (HFirst eq_refl) as (r & ->). destruct c as [|[t0|v0] c']; try discriminate HKi.
  cbn [map kind_of] in HKi. injection HKi as HN _. cbn [head_short is_short]. rewrite HN. apply N.eqb_refl.
Qed.

(* ---- every element below the root ---- *)
Theorem proj_canon w ff root :
  WorldStruct T ver w ff -> WorldCanon T tab_el tab_at tab_en check_fn float_fmt float_parse ver w ff root ->
  forall fuel i t, i <> root -> proj fuel w ff i = Some t ->
  CANON t /\ exists n, w_nodes w i = Some n /\ e_name t = n_name n /\ e_type t = n_type n.
Proof.
  intros OK (WC & NR). induction fuel as [|f IH]; intros i t NE H; [discriminate|].
  cbn [proj] in H. destruct (w_nodes w i) as [n|] eqn:EN; [|discriminate].
  destruct (proj_items (proj f w ff) w ff (n_content n)) as [c|] eqn:EPI; [|discriminate].
  cbn [option_map] in H. injection H as <-.
  split; [|exists n; split; [reflexivity|split; reflexivity]].
  assert (Hrec : forall c0 t0, In (CElem c0) (n_content n) -> proj f w ff c0 = Some t0 ->
            CANON t0 /\ exists cn, w_nodes w c0 = Some cn /\ e_name t0 = n_name cn /\ e_type t0 = n_type cn).
  { intros c0 t0 Hin Hp. apply IH; [|exact Hp]. intros ->. exact (NR i n EN Hin). }
  destruct (node_canon w ff n ver c (proj f w ff) Hrec (OK i n EN) (WC i n EN NE) EPI)
    as (A & (nm & B) & C & mode & named & D & E & F & G & H).
  eapply canon_node; eauto.
Qed.

(* ---- the root ---- *)
Theorem proj_rootcanon_struct w ff root :
  WorldStruct T ver w ff -> WorldCanon T tab_el tab_at tab_en check_fn float_fmt float_parse ver w ff root ->
  RootHeader strict T tab_el tab_at tab_en check_fn float_fmt float_parse ver w ff root ->
  forall fuel t, proj fuel w ff root = Some t ->
  RootCanon strict T tab_el tab_at tab_en check_fn float_fmt float_parse ver t.
Proof.
  intros OK WC (rn & e & v401 & Hrn & He & Hv & Hname & Htype & HNC & Hhdr) fuel t H.
  destruct fuel as [|f]; [discriminate|]. cbn [proj] in H. rewrite Hrn in H.
  destruct (proj_items (proj f w ff) w ff (n_content rn)) as [c|] eqn:EPI; [|discriminate].
  cbn [option_map] in H. injection H as <-.
  assert (Hrec : forall c0 t0, In (CElem c0) (n_content rn) -> proj f w ff c0 = Some t0 ->
            CANON t0 /\ exists cn, w_nodes w c0 = Some cn /\ e_name t0 = n_name cn /\ e_type t0 = n_type cn).
  { intros c0 t0 Hin Hp. apply (proj_canon w ff root OK WC f c0 t0); [|exact Hp]. intros ->. exact (proj2 WC root rn Hrn Hin). }
  destruct (node_canon w ff rn v401 c (proj f w ff) Hrec (OK root rn Hrn) HNC EPI)
    as (A & (nm & B) & C & mode & named & D & E & F & G & K).
  rewrite Hname, Htype in *. eapply root_canon; eauto.
Qed.

Lemma worldok_struct w ff : Project.WorldOK T check_fn ver w ff -> WorldStruct T ver w ff.
Proof. intros OK i n Hn. destruct (OK i n Hn) as (_ & _ & A & B & C). repeat split; auto. Qed.

Theorem proj_rootcanon w ff root :
  Project.WorldOK T check_fn ver w ff -> WorldCanon T tab_el tab_at tab_en check_fn float_fmt float_parse ver w ff root ->
  RootHeader strict T tab_el tab_at tab_en check_fn float_fmt float_parse ver w ff root ->
  forall fuel t, proj fuel w ff root = Some t ->
  RootCanon strict T tab_el tab_at tab_en check_fn float_fmt float_parse ver t.
Proof. intros OK. apply proj_rootcanon_struct. apply worldok_struct. exact OK. Qed.

End Canon.

(* ---- the reload clause over the bytes ArxmlFile::serialize writes, with hypotheses on the WORLD only ---- *)
Theorem reload_clean_world :
  forall (strict : bool) (T : tables) (tab_el tab_at tab_en : nametab) (check_fn : N -> list N -> res bool)
         (float_fmt : N -> list N) (float_parse : list N -> option N) (attr_schema_location : N) (ver : N),
  SpecWF T ->
  forall (w : world) (f : N) (text : list N) (w' : world),
  f_serialize T tab_el tab_at tab_en check_fn float_fmt attr_schema_location f w = Val (OK text, w') ->
  exists fl x, nth_opt (w_files w) (N.to_nat f) = Some fl /\ nth_opt (w_models w) (N.to_nat (f_model fl)) = Some x /\
    forall t, proj (fuel_of w') w' (Some f) (m_root x) = Some t ->
      Project.WorldOK T check_fn ver w' (Some f) ->
      WorldCanon T tab_el tab_at tab_en check_fn float_fmt float_parse ver w' (Some f) (m_root x) ->
      RootHeader strict T tab_el tab_at tab_en check_fn float_fmt float_parse ver w' (Some f) (m_root x) ->
      NoHollow T w' (Some f) (m_root x) ->
      exists st, Parser.load strict T tab_el tab_at tab_en check_fn float_parse text = Val (Parser.Ret t st) /\
                 Parser.p_warnings st = [] /\ Parser.p_version st = ver /\ Parser.p_standalone st = f_standalone fl.
Proof.
  intros strict T tab_el tab_at tab_en check_fn float_fmt float_parse asl ver WF w f text w' H.
  destruct (reload_clean_file strict T tab_el tab_at tab_en check_fn float_fmt float_parse asl ver WF w f text w' H)
    as (fl & x & Hfl & Hx & HL).
  exists fl, x. split; [exact Hfl|]. split; [exact Hx|]. intros t Ht OK WC RH NH.
  apply (HL t Ht OK NH).
  exact (proj_rootcanon strict T tab_el tab_at tab_en check_fn float_fmt float_parse ver WF w' (Some f) (m_root x) OK WC RH _ _ Ht).
Qed.
