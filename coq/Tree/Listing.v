(* Tree/Listing.v — C07: what list_valid_sub_elements REPORTS about named-ness against what the creation calls DECIDE.
   list_valid_sub_elements reports is_named = version.compatible(named_mask) from the listing (sub_element_spec_iter); the
   creation calls look the name up (find_sub_element) and ask is_named_in_version of the type they find.  named_agree_b ty checks,
   for one datatype, every listed entry and every AUTOSAR version in which the entry exists: the name resolves in that version
   and the type found is identifiable there exactly when the listing says so.   DEFINITIONS only.
   ([F] for the regenerated tables: Tree/ListingSweep*.v + Tree/ListingReal.v; proofs: Tree/RangeProofsListing.v.) *)
From AV Require Import Base.Bytes Base.Outcome Spec.SpecOps Tree.Heap Tree.Ops Tree.ValidSubs.
Open Scope list_scope.
Open Scope N_scope.

(* the 21 AUTOSAR versions as bit masks: 4.0.1 = 1 ... Autosar_00053 = 2^20 *)
Definition VERSIONS : list N := map (fun k => 2 ^ N.of_nat k) (seq 0 21).

Definition named_agree_b (T : tables) (ty : N) : bool :=
  match list_sub T FUEL ty with
  | Val l =>
    forallb (fun entry : N * etype * N * N =>
      let '(name, _, mask, nm) := entry in
      forallb (fun v => negb (compatible v mask) ||
                 match find_sub T FUEL ty name v with
                 | Val (Some (et', _)) =>
                   match is_named_in_version T et' v with Val b => Bool.eqb b (compatible v nm) | _ => false end
                 | _ => false
                 end) VERSIONS) l
  | _ => true
  end.

(* the indices of one of four shards *)
Definition shard4 (k n : N) : list N := filter (fun i => i mod 4 =? k) (map N.of_nat (seq 0 (N.to_nat n))).
