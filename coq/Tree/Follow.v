(* Tree/Follow.v — definitions of property C06 ("references keep following their target through rename and move").
     live_ref w m r      r is a reference element in the tree of model m
     designates w m r x  the text of reference r is a key of the path index of model m, mapped to element x
                         (this is what get_reference_target resolves, before the DEST check)
     below w e x         x is e or a descendant of e (through content lists)
     old_form old p      the string p is `old` or lies below it: p = old ++ suf with suf empty or starting with '/'
                         (the test both rewrite loops apply: "/pkg10" is not below "/pkg1")
   DEFINITIONS + Examples only; proofs are in Tree/FollowProofs*.v. *)
From AV Require Import Base.Bytes Base.Outcome Hash.HashModel Tree.Heap Tree.Ops Tree.Script Tree.Index.
Open Scope string_scope.
Open Scope list_scope.
Open Scope N_scope.

Section Follow.
Variable T : tables.

Definition live_ref (w : world) (m : N) (r : id) : Prop := MReach T w m r.

Definition designates (w : world) (m : N) (r x : id) : Prop :=
  exists xm p, model_at w m = Some xm /\ ref_text T w r = Some p /\ assoc_get p (m_idents xm) = Some x.

Definition below (w : world) (e x : id) : Prop := reach T w e x.

Definition old_form (old p : list N) : Prop :=
  exists suf, p = old ++ suf /\ (is_empty suf || starts_with_slash suf) = true.

(* the reference resolves to something *)
Definition resolves (w : world) (m : N) (r : id) : Prop := exists x, designates w m r x.

End Follow.
