(* Tree/Follow.v — definitions of property C06 ("references keep following their target through rename and move").
     live_ref w m r      r is a reference element in the tree of model m
     designates w m r x  the text of reference r is a key of the path index of model m, mapped to element x
                         (this is what get_reference_target resolves, before the DEST check)
     below w e x         x is e or a descendant of e (through content lists)
     old_form old p      the string p is `old` or lies below it: p = old ++ suf with suf empty or starting with '/'
                         (the test both rewrite loops apply: "/pkg10" is not below "/pkg1")
   DEFINITIONS + Examples only; proofs are in Tree/FollowProofs*.v. *)
From AV Require Import Base.Bytes Base.Outcome Hash.HashModel Tree.Heap Tree.Ops Tree.Script Tree.Index.
Open Scope string_scope.
Open Scope list_scope.
Open Scope N_scope.

Section Follow.
Variable T : tables.

Definition live_ref (w : world) (m : N) (r : id) : Prop := MReach T w m r.

Definition designates (w : world) (m : N) (r x : id) : Prop :=
  exists xm p, model_at w m = Some xm /\ ref_text T w r = Some p /\ assoc_get p (m_idents xm) = Some x.

Definition below (w : world) (e x : id) : Prop := reach T w e x.

Definition old_form (old p : list N) : Prop :=
  exists suf, p = old ++ suf /\ (is_empty suf || starts_with_slash suf) = true.

(* the reference resolves to something *)
Definition resolves (w : world) (m : N) (r : id) : Prop := exists x, designates w m r x.

(* ---------- the container move: path collisions ----------
   move_element_local / move_element_full call make_unique_item_name only when the MOVED element is identifiable.  When a
   non-identifiable container (ELEMENTS, AR-PACKAGES, ...) is moved, the identifiable elements it holds get the path
   dest ++ suffix without any check: if that path is already in the index, two elements share one path and the index
   entry is overwritten (finding C04-move-container-duplicates-paths).  [nocollision_b idents src dest]: no key
   src ++ suffix (suffix non-empty) of the index has its new name dest ++ suffix in the index already. *)
Definition nocollision_b (idents : list (list N * id)) (src dest : list N) : bool :=
  forallb (fun e => match strip_prefix src (fst e) with
                    | Some (c :: t) => match assoc_get (dest ++ c :: t) idents with None => true | Some _ => false end
                    | _ => true
                    end) idents.

Definition collision06 (w : world) (h mv : id) : bool :=
  match w_nodes w h, w_nodes w mv with
  | Some n, Some mn =>
    match path_unchecked T mn w, path_unchecked T n w, model_of mv w with
    | Val (OK src, _), Val (OK dest, _), Val (OK m, _) =>
      match model_at w m with
      | Some xm => negb (nocollision_b (m_idents xm) src dest)
      | None => false
      end
    | _, _, _ => false
    end
  | _, _ => false
  end.

(* the part of the operation alphabet for which the move theorems of C06 are NOT proved (covered by the correspondence
   and the implementation-side oracle only): the moved element is not identifiable (a container: the per-path re-keying
   loop), or source and destination lie in different models (move_element_full) *)
Definition pending06 (w : world) (o : op) : bool :=
  match o with
  | OpMove h mv | OpMoveAt h mv _ =>
    negb (identifiable T w mv) ||
    match model_of h w, model_of mv w with
    | Val (OK m1, _), Val (OK m2, _) => negb (m1 =? m2)
    | _, _ => false
    end
  | _ => false
  end.

End Follow.
