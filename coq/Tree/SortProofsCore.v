(* Tree/SortProofsCore.v — C14 on worlds that satisfy C03's Core invariant (Tree/Inv.v): the shape hypotheses of
   Tree/SortProofsCanon.v (Regions) and the rank of Tree/SortProofsHeap.v (SortReady) are DERIVED from Core, so the heap-level
   statements need no hypothesis about the tree beyond what every reachable world satisfies (C03_reachable_core).
     core_regions   : Core w -> Regions w (region w)          region w a = the nodes below a (InvProofsTree.subl)
     core_rank      : Core w -> the size of the subtree is a rank: strictly smaller for a sub-element, bounded by w_next
     SpecKids       : what is left of SortReady: facts about single nodes and the specification tables
     e_sort_*       : the statements at the level of Element::sort *)
From Coq Require Import Permutation Lia.
From AV Require Import Base.Bytes Base.Outcome Base.Radix Hash.HashModel Tree.Heap Tree.Ops Tree.Script Tree.Inv
  Tree.InvProofsBase Tree.InvProofsCore Tree.InvProofsTree Tree.Sort
  Tree.SortProofsOrder Tree.SortProofsCmp Tree.SortProofsHeap Tree.SortProofsMain Tree.SortProofsLocal Tree.SortProofsCanon.
Open Scope list_scope.
Open Scope N_scope.

Definition fuelw (w : world) : nat := N.to_nat (w_next w).
Definition region (w : world) (a j : id) : bool := existsb (N.eqb j) (subl (fuelw w) w a).

Lemma region_in w a j : region w a j = true <-> In j (subl (fuelw w) w a).
Proof.
  unfold region. rewrite existsb_exists. split.
  - intros (x & ix & e). apply N.eqb_eq in e. subst. exact ix.
  - intros i. exists j. split; auto. apply N.eqb_refl.
Qed.

Lemma region_false w a j : region w a j = false <-> ~ In j (subl (fuelw w) w a).
Proof.
  split.
  - intros e i. apply region_in in i. congruence.
  - intros ni. destruct (region w a j) eqn:E; auto. apply region_in in E. tauto.
Qed.

Lemma celems_elems l : celems l = elems l.
Proof. reflexivity. Qed.

Lemma lists_of w i n c : w_nodes w i = Some n -> In (CElem c) (n_content n) -> lists w i c.
Proof. intros Wi ic. exists n. split; auto. unfold kids. apply in_elems. exact ic. Qed.

Theorem core_regions w : Core w -> Regions w (region w).
Proof.
  intros C. split.
  - intros a. apply region_in. apply subl_self.
  - intros a j n c dj Wj ic. apply region_in in dj.
    pose proof (lists_of w j n c Wj ic) as L.
    assert (Ac : exists cn, w_nodes w c = Some cn).
    { apply (c_up _ C) in L. destruct L as (cn & Wc & _). eauto. }
    split; auto. apply region_in.
    destruct (w_nodes w a) as [na |] eqn:Wa.
    + eapply subl_closed; eauto. apply enough_top; auto. exists na; auto.
    + (* a is not allocated: its list is [a] *)
      unfold fuelw in dj. destruct (N.to_nat (w_next w)); cbn in dj; rewrite ?Wa in dj; destruct dj as [<- | []]; congruence.
  - intros i n c c' j Wi ic ic' ne dj. apply region_in in dj. apply region_false. intros dj'.
    eapply (subl_disjoint (fuelw w) w i c c' j); eauto using lists_of.
  - intros i n c Wi ic. apply region_false. eapply subl_not_parent; eauto using lists_of.
  - intros i n Wi. rewrite celems_elems. apply (c_nodup _ C i n Wi).
Qed.

(* ------------------------------------------------------------------ a rank *)
Definition rank (w : world) (i : id) : nat :=
  match w_nodes w i with Some _ => List.length (subl (fuelw w) w i) | None => O end.

Lemma enough_mono w i f f' : enough w i f -> (f <= f')%nat -> enough w i f'.
Proof. intros (h & D & le) l. exists h. split; auto. lia. Qed.

Lemma length_flat_map_in {A B} (g : A -> list B) l x : In x l -> (List.length (g x) <= List.length (flat_map g l))%nat.
Proof.
  induction l as [| y l IH]; intros []; cbn; rewrite app_length.
  - subst. lia.
  - specialize (IH H). lia.
Qed.

Lemma core_rank_kid w i n c : Core w -> w_nodes w i = Some n -> In (CElem c) (n_content n) -> (rank w c < rank w i)%nat.
Proof.
  intros C Wi ic. pose proof (lists_of w i n c Wi ic) as L.
  assert (Ai : allocated w i) by (exists n; auto).
  assert (Ac : allocated w c) by (apply (c_up _ C) in L; destruct L as (cn & Wc & _); exists cn; auto).
  pose proof (enough_top w i C Ai) as Ei.
  destruct (enough_kid w i c _ C Ei L) as (f' & ef & Ec').
  unfold rank. rewrite Wi. destruct Ac as [cn Wc]. rewrite Wc. fold (fuelw w) in ef. rewrite ef.
  assert (Ec : enough w c (S f')) by (eapply enough_mono; eauto).
  assert (E : subl (S f') w c = subl f' w c).
  { symmetry. apply (pre_unique_subl w C (S f') c); auto. apply subl_pre; auto. exists cn; auto. }
  rewrite E. cbn [subl]. rewrite Wi. cbn [List.length].
  assert (ik : In c (kids n)) by (unfold kids; apply in_elems; auto).
  pose proof (length_flat_map_in (subl f' w) (kids n) c ik). lia.
Qed.

Lemma core_rank_bounded w : Core w -> rank_bounded w (rank w).
Proof.
  intros C i. unfold rank. destruct (w_nodes w i) as [n |] eqn:Wi; [| lia].
  apply nodup_bounded; [apply subl_nodup; auto |].
  intros y iy. apply (c_alloc _ C). eapply subl_alloc; eauto. exists n; auto.
Qed.

(* ------------------------------------------------------------------ what is left of SortReady *)
Section Ready.
Variable T : tables.
Variable tab_el tab_at tab_en : nametab.

Record SpecNode (w : world) (n : node) : Prop := {
  sn_kids : forall c cn, In (CElem c) (n_content n) -> w_nodes w c = Some cn ->
            exists et idx, find_sub_element T (n_type n) (n_name cn) MAXV = Val (Some (et, idx));
  sn_mode : exists m, content_mode T (n_type n) = Val m;
  sn_ordered : exists b, is_ordered T (n_type n) = Val b;
  sn_named : exists b, is_named T (n_type n) = Val b;
  sn_name : to_str tab_el (n_name n) <> None;
  sn_data : forall d, In (CData d) (n_content n) -> cdata_named tab_en d;
  sn_attrs : forall a, In a (n_attrs n) -> to_str tab_at (fst a) <> None /\ cdata_named tab_en (snd a)
}.
(* every sub-element is findable in the type of its parent under version mask u32::MAX, the spec lookups of the node types do
   not panic, names and enum items are inside their string tables *)
Definition SpecKids (w : world) : Prop := forall i n, w_nodes w i = Some n -> SpecNode w n.

Theorem core_sort_ready w : Core w -> SpecKids w -> SortReady T tab_el tab_at tab_en w (rank w).
Proof.
  intros C K i n Wi. destruct (K i n Wi) as [k m o nm nn dd aa]. split; auto.
  intros c ic. pose proof (lists_of w i n c Wi ic) as L. apply (c_up _ C) in L. destruct L as (cn & Wc & _).
  exists cn. split; auto. split; [eapply core_rank_kid; eauto |]. eapply k; eauto.
Qed.
End Ready.

(* ------------------------------------------------------------------ the statements at the level of Element::sort *)
Section ESort.
Variable T : tables.
Variable tab_el tab_at tab_en : nametab.
Variable name_index name_definition_ref : N.
Variable srt : forall A, (A -> A -> comparison) -> list A -> list A.
Hypothesis SS : StableSort srt.

Notation e_sort' := (e_sort_with T tab_el tab_at tab_en name_index name_definition_ref srt).
Notation sort_f' := (sort_f T tab_el tab_at tab_en name_index name_definition_ref srt).

Lemma e_sort_unfold i w : e_sort' i w = sort_f' (fuel_of w) i w.
Proof. reflexivity. Qed.

(* no panic, no divergence: Core + SpecKids *)
Theorem e_sort_total_core i w : Core w -> SpecKids T tab_el tab_at tab_en w -> (exists n, w_nodes w i = Some n) ->
  exists w', e_sort' i w = Val (OK tt, w').
Proof.
  intros C K A. eapply e_sort_total; eauto.
  - apply core_sort_ready; auto.
  - apply core_rank_bounded; auto.
Qed.

(* children first: the result is sorted with respect to Element::cmp as evaluated in the result *)
Theorem e_sort_sorted i w r w' : Core w -> e_sort' i w = Val (r, w') ->
  sorted_f T tab_el tab_at tab_en name_index name_definition_ref (fuel_of w) w' i.
Proof.
  intros C H.
  exact (sort_sorted T tab_el tab_at tab_en name_index name_definition_ref srt SS (fuel_of w) i w r w' (region w) (core_regions w C) H).
Qed.

(* sorting twice = sorting once, as worlds *)
Theorem e_sort_idempotent i w r w1 r2 w2 : Core w ->
  e_sort' i w = Val (r, w1) -> e_sort' i w1 = Val (r2, w2) -> weq w1 w2 /\ r2 = OK tt.
Proof.
  intros C H1 H2. rewrite e_sort_unfold in H1, H2.
  pose proof (sort_frame T tab_el tab_at tab_en name_index name_definition_ref srt (srt_perm srt SS) _ _ _ _ _ H1) as [_ R1].
  pose proof (sort_frame T tab_el tab_at tab_en name_index name_definition_ref srt (srt_perm srt SS) _ _ _ _ _ H2) as [e2 _].
  split; auto.
  assert (F : fuel_of w1 = fuel_of w) by (unfold fuel_of; destruct R1 as (-> & _); reflexivity).
  rewrite F in H2.
  exact (sort_idem T tab_el tab_at tab_en name_index name_definition_ref srt SS (fuel_of w) i w r w1 r2 w2 (region w) (core_regions w C) H1 H2).
Qed.

(* the same tree in another order of the children *)
Definition same_shape (u v : world) : Prop :=
  w_next v = w_next u /\
  forall j, match w_nodes u j, w_nodes v j with
            | Some n, Some n' => Permutation (n_content n) (n_content n')
            | None, None => True
            | _, _ => False
            end.

Lemma Regions_shape u v reg : same_shape u v -> Regions u reg -> Regions v reg.
Proof.
  intros [_ nodes] R.
  assert (back : forall i n', w_nodes v i = Some n' -> exists n, w_nodes u i = Some n /\ Permutation (n_content n) (n_content n')).
  { intros i n' Wi. pose proof (nodes i) as h. rewrite Wi in h. destruct (w_nodes u i) as [n |]; [eauto | destruct h]. }
  assert (mem : forall n n' c, Permutation (n_content n) (n_content n') -> In (CElem c) (n_content n') -> In (CElem c) (n_content n)).
  { intros n n' c p ic. eapply Permutation_in; [apply Permutation_sym; exact p | exact ic]. }
  split.
  - apply (rg_self _ _ R).
  - intros a j n' c dj Wj ic. destruct (back j n' Wj) as (n & W0 & p).
    destruct (rg_closed _ _ R a j n c dj W0 (mem n n' c p ic)) as [dc [cn Wc]]. split; auto.
    pose proof (nodes c) as h. rewrite Wc in h. destruct (w_nodes v c); [eauto | destruct h].
  - intros i n' c c' j Wi ic ic' ne. destruct (back i n' Wi) as (n & W0 & p).
    apply (rg_disj _ _ R i n c c' j W0); eauto.
  - intros i n' c Wi ic. destruct (back i n' Wi) as (n & W0 & p). apply (rg_up _ _ R i n c W0); eauto.
  - intros i n' Wi. destruct (back i n' Wi) as (n & W0 & p).
    eapply Permutation_NoDup; [apply celems_perm; exact p | apply (rg_nodup _ _ R i n W0)].
Qed.

Hypothesis inj_el : forall x y s, to_str tab_el x = Some s -> to_str tab_el y = Some s -> x = y.
Hypothesis inj_at : forall x y s, to_str tab_at x = Some s -> to_str tab_at y = Some s -> x = y.
Hypothesis inj_en : forall x y s, to_str tab_en x = Some s -> to_str tab_en y = Some s -> x = y.

Theorem e_sort_canonical i u v u1 v1 : Core u -> same_shape u v -> TypeDet u -> U64 u -> perm_equiv T u v i ->
  e_sort' i u = Val (OK tt, u1) -> e_sort' i v = Val (OK tt, v1) -> forall f, twin_f u1 v1 f i i.
Proof.
  intros C Sh TD UU PE Hu Hv. rewrite e_sort_unfold in Hu, Hv.
  assert (F : fuel_of v = fuel_of u) by (unfold fuel_of; destruct Sh as [-> _]; reflexivity).
  rewrite F in Hv.
  exact (sort_canon T tab_el tab_at tab_en name_index name_definition_ref srt SS inj_el inj_at inj_en (region u)
           (fuel_of u) i u v u1 v1 (core_regions u C) (Regions_shape u v _ Sh (core_regions u C)) TD UU (proj1 Sh) PE Hu Hv).
Qed.

End ESort.
