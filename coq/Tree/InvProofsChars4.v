(* Tree/InvProofsChars4.v — C03: CharsLeaf / type frame, part 4: moves, set_item_name. *)
From Coq Require Import PeanoNat Arith.
From AV Require Import Base.Bytes Base.Outcome Hash.HashModel Tree.Heap Tree.Ops Tree.Script Tree.Inv
  Tree.InvProofsBase Tree.InvProofsCore Tree.InvProofsTree Tree.InvProofsPrim Tree.InvProofsCreate
  Tree.InvProofsData Tree.InvProofsRefs Tree.InvProofsRemove Tree.InvProofsFiles Tree.InvProofsMove
  Tree.InvProofsCopy Tree.InvProofsRename Tree.InvProofsFrame Tree.InvProofsChars Tree.InvProofsChars2
  Tree.InvProofsChars3.
Open Scope string_scope.
Open Scope list_scope.
Open Scope N_scope.

Section CF4.
Variable T : tables.
Variable tab_el tab_en : nametab.
Variable check_fn : N -> list N -> res bool.
Variable LATEST : N.

Notation cfp := (frp (cNR T) (cNN T)).
Notation cframe := (frame (cNR T) (cNN T)).

(* the final insertion of a move / copy: the destination keeps its type *)
Lemma cframe_insert_later w wk self n pos c r w' :
  cframe w wk -> w_nodes w self = Some n -> ~ is_chars T n ->
  content_insert self pos (CElem c) wk = Val (r, w') -> cframe w w'.
Proof.
  intros F Hn Hc H. destruct (type_frame T _ _ _ _ F Hn) as (n' & Hn' & Ht).
  eapply cframe_trans; [exact F|]. eapply cframe_content_insert; [exact Hn' | | exact H].
  unfold is_chars in *. rewrite Ht. exact Hc.
Qed.

Ltac cf_of E := match type of E with ?mm ?wa = Val (_, ?wb) => refine ((_ : cfp mm) wa _ wb E) end.

Lemma move_local_cframe self mv pos m version w r w' n :
  w_nodes w self = Some n -> ~ is_chars T n ->
  move_element_local T check_fn self mv pos m version w = Val (r, w') -> cframe w w'.
Proof.
  intros Hn Hc H. unfold move_element_local in H.
  wrun_ro H ltac:(apply cframe_refl).
  match goal with
  | Es : path_unchecked T ?mn0 w = Val (OK ?spx, w), Ed : path_unchecked T ?n0 w = Val (OK ?dpx, w),
    Hm : w_nodes w mv = Some ?mn0, En : named_paths T _ w = Val (OK ?orig, w) |- _ =>
    rename spx into src_prefix; rename dpx into dest_prefix; rename orig into original
  end.
  wstepn H u Ed. 2:{ cf_of Ed. apply cfp_detach_from. }
  assert (F1 : cframe w w0) by (cf_of Ed; apply cfp_detach_from).
  wstepn H u2 Em.
  assert (F2 : cframe w w1).
  { eapply cframe_trans; [exact F1|]. cf_of Em. apply frp_modify_node; [fr_side .. |]. intros nx. c_leaf. }
  wstepn H mn2 Eg; winv Eg.
  wstepn H ident Ei. 2:{ unfold is_identifiable in Ei. absurd_err Ei. }
  wstepn H dest_path Edp.
  2:{ eapply cframe_trans; [exact F2|]. cf_of Edp. c_tac. }
  assert (F3 : cframe w w2) by (eapply cframe_trans; [exact F2|]; cf_of Edp; c_tac).
  wstepn H u3 Ea.
  2:{ eapply cframe_trans; [exact F3|]. destruct ident; [eapply cfp_fix_identifiables; eauto|].
      eapply (cfp_each_loop T (fixid_body m src_prefix dest_path)); eauto. intros a. apply cfp_fixid_body. }
  assert (F4 : cframe w w3).
  { eapply cframe_trans; [exact F3|]. destruct ident; [eapply cfp_fix_identifiables; eauto|].
    eapply (cfp_each_loop T (fixid_body m src_prefix dest_path)); eauto. intros a. apply cfp_fixid_body. }
  wstepn H u4 Eb.
  2:{ eapply cframe_trans; [exact F4|].
      eapply (cfp_each_loop T (move_ref_body T check_fn m src_prefix dest_path version)); eauto.
      intros a. apply cfp_move_ref_body. }
  assert (F5 : cframe w w4).
  { eapply cframe_trans; [exact F4|].
    eapply (cfp_each_loop T (move_ref_body T check_fn m src_prefix dest_path version)); eauto.
    intros a. apply cfp_move_ref_body. }
  wstepn H u5 Ec; [winv H|]; exact (cframe_insert_later _ _ _ _ _ _ _ _ F5 Hn Hc Ec).
Qed.

Lemma move_full_cframe self mv pos m m_src version w r w' n :
  w_nodes w self = Some n -> ~ is_chars T n ->
  move_element_full T tab_en check_fn self mv pos m m_src version w = Val (r, w') -> cframe w w'.
Proof.
  intros Hn Hc H. unfold move_element_full in H.
  wrun_ro H ltac:(apply cframe_refl).
  match goal with
  | Es : path_unchecked T ?mn0 w = Val (OK ?spx, w), Ed : path_unchecked T ?n0 w = Val (OK ?dpx, w),
    Hm : w_nodes w mv = Some ?mn0, En : named_paths T _ w = Val (OK ?orig, w),
    Er : ref_texts T tab_en _ w = Val (OK ?orefs, w) |- _ =>
    rename spx into src_prefix; rename dpx into dest_prefix; rename orig into original; rename orefs into orig_refs
  end.
  wstepn H u Ed. 2:{ cf_of Ed. apply cfp_detach_from. }
  assert (F1 : cframe w w0) by (cf_of Ed; apply cfp_detach_from).
  wstepn H u1 El1. 2:{ eapply cframe_trans; [exact F1|]. eapply (cfp_rm_id_loop T m_src original); eauto. }
  assert (F1a : cframe w w1) by (eapply cframe_trans; [exact F1|]; eapply (cfp_rm_id_loop T m_src original); eauto).
  wstepn H u1' El2. 2:{ eapply cframe_trans; [exact F1a|]. eapply (cfp_rm_ref_loop T m_src orig_refs); eauto. }
  assert (F1b : cframe w w2) by (eapply cframe_trans; [exact F1a|]; eapply (cfp_rm_ref_loop T m_src orig_refs); eauto).
  wstepn H u2 Em.
  assert (F2 : cframe w w3).
  { eapply cframe_trans; [exact F1b|]. cf_of Em. apply frp_modify_node; [fr_side .. |]. intros nx. c_leaf. }
  wstepn H mn2 Eg; winv Eg.
  wstepn H ident Ei. 2:{ unfold is_identifiable in Ei. absurd_err Ei. }
  wstepn H dest_path Edp.
  2:{ eapply cframe_trans; [exact F2|]. cf_of Edp. c_tac. }
  assert (F3 : cframe w w4) by (eapply cframe_trans; [exact F2|]; cf_of Edp; c_tac).
  wstepn H u3 Ea.
  2:{ eapply cframe_trans; [exact F3|]. eapply (cfp_add_id_loop T m src_prefix dest_path original); eauto. }
  assert (F4 : cframe w w5).
  { eapply cframe_trans; [exact F3|]. eapply (cfp_add_id_loop T m src_prefix dest_path original); eauto. }
  wstepn H u4 Eb.
  2:{ eapply cframe_trans; [exact F4|].
      eapply (cfp_add_ref_loop T check_fn m src_prefix dest_path version original orig_refs); eauto. }
  assert (F5 : cframe w w6).
  { eapply cframe_trans; [exact F4|].
    eapply (cfp_add_ref_loop T check_fn m src_prefix dest_path version original orig_refs); eauto. }
  wstepn H u5 Ec; [winv H|]; exact (cframe_insert_later _ _ _ _ _ _ _ _ F5 Hn Hc Ec).
Qed.

Lemma e_move_cframe h mv w r w' : e_move_element_here T tab_en check_fn LATEST h mv w = Val (r, w') -> cframe w w'.
Proof.
  intros H. unfold e_move_element_here in H. destruct (h =? mv); [winv H; apply cframe_refl|].
  wrun_ro H ltac:(apply cframe_refl).
  all: match goal with Hq : calc_element_insert_range T ?nn _ _ ?ww = _ |- _ => pose proof (calc_not_chars _ _ _ _ _ _ Hq) as Hc end.
  - eapply move_local_cframe; eauto.
  - eapply move_full_cframe; eauto.
Qed.

Lemma e_move_at_cframe h mv pos w r w' :
  e_move_element_here_at T tab_en check_fn LATEST h mv pos w = Val (r, w') -> cframe w w'.
Proof.
  intros H. unfold e_move_element_here_at in H. destruct (h =? mv); [winv H; apply cframe_refl|].
  wrun_ro H ltac:(apply cframe_refl).
  all: match goal with Hq : calc_element_insert_range T ?nn _ _ ?ww = _ |- _ => pose proof (calc_not_chars _ _ _ _ _ _ Hq) as Hc end.
  - eapply cframe_move_position; eauto.
  - eapply move_local_cframe; eauto.
  - eapply move_full_cframe; eauto.
Qed.

(* ---------- set_item_name ---------- *)
Lemma set_item_name_cframe h new_name w r w' :
  e_set_item_name T check_fn LATEST h new_name w = Val (r, w') -> cframe w w'.
Proof.
  intros H. unfold e_set_item_name in H.
  wrun_ro H ltac:(apply cframe_refl).
  match type of H with context [fix_identifiables ?mm ?op ?np] =>
    set (m0 := mm) in *; set (op0 := op) in *; set (np0 := np) in * end.
  match type of H with ?rest ?wa = _ => refine ((_ : cfp rest) wa _ _ H) end.
  apply frp_bind; [ fr_side .. | apply cfp_raw_set_cdata | ]. intros _.
  apply frp_bind; [ fr_side .. | apply cfp_fix_identifiables | ]. intros _.
  apply frp_bind; [ fr_side .. | apply frp_ro; [ fr_side .. | ro_tac ] | ]. intros x.
  change (cfp (each_loop (rename_ref_body m0 op0 np0) (map fst (m_origins x)))).
  apply cfp_each_loop. intros a'. apply cfp_rename_ref_body.
Qed.

End CF4.
