(* Tree/InvProofsStale2.v — C03, the stale-handle half as a HISTORY theorem over the extended alphabet:
   along every history over op2 without OpLoad / OpDuplicate from the empty world that stays outside the Known classes,
   TreeInv and DF (detached elements carry no local file set) hold; hence in every state so reached every
   place-dependent request through a handle of an element that is no longer part of the tree fails and changes nothing. *)
From Coq Require Import PeanoNat Arith Lia.
From AV Require Import Base.Bytes Base.Outcome Hash.HashModel Tree.Heap Tree.Ops Tree.Script Tree.Inv
  Tree.InvProofsBase Tree.InvProofsCore Tree.InvProofsTree Tree.InvProofsPrim Tree.InvProofsCreate Tree.InvProofsFiles
  Tree.InvProofsCopy Tree.InvProofsNav Tree.InvProofs Tree.InvProofsFrame Tree.StaleProofs Tree.InvProofsDetFiles
  Tree.InvProofsDetFiles4 Tree.InvProofsDetFiles5 Tree.InvProofsDetFiles6 Tree.InvProofsDetFilesMain Tree.InvProofsOp2
  Tree.InvProofsOp2Lift Tree.Copy Tree.Script2 Tree.InvLoad.
From AV Require Tree.InvProofsLoadMerge.
Open Scope string_scope.
Open Scope list_scope.
Open Scope N_scope.

Section Stale2.
Variable T : tables.
Variable tab_el tab_at tab_en : nametab.
Variable check_fn : N -> list N -> res bool.
Variable float_parse : list N -> option N.
Variable float_fmt : N -> list N.
Variable LATEST name_index name_definition_ref attr_schema_location : N.
Variable root_attrs : list (N * cdata).

Notation run2 := (run_op2 T tab_el tab_at tab_en check_fn float_parse float_fmt LATEST name_index name_definition_ref
                          attr_schema_location root_attrs).
Notation run := (Inv.run T tab_el tab_en check_fn LATEST root_attrs).

(* ------------------------------------------------------------------ OpDuplicate keeps DF (whatever its result) *)
(* node i is a model root's node: parent link PModel k *)
Definition PK (k : N) (i : id) (w : world) : Prop := exists n, w_nodes w i = Some n /\ n_parent n = PModel k.

Lemma PK_pframe k i w w' : pframe w w' -> PK k i w -> PK k i w'.
Proof.
  intros (A1 & A2) (n & Hn & Hp). destruct (w_nodes w' i) as [n'|] eqn:E; [|exfalso; apply (A1 i); congruence].
  destruct (A2 _ _ E) as [(n0 & Hn0 & (Hp0 & _))|(Hn0 & _)]; [|congruence]. exists n'. split; auto. congruence.
Qed.
Lemma PK_same_tree k i w w' : same_tree w w' -> PK k i w -> PK k i w'.
Proof.
  intros (_ & _ & Hs) (n & Hn & Hp). pose proof (skel_some _ _ _ Hn) as E. rewrite <- Hs in E.
  apply skel_inv in E as (n' & Hn' & Hp' & _). exists n'. split; auto. congruence.
Qed.
Lemma PK_wset_other k i w j n' : i <> j -> PK k i w -> PK k i (wset w j n').
Proof. intros Hne (n & Hn & Hp). exists n. split; auto. rewrite nodes_wset_neq; auto. Qed.

Lemma copied_inner_pk k i self other pos m version w r w' :
  Core w -> PK k i w -> create_copied_sub_element_inner T self other pos m version w = Val (r, w') -> PK k i w'.
Proof.
  intros C P H. unfold create_copied_sub_element_inner in H.
  wrun_ro H ltac:(exact P).
  wstepn H c Ed.
  2:{ exact (PK_pframe _ _ _ _ (deep_copy_pframe T check_fn LATEST _ _ _ _ _ _ C Ed) P). }
  pose proof (deep_copy_pframe T check_fn LATEST _ _ _ _ _ _ C Ed) as F1.
  pose proof Ed as Ed0. apply deep_copy_spec in Ed0 as (C1 & _ & (X1 & X2 & X3) & -> & Hcn & nc & Hnc & Hpc);
    try exact C; try exact check_fn; try exact LATEST.
  match type of Ed with _ = Val (_, ?wx) => rename wx into w1 end.
  assert (P1 : PK k i w1) by (exact (PK_pframe _ _ _ _ F1 P)).
  wrun_ro H ltac:(exact P1).
  wstepn H u Em. apply modify_node_wset in Em as (nc' & Hnc' & _ & ->).
  assert (Hi : i <> w_next w).
  { destruct P as (n9 & Hn9 & _). intros ->. assert (allocated w (w_next w)) as Ha by (eexists; eauto). apply C in Ha. lia. }
  pose proof (PK_wset_other k i w1 (w_next w) (set_parent nc' (PElem self)) Hi P1) as P2.
  match type of H with ?mm ?wa = _ => assert (F2 : pframe wa w') by (refine ((_ : pfp mm) wa _ _ H); pf_tac) end.
  exact (PK_pframe _ _ _ _ F2 P2).
Qed.
Lemma e_copied_pk k i h other w r w' :
  Core w -> PK k i w -> e_create_copied_sub_element T LATEST h other w = Val (r, w') -> PK k i w'.
Proof.
  intros C P H. unfold e_create_copied_sub_element, raw_create_copied_sub_element in H.
  wrun_ro H ltac:(exact P). eapply copied_inner_pk; eauto.
Qed.

Lemma reach_top w k rt x : Core w -> PK k rt w -> Reach w rt x -> Top w x (PModel k).
Proof.
  intros C (n & Hn & Hp) H. induction H as [Ha|p c Hr IH Hl].
  - rewrite <- Hp. eapply T_here; eauto. rewrite Hp. congruence.
  - apply (c_up _ C) in Hl. destruct Hl as (nc & Hnc & Hpc). eapply T_up; eauto.
Qed.

Section DupDF.
Variable kc : N.
Variable croot : id.
Definition Inv3 (w : world) : Prop := TreeInv w /\ DF w /\ PK kc croot w.
Definition K3 {A} (m : W A) : Prop := forall w r w', Inv3 w -> m w = Val (r, w') ->
  DF w' /\ PK kc croot w' /\ (forall a, r = OK a -> TreeInv w').

Lemma K3_ro {A} (m : W A) : ro m -> K3 m.
Proof. intros H w r w' (I & D & P) E. apply H in E. subst. auto. Qed.
Lemma K3_bind {A B} (m : W A) (k : A -> W B) : K3 m -> (forall a, K3 (k a)) -> K3 (wbind m k).
Proof.
  intros Hm Hk w r w' I3 H. apply wbind_inv in H as [(a & w1 & H1 & H2) | (e & H1 & ->)].
  - destruct (Hm _ _ _ I3 H1) as (D1 & P1 & T1). eapply Hk; [|exact H2]. split; [apply (T1 a); reflexivity|auto].
  - destruct (Hm _ _ _ I3 H1) as (D1 & P1 & _). split; auto. split; auto. intros a [=].
Qed.
Lemma K3_lift {A} (m : W A) : (forall w r w', m w = Val (r, w') -> lift T w w') -> K3 m.
Proof.
  intros Hl w r w' ((C & O) & D & P) H. pose proof (Hl _ _ _ H) as L. split; [eapply lift_DF; eauto|]. split.
  - eapply PK_pframe; [apply L|exact P].
  - intros a _. split; [eapply Core_ptree; [apply L|exact C]|eapply NoOrphan_ptree; [apply L|exact O]].
Qed.

Lemma K3_create_file c name version : K3 (m_create_file T c name version).
Proof.
  intros w r w' ((C & O) & D & P) H. pose proof (stp_m_create_file T _ _ _ _ _ _ H) as S.
  split; [eapply m_create_file_df; eauto|]. split; [eapply PK_same_tree; eauto|].
  intros a _. eapply TreeInv_same_tree; [exact S|split; auto].
Qed.
Lemma K3_copy h other : K3 (e_create_copied_sub_element T LATEST h other).
Proof.
  intros w r w' (I & D & P) H. pose proof I as (C & O).
  split; [eapply e_copied_df; eauto|]. split; [eapply e_copied_pk; eauto|].
  intros a ->.
  eapply (TreeInv_step T tab_el tab_en check_fn LATEST root_attrs (OpCopy h other) w (OK (VElem a)) w' I).
  - unfold Inv.Known, Known_setcdata, Known_refhead, Inv.Known_failed_reparent, Inv.run. cbn [run_op]. unfold welem, wbind.
    rewrite H. reflexivity.
  - unfold Inv.run. cbn [run_op]. unfold welem, wbind. rewrite H. reflexivity.
Qed.

Lemma K3_dup_files c : forall files fm, K3 (dup_files T c files fm).
Proof.
  induction files as [|f rest IH]; intros fm; cbn [dup_files]; [apply K3_ro; ro_tac|].
  apply K3_bind; [apply K3_ro; ro_tac|]. intros fl.
  apply K3_bind; [apply K3_create_file|]. intros nf.
  apply K3_bind; [apply K3_ro; ro_tac|]. intros nfl.
  apply K3_bind; [|intros _; apply IH].
  apply K3_lift. intros w r w' H. unfold set_file in H. injection H as _ <-. apply lift_nodes_eq; auto.
Qed.
Lemma K3_dup_children cr : forall items, K3 (dup_children T LATEST cr items).
Proof.
  induction items as [|[e|d] rest IH]; cbn [dup_children]; [apply K3_ro; ro_tac | | exact IH].
  apply K3_bind; [apply K3_copy | intros; exact IH].
Qed.

(* the membership loop only touches nodes below the copy's root *)
Lemma K3_dup_membership fm : forall oids cids w r w', Inv3 w -> (forall c, In c cids -> Reach w croot c) ->
  dup_membership fm oids cids w = Val (r, w') -> DF w' /\ PK kc croot w' /\ TreeInv w'.
Proof.
  induction oids as [|o orest IH]; intros cids w r w' (I & D & P) Hc H; cbn [dup_membership] in H.
  - apply wret_inv in H as (_ & ->). auto.
  - destruct cids as [|c crest]; [apply wret_inv in H as (_ & ->); auto|].
    apply wbind_inv in H as [(on & w1 & H1 & H) | (e & H1 & ->)]; [|apply get_node_inv in H1 as (? & _ & [=] & _)].
    apply get_node_inv in H1 as (on' & Hon & [= ->] & ->).
    apply wbind_inv in H as [(wq & w1 & H1 & H) | (e & H1 & ->)]; [|apply wget_inv in H1 as ([=] & _)].
    apply wget_inv in H1 as ([= ->] & ->).
    apply wbind_inv in H as [(u & w2 & H1 & H) | (e & H1 & ->)]; [|apply modify_node_wset in H1 as (? & _ & [=] & _)].
    apply modify_node_wset in H1 as (nc & Hnc & _ & ->).
    pose proof I as (C & O).
    assert (Ht : Top w c (PModel kc)) by (eapply reach_top; eauto; apply Hc; left; reflexivity).
    set (w2 := wset w c _) in *.
    assert (S : same_tree w w2) by (eapply st_wset; eauto; reflexivity).
    assert (D2 : DF w2) by (eapply (DF_set_files w c nc _ kc); eauto; reflexivity).
    eapply (IH crest w2 r w'); [split; [eapply TreeInv_same_tree; eauto|split; [exact D2|eapply PK_same_tree; eauto]]| |exact H].
    intros c0 Hc0. apply (InvProofsLoadMerge.st_reach _ _ _ _ S). apply Hc. right. exact Hc0.
Qed.
End DupDF.

Theorem DF_duplicate m w r w' :
  TreeInv w -> DF w -> m_duplicate T tab_el tab_en check_fn LATEST root_attrs m w = Val (r, w') ->
  DF w' /\ (forall c, r = OK c -> TreeInv w').
Proof.
  intros I D H. unfold m_duplicate in H.
  assert (G : forall r1 w1, m_duplicate_body T LATEST root_attrs m w = Val (r1, w1) ->
              DF w1 /\ (forall c, r1 = OK c -> TreeInv w1)).
  { clear H. intros r1 w1 H. unfold m_duplicate_body in H. pose proof I as (C & O).
    apply wbind_inv in H as [(x & wa & H1 & H) | (e & H1 & ->)]; [|apply get_model_inv in H1 as (? & _ & [=] & _)].
    apply get_model_inv in H1 as (x' & Hx & [= ->] & ->).
    apply wbind_inv in H as [(c & wn & Hnm & H) | (e & Hnm & ->)].
    2:{ split; [eapply new_model_df; eauto|intros c [=]]. }
    assert (In1 : TreeInv wn) by (eapply TreeInv_Pres; [apply Pres_new_model|exact Hnm|exact I]).
    assert (Dn : DF wn) by (eapply new_model_df; eauto).
    apply wbind_inv in H as [(rn & wb & H1 & H) | (e & H1 & ->)]; [|apply get_node_inv in H1 as (? & _ & [=] & _)].
    apply get_node_inv in H1 as (rn' & Hrn & [= ->] & ->).
    apply wbind_inv in H as [(cx & wb & H1 & H) | (e & H1 & ->)]; [|apply get_model_inv in H1 as (? & _ & [=] & _)].
    apply get_model_inv in H1 as (cx' & Hcx & [= ->] & ->).
    assert (Pn : PK c (m_root cx') wn).
    { rewrite nth_opt_nth_error in Hcx.
      assert (Hr : nth_error (roots wn) (N.to_nat c) = Some (m_root cx')) by (unfold roots; rewrite nth_error_map, Hcx; reflexivity).
      destruct (c_roots _ (proj1 In1) _ _ Hr) as (n & Hn & Hp). exists n. split; auto. rewrite Hp, N2Nat.id. reflexivity. }
    set (croot := m_root cx') in *.
    assert (Km : K3 c croot (modify_node croot (fun r0 => set_comment (set_attrs r0 (n_attrs rn')) (n_comment rn')))).
    { apply K3_lift. apply lift_modify_keep. intros n9. repeat split. }
    (* split the body at the membership loop *)
    apply wbind_inv in H as [(u1 & w2 & H1 & H) | (e & H1 & ->)].
    2:{ destruct (Km _ _ _ (conj In1 (conj Dn Pn)) H1) as (A & _ & _).
        split; [exact A|intros c0 [=]]. }
    destruct (Km _ _ _ (conj In1 (conj Dn Pn)) H1) as (D2 & P2 & T2).
    specialize (T2 u1 eq_refl).
    apply wbind_inv in H as [(fm & w3 & H1' & H) | (e & H1' & ->)].
    2:{ destruct (K3_dup_files c croot c _ _ _ _ _ (conj T2 (conj D2 P2)) H1') as (A & _ & _). split; [exact A|intros c0 [=]]. }
    destruct (K3_dup_files c croot c _ _ _ _ _ (conj T2 (conj D2 P2)) H1') as (D3 & P3 & T3). specialize (T3 fm eq_refl).
    apply wbind_inv in H as [(u4 & w4 & H4 & H) | (e & H4 & ->)].
    2:{ destruct (K3_dup_children c croot croot _ _ _ _ (conj T3 (conj D3 P3)) H4) as (A & _ & _). split; [exact A|intros c0 [=]]. }
    destruct (K3_dup_children c croot croot _ _ _ _ (conj T3 (conj D3 P3)) H4) as (D4 & P4 & T4). specialize (T4 u4 eq_refl).
    apply wbind_inv in H as [(wq & w5 & H5 & H) | (e & H5 & ->)]; [|apply wget_inv in H5 as ([=] & _)].
    apply wget_inv in H5 as ([= ->] & ->).
    apply wbind_inv in H as [(oids & w5 & H5 & H) | (e & H5 & ->)].
    2:{ pose proof (ro_dfs_ids _ _ _ _ _ H5) as ->. split; [exact D4|intros c0 [=]]. }
    pose proof (ro_dfs_ids _ _ _ _ _ H5) as ->.
    apply wbind_inv in H as [(cids & w6 & H6 & H) | (e & H6 & ->)].
    2:{ pose proof (ro_dfs_ids _ _ _ _ _ H6) as ->. split; [exact D4|intros c0 [=]]. }
    pose proof (ro_dfs_ids _ _ _ _ _ H6) as ->.
    apply wbind_inv in H as [(u7 & w7 & H7 & H) | (e & H7 & ->)].
    + destruct (K3_dup_membership c croot _ _ _ _ _ _ (conj T4 (conj D4 P4))
                 (fun c0 Hc0 => proj1 (InvProofsLoadMerge.dfs_ids_keep _ _ _ _ _ H6 c0) Hc0) H7) as (D7 & _ & T7).
      apply wret_inv in H as (_ & ->). split; auto.
    + destruct (K3_dup_membership c croot _ _ _ _ _ _ (conj T4 (conj D4 P4))
                 (fun c0 Hc0 => proj1 (InvProofsLoadMerge.dfs_ids_keep _ _ _ _ _ H6 c0) Hc0) H7) as (D7 & _ & _).
      split; [exact D7|intros c0 [=]]. }
  destruct (m_duplicate_body T LATEST root_attrs m w) as [[[c|e] w1]| |] eqn:E; try discriminate H.
  - injection H as <- <-. exact (G _ _ eq_refl).
  - injection H as <- <-. destruct (G _ _ eq_refl) as (D1 & _). split; [|intros c [=]].
    (* the dropped copy: nodes untouched *)
    intros x n Hd Hn. eapply D1; [|exact Hn]. unfold Detached in *. clear - Hd.
    induction Hd as [x n Hn Hp|x n p t Hn Hp Ht IH]; [eapply T_here; eauto|eapply T_up; eauto].
Qed.

(* the classes of Tree/Inv.v on the embedded alphabet, and the failed duplicate (its half-built copy stays allocated
   below a model root that no longer exists: RootsOnly is lost, DF is not) *)
Definition Known2 (w : world) (o : op2) : bool :=
  match o with
  | Op1 o1 => Inv.Known T tab_el tab_en check_fn LATEST root_attrs w o1
  | _ => Known_dup_failed T tab_el tab_at tab_en check_fn float_parse float_fmt LATEST name_index name_definition_ref
           attr_schema_location root_attrs w o
  end.

(* PARTIAL: pending_op2 = OpLoad *)
Theorem TD_step2_partial o w r w' :
  TreeInv w -> DF w -> pending_op2 o = false -> Known2 w o = false -> run2 o w = Val (r, w') ->
  TreeInv w' /\ DF w'.
Proof.
  intros I D Hp HK H.
  destruct (pending_real2 o) eqn:Hpr.
  - destruct o as [o1| | |m| | | | |]; try discriminate Hpr; try discriminate Hp.
    cbn [Known2] in HK. unfold Known_dup_failed in HK. rewrite H in HK.
    cbn [run_op2] in H. apply wmap_inv in H as (r0 & H & ->).
    destruct (DF_duplicate _ _ _ _ I D H) as (D1 & T1). destruct r0 as [c|e]; [|discriminate HK].
    split; [apply (T1 c); reflexivity|exact D1].
  - split; [|eapply DF_step2_partial; eauto].
    assert (G : (forall o1, o <> Op1 o1) -> TreeInv w').
    { intros Hn1.
      pose proof (lift_step2 T tab_el tab_at tab_en check_fn float_parse float_fmt LATEST name_index
                    name_definition_ref attr_schema_location root_attrs o w r w' Hpr Hn1 H) as L.
      destruct I as (C & O). split; [eapply Core_ptree; [apply L|exact C]|eapply NoOrphan_ptree; [apply L|exact O]]. }
    destruct o as [o1| | | | | | | |]; try (apply G; intros o1; discriminate).
    cbn [run_op2] in H. apply wmap_inv in H as (r0 & H & _). eapply TreeInv_step; eauto.
Qed.

Fixpoint clean_stale_ops2 (l : list op2) (w : world) : bool :=
  match l with
  | [] => true
  | o :: r => negb (pending_op2 o) && negb (Known2 w o) &&
              match run2 o w with Val (_, w') => clean_stale_ops2 r w' | _ => true end
  end.

Theorem TD_histories2_partial l : forall w w',
  TreeInv w -> DF w -> clean_stale_ops2 l w = true ->
  run_ops2 T tab_el tab_at tab_en check_fn float_parse float_fmt LATEST name_index name_definition_ref
           attr_schema_location root_attrs l w = Val w' -> TreeInv w' /\ DF w'.
Proof.
  induction l as [|o l IH]; intros w w' I D Hc H; cbn [run_ops2 clean_stale_ops2] in *.
  - injection H as <-. auto.
  - apply andb_prop in Hc as (Hc1 & Hc). apply andb_prop in Hc1 as (Hp & Hk).
    apply negb_true_iff in Hp. apply negb_true_iff in Hk.
    destruct (run2 o w) as [[r w1]| |] eqn:E; try discriminate H.
    destruct (TD_step2_partial _ _ _ _ I D Hp Hk E) as (I1 & D1). eapply IH; eauto.
Qed.

(* the stale-handle half along histories *)
Theorem stale_fails_histories2_partial l w o h r w' :
  run_ops2 T tab_el tab_at tab_en check_fn float_parse float_fmt LATEST name_index name_definition_ref
           attr_schema_location root_attrs l empty_world = Val w ->
  clean_stale_ops2 l empty_world = true ->
  Detached w h -> principal o = Some h -> place_dependent o = true ->
  run o w = Val (r, w') -> w' = w /\ failed r.
Proof.
  intros H Hc Hd Hp Hpd Hr.
  destruct (TD_histories2_partial l _ _ empty_treeinv DF_empty Hc H) as (_ & D).
  eapply stale_fails_inv; eauto.
Qed.

(* every request that does not ask for min_version alone fails through a detached handle in EVERY world, whatever
   history (loads, known classes) produced it; only create_sub_element(_at), set_attribute, get_or_create_sub_element
   need the file sets of the detached chain *)
Theorem stale_fails_every_world o h w r w' :
  needs_version_only o = false -> Detached w h -> principal o = Some h -> place_dependent o = true ->
  run o w = Val (r, w') -> w' = w /\ failed r.
Proof. intros Hv. apply stale_fails. rewrite Hv. discriminate. Qed.

End Stale2.
