(* Tree/MergePureVersions.v — C09, files of different versions: the pure merge looks at versions only through
   splittable_in (type of the merged element) and find_sub_element (type of the merged element, names of sub-elements).
   When these lookups agree for all versions of a set vs on the types and names of the two trees ([HU]), the merge does not
   depend on which versions of vs the files have ([pmerge_versions], [Clean_versions]); so the theorems for one version
   carry over to masters whose elements exist in every version of vs with the same type ([uniformb], a boolean). *)
From Coq Require Import Permutation.
From AV Require Import Base.Bytes Base.Outcome Hash.HashModel Tree.Heap Tree.Ops Tree.Load Tree.MergeSpec Tree.MergePure
  Tree.LoadProofsWalk Tree.MergePureProofsBase Tree.MergePureProofs Tree.MergePureProofsMain Tree.LoadRefinePure.
From AV Require Xml.Lexer Xml.Parser.
Open Scope string_scope.
Open Scope list_scope.
Open Scope N_scope.

Lemma in_insert_at_iff' {A} (l : list A) k x y : In y (insert_at l k x) -> y = x \/ In y l.
Proof.
  revert k. induction l as [|z l IH]; intros [|k]; cbn [insert_at In]; intros H; try tauto.
  - destruct H as [H|[]]; auto.
  - destruct H as [H|[]]; auto.
  - destruct H as [H|H]; auto.
  - destruct H as [H|H]; [auto|]. apply IH in H. tauto.
Qed.

Section Versions.
Variable T : tables.
Variables LATEST defref : N.
Variable vs : list N.          (* the versions of the files *)
Variable v0 : N.               (* one of them *)
Variable NM : list N.          (* the element names that occur *)

Definition TyUni (ty : N * N) : Prop :=
  (forall v, In v vs -> splittable_in T ty v = splittable_in T ty v0) /\
  (forall v name, In v vs -> In name NM -> find_sub_element T ty name v = find_sub_element T ty name v0).

Fixpoint HU (h : htree) {struct h} : Prop :=
  match h with
  | HNode name ty attrs content comment local =>
    TyUni ty /\ In name NM /\
    (fix all (l : list (htree + cdata)) : Prop :=
       match l with [] => True | inl c :: r => HU c /\ all r | inr _ :: r => all r end) content
  end.
Fixpoint HUs (l : list (htree + cdata)) : Prop :=
  match l with [] => True | inl c :: r => HU c /\ HUs r | inr _ :: r => HUs r end.
Lemma HU_unfold name ty attrs content comment local :
  HU (HNode name ty attrs content comment local) <-> (TyUni ty /\ In name NM /\ HUs content).
Proof.
  cbn [HU].
  assert (E : forall l, (fix all (l : list (htree + cdata)) : Prop :=
                           match l with [] => True | inl c :: r => HU c /\ all r | inr _ :: r => all r end) l <-> HUs l).
  { induction l as [|[c|d] r IH]; cbn [HUs]; [tauto| |exact IH]. rewrite IH. tauto. }
  rewrite E. tauto.
Qed.
Lemma HUs_in l c : HUs l -> In (inl c) l -> HU c.
Proof.
  induction l as [|[c0|d] r IH]; cbn [HUs In]; [intros _ []| |].
  - intros [H1 H2] [[= ->]|H]; auto.
  - intros H [[=]|H0]; auto.
Qed.
Lemma HU_name h : HU h -> In (h_name h) NM. Proof. destruct h. intros H. destruct (proj1 (HU_unfold _ _ _ _ _ _) H) as [H1 [H2 H3]]. exact H2. Qed.
Lemma HU_ty h : HU h -> TyUni (h_ty h). Proof. destruct h. intros H. destruct (proj1 (HU_unfold _ _ _ _ _ _) H) as [H1 [H2 H3]]. exact H1. Qed.
Lemma HU_content h : HU h -> HUs (h_content h). Proof. destruct h. intros H. destruct (proj1 (HU_unfold _ _ _ _ _ _) H) as [H1 [H2 H3]]. exact H3. Qed.

Definition NamesS (sh : list (option N)) : Prop := forall n, In (Some n) sh -> In n NM.
Lemma HUs_shape l : HUs l -> NamesS (shape l).
Proof.
  unfold shape. induction l as [|[c|d] r IH]; cbn [HUs map item_name_of]; intros H n Hn; [destruct Hn| |].
  - destruct H as [H1 H2]. destruct Hn as [[= <-]|Hn]; [apply HU_name; exact H1|apply IH; auto].
  - destruct Hn as [[=]|Hn]. apply IH; auto.
Qed.

Lemma range_loop_versions ty new_idx v : In v vs -> TyUni ty ->
  forall items i s e, NamesS items ->
    p_range_loop T ty v new_idx items i s e = p_range_loop T ty v0 new_idx items i s e.
Proof.
  intros Hv (_ & Hf). induction items as [|[cname|] rest IH]; intros i s e HN; cbn [p_range_loop]; [reflexivity| |].
  - rewrite (Hf v cname Hv (HN cname (or_introl eq_refl))).
    assert (HN' : NamesS rest) by (intros n Hn; apply HN; right; exact Hn).
    destruct (find_sub_element T ty cname v0) as [[[sub ex_idx]|]| |]; cbn [bind]; try reflexivity.
    + destruct (find_common_group T ty new_idx ex_idx) as [g| |]; cbn [bind]; try reflexivity.
      destruct (dt T g) as [gd| |]; cbn [bind]; try reflexivity.
      destruct (dt_mode gd =? MSequence).
      * destruct (lex_cmp new_idx ex_idx); try reflexivity; [|apply IH; exact HN'].
        destruct (repeat_conflict T ty new_idx) as [[|]| |]; cbn [bind]; try reflexivity. apply IH; exact HN'.
      * destruct (dt_mode gd =? MChoice).
        -- destruct (list_eqbN new_idx ex_idx); try reflexivity.
           destruct (repeat_conflict T ty new_idx) as [[|]| |]; cbn [bind]; try reflexivity. apply IH; exact HN'.
        -- destruct ((dt_mode gd =? MBag) || (dt_mode gd =? MMixed)); [apply IH; exact HN'|reflexivity].
    + destruct (find_sub_element T ty cname 4294967295) as [[[sub ex_idx]|]| |]; cbn [bind]; try reflexivity; [|apply IH; exact HN'].
      destruct (find_common_group T ty new_idx ex_idx) as [g| |]; cbn [bind]; try reflexivity.
      destruct (dt T g) as [gd| |]; cbn [bind]; try reflexivity.
      destruct (dt_mode gd =? MSequence).
      * destruct (lex_cmp new_idx ex_idx); try reflexivity; [|apply IH; exact HN'].
        destruct (repeat_conflict T ty new_idx) as [[|]| |]; cbn [bind]; try reflexivity. apply IH; exact HN'.
      * destruct (dt_mode gd =? MChoice).
        -- destruct (list_eqbN new_idx ex_idx); try reflexivity.
           destruct (repeat_conflict T ty new_idx) as [[|]| |]; cbn [bind]; try reflexivity. apply IH; exact HN'.
        -- destruct ((dt_mode gd =? MBag) || (dt_mode gd =? MMixed)); [apply IH; exact HN'|reflexivity].
  - apply IH. intros n Hn. apply HN. right. exact Hn.
Qed.

Lemma insert_range_sh_versions ty sh name v : In v vs -> TyUni ty -> NamesS sh -> In name NM ->
  p_insert_range_sh T ty sh name v = p_insert_range_sh T ty sh name v0.
Proof.
  intros Hv HT HN Hname. unfold p_insert_range_sh.
  destruct (content_mode T ty) as [mode| |]; cbn [bind]; try reflexivity.
  destruct (mode =? MCharacters); [reflexivity|].
  rewrite (proj2 HT v name Hv Hname).
  destruct (find_sub_element T ty name v0) as [[[sub idx]|]| |]; cbn [bind]; try reflexivity.
  destruct ((mode =? MBag) || (mode =? MMixed)); [reflexivity|]. apply range_loop_versions; auto.
Qed.

Lemma dests_versions ty bcontent v : In v vs -> TyUni ty -> HUs bcontent ->
  forall bs idx sh, NamesS sh -> p_dests T ty bcontent bs idx v sh = p_dests T ty bcontent bs idx v0 sh.
Proof.
  intros Hv HT HB. induction bs as [|[bid ip] bs IH]; intros idx sh HN; cbn [p_dests]; [reflexivity|].
  destruct (nth_opt bcontent (N.to_nat bid)) as [[nb|d]|] eqn:En; try reflexivity.
  assert (Hnb : In (h_name nb) NM).
  { apply HU_name. apply (HUs_in bcontent nb HB). rewrite nth_opt_nth_error in En. eapply nth_error_In; eauto. }
  rewrite (insert_range_sh_versions ty sh _ v Hv HT HN Hnb).
  destruct (p_insert_range_sh T ty sh (h_name nb) v0) as [[[fp lp]|e]| |]; cbn [bind]; try reflexivity.
  destruct (N.of_nat (List.length sh) <? N.min (N.max (ip + idx) fp) lp); [reflexivity|].
  rewrite IH; [reflexivity|]. intros n Hn. apply in_insert_at_iff' in Hn as [[= ->]|Hn]; [exact Hnb|apply HN; exact Hn].
Qed.


(* the versions of all files are in vs *)
Definition VOK (fver : N -> option N) : Prop := (forall f v, fver f = Some v -> In v vs) /\ In LATEST vs.

Lemma fold_min_in l : forall a, In a vs -> (forall x, In x l -> In x vs) -> In (fold_left N.min l a) vs.
Proof.
  induction l as [|y l IH]; intros a Ha Hl; cbn [fold_left]; [exact Ha|]. apply IH.
  - destruct (N.min_dec a y) as [E|E]; rewrite E; [exact Ha|apply Hl; left; reflexivity].
  - intros x Hx. apply Hl. right. exact Hx.
Qed.
Lemma pfmv_in fver files : VOK fver -> In (p_files_min_version LATEST fver files) vs.
Proof.
  intros (H1 & H2). unfold p_files_min_version.
  assert (G : forall x, In x (flat_map (fun f => match fver f with Some v => [v] | None => [] end) files) -> In x vs).
  { intros x Hx. apply in_flat_map in Hx as (f & _ & Hx). destruct (fver f) as [v|] eqn:E; [|destruct Hx].
    destruct Hx as [<-|[]]. eapply H1; eauto. }
  destruct (flat_map _ files) as [|a r]; [exact H2|]. apply fold_min_in; [apply G; left; reflexivity|].
  intros x Hx. apply G. right. exact Hx.
Qed.
Lemma verb_in fver nf : VOK fver -> In (match fver nf with Some v => v | None => LATEST end) vs.
Proof. intros (H1 & H2). destruct (fver nf) as [v|] eqn:E; [eapply H1; eauto|exact H2]. Qed.
Lemma ver_in fver files nf : VOK fver ->
  In (N.min (p_files_min_version LATEST fver files) (match fver nf with Some v => v | None => LATEST end)) vs.
Proof.
  intros H. destruct (N.min_dec (p_files_min_version LATEST fver files) (match fver nf with Some v => v | None => LATEST end)) as [E|E];
    rewrite E; [apply pfmv_in; exact H|apply verb_in; exact H].
Qed.

Lemma map_kids_ext f f' : forall l i, (forall j c, In (inl c) l -> f j c = f' j c) -> map_kids f i l = map_kids f' i l.
Proof.
  induction l as [|[c|d] r IH]; intros i H; cbn [map_kids]; [reflexivity| |].
  - rewrite (H i c (or_introl eq_refl)), (IH (i + 1)); [reflexivity|]. intros j c0 H0. apply H. right. exact H0.
  - rewrite (IH (i + 1)); [reflexivity|]. intros j c0 H0. apply H. right. exact H0.
Qed.

Theorem pmerge_versions fver fver' : VOK fver -> VOK fver' -> forall fuel a files b nf, HU a -> HU b ->
  pmerge T LATEST defref fver fuel a files b nf = pmerge T LATEST defref fver' fuel a files b nf.
Proof.
  intros HV HV'. induction fuel as [|fl IH]; intros a files b nf Ha Hb; [reflexivity|].
  rewrite !pmerge_unfold. cbv zeta.
  pose proof (HU_ty a Ha) as HT.
  rewrite (proj1 HT _ (ver_in fver files nf HV)), (proj1 HT _ (ver_in fver' files nf HV')).
  destruct (splittable_in T (h_ty a) v0) as [sp| |]; cbn [bind]; try reflexivity.
  destruct (walk _ _ _ sp _ 0 _ _ _) as [[wk|e]| |]; cbn [bind]; try reflexivity.
  rewrite (map_kids_ext (child_step (pmerge T LATEST defref fver fl) wk files (h_content b) nf)
                        (child_step (pmerge T LATEST defref fver' fl) wk files (h_content b) nf)).
  2:{ intros j c Hc. unfold child_step. destruct (existsb (N.eqb j) (wk_a_only wk)); [reflexivity|].
      destruct (lookup_merge j (wk_merge wk)) as [ib|]; [|reflexivity].
      destruct (nth_opt (h_content b) (N.to_nat ib)) as [[eb|d]|] eqn:En; try reflexivity.
      rewrite IH; [reflexivity|apply (HUs_in _ c (HU_content a Ha) Hc)|].
      apply (HUs_in _ eb (HU_content b Hb)). rewrite nth_opt_nth_error in En. eapply nth_error_In; eauto. }
  destruct (map_kids _ 0 (h_content a)) as [[c1|e]| |] eqn:Em; cbn [bind]; try reflexivity.
  rewrite !p_import_dests.
  assert (HN : NamesS (shape c1)).
  { rewrite (map_kids_shape T LATEST defref fver' fl wk files (h_content b) nf (h_content a) 0 c1 Em). apply HUs_shape, HU_content, Ha. }
  rewrite (dests_versions (h_ty a) (h_content b) _ (verb_in fver nf HV) HT (HU_content b Hb)), (dests_versions (h_ty a) (h_content b) _ (verb_in fver' nf HV') HT (HU_content b Hb)); auto.
Qed.

Theorem Clean_versions fver fver' : VOK fver -> VOK fver' -> forall fuel a files b nf, HU a -> HU b ->
  Clean T LATEST defref fver fuel a files b nf -> Clean T LATEST defref fver' fuel a files b nf.
Proof.
  intros HV HV'. induction fuel as [|fl IH]; intros a files b nf Ha Hb HC; [exact I|].
  cbn [Clean] in *. cbv zeta in *.
  pose proof (HU_ty a Ha) as HT.
  rewrite (proj1 HT _ (ver_in fver files nf HV)) in HC. rewrite (proj1 HT _ (ver_in fver' files nf HV')).
  destruct (splittable_in T (h_ty a) v0) as [sp| |]; try exact I.
  destruct (walk _ _ _ sp _ 0 _ _ _) as [[wk|e]| |]; try exact I.
  destruct HC as (C1 & C2 & C3 & C4 & C5). repeat split; auto.
  intros ia ib ca cb Hin Hna Hnb. apply IH.
  - apply (HUs_in _ ca (HU_content a Ha)). rewrite nth_opt_nth_error in Hna. eapply nth_error_In; eauto.
  - apply (HUs_in _ cb (HU_content b Hb)). rewrite nth_opt_nth_error in Hnb. eapply nth_error_In; eauto.
  - eapply C5; eauto.
Qed.

End Versions.

(* ------------------------------------------------------------------ masters that are uniform over the versions *)
From AV Require Import Tree.MergePureProofsKeys.
From AV Require Tree.LoadRefineGood.

Section Masters.
Variable T : tables.
Variables LATEST defref : N.
Variable vs : list N.
Variable v0 : N.
Variable NM : list N.

Fixpoint MU (t : mtree) {struct t} : Prop :=
  match t with
  | MNode name ty attrs content comment files =>
    TyUni T vs v0 NM ty /\ In name NM /\
    (fix all (l : list (mtree + Parser.cdata)) : Prop :=
       match l with [] => True | inl c :: r => MU c /\ all r | inr _ :: r => all r end) content
  end.
Lemma MU_unfold name ty attrs content comment files :
  MU (MNode name ty attrs content comment files) <->
  (TyUni T vs v0 NM ty /\ In name NM /\ forall c, In c (kids content) -> MU c).
Proof.
  cbn [MU].
  assert (E : forall l, (fix all (l : list (mtree + Parser.cdata)) : Prop :=
                           match l with [] => True | inl c :: r => MU c /\ all r | inr _ :: r => all r end) l <->
                        (forall c, In c (kids l) -> MU c)).
  { induction l as [|[c|d] r IH]; cbn [kids flat_map app].
    - split; [intros _ c []|auto].
    - rewrite IH. split.
      + intros [H1 H2] c0 [<-|H0]; auto.
      + intros H. split; [apply H; left; reflexivity|]. intros c0 H0. apply H. right. exact H0.
    - exact IH. }
  rewrite E. tauto.
Qed.

Lemma HUs_forall l : (forall c, In (inl c) l -> HU T vs v0 NM c) -> HUs T vs v0 NM l.
Proof.
  induction l as [|[c|d] r IH]; intros H; cbn [HUs]; [exact I| |].
  - split; [apply H; left; reflexivity|apply IH; intros c0 H0; apply H; right; exact H0].
  - apply IH. intros c0 H0. apply H. right. exact H0.
Qed.

Lemma pview_HU n : forall t, (depth t <= n)%nat -> MU t -> forall g, HU T vs v0 NM (pview g t).
Proof.
  induction n as [|n IH]; intros [name ty attrs content comment files] Hd HM g; rewrite depth_unfold in Hd; [lia|].
  apply MU_unfold in HM as (HT & Hn & Hk). rewrite pview_unfold. apply HU_unfold. split; [exact HT|]. split; [exact Hn|].
  apply HUs_forall. intros h Hh. destruct (pview_items_in_inv g content h Hh) as (c & Hc & _ & ->).
  apply IH; [|apply Hk; exact Hc]. apply kids_in in Hc. apply depth_items_in in Hc. lia.
Qed.

Lemma Rep_HU n : forall t, (depth t <= n)%nat -> MU t -> forall F inh h, Rep T F inh t h -> HU T vs v0 NM h.
Proof.
  induction n as [|n IH]; intros [name ty attrs content comment files] Hd HM F inh h HR; rewrite depth_unfold in Hd; [lia|].
  apply MU_unfold in HM as (HT & Hn & Hk). apply Rep_unfold in HR as (_ & hc & hc' & -> & HI & HP & _).
  apply HU_unfold. split; [exact HT|]. split; [exact Hn|].
  apply HUs_forall. intros h0 Hh. assert (Hh' : In (inl h0) hc') by (eapply Permutation_in; eauto).
  destruct (RepItems_in_inv _ F _ content hc' h0 HI Hh') as (c & Hc & HRc).
  eapply IH; [|apply Hk; exact Hc|exact HRc]. apply kids_in in Hc. apply depth_items_in in Hc. lia.
Qed.

(* ---- the merge step and the cleanliness for files of different versions of vs ---- *)
Theorem pmerge_rep_versions (fver : N -> option N) : VOK LATEST vs fver -> In v0 vs ->
  forall fuel t, Good T defref v0 t -> MU t -> forall F g inh a,
  (depth t < fuel \/ hdepth a < fuel)%nat ->
  ~ In g F -> In g (mfiles t) -> Rep T F inh t a ->
  exists a', pmerge T LATEST defref fver fuel a (inF F (mfiles t)) (pview g t) g = Val (OK a') /\
             h_local a' = h_local a /\
             forall inh', Rep T (g :: F) inh' t (h_set_local a' (norm inh' (inF (g :: F) (mfiles t)))).
Proof.
  intros HV Hv0 fuel t HG HM F g inh a Hd HgF Hg HR.
  assert (HV0 : VOK LATEST vs (fun _ => Some v0)) by (split; [intros f v [= <-]; exact Hv0|apply HV]).
  rewrite (pmerge_versions T LATEST defref vs v0 NM fver (fun _ => Some v0) HV HV0).
  - apply (pmerge_rep_gen T LATEST defref v0 (fun _ => Some v0) fuel t HG F g inh a Hd); auto.
  - eapply (Rep_HU (depth t)); eauto.
  - apply (pview_HU (depth t)); auto.
Qed.

Theorem rep_clean_versions (fver : N -> option N) : VOK LATEST vs fver -> In v0 vs ->
  forall fuel t, Good T defref v0 t -> MU t -> forall F g inh a,
  ~ In g F -> In g (mfiles t) -> Rep T F inh t a ->
  Clean T LATEST defref fver fuel a (inF F (mfiles t)) (pview g t) g.
Proof.
  intros HV Hv0 fuel t HG HM F g inh a HgF Hg HR.
  assert (HV0 : VOK LATEST vs (fun _ => Some v0)) by (split; [intros f v [= <-]; exact Hv0|apply HV]).
  apply (Clean_versions T LATEST defref vs v0 NM (fun _ => Some v0) fver HV0 HV).
  - eapply (Rep_HU (depth t)); eauto.
  - apply (pview_HU (depth t)); auto.
  - apply (LoadRefineGood.rep_clean T LATEST defref v0 (fun _ => Some v0) fuel t HG F g inh a); auto.
Qed.

End Masters.

(* ------------------------------------------------------------------ the side condition as a boolean on the master *)
Definition res_eqb {A} (e : A -> A -> bool) (x y : res A) : bool :=
  match x, y with
  | Val a, Val b => e a b
  | Pan s, Pan s' => String.eqb s s'
  | Fuel, Fuel => true
  | _, _ => false
  end.
Lemma res_eqb_sound {A} (e : A -> A -> bool) x y : (forall a b, e a b = true -> a = b) -> res_eqb e x y = true -> x = y.
Proof.
  intros He. destruct x, y; cbn [res_eqb]; try discriminate; auto.
  - intros H. f_equal. apply He. exact H.
  - intros H. f_equal. apply String.eqb_eq. exact H.
Qed.
Fixpoint nlist_eqb (a b : list N) : bool :=
  match a, b with [], [] => true | x :: a', y :: b' => (x =? y) && nlist_eqb a' b' | _, _ => false end.
Lemma nlist_eqb_sound a : forall b, nlist_eqb a b = true -> a = b.
Proof.
  induction a as [|x a IH]; intros [|y b]; cbn [nlist_eqb]; try discriminate; auto.
  intros H. apply andb_true_iff in H as [H1 H2]. apply N.eqb_eq in H1. f_equal; auto.
Qed.
Definition fse_eqb (x y : option ((N * N) * list N)) : bool :=
  match x, y with
  | Some ((a, b), l), Some ((a', b'), l') => (a =? a') && (b =? b') && nlist_eqb l l'
  | None, None => true
  | _, _ => false
  end.
Lemma fse_eqb_sound x y : fse_eqb x y = true -> x = y.
Proof.
  destruct x as [[[a b] l]|], y as [[[a' b'] l']|]; cbn [fse_eqb]; try discriminate; auto.
  intros H. apply andb_true_iff in H as [H H3]. apply andb_true_iff in H as [H1 H2].
  apply N.eqb_eq in H1, H2. apply nlist_eqb_sound in H3. congruence.
Qed.

Section Uniformb.
Variable T : tables.
Variable vs : list N.
Variable v0 : N.

Definition tyunib (NM : list N) (ty : N * N) : bool :=
  forallb (fun v => res_eqb Bool.eqb (splittable_in T ty v) (splittable_in T ty v0) &&
                    forallb (fun name => res_eqb fse_eqb (find_sub_element T ty name v) (find_sub_element T ty name v0)) NM) vs.
Lemma tyunib_sound NM ty : tyunib NM ty = true -> TyUni T vs v0 NM ty.
Proof.
  unfold tyunib. rewrite forallb_forall. intros H. split.
  - intros v Hv. specialize (H v Hv). apply andb_true_iff in H as [H _].
    apply (res_eqb_sound Bool.eqb); [intros a b E; apply Bool.eqb_prop; exact E|exact H].
  - intros v name Hv Hn. specialize (H v Hv). apply andb_true_iff in H as [_ H]. rewrite forallb_forall in H.
    apply (res_eqb_sound fse_eqb); [apply fse_eqb_sound|apply H; exact Hn].
Qed.

Fixpoint mnames (t : mtree) {struct t} : list N :=
  match t with
  | MNode name _ _ content _ _ =>
    name :: (fix go (l : list (mtree + Parser.cdata)) : list N :=
               match l with [] => [] | inl c :: r => mnames c ++ go r | inr _ :: r => go r end) content
  end.

Fixpoint mub (NM : list N) (t : mtree) {struct t} : bool :=
  match t with
  | MNode name ty _ content _ _ =>
    tyunib NM ty && existsb (N.eqb name) NM &&
    (fix all (l : list (mtree + Parser.cdata)) : bool :=
       match l with [] => true | inl c :: r => mub NM c && all r | inr _ :: r => all r end) content
  end.

Lemma mub_sound NM : forall n t, (depth t <= n)%nat -> mub NM t = true -> MU T vs v0 NM t.
Proof.
  induction n as [|n IH]; intros [name ty attrs content comment files] Hd H; rewrite depth_unfold in Hd; [lia|].
  cbn [mub] in H. apply andb_true_iff in H as [H H3]. apply andb_true_iff in H as [H1 H2].
  apply MU_unfold. split; [apply tyunib_sound; exact H1|]. split.
  - apply existsb_exists in H2 as (x & Hx & E). apply N.eqb_eq in E. subst x. exact Hx.
  - assert (Hdk : forall c, In c (kids content) -> (depth c <= n)%nat).
    { intros c Hc. apply kids_in in Hc. apply depth_items_in in Hc. lia. }
    clear Hd. revert H3 Hdk. induction content as [|[c|d] r IHr]; cbn [kids flat_map app]; intros H3 Hdk c0 Hc0; [destruct Hc0| |].
    + apply andb_true_iff in H3 as [Hc Hr]. destruct Hc0 as [<-|Hc0]; [apply IH; [apply Hdk; left; reflexivity|exact Hc]|].
      apply IHr; auto. intros c1 H1'. apply Hdk. right. exact H1'.
    + apply IHr; auto.
Qed.

(* every element of the master has the same type and split behaviour in all versions of vs *)
Definition uniformb (M : mtree) : bool := mub (mnames M) M.
Lemma uniformb_sound M : uniformb M = true -> MU T vs v0 (mnames M) M.
Proof. apply (mub_sound (mnames M) (depth M) M (le_n _)). Qed.

End Uniformb.
