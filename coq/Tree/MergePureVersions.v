(* Tree/MergePureVersions.v — C09, files of different versions: the pure merge looks at versions only through
   splittable_in (type of the merged element) and find_sub_element (type of the merged element, names of sub-elements).
   When these lookups agree for all versions of a set vs on the types and names of the two trees ([HU]), the merge does not
   depend on which versions of vs the files have ([pmerge_versions], [Clean_versions]); so the theorems for one version
   carry over to masters whose elements exist in every version of vs with the same type ([uniformb], a boolean). *)
From Coq Require Import Permutation.
From AV Require Import Base.Bytes Base.Outcome Hash.HashModel Tree.Heap Tree.Ops Tree.Load Tree.MergeSpec Tree.MergePure
  Tree.LoadProofsWalk Tree.MergePureProofsBase Tree.MergePureProofs Tree.MergePureProofsMain Tree.LoadRefinePure.
From AV Require Xml.Lexer Xml.Parser.
Open Scope string_scope.
Open Scope list_scope.
Open Scope N_scope.

Lemma in_insert_at_iff' {A} (l : list A) k x y : In y (insert_at l k x) -> y = x \/ In y l.
Proof.
  revert k. induction l as [|z l IH]; intros [|k]; cbn [insert_at In]; intros H; try tauto.
  - destruct H as [H|[]]; auto.
  - destruct H as [H|[]]; auto.
  - destruct H as [H|H]; auto.
  - destruct H as [H|H]; [auto|]. apply IH in H. tauto.
Qed.

Section Versions.
Variable T : tables.
Variables LATEST defref : N.
Variable vs : list N.          (* the versions of the files *)
Variable v0 : N.               (* one of them *)
Variable NM : list N.          (* the element names that occur *)

Definition TyUni (ty : N * N) : Prop :=
  (forall v, In v vs -> splittable_in T ty v = splittable_in T ty v0) /\
  (forall v name, In v vs -> In name NM -> find_sub_element T ty name v = find_sub_element T ty name v0).

Fixpoint HU (h : htree) {struct h} : Prop :=
  match h with
  | HNode name ty attrs content comment local =>
    TyUni ty /\ In name NM /\
    (fix all (l : list (htree + cdata)) : Prop :=
       match l with [] => True | inl c :: r => HU c /\ all r | inr _ :: r => all r end) content
  end.
Fixpoint HUs (l : list (htree + cdata)) : Prop :=
  match l with [] => True | inl c :: r => HU c /\ HUs r | inr _ :: r => HUs r end.
Lemma HU_unfold name ty attrs content comment local :
  HU (HNode name ty attrs content comment local) <-> (TyUni ty /\ In name NM /\ HUs content).
Proof.
  cbn [HU].
  assert (E : forall l, (fix all (l : list (htree + cdata)) : Prop :=
                           match l with [] => True | inl c :: r => HU c /\ all r | inr _ :: r => all r end) l <-> HUs l).
  { induction l as [|[c|d] r IH]; cbn [HUs]; [tauto| |exact IH]. rewrite IH. tauto. }
  rewrite E. tauto.
Qed.
Lemma HUs_in l c : HUs l -> In (inl c) l -> HU c.
Proof.
  induction l as [|[c0|d] r IH]; cbn [HUs In]; [intros _ []| |].
  - intros [H1 H2] [[= ->]|H]; auto.
  - intros H [[=]|H0]; auto.
Qed.
Lemma HU_name h : HU h -> In (h_name h) NM. Proof. destruct h. intros H. destruct (proj1 (HU_unfold _ _ _ _ _ _) H) as [H1 [H2 H3]]. exact H2. Qed.
Lemma HU_ty h : HU h -> TyUni (h_ty h). Proof. destruct h. intros H. destruct (proj1 (HU_unfold _ _ _ _ _ _) H) as [H1 [H2 H3]]. exact H1. Qed.
Lemma HU_content h : HU h -> HUs (h_content h). Proof. destruct h. intros H. destruct (proj1 (HU_unfold _ _ _ _ _ _) H) as [H1 [H2 H3]]. exact H3. Qed.

Definition NamesS (sh : list (option N)) : Prop := forall n, In (Some n) sh -> In n NM.
Lemma HUs_shape l : HUs l -> NamesS (shape l).
Proof.
  unfold shape. induction l as [|[c|d] r IH]; cbn [HUs map item_name_of]; intros H n Hn; [destruct Hn| |].
  - destruct H as [H1 H2]. destruct Hn as [[= <-]|Hn]; [apply HU_name; exact H1|apply IH; auto].
  - destruct Hn as [[=]|Hn]. apply IH; auto.
Qed.

Lemma range_loop_versions ty new_idx v : In v vs -> TyUni ty ->
  forall items i s e, NamesS items ->
    p_range_loop T ty v new_idx items i s e = p_range_loop T ty v0 new_idx items i s e.
Proof.
  intros Hv (_ & Hf). induction items as [|[cname|] rest IH]; intros i s e HN; cbn [p_range_loop]; [reflexivity| |].
  - rewrite (Hf v cname Hv (HN cname (or_introl eq_refl))).
    assert (HN' : NamesS rest) by (intros n Hn; apply HN; right; exact Hn).
    destruct (find_sub_element T ty cname v0) as [[[sub ex_idx]|]| |]; cbn [bind]; try reflexivity.
    + destruct (find_common_group T ty new_idx ex_idx) as [g| |]; cbn [bind]; try reflexivity.
      destruct (dt T g) as [gd| |]; cbn [bind]; try reflexivity.
      destruct (dt_mode gd =? MSequence).
      * destruct (lex_cmp new_idx ex_idx); try reflexivity; [|apply IH; exact HN'].
        destruct (repeat_conflict T ty new_idx) as [[|]| |]; cbn [bind]; try reflexivity. apply IH; exact HN'.
      * destruct (dt_mode gd =? MChoice).
        -- destruct (list_eqbN new_idx ex_idx); try reflexivity.
           destruct (repeat_conflict T ty new_idx) as [[|]| |]; cbn [bind]; try reflexivity. apply IH; exact HN'.
        -- destruct ((dt_mode gd =? MBag) || (dt_mode gd =? MMixed)); [apply IH; exact HN'|reflexivity].
    + destruct (find_sub_element T ty cname 4294967295) as [[[sub ex_idx]|]| |]; cbn [bind]; try reflexivity; [|apply IH; exact HN'].
      destruct (find_common_group T ty new_idx ex_idx) as [g| |]; cbn [bind]; try reflexivity.
      destruct (dt T g) as [gd| |]; cbn [bind]; try reflexivity.
      destruct (dt_mode gd =? MSequence).
      * destruct (lex_cmp new_idx ex_idx); try reflexivity; [|apply IH; exact HN'].
        destruct (repeat_conflict T ty new_idx) as [[|]| |]; cbn [bind]; try reflexivity. apply IH; exact HN'.
      * destruct (dt_mode gd =? MChoice).
        -- destruct (list_eqbN new_idx ex_idx); try reflexivity.
           destruct (repeat_conflict T ty new_idx) as [[|]| |]; cbn [bind]; try reflexivity. apply IH; exact HN'.
        -- destruct ((dt_mode gd =? MBag) || (dt_mode gd =? MMixed)); [apply IH; exact HN'|reflexivity].
  - apply IH. intros n Hn. apply HN. right. exact Hn.
Qed.

Lemma insert_range_sh_versions ty sh name v : In v vs -> TyUni ty -> NamesS sh -> In name NM ->
  p_insert_range_sh T ty sh name v = p_insert_range_sh T ty sh name v0.
Proof.
  intros Hv HT HN Hname. unfold p_insert_range_sh.
  destruct (content_mode T ty) as [mode| |]; cbn [bind]; try reflexivity.
  destruct (mode =? MCharacters); [reflexivity|].
  rewrite (proj2 HT v name Hv Hname).
  destruct (find_sub_element T ty name v0) as [[[sub idx]|]| |]; cbn [bind]; try reflexivity.
  destruct ((mode =? MBag) || (mode =? MMixed)); [reflexivity|]. apply range_loop_versions; auto.
Qed.

Lemma dests_versions ty bcontent v : In v vs -> TyUni ty -> HUs bcontent ->
  forall bs idx sh, NamesS sh -> p_dests T ty bcontent bs idx v sh = p_dests T ty bcontent bs idx v0 sh.
Proof.
  intros Hv HT HB. induction bs as [|[bid ip] bs IH]; intros idx sh HN; cbn [p_dests]; [reflexivity|].
  destruct (nth_opt bcontent (N.to_nat bid)) as [[nb|d]|] eqn:En; try reflexivity.
  assert (Hnb : In (h_name nb) NM).
  { apply HU_name. apply (HUs_in bcontent nb HB). rewrite nth_opt_nth_error in En. eapply nth_error_In; eauto. }
  rewrite (insert_range_sh_versions ty sh _ v Hv HT HN Hnb).
  destruct (p_insert_range_sh T ty sh (h_name nb) v0) as [[[fp lp]|e]| |]; cbn [bind]; try reflexivity.
  destruct (N.of_nat (List.length sh) <? N.min (N.max (ip + idx) fp) lp); [reflexivity|].
  rewrite IH; [reflexivity|]. intros n Hn. apply in_insert_at_iff' in Hn as [[= ->]|Hn]; [exact Hnb|apply HN; exact Hn].
Qed.


(* the versions of all files are in vs *)
Definition VOK (fver : N -> option N) : Prop := (forall f v, fver f = Some v -> In v vs) /\ In LATEST vs.

Lemma fold_min_in l : forall a, In a vs -> (forall x, In x l -> In x vs) -> In (fold_left N.min l a) vs.
Proof.
  induction l as [|y l IH]; intros a Ha Hl; cbn [fold_left]; [exact Ha|]. apply IH.
  - destruct (N.min_dec a y) as [E|E]; rewrite E; [exact Ha|apply Hl; left; reflexivity].
  - intros x Hx. apply Hl. right. exact Hx.
Qed.
Lemma pfmv_in fver files : VOK fver -> In (p_files_min_version LATEST fver files) vs.
Proof.
  intros (H1 & H2). unfold p_files_min_version.
  assert (G : forall x, In x (flat_map (fun f => match fver f with Some v => [v] | None => [] end) files) -> In x vs).
  { intros x Hx. apply in_flat_map in Hx as (f & _ & Hx). destruct (fver f) as [v|] eqn:E; [|destruct Hx].
    destruct Hx as [<-|[]]. eapply H1; eauto. }
  destruct (flat_map _ files) as [|a r]; [exact H2|]. apply fold_min_in; [apply G; left; reflexivity|].
  intros x Hx. apply G. right. exact Hx.
Qed.
Lemma verb_in fver nf : VOK fver -> In (match fver nf with Some v => v | None => LATEST end) vs.
Proof. intros (H1 & H2). destruct (fver nf) as [v|] eqn:E; [eapply H1; eauto|exact H2]. Qed.
Lemma ver_in fver files nf : VOK fver ->
  In (N.min (p_files_min_version LATEST fver files) (match fver nf with Some v => v | None => LATEST end)) vs.
Proof.
  intros H. destruct (N.min_dec (p_files_min_version LATEST fver files) (match fver nf with Some v => v | None => LATEST end)) as [E|E];
    rewrite E; [apply pfmv_in; exact H|apply verb_in; exact H].
Qed.

Lemma map_kids_ext f f' : forall l i, (forall j c, In (inl c) l -> f j c = f' j c) -> map_kids f i l = map_kids f' i l.
Proof.
  induction l as [|[c|d] r IH]; intros i H; cbn [map_kids]; [reflexivity| |].
  - rewrite (H i c (or_introl eq_refl)), (IH (i + 1)); [reflexivity|]. intros j c0 H0. apply H. right. exact H0.
  - rewrite (IH (i + 1)); [reflexivity|]. intros j c0 H0. apply H. right. exact H0.
Qed.

Theorem pmerge_versions fver fver' : VOK fver -> VOK fver' -> forall fuel a files b nf, HU a -> HU b ->
  pmerge T LATEST defref fver fuel a files b nf = pmerge T LATEST defref fver' fuel a files b nf.
Proof.
  intros HV HV'. induction fuel as [|fl IH]; intros a files b nf Ha Hb; [reflexivity|].
  rewrite !pmerge_unfold. cbv zeta.
  pose proof (HU_ty a Ha) as HT.
  rewrite (proj1 HT _ (ver_in fver files nf HV)), (proj1 HT _ (ver_in fver' files nf HV')).
  destruct (splittable_in T (h_ty a) v0) as [sp| |]; cbn [bind]; try reflexivity.
  destruct (walk _ _ _ sp _ 0 _ _ _) as [[wk|e]| |]; cbn [bind]; try reflexivity.
  rewrite (map_kids_ext (child_step (pmerge T LATEST defref fver fl) wk files (h_content b) nf)
                        (child_step (pmerge T LATEST defref fver' fl) wk files (h_content b) nf)).
  2:{ intros j c Hc. unfold child_step. destruct (existsb (N.eqb j) (wk_a_only wk)); [reflexivity|].
      destruct (lookup_merge j (wk_merge wk)) as [ib|]; [|reflexivity].
      destruct (nth_opt (h_content b) (N.to_nat ib)) as [[eb|d]|] eqn:En; try reflexivity.
      rewrite IH; [reflexivity|apply (HUs_in _ c (HU_content a Ha) Hc)|].
      apply (HUs_in _ eb (HU_content b Hb)). rewrite nth_opt_nth_error in En. eapply nth_error_In; eauto. }
  destruct (map_kids _ 0 (h_content a)) as [[c1|e]| |] eqn:Em; cbn [bind]; try reflexivity.
  rewrite !p_import_dests.
  assert (HN : NamesS (shape c1)).
  { rewrite (map_kids_shape T LATEST defref fver' fl wk files (h_content b) nf (h_content a) 0 c1 Em). apply HUs_shape, HU_content, Ha. }
  rewrite (dests_versions (h_ty a) (h_content b) _ (verb_in fver nf HV) HT (HU_content b Hb)), (dests_versions (h_ty a) (h_content b) _ (verb_in fver' nf HV') HT (HU_content b Hb)); auto.
Qed.

Theorem Clean_versions fver fver' : VOK fver -> VOK fver' -> forall fuel a files b nf, HU a -> HU b ->
  Clean T LATEST defref fver fuel a files b nf -> Clean T LATEST defref fver' fuel a files b nf.
Proof.
  intros HV HV'. induction fuel as [|fl IH]; intros a files b nf Ha Hb HC; [exact I|].
  cbn [Clean] in *. cbv zeta in *.
  pose proof (HU_ty a Ha) as HT.
  rewrite (proj1 HT _ (ver_in fver files nf HV)) in HC. rewrite (proj1 HT _ (ver_in fver' files nf HV')).
  destruct (splittable_in T (h_ty a) v0) as [sp| |]; try exact I.
  destruct (walk _ _ _ sp _ 0 _ _ _) as [[wk|e]| |]; try exact I.
  destruct HC as (C1 & C2 & C3 & C4 & C5). repeat split; auto.
  intros ia ib ca cb Hin Hna Hnb. apply IH.
  - apply (HUs_in _ ca (HU_content a Ha)). rewrite nth_opt_nth_error in Hna. eapply nth_error_In; eauto.
  - apply (HUs_in _ cb (HU_content b Hb)). rewrite nth_opt_nth_error in Hnb. eapply nth_error_In; eauto.
  - eapply C5; eauto.
Qed.

End Versions.
