(* Tree/CompatProofs2.v — the compatibility walk reports nothing exactly when the content is valid in the target version
   (Tree/CompatSpec.v), outside the three named classes; for every table set, world, file and version. *)
From AV Require Import Base.Bytes Base.Outcome Hash.HashModel Tree.Heap Tree.Ops Tree.Compat Tree.CompatSpec Tree.CompatProofs1.
From Coq Require Import Lia.
Open Scope list_scope.
Open Scope N_scope.

Lemma app_nil_iff {A} (a b : list A) : a ++ b = [] <-> a = [] /\ b = [].
Proof. split; [apply app_eq_nil|intros [-> ->]; reflexivity]. Qed.

Section Exact.
Variable T : tables.
Variable w : world.
Variable f v : N.

(* ------------------------------------------------------------------ attributes *)
Lemma attr_step_exact self oldty newty a errs m :
  attr_step T self oldty newty v a = Val (errs, m) -> (errs = [] <-> attr_valid T v newty a).
Proof.
  destruct a as [an d]. unfold attr_step, attr_valid, value_valid. cbn [fst snd].
  destruct (find_attribute_spec T newty an) as [[[[[cd spec] req] vmask]|]| |] eqn:Ef; cbn [bind]; try discriminate.
  - destruct (compatible v vmask) eqn:Ec; cbn [negb].
    + destruct (value_compat d spec v) as [ok vm] eqn:Ev. intros [= <- <-].
      split.
      * intros He. exists cd, spec, req, vmask. split; [reflexivity|]. split; [exact Ec|].
        rewrite Ev. cbn [fst]. destruct ok; [reflexivity|discriminate].
      * intros (cd' & spec' & req' & m' & [= <- <- <- <-] & _ & Hv). rewrite Ev in Hv. cbn [fst] in Hv. rewrite Hv. reflexivity.
    + intros [= <- <-]. split; [discriminate|].
      intros (cd' & spec' & req' & m' & [= <- <- <- <-] & Hc & _). rewrite Ec in Hc. discriminate.
  - destruct (find_attribute_spec T oldty an) as [so| |]; cbn [bind]; try discriminate.
    intros [= <- <-]. split; [discriminate|].
    intros (cd' & spec' & req' & m' & Hf & _). discriminate.
Qed.

Lemma attr_loop_exact self oldty newty attrs : forall errs m,
  attr_loop T self oldty newty v attrs = Val (errs, m) -> (errs = [] <-> Forall (attr_valid T v newty) attrs).
Proof.
  induction attrs as [|a rest IH]; intros errs m H.
  - injection H as <- <-. split; [constructor|reflexivity].
  - cbn [attr_loop] in H.
    destruct (attr_step T self oldty newty v a) as [[e1 m1]| |] eqn:E1; cbn [bind] in H; try discriminate.
    destruct (attr_loop T self oldty newty v rest) as [[e2 m2]| |] eqn:E2; cbn [bind] in H; try discriminate.
    injection H as <- <-.
    rewrite app_nil_iff, (attr_step_exact _ _ _ _ _ _ E1), (IH _ _ eq_refl).
    split; [intros [Ha Hr]; constructor; assumption|intros HF; inversion HF; subst; split; assumption].
Qed.

(* ------------------------------------------------------------------ character data *)
Lemma text_loop_exact self spec items : forall errs m,
  text_loop self spec v items = (errs, m) ->
  (errs = [] <-> forall d, In (CData d) items -> value_valid v d spec).
Proof.
  induction items as [|it rest IH]; intros errs m H.
  - injection H as <- <-. split; [intros _ d []|reflexivity].
  - destruct it as [c|d]; cbn [text_loop] in H.
    + rewrite (IH _ _ H). split.
      * intros Hr d [Hd|Hd]; [discriminate|exact (Hr d Hd)].
      * intros Hr d Hd. apply Hr. right. exact Hd.
    + destruct (value_compat d spec v) as [ok vm] eqn:Ev.
      destruct (text_loop self spec v rest) as [e2 m2] eqn:E2.
      injection H as <- <-.
      rewrite app_nil_iff, (IH _ _ eq_refl). unfold value_valid.
      split.
      * intros [Ho Hr] d' [Hd|Hd].
        -- injection Hd as <-. rewrite Ev. cbn [fst]. destruct ok; [reflexivity|discriminate].
        -- exact (Hr d' Hd).
      * intros Hr. split.
        -- specialize (Hr d (or_introl eq_refl)). rewrite Ev in Hr. cbn [fst] in Hr. rewrite Hr. reflexivity.
        -- intros d' Hd. apply Hr. right. exact Hd.
Qed.

Lemma text_part_exact self ty content cs errs m :
  chardata_spec T ty = Val cs ->
  match cs with Some spec => text_loop self spec v content | None => ([], U32MAX) end = (errs, m) ->
  (errs = [] <-> Forall (text_valid T v ty) content).
Proof.
  intros Hcs H. rewrite Forall_forall. destruct cs as [spec|].
  - rewrite (text_loop_exact _ _ _ _ _ H). split.
    + intros Hd it Hit. destruct it as [c|d]; cbn [text_valid]; [exact I|].
      intros spec' Hs. rewrite Hcs in Hs. injection Hs as <-. exact (Hd d Hit).
    + intros Hall d Hd. exact (Hall (CData d) Hd spec Hcs).
  - injection H as <- <-. split; [|reflexivity].
    intros _ it _. destruct it as [c|d]; cbn [text_valid]; [exact I|].
    intros spec' Hs. rewrite Hcs in Hs. discriminate.
Qed.

(* ------------------------------------------------------------------ sub elements *)
Definition child_valid (ty : N * N) (items : list citem) : Prop :=
  forall c cn, In (CElem c) items -> w_nodes w c = Some cn -> in_file f cn = true ->
    exists tc ixs, find_sub_element T ty (n_name cn) v = Val (Some (tc, ixs)) /\ Valid T w f v tc c.

Hypothesis HKs : K_skip T w f v.

Lemma sub_loop_exact (rec : id -> res cres) ty i n :
  Vis T w f v ty i -> w_nodes w i = Some n ->
  (forall c tc r, Vis T w f v tc c -> rec c = Val r -> (fst r = [] <-> Valid T w f v tc c)) ->
  forall items errs m, incl items (n_content n) ->
    sub_loop T rec w (n_type n) ty f v items = Val (errs, m) ->
    (errs = [] <-> child_valid ty items).
Proof.
  intros HV Hn Hrec. induction items as [|it rest IH]; intros errs m Hincl H.
  - injection H as <- <-. split; [intros _ c cn []|reflexivity].
  - assert (Hincl' : incl rest (n_content n)) by (intros x Hx; apply Hincl; right; exact Hx).
    destruct it as [c|d]; cbn [sub_loop] in H.
    2:{ rewrite (IH _ _ Hincl' H). split.
        - intros Hr c cn [Hc|Hc]; [discriminate|exact (Hr c cn Hc)].
        - intros Hr c cn Hc. apply Hr. right. exact Hc. }
    assert (Hin : In (CElem c) (n_content n)) by (apply Hincl; left; reflexivity).
    unfold node_at in H. destruct (w_nodes w c) as [cn|] eqn:Ecn; cbn [unwrap bind] in H; try discriminate.
    fold (in_file f cn) in H.
    destruct (in_file f cn) eqn:Efile.
    2:{ rewrite (IH _ _ Hincl' H). split.
        - intros Hr c' cn' [Hc|Hc] Hn' Hf'.
          + injection Hc as <-. rewrite Ecn in Hn'. injection Hn' as <-. rewrite Efile in Hf'. discriminate.
          + exact (Hr c' cn' Hc Hn' Hf').
        - intros Hr c' cn' Hc. apply Hr. right. exact Hc. }
    destruct (find_sub_element T ty (n_name cn) v) as [r1| |] eqn:E1; cbn [bind] in H; try discriminate.
    destruct (find_sub_element T ty (n_name cn) U32MAX) as [r2| |] eqn:E2; cbn [bind] in H; try discriminate.
    (* the rest of the list, once *)
    assert (Hrest : forall errs2 m2, sub_loop T rec w (n_type n) ty f v rest = Val (errs2, m2) ->
                    forall P : Prop, (P <-> exists tc ixs, find_sub_element T ty (n_name cn) v = Val (Some (tc, ixs)) /\ Valid T w f v tc c) ->
                    ((P /\ errs2 = []) <-> child_valid ty (CElem c :: rest))).
    { intros errs2 m2 H2 P HP. rewrite (IH _ _ Hincl' H2), HP. split.
      - intros [Hc Hr] c' cn' [Hc'|Hc'] Hn' Hf'.
        + injection Hc' as <-. rewrite Ecn in Hn'. injection Hn' as <-. exact Hc.
        + exact (Hr c' cn' Hc' Hn' Hf').
      - intros Hall. split.
        + exact (Hall c cn (or_introl eq_refl) Ecn Efile).
        + intros c' cn' Hc'. apply Hall. right. exact Hc'. }
    destruct r1 as [[tc ixs]|].
    + (* found in version v *)
      cbn match in H.
      destruct (find_sub_element_mask T _ _ _ _ _ E1) as (mm & Hmask & Hmm).
      rewrite Hmask in H. cbn [bind unwrap] in H.
      assert (Hcomp : compatible v mm = true).
      { unfold compatible. apply negb_true_iff, N.eqb_neq. rewrite N.land_comm. exact Hmm. }
      rewrite Hcomp in H. cbn [negb] in H.
      destruct (rec c) as [[e1 m1]| |] eqn:Er; cbn [bind] in H; try discriminate.
      destruct (sub_loop T rec w (n_type n) ty f v rest) as [[e2 m2]| |] eqn:E3; cbn [bind] in H; try discriminate.
      injection H as <- <-.
      rewrite app_nil_iff. apply (Hrest _ _ eq_refl).
      pose proof (Vis_child T w f v ty i n c cn tc ixs HV Hn Hin Ecn Efile E1) as HVc.
      pose proof (Hrec c tc _ HVc Er) as Hc. cbn [fst] in Hc. rewrite Hc.
      split.
      * intros Hval. exists tc, ixs. split; [exact E1|exact Hval].
      * intros (tc' & ixs' & Hx & Hval). rewrite E1 in Hx. injection Hx as <- <-. exact Hval.
    + destruct r2 as [[tc ixs]|].
      * (* found only in other versions: the entry's mask excludes v, an error is pushed *)
        cbn match in H.
        destruct (get_sub_element_version_mask T ty ixs) as [[mm|]| |] eqn:Hmask; cbn [bind unwrap] in H; try discriminate.
        pose proof (find_sub_element_fallback T _ _ _ _ _ _ _ E1 E2 Hmask) as Hz.
        assert (Hcomp : compatible v mm = false).
        { unfold compatible. apply negb_false_iff, N.eqb_eq. rewrite N.land_comm. exact Hz. }
        rewrite Hcomp in H. cbn [negb] in H.
        destruct (sub_loop T rec w (n_type n) ty f v rest) as [[e2 m2]| |] eqn:E3; cbn [bind] in H; try discriminate.
        injection H as <- <-.
        split; [discriminate|].
        intros Hall. specialize (Hall c cn (or_introl eq_refl) Ecn Efile). rewrite E1 in Hall.
        destruct Hall as (? & ? & Hx & _). discriminate.
      * (* not listed in any version: excluded by K_skip *)
        exfalso. exact (HKs ty i n c cn HV Hn Hin Ecn Efile E2).
Qed.

(* ------------------------------------------------------------------ the walk *)
Hypothesis HKr : K_recalc T w f v.

Lemma e_check_exact fuel : forall i ty r,
  Vis T w f v ty i -> e_check T fuel w i f v = Val r -> (fst r = [] <-> Valid T w f v ty i).
Proof.
  induction fuel as [|fuel IH]; intros i ty r HV H; [discriminate|].
  cbn [e_check] in H. unfold node_at in H.
  destruct (w_nodes w i) as [n|] eqn:En; cbn [unwrap bind] in H; try discriminate.
  rewrite (HKr ty i n HV En) in H. cbn [bind] in H.
  destruct (attr_loop T i (n_type n) ty v (n_attrs n)) as [[ea ma]| |] eqn:Ea; cbn [bind] in H; try discriminate.
  destruct (chardata_spec T ty) as [cs| |] eqn:Ecs; cbn [bind] in H; try discriminate.
  destruct (match cs with Some spec => text_loop i spec v (n_content n) | None => ([], U32MAX) end) as [et mt] eqn:Et.
  destruct (sub_loop T (fun c => e_check T fuel w c f v) w (n_type n) ty f v (n_content n)) as [[es ms]| |] eqn:Es;
    cbn [bind] in H; try discriminate.
  injection H as <-. cbn [fst].
  rewrite !app_nil_iff.
  rewrite (attr_loop_exact _ _ _ _ _ _ Ea), (text_part_exact _ _ _ _ _ _ Ecs Et).
  rewrite (sub_loop_exact _ ty i n HV En (fun c tc r HVc Hr => IH c tc r HVc Hr) _ _ _ (incl_refl _) Es).
  split.
  - intros (Ha & Ht & Hc). econstructor; eassumption.
  - intros HVal. inversion HVal as [ty' i' n' Hn' Ha Ht Hc]; subst.
    rewrite En in Hn'. injection Hn' as <-. repeat split; assumption.
Qed.

Theorem f_check_exact_fixed r :
  f_check T w f v = Val r -> (fst r = [] <-> ValidIn T w f v).
Proof.
  unfold f_check.
  destruct (nth_opt (w_files w) (N.to_nat f)) as [x|] eqn:Ex; cbn [unwrap bind]; try discriminate.
  destruct (nth_opt (w_models w) (N.to_nat (f_model x))) as [m|] eqn:Em; cbn [unwrap bind]; try discriminate.
  intros H.
  assert (Hn : exists n, w_nodes w (m_root m) = Some n).
  { destruct (fuel_of w) as [|k]; [discriminate|]. cbn [e_check] in H. unfold node_at in H.
    destruct (w_nodes w (m_root m)) as [n|]; [eauto|discriminate]. }
  destruct Hn as [n Hn].
  assert (Hroot : root_of w f (m_root m) (n_type n)).
  { exists x, m, n. repeat split; assumption. }
  rewrite (e_check_exact _ _ _ _ (Vis_root _ _ _ _ _ _ Hroot) H).
  split.
  - intros HV. exists (m_root m), (n_type n). split; assumption.
  - intros (r' & ty' & (x' & m' & n' & Hx' & Hm' & -> & Hn' & ->) & HV).
    rewrite Ex in Hx'. injection Hx' as <-. rewrite Em in Hm'. injection Hm' as <-.
    rewrite Hn in Hn'. injection Hn' as <-. exact HV.
Qed.

End Exact.

(* the statement as it was before the fix of the mask lookup (K_mixup is no longer needed) *)
Theorem f_check_exact (T : tables) (w : world) (f v : N) :
  K_mixup T w f v -> K_skip T w f v -> K_recalc T w f v ->
  forall r, f_check T w f v = Val r -> (fst r = [] <-> ValidIn T w f v).
Proof. intros _ Ks Kr r. exact (f_check_exact_fixed T w f v Ks Kr r). Qed.
