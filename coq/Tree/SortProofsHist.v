(* Tree/SortProofsHist.v — C14 over operation histories, decidable forms of the hypotheses, and a worked example.
     never_fails_histories : in every world reached from the empty world by a history of Tree/Script.v operations (any table
                             set) that satisfies SpecKids, Element::sort of every element returns OK, and the result satisfies
                             SpecKids again (Core of the result: C03_core_inv2_partial).  Core of the reached world is
                             C03's theorem (Core_reachable); SpecKids is NOT proved to be kept by the 26 operations here - it is
                             decidable (spec_kids_b, sound by spec_kids_b_sound) and holds in the example.
     typedet_b / u64_b     : decidable forms of TypeDet and U64 (sound for worlds with the allocation bound)
     perm_eq_same, perm_equiv_top : how perm_equiv is established: identical subtrees + a permuted reorderable content list
     Example (SortTiny tables): the world built by new_model, create_file, three create_named_sub_element satisfies Core, SpecKids,
     TypeDet, U64; it is perm_equiv to the same world with the packages in another order; both sort to twins. *)
From Coq Require Import Permutation Lia.
From AV Require Import Base.Bytes Base.Outcome Base.Radix Hash.HashModel Tree.Heap Tree.Ops Tree.Script Tree.Inv
  Tree.InvProofsBase Tree.InvProofsCore Tree.InvProofsTree Tree.InvProofs Tree.Sort Tree.SortTiny
  Tree.SortProofsOrder Tree.SortProofsCmp Tree.SortProofsHeap Tree.SortProofsMain Tree.SortProofsLocal Tree.SortProofsCanon
  Tree.SortProofsNames Tree.SortProofsCore.
Open Scope string_scope.
Open Scope list_scope.
Open Scope N_scope.

Definition ids (w : world) : list id := map N.of_nat (seq 0 (N.to_nat (w_next w))).
Lemma in_ids w i : i < w_next w -> In i (ids w).
Proof. intros h. unfold ids. apply in_map_iff. exists (N.to_nat i). split; [lia |]. apply in_seq. lia. Qed.
Definition alloc_bound (w : world) : Prop := forall i, w_nodes w i <> None -> i < w_next w.
Lemma core_alloc_bound w : Core w -> alloc_bound w.
Proof. intros C i h. apply (c_alloc _ C). unfold allocated. destruct (w_nodes w i) as [n |]; [eauto | congruence]. Qed.

(* ------------------------------------------------------------------ findable under a file version => findable under u32::MAX *)
(* every path that inserts a sub-element (create, copy, move, load) first looks its name up in the parent's type under the
   version mask of a file; ElementRaw::sort looks it up under u32::MAX.  A name found under a 32-bit mask is found under
   u32::MAX (possibly at an earlier entry), unless the wider lookup runs into a table panic. *)
Section Mono.
Variable T : tables.

Lemma land_max v mask : v < 2 ^ 32 -> N.land v mask <> 0 -> N.land MAXV mask <> 0.
Proof.
  intros hv h e. apply h.
  assert (E : N.land v MAXV = v).
  { change MAXV with (N.ones 32). rewrite N.land_ones. apply N.mod_small. exact hv. }
  rewrite <- E, <- N.land_assoc, e. apply N.land_0_r.
Qed.

Lemma scan_mono f start d target v (hv : v < 2 ^ 32)
  (IHf : forall ty r, find_sub T f ty target v = Val (Some r) -> find_sub T f ty target MAXV = Val None -> False) :
  forall k pos r, scan T f start d target v k pos = Val (Some r) -> scan T f start d target MAXV k pos = Val None -> False.
Proof.
  induction k as [| k IH]; intros pos r; cbn [scan]; [discriminate |].
  destruct (subel T (start + pos)) as [[kind idx] | |]; cbn [bind]; try discriminate.
  destruct (kind =? 0).
  - destruct (elem T idx) as [e | |]; cbn [bind]; try discriminate.
    destruct (vinfo T (dt_sub_ver d + pos)) as [mask | |]; cbn [bind]; try discriminate.
    destruct (ed_name e =? target) eqn:En; cbn [andb].
    + destruct (N.land v mask =? 0) eqn:Ev; cbn [negb].
      * destruct (N.land MAXV mask =? 0); cbn [negb]; [apply IH |].
        intros _. destruct (et_new T idx); cbn [bind]; discriminate.
      * apply N.eqb_neq in Ev. apply (land_max v mask hv) in Ev. apply N.eqb_neq in Ev. rewrite Ev. cbn [negb].
        intros _. destruct (et_new T idx); cbn [bind]; discriminate.
    + apply IH.
  - destruct (find_sub T f idx target v) as [[[et ixs] |] | |] eqn:Ev; try discriminate.
    + intros _. destruct (find_sub T f idx target MAXV) as [[[et' ixs'] |] | |] eqn:Em; try discriminate.
      intros _. eapply IHf; eauto.
    + destruct (find_sub T f idx target MAXV) as [[[et' ixs'] |] | |]; try discriminate. apply IH.
Qed.

Theorem find_sub_mono f : forall ty target v r, v < 2 ^ 32 ->
  find_sub T f ty target v = Val (Some r) -> find_sub T f ty target MAXV = Val None -> False.
Proof.
  induction f as [| f IH]; intros ty target v r hv; [discriminate |].
  rewrite !find_sub_scan. destruct (sub_slice T ty) as [[[start stop] d] | |]; cbn [bind]; try discriminate.
  apply scan_mono; auto. intros ty' r'. apply IH; auto.
Qed.

(* findable under a 32-bit version mask, and the lookup under u32::MAX does not panic: findable under u32::MAX *)
Corollary findable_mono ty target v r : v < 2 ^ 32 ->
  find_sub_element T ty target v = Val (Some r) -> (exists r', find_sub_element T ty target MAXV = Val r') ->
  exists et idx, find_sub_element T ty target MAXV = Val (Some (et, idx)).
Proof.
  intros hv H [r' H']. destruct r' as [[et idx] |]; [eauto |]. exfalso. eapply find_sub_mono; eauto.
Qed.
End Mono.

Section Hist.
Variable T : tables.
Variable tab_el tab_at tab_en : nametab.
Variable name_index name_definition_ref : N.
Variable srt : forall A, (A -> A -> comparison) -> list A -> list A.
Hypothesis SS : StableSort srt.

Notation e_sort' := (e_sort_with T tab_el tab_at tab_en name_index name_definition_ref srt).
Notation SpecKids' := (SpecKids T tab_el tab_at tab_en).

Lemma SpecKids_rel w w' : world_rel T w w' -> SpecKids' w -> SpecKids' w'.
Proof.
  intros (_ & _ & _ & nodes) K i n' Wi.
  pose proof (nodes i) as h. rewrite Wi in h. destruct (w_nodes w i) as [n |] eqn:W0; [| destruct h].
  destruct (K i n W0) as [k m o nm nn dd aa]. pose proof h as [(_ & en & ety & eat & _) _]. split.
  - intros c cn' ic Wc. pose proof (nodes c) as hc. rewrite Wc in hc. destruct (w_nodes w c) as [cn |] eqn:Wc0; [| destruct hc].
    destruct hc as [(_ & enc & _) _]. rewrite ety, enc. eapply k; eauto. eapply node_rel_in_elem; eauto.
  - rewrite ety. auto.
  - rewrite ety. auto.
  - rewrite ety. auto.
  - rewrite en. auto.
  - intros d id. apply dd. eapply node_rel_in_data; eauto.
  - rewrite eat. auto.
Qed.

Theorem never_fails_histories check_fn LATEST root_attrs l w :
  Inv.run_ops T tab_el tab_en check_fn LATEST root_attrs l empty_world = Val w ->
  SpecKids' w -> forall i, (exists n, w_nodes w i = Some n) ->
  exists w', e_sort' i w = Val (OK tt, w') /\ SpecKids' w'.
Proof.
  intros H K i A.
  pose proof (Core_reachable T tab_el tab_en check_fn LATEST root_attrs l w H) as C.
  destruct (e_sort_total_core T tab_el tab_at tab_en name_index name_definition_ref srt SS i w C K A) as [w' E].
  exists w'. split; auto.
  destruct (e_sort_frame T tab_el tab_at tab_en name_index name_definition_ref srt SS i w _ _ E) as [_ R].
  eapply SpecKids_rel; eauto.
Qed.

(* ------------------------------------------------------------------ decidable forms *)
Definition some_b {A} (o : option A) : bool := match o with Some _ => true | None => false end.
Definition cdata_named_b (d : cdata) : bool := match d with DEnum e => some_b (to_str tab_en e) | _ => true end.

Definition spec_node_b (w : world) (n : node) : bool :=
  forallb (fun c => match w_nodes w c with
                    | Some cn => match find_sub_element T (n_type n) (n_name cn) MAXV with Val (Some _) => true | _ => false end
                    | None => true
                    end) (celems (n_content n)) &&
  is_val (content_mode T (n_type n)) && is_val (is_ordered T (n_type n)) && is_val (is_named T (n_type n)) &&
  some_b (to_str tab_el (n_name n)) &&
  forallb (fun it => match it with CData d => cdata_named_b d | CElem _ => true end) (n_content n) &&
  forallb (fun a => some_b (to_str tab_at (fst a)) && cdata_named_b (snd a)) (n_attrs n).

Definition spec_kids_b (w : world) : bool :=
  forallb (fun i => match w_nodes w i with Some n => spec_node_b w n | None => true end) (ids w).

Lemma is_val_ex {A} (r : res A) : is_val r = true -> exists a, r = Val a.
Proof. destruct r; cbn; try discriminate. eauto. Qed.
Lemma some_b_ne {A} (o : option A) : some_b o = true -> o <> None.
Proof. destruct o; cbn; congruence. Qed.
Lemma cdata_named_b_ok d : cdata_named_b d = true -> cdata_named tab_en d.
Proof. destruct d; cbn; auto. apply some_b_ne. Qed.

Lemma spec_kids_b_sound w : alloc_bound w -> spec_kids_b w = true -> SpecKids' w.
Proof.
  intros AB H i n Wi. unfold spec_kids_b in H. rewrite forallb_forall in H.
  assert (ii : In i (ids w)) by (apply in_ids, AB; congruence).
  specialize (H i ii). rewrite Wi in H. unfold spec_node_b in H.
  repeat (apply andb_prop in H as [H ?]). rewrite forallb_forall in H.
  split.
  - intros c cn ic Wc. apply in_celems in ic. specialize (H c ic). rewrite Wc in H.
    destruct (find_sub_element T (n_type n) (n_name cn) MAXV) as [[[et idx] |] | |]; try discriminate. eauto.
  - apply is_val_ex; auto.
  - apply is_val_ex; auto.
  - apply is_val_ex; auto.
  - apply some_b_ne; auto.
  - intros d id. rewrite forallb_forall in H1. specialize (H1 _ id). apply cdata_named_b_ok; auto.
  - intros a ia. rewrite forallb_forall in H0. specialize (H0 _ ia). apply andb_prop in H0 as [h1 h2].
    split; [apply some_b_ne; auto | apply cdata_named_b_ok; auto].
Qed.

Definition etype_eqb (a b : N * N) : bool := (fst a =? fst b) && (snd a =? snd b).
Lemma etype_eqb_eq a b : etype_eqb a b = true <-> a = b.
Proof.
  destruct a, b. unfold etype_eqb. cbn. rewrite andb_true_iff, !N.eqb_eq. split; [intros [-> ->]; auto | intros [= -> ->]; auto].
Qed.

Definition typedet_b (w : world) : bool :=
  forallb (fun p => forallb (fun q =>
    match w_nodes w p, w_nodes w q with
    | Some np, Some nq =>
      negb (etype_eqb (n_type np) (n_type nq)) ||
      forallb (fun x => forallb (fun y =>
        match w_nodes w x, w_nodes w y with
        | Some nx, Some ny => negb (n_name nx =? n_name ny) || etype_eqb (n_type nx) (n_type ny)
        | _, _ => true
        end) (celems (n_content nq))) (celems (n_content np))
    | _, _ => true
    end) (ids w)) (ids w).

Lemma typedet_b_sound w : alloc_bound w -> typedet_b w = true -> TypeDet w.
Proof.
  intros AB H p q np nq x y nx ny Wp Wq et ix iy Wx Wy en.
  unfold typedet_b in H. rewrite forallb_forall in H.
  specialize (H p (in_ids w p (AB p ltac:(congruence)))). rewrite forallb_forall in H.
  specialize (H q (in_ids w q (AB q ltac:(congruence)))). rewrite Wp, Wq in H.
  apply orb_prop in H as [H | H].
  - apply negb_true_iff in H. assert (etype_eqb (n_type np) (n_type nq) = true) by (apply etype_eqb_eq; auto). congruence.
  - rewrite forallb_forall in H. specialize (H x (proj2 (in_celems x _) ix)). rewrite forallb_forall in H.
    specialize (H y (proj2 (in_celems y _) iy)). rewrite Wx, Wy in H.
    apply orb_prop in H as [H | H]; [| apply etype_eqb_eq; auto].
    apply negb_true_iff, N.eqb_neq in H. congruence.
Qed.

Definition cdata_u64_b (d : cdata) : bool := match d with DFloat b => b <? 2 * P63 | _ => true end.
Definition u64_b (w : world) : bool :=
  forallb (fun i => match w_nodes w i with
                    | Some n => forallb (fun it => match it with CData d => cdata_u64_b d | CElem _ => true end) (n_content n) &&
                                forallb (fun a => cdata_u64_b (snd a)) (n_attrs n)
                    | None => true end) (ids w).
Lemma cdata_u64_b_ok d : cdata_u64_b d = true -> cdata_u64 d.
Proof. destruct d; cbn; auto. apply N.ltb_lt. Qed.
Lemma u64_b_sound w : alloc_bound w -> u64_b w = true -> U64 w.
Proof.
  intros AB H i n Wi. unfold u64_b in H. rewrite forallb_forall in H.
  specialize (H i (in_ids w i (AB i ltac:(congruence)))). rewrite Wi in H. apply andb_prop in H as [h1 h2].
  rewrite forallb_forall in h1, h2. split.
  - intros d id. apply cdata_u64_b_ok. apply (h1 _ id).
  - intros a ia. apply cdata_u64_b_ok. apply (h2 _ ia).
Qed.

(* ------------------------------------------------------------------ establishing perm_equiv *)
Definition Modes (D : id -> bool) (w : world) : Prop :=
  forall j n, D j = true -> w_nodes w j = Some n ->
    (exists m, content_mode T (n_type n) = Val m) /\ (exists b, is_ordered T (n_type n) = Val b).

(* identical subtrees are perm-equivalent *)
Lemma perm_eq_same D u v : closed D u -> agree D u v -> Modes D u ->
  forall f c, D c = true -> (exists n, w_nodes u c = Some n) -> perm_eq_f T u v f c.
Proof.
  intros C A M. induction f as [| f IH]; intros c dc [n Wc]; [exact I |].
  destruct (M c n dc Wc) as [[m Hm] [b Hb]].
  exists n, n, m. rewrite (proj2 A c dc). repeat split; auto.
  assert (K : forall x, In (CElem x) (n_content n) -> D x = true /\ exists nx, w_nodes u x = Some nx) by (intros x ix; apply (C c n x dc Wc ix)).
  destruct ((m =? MCharacters) || (m =? MMixed)).
  - split; auto. intros x ix. destruct (K x ix). eapply twin_agree_refl; eauto.
  - exists b. repeat split; auto.
    + intros x ix. destruct (K x ix). apply IH; auto.
    + destruct (negb b && (1 <? N.of_nat (List.length (n_content n)))); auto.
Qed.

(* a reorderable node whose children are perm-equivalent and whose content lists are permutations of each other *)
Lemma perm_equiv_top u v i n n' m :
  w_nodes u i = Some n -> w_nodes v i = Some n' -> n_name n = n_name n' -> n_type n = n_type n' -> n_attrs n = n_attrs n' ->
  content_mode T (n_type n) = Val m -> (m =? MCharacters) || (m =? MMixed) = false -> is_ordered T (n_type n) = Val false ->
  (1 <? N.of_nat (List.length (n_content n))) = true -> Permutation (n_content n) (n_content n') ->
  (forall c, In (CElem c) (n_content n) -> perm_equiv T u v c) -> perm_equiv T u v i.
Proof.
  intros Wu Wv en et ea Hm Em Ho Hl P K [| f]; [exact I |].
  exists n, n', m. repeat split; auto. rewrite Em. exists false. repeat split; auto.
  - intros c ic. apply K; auto.
  - cbn [negb andb]. rewrite Hl. exact P.
Qed.

End Hist.

(* ------------------------------------------------------------------ the example *)
Module Ex.
Import SortTiny.
Definition chk : N -> list N -> res bool := fun _ _ => Val true.
Definition hist : list op :=
  [OpNewModel; OpCreateFile 0 [102] 1; OpCreateNamed 0 1 (BS "a2"); OpCreateNamed 0 1 (BS "a10"); OpCreateNamed 0 1 (BS "a1b")].
Definition run_hist := Inv.run_ops tiny tiny_el tiny_en chk 1 [] hist empty_world.
Definition u : world := match run_hist with Val w => w | _ => empty_world end.
Lemma u_runs : run_hist = Val u.
Proof. unfold u. destruct run_hist eqn:E; try reflexivity; vm_compute in E; discriminate. Qed.

(* ids: 0 ROOT, 1 3 5 the packages a2 a10 a1b, 2 4 6 their SHORT-NAMEs *)
Example u_shape : map (fun i => option_map (fun n => (n_name n, n_content n)) (w_nodes u i)) [0; 1; 3; 5; 7]
  = [Some (0, [CElem 1; CElem 3; CElem 5]); Some (1, [CElem 2]); Some (1, [CElem 4]); Some (1, [CElem 6]); None].
Proof. vm_compute. reflexivity. Qed.

Theorem u_core : Core u.
Proof. exact (Core_reachable tiny tiny_el tiny_en chk 1 [] hist u u_runs). Qed.
Theorem u_spec_kids : SpecKids tiny tiny_el tiny_at tiny_en u.
Proof. apply spec_kids_b_sound; [apply core_alloc_bound, u_core | vm_compute; reflexivity]. Qed.
Theorem u_typedet : TypeDet u.
Proof. apply typedet_b_sound; [apply core_alloc_bound, u_core | vm_compute; reflexivity]. Qed.
Theorem u_u64 : U64 u.
Proof. apply u64_b_sound; [apply core_alloc_bound, u_core | vm_compute; reflexivity]. Qed.

(* the same world with the packages in the order a1b a2 a10 *)
Definition root_u : node := match w_nodes u 0 with Some n => n | None => mkN PNone 0 [] [] end.
Definition v : world :=
  mkWorld (upd (w_nodes u) 0 (set_content root_u [CElem 5; CElem 1; CElem 3])) (w_next u) (w_files u) (w_models u).

Lemma root_u_ok : w_nodes u 0 = Some root_u.
Proof. vm_compute. reflexivity. Qed.

Theorem uv_same_shape : same_shape u v.
Proof.
  split; [reflexivity |]. intros j. unfold v. cbn [w_nodes]. unfold upd. destruct (j =? 0) eqn:Ej.
  - apply N.eqb_eq in Ej. subst j. rewrite root_u_ok. cbn [n_content set_content].
    replace (n_content root_u) with [CElem 1; CElem 3; CElem 5] by (vm_compute; reflexivity).
    apply Permutation_sym. apply (Permutation_cons_app [CElem 1; CElem 3] [] (CElem 5)). rewrite app_nil_r. apply Permutation_refl.
  - destruct (w_nodes u j); auto.
Qed.

Theorem uv_perm_equiv : perm_equiv tiny u v 0.
Proof.
  pose proof (core_regions u u_core) as R.
  eapply (perm_equiv_top tiny u v 0 root_u (set_content root_u [CElem 5; CElem 1; CElem 3]) MBag).
  - exact root_u_ok.
  - reflexivity.
  - reflexivity.
  - reflexivity.
  - reflexivity.
  - vm_compute. reflexivity.
  - reflexivity.
  - vm_compute. reflexivity.
  - vm_compute. reflexivity.
  - cbn [n_content set_content]. replace (n_content root_u) with [CElem 1; CElem 3; CElem 5] by (vm_compute; reflexivity).
    apply Permutation_sym. apply (Permutation_cons_app [CElem 1; CElem 3] [] (CElem 5)). rewrite app_nil_r. apply Permutation_refl.
  - intros c ic f.
    assert (dc : region u c 0 = false) by (apply (rg_up _ _ R 0 root_u c root_u_ok ic)).
    destruct (rg_closed _ _ R 0 0 root_u c (rg_self _ _ R 0) root_u_ok ic) as [_ ex].
    apply (perm_eq_same tiny (region u c) u v).
    + apply (rg_closed _ _ R).
    + split; [reflexivity |]. intros j dj. unfold v. cbn [w_nodes]. unfold upd. destruct (j =? 0) eqn:Ej; [| reflexivity].
      apply N.eqb_eq in Ej. subst j. rewrite dc in dj. discriminate.
    + intros j n _ Wj. destruct (u_spec_kids j n Wj) as [_ m o _ _ _ _]. split; [exact m | exact o].
    + apply (rg_self _ _ R).
    + exact ex.
Qed.

(* all hypotheses of e_sort_canonical hold: the two orders sort to twins - here even to the same content list *)
Definition sort_ex (w : world) : res (out unit * world) := e_sort tiny tiny_el tiny_at tiny_en NAME_INDEX NAME_DEFREF 0 w.
Definition u1 : world := match sort_ex u with Val (_, w) => w | _ => empty_world end.
Definition v1 : world := match sort_ex v with Val (_, w) => w | _ => empty_world end.
Lemma u1_runs : sort_ex u = Val (OK tt, u1).
Proof. unfold u1. destruct (sort_ex u) as [[[[] | e] w] | |] eqn:E; try reflexivity; vm_compute in E; discriminate. Qed.
Lemma v1_runs : sort_ex v = Val (OK tt, v1).
Proof. unfold v1. destruct (sort_ex v) as [[[[] | e] w] | |] eqn:E; try reflexivity; vm_compute in E; discriminate. Qed.

Example uv_sorted_contents :
  option_map n_content (w_nodes u1 0) = Some [CElem 1; CElem 3; CElem 5] /\
  option_map n_content (w_nodes v1 0) = Some [CElem 1; CElem 3; CElem 5].
Proof. vm_compute. split; reflexivity. Qed.

(* the name tables of the example are injective *)
Lemma nth_opt_inj {A} (l : list A) : NoDup l -> forall i j s, nth_opt l i = Some s -> nth_opt l j = Some s -> i = j.
Proof.
  induction 1 as [| x l nin nd IH]; intros [| i] [| j] s; cbn; try discriminate; auto.
  - intros [= <-] h. exfalso. apply nin. clear - h. revert j h. induction l as [| y l IHl]; intros [| j]; cbn; try discriminate.
    + intros [= ->]. left; auto.
    + intros h. right. eapply IHl; eauto.
  - intros h [= <-]. exfalso. apply nin. clear - h. revert i h. induction l as [| y l IHl]; intros [| i]; cbn; try discriminate.
    + intros [= ->]. left; auto.
    + intros h. right. eapply IHl; eauto.
  - intros h1 h2. f_equal. eapply IH; eauto.
Qed.
Lemma tab_inj (l : list (list N)) : NoDup l -> forall x y s, to_str (mkTab l) x = Some s -> to_str (mkTab l) y = Some s -> x = y.
Proof. intros nd x y s h1 h2. unfold to_str, mkTab in *. cbn in *. apply N2Nat.inj. eapply nth_opt_inj; eauto. Qed.
Ltac nodup_strings := vm_compute; repeat (constructor; [cbn; intuition discriminate |]); constructor.
Lemma inj_el : forall x y s, to_str tiny_el x = Some s -> to_str tiny_el y = Some s -> x = y.
Proof. apply tab_inj. nodup_strings. Qed.
Lemma inj_at : forall x y s, to_str tiny_at x = Some s -> to_str tiny_at y = Some s -> x = y.
Proof. apply tab_inj. nodup_strings. Qed.
Lemma inj_en : forall x y s, to_str tiny_en x = Some s -> to_str tiny_en y = Some s -> x = y.
Proof. apply tab_inj. nodup_strings. Qed.

(* ... and the theorem applies *)
Theorem uv_twins : forall f, twin_f u1 v1 f 0 0.
Proof.
  exact (e_sort_canonical tiny tiny_el tiny_at tiny_en NAME_INDEX NAME_DEFREF isort_poly StableSort_isort inj_el inj_at inj_en
           0 u v u1 v1 u_core uv_same_shape u_typedet u_u64 uv_perm_equiv u1_runs v1_runs).
Qed.

Theorem u_sort_idempotent : forall r2 w2, sort_ex u1 = Val (r2, w2) -> weq u1 w2 /\ r2 = OK tt.
Proof.
  intros r2 w2 H.
  exact (e_sort_idempotent tiny tiny_el tiny_at tiny_en NAME_INDEX NAME_DEFREF isort_poly StableSort_isort 0 u _ u1 r2 w2 u_core u1_runs H).
Qed.
End Ex.
