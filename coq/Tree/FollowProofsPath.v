(* Tree/FollowProofsPath.v — C06 proofs, layer 0: algebra of paths.
     dpath_boundary   a downward path is empty or starts with '/'
     below_old_form   the SpecPath of an element below h is the SpecPath of h plus a boundary suffix
     prefix_is_path   every non-empty boundary prefix of the SpecPath of an element is the SpecPath of an identifiable
                      ancestor-or-self (item names contain no '/')
     rekey_fresh      if `new` is not a key of an exact index then no key lies below `new` (freshness of rekey_all)
     old_form_below   conversely: a key of old form belongs to an element below the element whose key is `old` *)
From Coq Require Import Lia.
From AV Require Import Base.Bytes Base.Outcome Hash.HashModel Tree.Heap Tree.Ops Tree.Script Tree.Index
  Tree.IndexProofsW Tree.IndexProofsBase Tree.IndexProofsAssoc Tree.Follow.
Open Scope string_scope.
Open Scope list_scope.
Open Scope N_scope.

Section Path.
Variable T : tables.

Lemma boundary_nil : boundary [] = true. Proof. reflexivity. Qed.
Lemma boundary_slash r : boundary (47 :: r) = true. Proof. reflexivity. Qed.

Lemma seg_n_shape w n : seg_n T w n = [] \/ exists nm, item_name_n T w n = Some nm /\ seg_n T w n = 47 :: nm.
Proof. unfold seg_n. destruct (item_name_n T w n) as [nm|]; [right; eauto|left; reflexivity]. Qed.

Lemma seg_shape w i : seg T w i = [] \/ exists n nm, w_nodes w i = Some n /\ item_name_n T w n = Some nm /\ seg T w i = 47 :: nm.
Proof.
  unfold seg. destruct (w_nodes w i) as [n|]; [|left; reflexivity].
  destruct (seg_n_shape w n) as [H|(nm & H1 & H2)]; [left; exact H|right; eauto].
Qed.

Lemma boundary_app a b : boundary a = true -> boundary b = true -> boundary (a ++ b) = true.
Proof.
  intros Ha Hb. apply boundary_spec in Ha as [->|(r & ->)]; [exact Hb|]. reflexivity.
Qed.

Lemma seg_boundary w i : boundary (seg T w i) = true.
Proof. destruct (seg_shape w i) as [->|(n & nm & _ & _ & ->)]; reflexivity. Qed.

Lemma dpath_boundary w a i q : dpath T w a i q -> boundary q = true.
Proof.
  induction 1 as [|p c q Hp IH Hc]; [reflexivity|]. apply boundary_app; [exact IH|apply seg_boundary].
Qed.

(* the path of an element below h *)
Lemma below_old_form w m h x old p :
  TreeFacts w -> SpecPath T w m h old -> reach T w h x -> SpecPath T w m x p -> old_form old p.
Proof.
  intros HT (xm & Hxm & (q0 & Hd0 & ->)) (q & Hd) Hp.
  assert (Hp2 : SpecPath T w m x ((seg T w (m_root xm) ++ q0) ++ q)).
  { exists xm. split; [exact Hxm|]. exists (q0 ++ q). split; [eapply dpath_trans; eauto|]. rewrite app_assoc. reflexivity. }
  destruct (specpath_fun T w m m x _ _ HT Hp Hp2) as (_ & ->).
  exists q. split; [reflexivity|]. exact (dpath_boundary _ _ _ _ Hd).
Qed.

(* item names are '/'-free: stated on the pure readings *)
Definition NamesSlashFree (w : world) : Prop :=
  forall i n nm, w_nodes w i = Some n -> item_name_n T w n = Some nm -> ~ In 47 nm.

Lemma slashfree_names w : SlashFree T w -> NamesSlashFree w.
Proof.
  intros HS i n nm Hn Hnm. unfold item_name_n in Hnm. destruct (named T (n_type n)); [|discriminate].
  unfold short_child in Hnm. destruct (n_content n) as [|[s|d] rest]; try discriminate.
  destruct (w_nodes w s) as [sn|] eqn:Hs; [|discriminate].
  destruct (n_name sn =? name_short_name T) eqn:Es; [|discriminate].
  destruct (cdata_of T sn) as [[| nm' | |]|] eqn:Ec; try discriminate. injection Hnm as <-.
  apply N.eqb_eq in Es. eapply HS; eauto.
Qed.

Lemma identifiable_of_seg w i n nm : w_nodes w i = Some n -> item_name_n T w n = Some nm -> identifiable T w i = true.
Proof. intros Hn Hnm. unfold identifiable. rewrite Hn. eapply item_name_identifiable; eauto. Qed.

(* KEY: prefixes at '/' boundaries are paths of identifiable ancestors *)
Lemma prefix_is_path_d w r :
  NamesSlashFree w ->
  forall x q, dpath T w r x q ->
  forall A B, seg T w r ++ q = A ++ B -> boundary B = true -> A <> [] ->
  exists y qy, dpath T w r y qy /\ A = seg T w r ++ qy /\ identifiable T w y = true /\ reach T w y x.
Proof.
  intros HS x q Hd. induction Hd as [|p c q Hp IH Hc]; intros A B HE HB HA.
  - (* x = r *)
    rewrite app_nil_r in HE. destruct (seg_shape w r) as [Hs|(n & nm & Hn & Hnm & Hs)].
    + rewrite Hs in HE. symmetry in HE. apply app_eq_nil in HE as (-> & _). contradiction.
    + apply boundary_spec in HB as [->|(b & ->)].
      * rewrite app_nil_r in HE. exists r, []. split; [constructor|]. split; [rewrite app_nil_r; congruence|].
        split; [eapply identifiable_of_seg; eauto|apply reach_refl].
      * exfalso. rewrite Hs in HE. destruct A as [|a A']; [contradiction|]. injection HE as _ HE.
        eapply (HS r n nm Hn Hnm). rewrite HE. apply in_or_app. right. left. reflexivity.
  - (* x = c, child of p *)
    destruct (seg_shape w c) as [Hs|(n & nm & Hn & Hnm & Hs)].
    + rewrite Hs, app_nil_r in HE. destruct (IH A B HE HB HA) as (y & qy & H1 & H2 & H3 & H4).
      exists y, qy. repeat split; auto. eapply reach_step; eauto.
    + rewrite Hs in HE. rewrite app_assoc in HE. symmetry in HE. apply app_eq_app in HE as (l & [(H1 & H2)|(H1 & H2)]).
      * (* A = (seg r ++ q) ++ l, 47 :: nm = l ++ B *)
        destruct l as [|a l'].
        -- rewrite app_nil_r in H1. cbn in H2. subst B.
           destruct (IH A [] (eq_trans (eq_sym H1) (eq_sym (app_nil_r A))) eq_refl HA) as (y & qy & G1 & G2 & G3 & G4).
           exists y, qy. repeat split; auto. eapply reach_step; eauto.
        -- injection H2 as <- H2. apply boundary_spec in HB as [->|(b & ->)].
           ++ rewrite app_nil_r in H2. subst l'.
              exists c, (q ++ seg T w c). split; [econstructor; eauto|]. split; [rewrite Hs, H1, app_assoc; reflexivity|].
              split; [eapply identifiable_of_seg; eauto|apply reach_refl].
           ++ exfalso. eapply (HS c n nm Hn Hnm). rewrite H2. apply in_or_app. right. left. reflexivity.
      * (* seg r ++ q = A ++ l, B = l ++ 47 :: nm *)
        destruct l as [|a l'].
        -- rewrite app_nil_r in H1. cbn in H2.
           destruct (IH A [] (eq_trans H1 (eq_sym (app_nil_r A))) eq_refl HA) as (y & qy & G1 & G2 & G3 & G4).
           exists y, qy. repeat split; auto. eapply reach_step; eauto.
        -- assert (Hl : boundary (a :: l') = true).
           { apply boundary_spec in HB as [HB|(b & HB)]; rewrite H2 in HB; [discriminate HB|].
             injection HB as -> _. reflexivity. }
           destruct (IH A (a :: l') H1 Hl HA) as (y & qy & G1 & G2 & G3 & G4).
           exists y, qy. repeat split; auto. eapply reach_step; eauto.
Qed.

Lemma prefix_is_path w m x p A B :
  NamesSlashFree w -> SpecPath T w m x p -> p = A ++ B -> boundary B = true -> A <> [] ->
  exists y, SpecPath T w m y A /\ identifiable T w y = true /\ reach T w y x.
Proof.
  intros HS (xm & Hxm & (q & Hd & ->)) HE HB HA.
  destruct (prefix_is_path_d w (m_root xm) HS x q Hd A B HE HB HA) as (y & qy & G1 & G2 & G3 & G4).
  exists y. split; [|split; assumption]. exists xm. split; [exact Hxm|]. exists qy. split; assumption.
Qed.

(* freshness for rekey_all: nothing lies below a path that is not a key *)
Lemma rekey_fresh w m xm old new :
  TreeFacts w -> NamesSlashFree w -> IndexExact T w m -> model_at w m = Some xm ->
  new <> [] -> assoc_get new (m_idents xm) = None ->
  forall k k', In k (keys (m_idents xm)) -> rekey old new k = Some k' -> ~ In k' (keys (m_idents xm)).
Proof.
  intros HT HS HI Hxm Hne Hnone k k' _ Hr Hin.
  apply rekey_some in Hr as (suf & -> & Hb & ->).
  destruct (assoc_get (new ++ suf) (m_idents xm)) as [z|] eqn:Ez.
  2:{ apply assoc_get_none in Ez. contradiction. }
  apply (HI xm Hxm) in Ez as (Hz1 & Hz2 & Hz3).
  destruct (prefix_is_path w m z _ new suf HS Hz3 eq_refl Hb Hne) as (y & Hy1 & Hy2 & Hy3).
  assert (Hk : assoc_get new (m_idents xm) = Some y).
  { apply (HI xm Hxm). split; [eapply specpath_mreach; eauto|]. split; assumption. }
  congruence.
Qed.

(* a key of old form belongs to an element below the element that owns `old` *)
Lemma old_form_below w m xm h old p x :
  TreeFacts w -> NamesSlashFree w -> IndexExact T w m -> model_at w m = Some xm ->
  old <> [] -> assoc_get old (m_idents xm) = Some h -> old_form old p -> assoc_get p (m_idents xm) = Some x ->
  reach T w h x.
Proof.
  intros HT HS HI Hxm Hne Hh (suf & -> & Hb) Hx.
  apply (HI xm Hxm) in Hx as (Hx1 & Hx2 & Hx3).
  destruct (prefix_is_path w m x _ old suf HS Hx3 eq_refl Hb Hne) as (y & Hy1 & Hy2 & Hy3).
  assert (Hk : assoc_get old (m_idents xm) = Some y).
  { apply (HI xm Hxm). split; [eapply specpath_mreach; eauto|]. split; assumption. }
  assert (y = h) by congruence. subst y. exact Hy3.
Qed.

End Path.
