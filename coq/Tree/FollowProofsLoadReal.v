(* Tree/FollowProofsLoadReal.v — C06 after a first load on the generated tables: all table hypotheses of
   Tree/FollowProofsLoadTop.v are [F] theorems (tables_ok_real, real_sn_chars, real_ref_chars, RefChars_real). *)
From AV Require Import Base.Bytes Base.Outcome Hash.HashModel Spec.SpecOps Spec.SpecReal Tree.Heap Tree.Ops Tree.Script Tree.Load
  Tree.Inv Tree.Index Tree.Refs Tree.Follow Tree.FollowL Tree.InvProofsLoadLive Tree.InvProofsRealTables
  Tree.FollowProofsLoadMain Tree.FollowProofsLoadTop Tree.FollowProofsLoadKeepRefs Tree.MergeSpec.
From AV Require Xml.Lexer Xml.Parser Xml.TablesOkReal Xml.LoadRecordsExamples.
Open Scope list_scope.
Open Scope N_scope.

Theorem load_then_rename_real (tab_el tab_at tab_en : nametab) (check_fn : N -> list N -> res bool)
        (float_parse : list N -> option N) (LATEST name_definition_ref : N)
        buffer filename strict w x f ws w1 h nn w2 :
  RealInvL RT w -> w_models w = [x] -> m_files x = [] -> m_idents x = [] -> m_origins x = [] ->
  m_load_buffer RT tab_el tab_at tab_en check_fn float_parse LATEST name_definition_ref 0 buffer filename strict w = Val (OK (f, ws), w1) ->
  DocSide RT check_fn w1 ->
  live_ref RT w1 0 h ->
  e_set_item_name RT check_fn LATEST h nn w1 = Val (OK tt, w2) ->
  (forall r y, live_ref RT w1 0 r -> designates RT w1 0 r y -> below RT w1 h y -> designates RT w2 0 r y) /\
  (forall r p, ~ dead w1 r -> ref_text RT w1 r = Some p -> resolves RT w1 0 r ->
               ~ (exists y, designates RT w1 0 r y /\ below RT w1 h y) -> ref_text RT w2 r = Some p) /\
  (forall r p old, ~ dead w1 r -> SpecPath RT w1 0 h old -> ref_text RT w1 r = Some p ->
                   ~ (live_ref RT w1 0 r /\ old_form old p) -> ref_text RT w2 r = Some p).
Proof.
  apply load_then_rename;
    [exact TablesOkReal.tables_ok_real|exact LoadRecordsExamples.real_sn_chars|exact LoadRecordsExamples.real_ref_chars|exact RefChars_real].
Qed.

Theorem load_buffer_origins_real (tab_el tab_at tab_en : nametab) (check_fn : N -> list N -> res bool)
        (float_parse : list N -> option N) (LATEST name_definition_ref : N)
        m buffer filename strict w x f ws w' :
  nth_opt (w_models w) (N.to_nat m) = Some x -> NoDupKeys (m_origins x) ->
  m_load_buffer RT tab_el tab_at tab_en check_fn float_parse LATEST name_definition_ref m buffer filename strict w = Val (OK (f, ws), w') ->
  exists root st t x',
    Parser.load strict RT tab_el tab_at tab_en check_fn float_parse buffer = Val (Parser.Ret root st) /\
    nth_opt (w_models w') (N.to_nat m) = Some x' /\ NoDupKeys (m_origins x') /\
    (forall p e, In e (origins_of x p) -> In e (origins_of x' p)) /\
    (forall p e, In e (origins_of x' p) <->
                 In e (origins_of x p) \/ exists pos, In (p, pos) (refs_of RT [] root) /\ it_at t pos = Some e) /\
    (forall m2, m2 <> m -> nth_opt (w_models w') (N.to_nat m2) = nth_opt (w_models w) (N.to_nat m2)).
Proof. apply load_buffer_origins; [exact TablesOkReal.tables_ok_real|exact LoadRecordsExamples.real_ref_chars]. Qed.
