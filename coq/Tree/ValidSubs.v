(* Tree/ValidSubs.v — model of Element::list_valid_sub_elements (element.rs):
     if let Ok(version) = self.min_version() {
       for (element_name, _, version_mask, named_mask) in etype.sub_element_spec_iter() {
         if version.compatible(version_mask) {
           push { element_name, is_named: version.compatible(named_mask),
                  is_allowed: calc_element_insert_range(element_name, version).is_ok() } } } }
   MODEL ONLY: definitions, no proofs.  (The iterator is drained first; a table index that panics would panic either way.) *)
From AV Require Import Base.Bytes Base.Outcome Hash.HashModel Tree.Heap Tree.Ops.
Open Scope list_scope.
Open Scope N_scope.

Section ValidSubs.
Variable T : tables.
Variable LATEST : N.

(* AutosarVersion::compatible(mask) *)
Definition compatible (version mask : N) : bool := negb (N.land version mask =? 0).

Record valid_info := mkValid { vi_name : N; vi_named : bool; vi_allowed : bool }.

Fixpoint valid_loop (n : node) (version : N) (l : list (N * etype * N * N)) : W (list valid_info) :=
  match l with
  | [] => wret []
  | (name, _, mask, named_mask) :: rest =>
    if compatible version mask then
      (do r <- wcatch (calc_element_insert_range T n name version);
       do tl <- valid_loop n version rest;
       wret (mkValid name (compatible version named_mask) (match r with OK _ => true | ER _ => false end) :: tl))%W
    else valid_loop n version rest
  end.

Definition list_valid_sub_elements (h : id) : W (list valid_info) :=
  (do n <- get_node h;
   do mv <- wtry (min_version LATEST h);
   match mv with
   | None => wret []
   | Some version =>
     do l <- wlift (sub_element_spec_list T (n_type n));
     valid_loop n version l
   end)%W.

End ValidSubs.
