(* Tree/FollowProofsLoopG.v — C06 proofs: a generic form of the referrer-rewrite loop (used for move_element_local).
   The loop visits a list of keys; for a key k with kf k = Some k' whose referrer list l is present in the current map it
   removes the entry, rewrites the head text of every member of l to k' (the inner loop, any function with the stated
   effect) and merges l into the entry of k'.  No NoDup assumption on the visited keys: a key visited twice has no
   entry the second time. *)
From Coq Require Import Lia.
From AV Require Import Base.Bytes Base.Outcome Hash.HashModel Tree.Heap Tree.Ops Tree.Script Tree.Index
  Tree.IndexProofsW Tree.IndexProofsBase Tree.IndexProofsAssoc Tree.Follow Tree.FollowProofsLoop.
Open Scope string_scope.
Open Scope list_scope.
Open Scope N_scope.

Section OuterG.
Variable m : N.
Variable kf : list N -> option (list N).
Variable each : list (list N) -> W unit.
Variable inner : list N -> list id -> W unit.
Hypothesis inner_ok : forall p' rl w w',
  inner p' rl w = Val (OK tt, w') ->
  w_next w' = w_next w /\ w_files w' = w_files w /\ w_models w' = w_models w /\
  (forall i, In i rl -> w_nodes w' i = option_map (rewrite_head p') (w_nodes w i)) /\
  (forall i, ~ In i rl -> w_nodes w' i = w_nodes w i).
Hypothesis each_nil : each [] = wret tt.
Hypothesis each_cons : forall k r,
  each (k :: r) =
  (match kf k with
   | Some k' =>
     do y <- get_model m;
     match assoc_get k (m_origins y) with
     | Some reflist =>
       set_model m (set_origins y (assoc_remove k (m_origins y)));;
       inner k' reflist;;
       modify_model m (fun z => set_origins z (match assoc_get k' (m_origins z) with
                                                | Some l0 => assoc_insert k' (l0 ++ reflist) (m_origins z)
                                                | None => m_origins z ++ [(k', reflist)] end))
     | None => wret tt
     end
   | None => wret tt
   end;; each r)%W.

Lemma body_sem_g k wc w1 xc (body : W unit) :
  body = (match kf k with
   | Some k' =>
     do y <- get_model m;
     match assoc_get k (m_origins y) with
     | Some reflist =>
       set_model m (set_origins y (assoc_remove k (m_origins y)));;
       inner k' reflist;;
       modify_model m (fun z => set_origins z (match assoc_get k' (m_origins z) with
                                                | Some l0 => assoc_insert k' (l0 ++ reflist) (m_origins z)
                                                | None => m_origins z ++ [(k', reflist)] end))
     | None => wret tt
     end
   | None => wret tt
   end)%W ->
  model_at wc m = Some xc ->
  body wc = Val (OK tt, w1) ->
  match kf k, assoc_get k (m_origins xc) with
  | Some k', Some l =>
    w_next w1 = w_next wc /\ w_files w1 = w_files wc /\
    w_models w1 = list_set (w_models wc) (N.to_nat m)
                    (set_origins xc (merge_origin k' l (assoc_remove k (m_origins xc)))) /\
    (forall i, In i l -> w_nodes w1 i = option_map (rewrite_head k') (w_nodes wc i)) /\
    (forall i, ~ In i l -> w_nodes w1 i = w_nodes wc i)
  | _, _ => w1 = wc
  end.
Proof.
  intros -> Hxc H.
  destruct (kf k) as [k'|]; [|apply wret_inv in H as (_ & ->); reflexivity].
  apply wbind_inv in H as [(y & w0 & E & H)|(e & _ & [=])].
  apply get_model_inv in E as (y0 & Hy & Q & ->). assert (y = y0) by congruence. subst y. clear Q.
  assert (y0 = xc) by (unfold model_at in Hxc; congruence). subst y0.
  destruct (assoc_get k (m_origins xc)) as [l|]; [|apply wret_inv in H as (_ & ->); reflexivity].
  apply wbind_inv in H as [(u & wa & E & H)|(e & _ & [=])]. apply set_model_inv in E as (_ & ->).
  apply wbind_inv in H as [(u2 & wb & E & H)|(e & _ & [=])]. destruct u2.
  destruct (inner_ok _ _ _ _ E) as (B1 & B2 & B3 & B4 & B5). cbn [w_next w_files w_models w_nodes] in *.
  apply modify_model_inv in H as (z & Hz & _ & ->). cbn [w_next w_files w_models w_nodes].
  rewrite B3 in Hz. rewrite (list_set_nth_eq _ _ _ _ Hy) in Hz. injection Hz as <-.
  rewrite B3. repeat split; auto.
  cbn [set_origins m_origins m_root m_files m_idents].
  clear. generalize (w_models wc). intros ms. generalize (N.to_nat m). intros j.
  revert j. induction ms as [|a ms IH]; intros [|j]; cbn; try reflexivity. f_equal. apply IH.
Qed.

Lemma outer_sem_g : forall todo wc w' xc,
  (forall k k' k2, In k todo -> kf k = Some k' -> In k2 todo -> kf k2 <> None -> k2 <> k') ->
  model_at wc m = Some xc ->
  (forall k1 k2 k1' k2' l1 l2 r, In k1 todo -> In k2 todo -> k1 <> k2 ->
     kf k1 = Some k1' -> kf k2 = Some k2' ->
     assoc_get k1 (m_origins xc) = Some l1 -> assoc_get k2 (m_origins xc) = Some l2 -> In r l1 -> In r l2 -> False) ->
  each todo wc = Val (OK tt, w') ->
  same_frame m wc w' /\
  (forall i,
     (exists k k' l, In k todo /\ kf k = Some k' /\ assoc_get k (m_origins xc) = Some l /\ In i l /\
                     w_nodes w' i = option_map (rewrite_head k') (w_nodes wc i))
     \/ ((forall k k' l, In k todo -> kf k = Some k' -> assoc_get k (m_origins xc) = Some l -> ~ In i l) /\
         w_nodes w' i = w_nodes wc i)).
Proof.
  induction todo as [|k todo IH]; intros wc w' xc Hnew Hxc Hdisj H.
  - rewrite each_nil in H. apply wret_inv in H as (_ & ->). split; [apply same_frame_refl|].
    intros i. right. split; [intros ? ? ? []|reflexivity].
  - rewrite each_cons in H. apply wbind_inv in H as [(u & w1 & E & H)|(e & _ & [=])]. destruct u.
    pose proof (body_sem_g k wc w1 xc _ eq_refl Hxc E) as HB. clear E.
    destruct (kf k) as [k'|] eqn:Er.
    2:{ subst w1. destruct (IH wc w' xc) as (F & G); [| exact Hxc | | exact H |].
        { intros k0 k0' k2 I0 R0 I2 R2. eapply Hnew; eauto; right; assumption. }
        { intros; eapply (Hdisj k1 k2); eauto; right; assumption. }
        split; [exact F|]. intros i. destruct (G i) as [(k2 & k2' & l & G1 & G2 & G3 & G4 & G5)|(G1 & G2)].
        - left. exists k2, k2', l. repeat split; auto. right. exact G1.
        - right. split; [|exact G2]. intros k2 k2' l [<-|Hin] Hr Hl; [congruence|]. eapply G1; eauto. }
    destruct (assoc_get k (m_origins xc)) as [l|] eqn:El.
    2:{ subst w1. destruct (IH wc w' xc) as (F & G); [| exact Hxc | | exact H |].
        { intros k0 k0' k2 I0 R0 I2 R2. eapply Hnew; eauto; right; assumption. }
        { intros; eapply (Hdisj k1 k2); eauto; right; assumption. }
        split; [exact F|]. intros i. destruct (G i) as [(k2 & k2' & l & G1 & G2 & G3 & G4 & G5)|(G1 & G2)].
        - left. exists k2, k2', l. repeat split; auto. right. exact G1.
        - right. split; [|exact G2]. intros k2 k2' l [<-|Hin] Hr Hl; [congruence|]. eapply G1; eauto. }
    destruct HB as (B1 & B2 & B3 & B4 & B5).
    set (O1 := merge_origin k' l (assoc_remove k (m_origins xc))) in *.
    set (x1 := set_origins xc O1) in *.
    assert (Hx1 : model_at w1 m = Some x1).
    { unfold model_at. rewrite B3. eapply list_set_nth_eq. exact Hxc. }
    assert (Hkk' : k <> k').
    { eapply (Hnew k k' k); eauto; [left; reflexivity|left; reflexivity|congruence]. }
    assert (HO1k : assoc_get k (m_origins x1) = None).
    { unfold x1, O1. cbn [set_origins m_origins]. rewrite assoc_get_merge_neq by exact Hkk'. apply assoc_get_remove_eq. }
    assert (HO1 : forall k2, In k2 todo -> kf k2 <> None -> k2 <> k ->
                   assoc_get k2 (m_origins x1) = assoc_get k2 (m_origins xc)).
    { intros k2 Hin Hr Hne. unfold x1, O1. cbn [set_origins m_origins].
      rewrite assoc_get_merge_neq.
      - apply assoc_get_remove_neq. exact Hne.
      - eapply (Hnew k k' k2); eauto; [left; reflexivity|right; exact Hin]. }
    destruct (IH w1 w' x1) as (F & G); [| exact Hx1 | | exact H |].
    { intros k0 k0' k2 I0 R0 I2 R2. eapply Hnew; eauto; right; assumption. }
    { intros k1 k2 k1' k2' l1 l2 r I1 I2 Hne R1 R2 L1 L2.
      assert (k1 <> k) by (intros ->; congruence). assert (k2 <> k) by (intros ->; congruence).
      rewrite HO1 in L1 by (auto; congruence). rewrite HO1 in L2 by (auto; congruence).
      eapply (Hdisj k1 k2); eauto; right; assumption. }
    split.
    { eapply same_frame_trans; [|exact F]. split; [exact B1|]. split; [exact B2|]. split; [|split].
      - intros m2 Hne. unfold model_at. rewrite B3. apply list_set_nth_neq. intros E. apply Hne. apply N2Nat.inj. exact E.
      - intros x0 Hx0. assert (x0 = xc) by congruence. subst x0. exists x1. split; [exact Hx1|]. auto.
      - intros Hn. congruence. }
    intros i. destruct (G i) as [(k2 & k2' & l2 & G1 & G2 & G3 & G4 & G5)|(G1 & G2)].
    + assert (Hk2 : k2 <> k) by (intros ->; congruence).
      rewrite HO1 in G3 by (auto; congruence). left. exists k2, k2', l2. split; [right; exact G1|]. repeat split; auto.
      rewrite G5. rewrite B5; [reflexivity|]. intros Hil.
      eapply (Hdisj k k2 k' k2' l l2 i); eauto; [left; reflexivity|right; exact G1].
    + destruct (in_dec N.eq_dec i l) as [Hil|Hnil].
      * left. exists k, k', l. split; [left; reflexivity|]. repeat split; auto. rewrite G2. apply B4. exact Hil.
      * right. split.
        -- intros k2 k2' l2 Hin2 Hr Hl.
           destruct (bytes_dec k2 k) as [->|Hne2].
           ++ assert (l2 = l) by congruence. subst. exact Hnil.
           ++ destruct Hin2 as [<-|Hin2]; [contradiction|].
              eapply G1; eauto. rewrite HO1 by (auto; congruence). exact Hl.
        -- rewrite G2. apply B5. exact Hnil.
Qed.

End OuterG.
