(* Tree/NoPanic.v — property C12, panic / loop half: DEFINITIONS (proofs in Tree/NoPanicProofs*.v).

   Every Rust expression of elementraw.rs / element.rs / autosarmodel.rs that can panic is a `Pan site` in the model
   (Tree/Heap.v, Tree/Ops.v, Spec/SpecOps.v), every upward / recursive walk runs on fuel (`Fuel` = the Rust would
   loop for ever).  Sites reachable from `run_op` (Tree/Script.v), with the Rust expression each mirrors and what
   excludes it:

   site (model)                                   Rust                                                   excluded by
   ---------------------------------------------------------------------------------------------------------------
   get_node "dangling node id"                    Weak::upgrade / Arc deref of a stored element          Closed: every id stored in a content list, parent link,
                                                                                                          model root or index map is allocated; handles in the op are allocated
   get_model "dangling model id"                  ElementOrModel::Model(weak).upgrade()                  parent link PModel m -> m is a model; op_wf
   get_file "dangling file id"                    &ArxmlFile argument                                    op_wf (a file handle is a file)
   cdata_to_string "EnumItem::to_str"             EnumItem::to_str (table index)                         values in the op / in nodes are enum discriminants (cdata_ok)
   cdata_to_string "UNMODELLED: f64::to_string"   CharacterData::Float(..).to_string()                   NOT a site of the code: pending class [Unmodelled12] (model gap)
   up_names / model_walk / fm_walk /              parent walks of path_unchecked, Element::model,        finite parent chains (Depth, Tree/Inv.v) + the chain is
     ancestor_is / add_to_file_restricted Fuel    file_membership, the ancestor loops, add_to_file_restricted   shorter than the number of allocated nodes
   dfs_ids / remove_internal / deep_copy /        elements_dfs, remove_internal, deep_copy,              child lists agree with parent links (c_up) => every downward
     register_subtree Fuel                        the registration walk of create_copied_sub_element     chain is the reverse of a parent chain: height <= #nodes
   unique_loop Fuel                               make_unique_item_name `while get_element_by_path(..)`  pigeonhole over the identifiables map (fuel = entries + 2)
   range_loop "unreachable!()"                    calc_element_insert_range: match on ContentMode        tables: a group that has sub-elements is not Characters, modes <= 4
   content_insert "Vec::insert: index > len"      self.content.insert(position, ..)                      position comes from calc_element_insert_range (end <= len) or was
                                                                                                          checked against it; nothing in between shortens self.content
   e_set_item_name "strip_suffix(..).unwrap()"    old_path.strip_suffix(&current_name).unwrap()          path() of a named element ends with its item name (up_names lemma)
   e_set_reference_target "ElementName::to_str"   target.element_name().to_str()                         node names are ElementName discriminants (name_ok)
   e_set_reference_target "EnumItem::from_bytes"  EnumItem::from_str hash table lookup                   nametab_ok tab_en
   new_model (et_new / elem of the root)          ElementType::ROOT                                      tables_ok
   every SpecOps Pan / Fuel                       ELEMENTS[i], DATATYPES[i], SUBELEMENTS[a..b], ..       tables_ok12 (checked on the real tables) + every node type is a
                                                                                                          checked type (etype_ok)
   FIXED while this was built (sites gone from Ops.v): range_loop find_sub_element(existing).unwrap() (1b7bb3a),
   detach_from / move_element_position position(..).unwrap() (72b7a48), e_set_item_name content[0] (a58912b).

   DEFINITIONS ONLY (plus Examples). *)
From AV Require Import Base.Bytes Base.Outcome Hash.HashModel Spec.SpecOps Xml.TablesOk Tree.Heap Tree.Ops Tree.Script Tree.Inv.
Open Scope string_scope.
Open Scope list_scope.
Open Scope N_scope.

(* ------------------------------------------------------------------ tables: what C12 needs beyond Xml/TablesOk.v *)
Section Tables12.
Variable T : tables.

(* every content mode — of a datatype and of every group nested in it — is one of the five ContentMode variants *)
Fixpoint grp_modes_ok (fuel : nat) (ty : N) : bool :=
  match fuel with
  | O => false
  | S f =>
    match T_datatypes T ty with
    | None => false
    | Some d =>
      (dt_mode d <=? 4) &&
      forallb (fun pos => match T_subelements T (dt_sub_start d + pos) with
                          | Some (kind, idx) => if kind =? 0 then true else grp_modes_ok f idx
                          | None => false
                          end) (iota (dt_sub_end d - dt_sub_start d))
    end
  end.
Definition modes_ok : bool := forallb (grp_modes_ok FUEL) (iota (n_datatypes T)).

(* REF_ITEMS slices in range, every entry present *)
Definition refs_ok : bool :=
  forallb (fun ty => match T_datatypes T ty with
                     | Some d => slice_ok (dt_ref_start d) (dt_ref_end d) (n_ref_items T) &&
                                 forallb (fun pos => match T_ref_items T (dt_ref_start d + pos) with Some _ => true | None => false end)
                                         (iota (dt_ref_end d - dt_ref_start d))
                     | None => false end) (iota (n_datatypes T)).

Definition tables_ok12 : bool := tables_ok T && modes_ok && refs_ok.
End Tables12.

(* ------------------------------------------------------------------ the invariant *)
Section NoPanic.
Variable T : tables.
Variable tab_el tab_en : nametab.
Variable check_fn : N -> list N -> res bool.
Variable LATEST : N.
Variable root_attrs : list (N * cdata).

Definition name_ok (x : N) : Prop := to_str tab_el x <> None.
Definition cdata_ok (d : cdata) : Prop := match d with DEnum e => to_str tab_en e <> None | _ => True end.

(* a node only mentions things that exist, its type is a checked type, its values are enum discriminants *)
Definition node_ok (w : world) (n : node) : Prop :=
  etype_ok T (n_type n) /\ name_ok (n_name n) /\
  (forall c, In (CElem c) (n_content n) -> c < w_next w) /\
  (forall d, In (CData d) (n_content n) -> cdata_ok d) /\
  match n_parent n with
  | PElem p => p < w_next w
  | PModel m => m < N.of_nat (List.length (w_models w))
  | PNone => True
  end.

Definition model_ok (w : world) (x : model) : Prop :=
  m_root x < w_next w /\
  (forall k l e, In (k, l) (m_origins x) -> In e l -> e < w_next w).

(* [Closed]: holds in EVERY intermediate state of every operation (each primitive step keeps it) *)
Record Closed (w : world) : Prop := mkClosed {
  cl_alloc : forall i, w_nodes w i <> None <-> i < w_next w;
  cl_node : forall i n, w_nodes w i = Some n -> node_ok w n;
  cl_model : forall x, In x (w_models w) -> model_ok w x
}.

(* finite parent chains (no cycle), child lists agree with parent links: facts of Tree/Inv.v's Core, named separately
   because operations break and restore them in the middle (remove_internal, move) while Closed persists *)
Definition UpWF (w : world) : Prop := forall i, i < w_next w -> exists h, Depth w i h.
Definition CUp (w : world) : Prop := forall p c, lists w p c -> par w c p.

Record PanicFree (w : world) : Prop := mkPanicFree {
  pf_closed : Closed w;
  pf_up : UpWF w;
  pf_cup : CUp w
}.

(* what a client can pass: handles are handles (allocated elements, existing models / files), names and enum values
   are discriminants of the Rust enums.  Positions, strings, numbers and the choice of handles are ARBITRARY. *)
Definition h_ok (w : world) (h : N) : Prop := h < w_next w.
Definition m_ok (w : world) (m : N) : Prop := m < N.of_nat (List.length (w_models w)).
Definition f_ok (w : world) (f : N) : Prop := f < N.of_nat (List.length (w_files w)).

Definition op_wf (w : world) (o : op) : Prop :=
  match o with
  | OpCreateSub h name | OpCreateSubAt h name _ | OpCreateNamed h name _ | OpCreateNamedAt h name _ _
  | OpGetOrCreate h name | OpGetOrCreateNamed h name _ | OpRemoveKind h name => h_ok w h /\ name_ok name
  | OpCopy h o | OpCopyAt h o _ | OpMove h o | OpMoveAt h o _ | OpRemove h o | OpSetRefTarget h o => h_ok w h /\ h_ok w o
  | OpSetItemName h _ | OpRemoveCData h | OpInsertCItem h _ _ | OpRemoveCItem h _ | OpRemoveAttr h _ | OpSetComment h _ => h_ok w h
  | OpSetCData h v | OpSetAttr h _ v => h_ok w h /\ cdata_ok v
  | OpNewModel => True
  | OpCreateFile m _ _ => m_ok w m
  | OpRemoveFile m f => m_ok w m /\ f_ok w f
  | OpAddToFile h f | OpRemoveFromFile h f => h_ok w h /\ f_ok w f
  end.

Definition run12 := run_op T tab_el tab_en check_fn LATEST root_attrs.

(* the model's own gap: f64::to_string is not modelled (cdata_to_string of a Float: set_character_data of a float on a
   string-typed element; a float inside a reference element during a cross-model move).  Covered by the
   implementation fuzzer only. *)
Definition is_unmodelled (s : string) : bool := String.prefix "UNMODELLED" s.
Definition Unmodelled12 (w : world) (o : op) : bool :=
  match run12 o w with Pan s => is_unmodelled s | _ => false end.

(* neither panic nor out of fuel *)
Definition runs {A} (m : W A) (w : world) : Prop := exists r w', m w = Val (r, w').

(* operations whose no-panic proof is finished (partial-coverage rule): the rest is [pending_op].
   Every constructor is covered except set_character_data with a Float value (f64::to_string is not modelled);
   move_element_here / _at are covered for moves within one model only (side condition [side12] of the theorem:
   the cross-model path move_element_full is pending). *)
Definition covered_op (o : op) : bool :=
  match o with
  | OpSetCData _ v => match v with DFloat _ => false | _ => true end
  | _ => true
  end.
Definition pending_op (o : op) : bool := negb (covered_op o).

(* ---------- recursion depth (the logic half of the stack question) ---------- *)
(* height bound of the subtree below i: hb w i (S f) iff every sub-element has hb _ f.  The recursive functions
   (dfs_ids, remove_internal, deep_copy, register_subtree) called with fuel f on i recurse exactly along this
   structure: they return Fuel iff not hb w i f, and their recursion depth is the height of the subtree. *)
Inductive hb (w : world) : id -> nat -> Prop :=
| hb_node i f : (forall n c, w_nodes w i = Some n -> In (CElem c) (n_content n) -> hb w c f) -> hb w i (S f).

End NoPanic.
