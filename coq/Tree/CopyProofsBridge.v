(* Tree/CopyProofsBridge.v — C13: the allocation discipline [Closed] assumed by the copy theorems is a consequence of
   C03's structural invariant [Core] (Tree/Inv.v). *)
From AV Require Import Base.Bytes Base.Outcome Hash.HashModel Tree.Heap Tree.Ops Tree.Script Tree.Inv Tree.CopyProofsDefs.
Open Scope list_scope.
Open Scope N_scope.

Lemma in_elems_c c l : In c (elems l) <-> In (CElem c) l.
Proof.
  unfold elems. rewrite in_flat_map. split.
  - intros ([x|d] & Hx & Hc); cbn in Hc; [destruct Hc as [->|[]]; auto | destruct Hc].
  - intros H. exists (CElem c). split; auto. cbn. auto.
Qed.

Lemma Core_Closed w : Core w -> Closed w.
Proof.
  intros C. split.
  - intros i n H. apply (c_alloc w C). exists n. exact H.
  - intros p n c Hp Hin.
    assert (L : lists w p c). { exists n. split; auto. apply in_elems_c. exact Hin. }
    apply (c_up w C) in L. destruct L as (cn & Hc & _). eauto.
Qed.

