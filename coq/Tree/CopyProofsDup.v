(* Tree/CopyProofsDup.v — C13 proofs, layer 4: AutosarModel::duplicate (Tree/Copy.v).
   The original is untouched (node by node, file by file, model by model; also when duplicate fails, in which case the
   model and file lists are exactly restored), the copy is a NEW model whose root and everything reachable from it was
   allocated by the call (so the reachable sets of original and copy are disjoint: the precondition of independence),
   and the root of the copy carries the attributes and the comment of the original root.  For every table set. *)
From AV Require Import Base.Bytes Base.Outcome Hash.HashModel Tree.Heap Tree.Ops Tree.Script Tree.Copy
  Tree.CopyProofsW Tree.CopyProofsDefs Tree.CopyProofsDeep Tree.CopyProofsCreate Tree.CopyProofsTop
  Tree.CopyProofsFK Tree.Frame.
From Coq Require Import Lia PeanoNat.
Open Scope string_scope.
Open Scope list_scope.
Open Scope N_scope.

(* ------------------------------------------------------------------ prefixes of lists *)
Lemma firstn_app_le {A} (l x : list A) n : (n <= List.length l)%nat -> firstn n (l ++ x) = firstn n l.
Proof.
  intros H. rewrite firstn_app. replace (n - List.length l)%nat with 0%nat by lia. cbn. apply app_nil_r.
Qed.
Lemma firstn_list_set {A} (l : list A) k x n : (n <= k)%nat -> firstn n (list_set l k x) = firstn n l.
Proof.
  revert k n. induction l as [|y l IH]; intros [|k] [|n] H; cbn; auto; try lia. f_equal. apply IH. lia.
Qed.
Lemma nth_opt_app_new {A} (l : list A) x : nth_opt (l ++ [x]) (List.length l) = Some x.
Proof. induction l; cbn; auto. Qed.
Lemma nth_opt_app_old {A} (l x : list A) k y : nth_opt l k = Some y -> nth_opt (l ++ x) k = Some y.
Proof. revert k. induction l as [|z l IH]; intros [|k]; cbn; try discriminate; auto. Qed.

(* ------------------------------------------------------------------ the invariant and the frame of duplicate *)
(* n0 / nm / nf: allocation bound, number of models, number of files when duplicate was called *)
Definition DInv (n0 : N) (nm nf : nat) (w : world) : Prop :=
  n0 <= w_next w /\ (nm <= List.length (w_models w))%nat /\ (nf <= List.length (w_files w))%nat /\
  FreshKids n0 w /\ Closed w.
Definition DSame (n0 : N) (nm nf : nat) (w w' : world) : Prop :=
  (forall i, i < n0 -> w_nodes w' i = w_nodes w i) /\
  firstn nf (w_files w') = firstn nf (w_files w) /\
  firstn nm (w_models w') = firstn nm (w_models w).
Definition DR (n0 : N) (nm nf : nat) (w w' : world) : Prop :=
  DInv n0 nm nf w -> DInv n0 nm nf w' /\ DSame n0 nm nf w w'.

Lemma DSame_refl n0 nm nf w : DSame n0 nm nf w w.
Proof. repeat split; auto. Qed.
Lemma DSame_trans n0 nm nf a b c : DSame n0 nm nf a b -> DSame n0 nm nf b c -> DSame n0 nm nf a c.
Proof.
  intros (A1 & A2 & A3) (B1 & B2 & B3). repeat split; try congruence.
  intros i Hi. rewrite B1 by auto. auto.
Qed.
Lemma DR_refl n0 nm nf w : DR n0 nm nf w w.
Proof. intros H. split; auto. apply DSame_refl. Qed.
Lemma DR_trans n0 nm nf a b c : DR n0 nm nf a b -> DR n0 nm nf b c -> DR n0 nm nf a c.
Proof.
  intros H1 H2 Ha. destruct (H1 Ha) as (Hb & S1). destruct (H2 Hb) as (Hc & S2).
  split; auto. eapply DSame_trans; eauto.
Qed.

(* changing only the file membership of a fresh node *)
Lemma DR_wset_files n0 nm nf w i n fs :
  w_nodes w i = Some n -> n0 <= i -> DR n0 nm nf w (wset w i (set_files n fs)).
Proof.
  intros Hi Hlo (H1 & H2 & H3 & H4 & H5). unfold wset. split; [|repeat split; cbn; auto].
  - repeat split; cbn; auto.
    + intros p m c Hp Hm Hin. cbn in Hm. unfold upd in Hm. destruct (p =? i) eqn:E.
      * apply N.eqb_eq in E. subst p. injection Hm as <-. cbn in Hin. eapply H4; eauto.
      * eapply H4; eauto.
    + apply (proj1 (Closed_upd w i n (set_files n fs) H5 Hi (fun x Hx => proj2 H5 i n x Hi Hx))).
    + apply (proj2 (Closed_upd w i n (set_files n fs) H5 Hi (fun x Hx => proj2 H5 i n x Hi Hx))).
  - intros j Hj. apply upd_neq. lia.
Qed.

Lemma stab_modify_files n0 nm nf i (g : node -> list N) :
  n0 <= i -> stab (DR n0 nm nf) (modify_node i (fun x => set_files x (g x))).
Proof.
  intros Hi w r w' H. apply modify_node_wset in H as (n & Hn & _ & ->). apply DR_wset_files; auto.
Qed.

Section Dup.
Variable T : tables.
Variable tab_el tab_en : nametab.
Variable check_fn : N -> list N -> res bool.
Variable LATEST : N.
Variable root_attrs : list (N * cdata).

(* ------------------------------------------------------------------ new_model *)
Lemma new_model_inv w r w' :
  new_model T root_attrs w = Val (r, w') ->
  exists name ty,
    r = OK (N.of_nat (List.length (w_models w))) /\
    w' = mkWorld (upd (w_nodes w) (w_next w)
                      (mkNode (PModel (N.of_nat (List.length (w_models w)))) name ty [] root_attrs [] None))
                 (w_next w + 1) (w_files w) (w_models w ++ [mkModel (w_next w) [] [] []]).
Proof.
  unfold new_model. destruct (et_new T (autosar_element T)) as [ty| |]; destruct (elem T (autosar_element T)) as [ed| |];
    try discriminate.
  intros [= <- <-]. eauto.
Qed.

(* ------------------------------------------------------------------ add_to_file_restricted on a root without children *)
Lemma atf_root fl e f w r w' n c :
  w_nodes w e = Some n -> n_content n = [] -> n_parent n = PModel c ->
  add_to_file_restricted T (S fl) e f w = Val (r, w') ->
  w' = w \/ exists fs, w' = wset w e (set_files n fs).
Proof.
  intros Hn Hcont Hpar H. cbn [add_to_file_restricted] in H.
  apply wbind_inv in H as [(fm & w1 & E & H) | (e0 & E & _)].
  2: { apply wtry_inv in E as (? & _ & [=]). }
  assert (w1 = w) by (eapply (ro_try _ (ro_file_membership e)); eauto). subst w1. clear E.
  destruct (match fm with Some x => x | None => (true, []) end) as [local cur].
  destruct (set_mem f cur). { apply wret_inv in H as (_ & ->). auto. }
  apply wbind_inv in H as [(n1 & w1 & E & H) | (e0 & E & _)].
  2: { apply get_node_inv in E as (? & _ & [=] & _). }
  apply get_node_inv in E as (n1' & Hn1 & [= <-] & ->). rewrite Hn in Hn1. injection Hn1 as <-.
  apply wbind_inv in H as [(sp & w1 & E & H) | (e0 & E & _)].
  2: { apply wl_inv in E as (? & _ & [=] & _). }
  apply wl_inv in E as (sp' & _ & [= <-] & ->).
  rewrite Hcont in H.
  apply wbind_inv in H as [(u & w1 & E & H) | (e0 & E & _)].
  2: { destruct (negb (sp =? 0)); apply wret_inv in E as ([=] & _). }
  assert (w1 = w) by (destruct (negb (sp =? 0)); apply wret_inv in E as (_ & ->); reflexivity). subst w1. clear E.
  apply wbind_inv in H as [(ps & w1 & E & H) | (e0 & E & ->)].
  2: { left. eapply ro_parent_splittable; eauto. }
  assert (w1 = w) by (eapply ro_parent_splittable; eauto). subst w1. clear E.
  apply wbind_inv in H as [(u2 & w1 & E & H) | (e0 & E & _)].
  2: { destruct (ps || local); [apply modify_node_wset in E as (? & _ & [=] & _) | apply wret_inv in E as ([=] & _)]. }
  unfold parent_of in H. rewrite Hpar in H.
  apply wbind_inv in H as [(p & w2 & E2 & H) | (e0 & E2 & _)].
  2: { apply wret_inv in E2 as ([=] & _). }
  apply wret_inv in E2 as ([= ->] & ->). apply wret_inv in H as (_ & ->).
  destruct (ps || local).
  - apply modify_node_wset in E as (n2 & Hn2 & _ & ->). rewrite Hn in Hn2. injection Hn2 as <-. right. eauto.
  - apply wret_inv in E as (_ & ->). auto.
Qed.

(* the root of the model under construction: fresh, no sub-elements yet, registered as root of model c *)
Definition RootOf (n0 : N) (nm : nat) (croot : id) (c : N) (w : world) : Prop :=
  n0 <= croot /\ (nm <= N.to_nat c)%nat /\
  exists n x, w_nodes w croot = Some n /\ n_parent n = PModel c /\
              nth_opt (w_models w) (N.to_nat c) = Some x /\ m_root x = croot.
Definition RootEmpty (croot : id) (w : world) : Prop :=
  exists n, w_nodes w croot = Some n /\ n_content n = [].

Lemma DInv_same_nodes n0 nm nf w w' :
  DInv n0 nm nf w -> w_nodes w' = w_nodes w -> w_next w' = w_next w ->
  (nm <= List.length (w_models w'))%nat -> (nf <= List.length (w_files w'))%nat -> DInv n0 nm nf w'.
Proof.
  intros (H1 & H2 & H3 & H4 & H5 & H6) En Ex Hm Hf. repeat split; auto.
  - rewrite Ex. exact H1.
  - intros p n c Hp Hn Hin. rewrite En in Hn. eapply H4; eauto.
  - intros i n Hn. rewrite En in Hn. rewrite Ex. eapply H5; eauto.
  - intros p n c Hn Hin. rewrite En in *. eapply H6; eauto.
Qed.

Lemma RootOf_wset_files n0 nm croot c w i n fs :
  w_nodes w i = Some n -> RootOf n0 nm croot c w -> RootOf n0 nm croot c (wset w i (set_files n fs)).
Proof.
  intros Hi (A & B & n1 & x & Hn1 & Hp & Hx & Hr). split; auto. split; auto.
  unfold wset; cbn [w_nodes w_models]. destruct (N.eq_dec croot i) as [->|Hne].
  - rewrite Hi in Hn1. injection Hn1 as <-. exists (set_files n fs), x. rewrite upd_eq. auto.
  - exists n1, x. rewrite upd_neq by auto. auto.
Qed.
Lemma RootEmpty_wset_files croot w i n fs :
  w_nodes w i = Some n -> RootEmpty croot w -> RootEmpty croot (wset w i (set_files n fs)).
Proof.
  intros Hi (n1 & Hn1 & Hc). unfold RootEmpty, wset; cbn [w_nodes]. destruct (N.eq_dec croot i) as [->|Hne].
  - rewrite Hi in Hn1. injection Hn1 as <-. exists (set_files n fs). rewrite upd_eq. auto.
  - exists n1. rewrite upd_neq by auto. auto.
Qed.

(* AutosarModel::create_file on the model under construction *)
Lemma create_file_fresh n0 nm nf croot c name ver w r w' :
  DInv n0 nm nf w -> RootOf n0 nm croot c w -> RootEmpty croot w ->
  m_create_file T c name ver w = Val (r, w') ->
  DInv n0 nm nf w' /\ DSame n0 nm nf w w' /\ RootOf n0 nm croot c w' /\ RootEmpty croot w' /\
  (forall fid, r = OK fid -> (nf <= N.to_nat fid)%nat /\
     exists fl, nth_opt (w_files w') (N.to_nat fid) = Some fl /\ f_name fl = name /\ f_version fl = ver /\ f_model fl = c).
Proof.
  intros HI HR HE H. unfold m_create_file in H.
  destruct HR as (Hcr & Hc & n & x & Hn & Hpar & Hx & Hroot).
  assert (HR : RootOf n0 nm croot c w) by (split; auto; split; auto; exists n, x; auto).
  apply wbind_inv in H as [(x1 & w1 & E & H) | (e & E & _)].
  2: { apply get_model_inv in E as (? & _ & [=] & _). }
  apply get_model_inv in E as (x1' & Hx1 & [= <-] & ->). rewrite Hx in Hx1. injection Hx1 as <-.
  apply wbind_inv in H as [(wg & w1 & E & H) | (e & E & _)].
  2: { apply wget_inv in E as ([=] & _). }
  apply wget_inv in E as ([= ->] & ->).
  destruct (existsb _ (m_files x)).
  { apply wfail_inv in H as (-> & ->). split; [exact HI|]. split; [apply DSame_refl|]. split; [exact HR|].
    split; [exact HE|]. intros fid [=]. }
  set (fid := N.of_nat (List.length (w_files w))) in *.
  apply wbind_inv in H as [(u & w1 & E & H) | (e & E & _)]; [|discriminate E].
  unfold wput in E. injection E as _ <-.
  apply wbind_inv in H as [(u1 & w1 & E & H) | (e & E & _)].
  2: { apply modify_model_inv in E as (? & _ & [=] & _). }
  apply modify_model_inv in E as (x2 & Hx2 & _ & ->). cbn [w_models] in Hx2. rewrite Hx in Hx2. injection Hx2 as <-.
  apply wbind_inv in H as [(wg & w1 & E & H) | (e & E & _)].
  2: { apply wget_inv in E as ([=] & _). }
  apply wget_inv in E as ([= ->] & ->).
  set (w2 := wmodels _ _) in *.
  assert (Hnodes2 : w_nodes w2 = w_nodes w) by reflexivity.
  assert (Hnext2 : w_next w2 = w_next w) by reflexivity.
  assert (Hfiles2 : w_files w2 = w_files w ++ [mkFile c name ver None]) by reflexivity.
  assert (Hmodels2 : w_models w2 = list_set (w_models w) (N.to_nat c) (set_mfiles x (m_files x ++ [fid]))) by reflexivity.
  destruct HI as (I1 & I2 & I3 & I4 & I5).
  assert (HI : DInv n0 nm nf w) by (repeat split; auto; apply I5).
  assert (HI2 : DInv n0 nm nf w2).
  { apply (DInv_same_nodes n0 nm nf w); auto.
    - rewrite Hmodels2, list_set_length. exact I2.
    - rewrite Hfiles2, app_length. cbn. lia. }
  assert (HS2 : DSame n0 nm nf w w2).
  { split; [|split].
    - intros i _. rewrite Hnodes2. reflexivity.
    - rewrite Hfiles2. apply firstn_app_le. exact I3.
    - rewrite Hmodels2. apply firstn_list_set. exact Hc. }
  assert (HR2 : RootOf n0 nm croot c w2).
  { split; auto. split; auto. exists n, (set_mfiles x (m_files x ++ [fid])). rewrite Hnodes2, Hmodels2.
    repeat split; auto. apply (nth_opt_list_set_eq _ _ _ _ Hx). }
  assert (HE2 : RootEmpty croot w2) by (destruct HE as (n1 & H1 & H2); exists n1; rewrite Hnodes2; auto).
  assert (HF2 : forall fid', OK fid = OK fid' -> (nf <= N.to_nat fid')%nat /\
     exists fl, nth_opt (w_files w2) (N.to_nat fid') = Some fl /\ f_name fl = name /\ f_version fl = ver /\ f_model fl = c).
  { intros fid' [= <-]. unfold fid. rewrite Nnat.Nat2N.id. split; auto.
    exists (mkFile c name ver None). rewrite Hfiles2. split; [apply nth_opt_app_new | auto]. }
  apply wbind_inv in H as [(u2 & w3 & E & H) | (e & E & _)].
  2: { apply wtry_inv in E as (? & _ & [=]). }
  apply wret_inv in H as (-> & ->).
  apply wtry_inv in E as (r0 & E & _).
  rewrite Hroot in E.
  destruct HE2 as (n2 & Hn2 & Hcont2). assert (n2 = n) by (rewrite Hnodes2, Hn in Hn2; congruence). subst n2.
  unfold fuel_of in E.
  destruct (atf_root _ _ _ _ _ _ _ _ Hn2 Hcont2 Hpar E) as [->|(fs & ->)].
  - split; [exact HI2|]. split; [exact HS2|]. split; [exact HR2|]. split; [exists n; auto|]. exact HF2.
  - destruct (DR_wset_files n0 nm nf w2 croot n fs Hn2 Hcr HI2) as (HI3 & HS3).
    split; auto. split; [eapply DSame_trans; eauto|].
    split; [apply RootOf_wset_files; auto|]. split; [apply RootEmpty_wset_files; auto; exists n; auto|].
    exact HF2.
Qed.

End Dup.
