(* Tree/CopyProofsDup.v — C13 proofs, layer 4: AutosarModel::duplicate (Tree/Copy.v).
   The original is untouched (node by node, file by file, model by model; also when duplicate fails, in which case the
   model and file lists are exactly restored), the copy is a NEW model whose root and everything reachable from it was
   allocated by the call (so the reachable sets of original and copy are disjoint: the precondition of independence),
   and the root of the copy carries the attributes and the comment of the original root.  For every table set. *)
From AV Require Import Base.Bytes Base.Outcome Hash.HashModel Tree.Heap Tree.Ops Tree.Script Tree.Copy
  Tree.CopyProofsW Tree.CopyProofsDefs Tree.CopyProofsDeep Tree.CopyProofsCreate Tree.CopyProofsTop
  Tree.CopyProofsFK Tree.Frame Tree.CopyProofsReg.
From Coq Require Import Lia PeanoNat.
Open Scope string_scope.
Open Scope list_scope.
Open Scope N_scope.

(* ------------------------------------------------------------------ prefixes of lists *)
Lemma firstn_app_le {A} (l x : list A) n : (n <= List.length l)%nat -> firstn n (l ++ x) = firstn n l.
Proof.
  intros H. rewrite firstn_app. replace (n - List.length l)%nat with 0%nat by lia. cbn. apply app_nil_r.
Qed.
Lemma firstn_list_set {A} (l : list A) k x n : (n <= k)%nat -> firstn n (list_set l k x) = firstn n l.
Proof.
  revert k n. induction l as [|y l IH]; intros [|k] [|n] H; cbn; auto; try lia. f_equal. apply IH. lia.
Qed.
Lemma nth_opt_app_new {A} (l : list A) x : nth_opt (l ++ [x]) (List.length l) = Some x.
Proof. induction l; cbn; auto. Qed.
Lemma nth_opt_app_old {A} (l x : list A) k y : nth_opt l k = Some y -> nth_opt (l ++ x) k = Some y.
Proof. revert k. induction l as [|z l IH]; intros [|k]; cbn; try discriminate; auto. Qed.

(* ------------------------------------------------------------------ the invariant and the frame of duplicate *)
(* n0 / nm / nf: allocation bound, number of models, number of files when duplicate was called *)
Definition DInv (n0 : N) (nm nf : nat) (w : world) : Prop :=
  n0 <= w_next w /\ (nm <= List.length (w_models w))%nat /\ (nf <= List.length (w_files w))%nat /\
  FreshKids n0 w /\ Closed w.
Definition DSame (n0 : N) (nm nf : nat) (w w' : world) : Prop :=
  (forall i, i < n0 -> w_nodes w' i = w_nodes w i) /\
  firstn nf (w_files w') = firstn nf (w_files w) /\
  firstn nm (w_models w') = firstn nm (w_models w).
Definition DR (n0 : N) (nm nf : nat) (w w' : world) : Prop :=
  DInv n0 nm nf w -> DInv n0 nm nf w' /\ DSame n0 nm nf w w'.

Lemma DSame_refl n0 nm nf w : DSame n0 nm nf w w.
Proof. repeat split; auto. Qed.
Lemma DSame_trans n0 nm nf a b c : DSame n0 nm nf a b -> DSame n0 nm nf b c -> DSame n0 nm nf a c.
Proof.
  intros (A1 & A2 & A3) (B1 & B2 & B3). repeat split; try congruence.
  intros i Hi. rewrite B1 by auto. auto.
Qed.
Lemma DR_refl n0 nm nf w : DR n0 nm nf w w.
Proof. intros H. split; auto. apply DSame_refl. Qed.
Lemma DR_trans n0 nm nf a b c : DR n0 nm nf a b -> DR n0 nm nf b c -> DR n0 nm nf a c.
Proof.
  intros H1 H2 Ha. destruct (H1 Ha) as (Hb & S1). destruct (H2 Hb) as (Hc & S2).
  split; auto. eapply DSame_trans; eauto.
Qed.

(* changing only the file membership of a fresh node *)
Lemma DR_wset_files n0 nm nf w i n fs :
  w_nodes w i = Some n -> n0 <= i -> DR n0 nm nf w (wset w i (set_files n fs)).
Proof.
  intros Hi Hlo (H1 & H2 & H3 & H4 & H5). unfold wset. split; [|repeat split; cbn; auto].
  - repeat split; cbn; auto.
    + intros p m c Hp Hm Hin. cbn in Hm. unfold upd in Hm. destruct (p =? i) eqn:E.
      * apply N.eqb_eq in E. subst p. injection Hm as <-. cbn in Hin. eapply H4; eauto.
      * eapply H4; eauto.
    + apply (proj1 (Closed_upd w i n (set_files n fs) H5 Hi (fun x Hx => proj2 H5 i n x Hi Hx))).
    + apply (proj2 (Closed_upd w i n (set_files n fs) H5 Hi (fun x Hx => proj2 H5 i n x Hi Hx))).
  - intros j Hj. apply upd_neq. lia.
Qed.

Lemma stab_modify_files n0 nm nf i (g : node -> list N) :
  n0 <= i -> stab (DR n0 nm nf) (modify_node i (fun x => set_files x (g x))).
Proof.
  intros Hi w r w' H. apply modify_node_wset in H as (n & Hn & _ & ->). apply DR_wset_files; auto.
Qed.

Section Dup.
Variable T : tables.
Variable tab_el tab_en : nametab.
Variable check_fn : N -> list N -> res bool.
Variable LATEST : N.
Variable root_attrs : list (N * cdata).
(* attributes and comment of the original root element *)
Variable ra : list (N * cdata).
Variable rcm : option (list N).

(* ------------------------------------------------------------------ new_model *)
Lemma new_model_inv w r w' :
  new_model T root_attrs w = Val (r, w') ->
  exists name ty,
    r = OK (N.of_nat (List.length (w_models w))) /\
    w' = mkWorld (upd (w_nodes w) (w_next w)
                      (mkNode (PModel (N.of_nat (List.length (w_models w)))) name ty [] root_attrs [] None))
                 (w_next w + 1) (w_files w) (w_models w ++ [mkModel (w_next w) [] [] []]).
Proof.
  unfold new_model. destruct (et_new T (autosar_element T)) as [ty| |]; destruct (elem T (autosar_element T)) as [ed| |];
    try discriminate.
  intros [= <- <-]. eauto.
Qed.

(* ------------------------------------------------------------------ add_to_file_restricted on a root without children *)
Lemma atf_root fl e f w r w' n c :
  w_nodes w e = Some n -> n_content n = [] -> n_parent n = PModel c ->
  add_to_file_restricted T (S fl) e f w = Val (r, w') ->
  w' = w \/ exists fs, w' = wset w e (set_files n fs).
Proof.
  intros Hn Hcont Hpar H. cbn [add_to_file_restricted] in H.
  apply wbind_inv in H as [(fm & w1 & E & H) | (e0 & E & _)].
  2: { apply wtry_inv in E as (? & _ & [=]). }
  assert (w1 = w) by (eapply (ro_try _ (ro_file_membership e)); eauto). subst w1. clear E.
  destruct (match fm with Some x => x | None => (true, []) end) as [local cur].
  destruct (set_mem f cur). { apply wret_inv in H as (_ & ->). auto. }
  apply wbind_inv in H as [(n1 & w1 & E & H) | (e0 & E & _)].
  2: { apply get_node_inv in E as (? & _ & [=] & _). }
  apply get_node_inv in E as (n1' & Hn1 & [= <-] & ->). rewrite Hn in Hn1. injection Hn1 as <-.
  apply wbind_inv in H as [(sp & w1 & E & H) | (e0 & E & _)].
  2: { apply wl_inv in E as (? & _ & [=] & _). }
  apply wl_inv in E as (sp' & _ & [= <-] & ->).
  rewrite Hcont in H.
  apply wbind_inv in H as [(u & w1 & E & H) | (e0 & E & _)].
  2: { destruct (negb (sp =? 0)); apply wret_inv in E as ([=] & _). }
  assert (w1 = w) by (destruct (negb (sp =? 0)); apply wret_inv in E as (_ & ->); reflexivity). subst w1. clear E.
  apply wbind_inv in H as [(ps & w1 & E & H) | (e0 & E & ->)].
  2: { left. eapply ro_parent_splittable; eauto. }
  assert (w1 = w) by (eapply ro_parent_splittable; eauto). subst w1. clear E.
  apply wbind_inv in H as [(u2 & w1 & E & H) | (e0 & E & _)].
  2: { destruct (ps || local); [apply modify_node_wset in E as (? & _ & [=] & _) | apply wret_inv in E as ([=] & _)]. }
  unfold parent_of in H. rewrite Hpar in H.
  apply wbind_inv in H as [(p & w2 & E2 & H) | (e0 & E2 & _)].
  2: { apply wret_inv in E2 as ([=] & _). }
  apply wret_inv in E2 as ([= ->] & ->). apply wret_inv in H as (_ & ->).
  destruct (ps || local).
  - apply modify_node_wset in E as (n2 & Hn2 & _ & ->). rewrite Hn in Hn2. injection Hn2 as <-. right. eauto.
  - apply wret_inv in E as (_ & ->). auto.
Qed.

(* the root of the model under construction: fresh, no sub-elements yet, registered as root of model c *)
Definition RootOf (n0 : N) (nm : nat) (croot : id) (c : N) (w : world) : Prop :=
  n0 <= croot /\ (nm <= N.to_nat c)%nat /\
  exists n x, w_nodes w croot = Some n /\ n_parent n = PModel c /\
              nth_opt (w_models w) (N.to_nat c) = Some x /\ m_root x = croot /\
              n_attrs n = ra /\ n_comment n = rcm.
Definition RootEmpty (croot : id) (w : world) : Prop :=
  exists n, w_nodes w croot = Some n /\ n_content n = [].

Lemma DInv_same_nodes n0 nm nf w w' :
  DInv n0 nm nf w -> w_nodes w' = w_nodes w -> w_next w' = w_next w ->
  (nm <= List.length (w_models w'))%nat -> (nf <= List.length (w_files w'))%nat -> DInv n0 nm nf w'.
Proof.
  intros (H1 & H2 & H3 & H4 & H5 & H6) En Ex Hm Hf. repeat split; auto.
  - rewrite Ex. exact H1.
  - intros p n c Hp Hn Hin. rewrite En in Hn. eapply H4; eauto.
  - intros i n Hn. rewrite En in Hn. rewrite Ex. eapply H5; eauto.
  - intros p n c Hn Hin. rewrite En in *. eapply H6; eauto.
Qed.

Lemma RootOf_wset_files n0 nm croot c w i n fs :
  w_nodes w i = Some n -> RootOf n0 nm croot c w -> RootOf n0 nm croot c (wset w i (set_files n fs)).
Proof.
  intros Hi (A & B & n1 & x & Hn1 & Hp & Hx & Hr & Ha & Hcm). split; auto. split; auto.
  unfold wset; cbn [w_nodes w_models]. destruct (N.eq_dec croot i) as [->|Hne].
  - rewrite Hi in Hn1. injection Hn1 as <-. exists (set_files n fs), x. rewrite upd_eq. repeat split; auto.
  - exists n1, x. rewrite upd_neq by auto. repeat split; auto.
Qed.
Lemma RootEmpty_wset_files croot w i n fs :
  w_nodes w i = Some n -> RootEmpty croot w -> RootEmpty croot (wset w i (set_files n fs)).
Proof.
  intros Hi (n1 & Hn1 & Hc). unfold RootEmpty, wset; cbn [w_nodes]. destruct (N.eq_dec croot i) as [->|Hne].
  - rewrite Hi in Hn1. injection Hn1 as <-. exists (set_files n fs). rewrite upd_eq. auto.
  - exists n1. rewrite upd_neq by auto. auto.
Qed.

(* AutosarModel::create_file on the model under construction *)
Lemma create_file_fresh n0 nm nf croot c name ver w r w' :
  DInv n0 nm nf w -> RootOf n0 nm croot c w -> RootEmpty croot w ->
  m_create_file T c name ver w = Val (r, w') ->
  DInv n0 nm nf w' /\ DSame n0 nm nf w w' /\ RootOf n0 nm croot c w' /\ RootEmpty croot w' /\
  (forall fid, r = OK fid -> (nf <= N.to_nat fid)%nat /\
     exists fl, nth_opt (w_files w') (N.to_nat fid) = Some fl /\ f_name fl = name /\ f_version fl = ver /\ f_model fl = c).
Proof.
  intros HI HR HE H. unfold m_create_file in H.
  destruct HR as (Hcr & Hc & n & x & Hn & Hpar & Hx & Hroot & Hra & Hrcm).
  assert (HR : RootOf n0 nm croot c w) by (split; auto; split; auto; exists n, x; repeat split; auto).
  apply wbind_inv in H as [(x1 & w1 & E & H) | (e & E & _)].
  2: { apply get_model_inv in E as (? & _ & [=] & _). }
  apply get_model_inv in E as (x1' & Hx1 & [= <-] & ->). rewrite Hx in Hx1. injection Hx1 as <-.
  apply wbind_inv in H as [(wg & w1 & E & H) | (e & E & _)].
  2: { apply wget_inv in E as ([=] & _). }
  apply wget_inv in E as ([= ->] & ->).
  destruct (existsb _ (m_files x)).
  { apply wfail_inv in H as (-> & ->). split; [exact HI|]. split; [apply DSame_refl|]. split; [exact HR|].
    split; [exact HE|]. intros fid [=]. }
  set (fid := N.of_nat (List.length (w_files w))) in *.
  apply wbind_inv in H as [(u & w1 & E & H) | (e & E & _)]; [|discriminate E].
  unfold wput in E. injection E as _ <-.
  apply wbind_inv in H as [(u1 & w1 & E & H) | (e & E & _)].
  2: { apply modify_model_inv in E as (? & _ & [=] & _). }
  apply modify_model_inv in E as (x2 & Hx2 & _ & ->). cbn [w_models] in Hx2. rewrite Hx in Hx2. injection Hx2 as <-.
  apply wbind_inv in H as [(wg & w1 & E & H) | (e & E & _)].
  2: { apply wget_inv in E as ([=] & _). }
  apply wget_inv in E as ([= ->] & ->).
  set (w2 := wmodels _ _) in *.
  assert (Hnodes2 : w_nodes w2 = w_nodes w) by reflexivity.
  assert (Hnext2 : w_next w2 = w_next w) by reflexivity.
  assert (Hfiles2 : w_files w2 = w_files w ++ [mkFile c name ver None]) by reflexivity.
  assert (Hmodels2 : w_models w2 = list_set (w_models w) (N.to_nat c) (set_mfiles x (m_files x ++ [fid]))) by reflexivity.
  destruct HI as (I1 & I2 & I3 & I4 & I5).
  assert (HI : DInv n0 nm nf w) by (repeat split; auto; apply I5).
  assert (HI2 : DInv n0 nm nf w2).
  { apply (DInv_same_nodes n0 nm nf w); auto.
    - rewrite Hmodels2, list_set_length. exact I2.
    - rewrite Hfiles2, app_length. cbn. lia. }
  assert (HS2 : DSame n0 nm nf w w2).
  { split; [|split].
    - intros i _. rewrite Hnodes2. reflexivity.
    - rewrite Hfiles2. apply firstn_app_le. exact I3.
    - rewrite Hmodels2. apply firstn_list_set. exact Hc. }
  assert (HR2 : RootOf n0 nm croot c w2).
  { split; auto. split; auto. exists n, (set_mfiles x (m_files x ++ [fid])). rewrite Hnodes2, Hmodels2.
    repeat split; auto. apply (nth_opt_list_set_eq _ _ _ _ Hx). }
  assert (HE2 : RootEmpty croot w2) by (destruct HE as (n1 & H1 & H2); exists n1; rewrite Hnodes2; auto).
  assert (HF2 : forall fid', OK fid = OK fid' -> (nf <= N.to_nat fid')%nat /\
     exists fl, nth_opt (w_files w2) (N.to_nat fid') = Some fl /\ f_name fl = name /\ f_version fl = ver /\ f_model fl = c).
  { intros fid' [= <-]. unfold fid. rewrite Nnat.Nat2N.id. split; auto.
    exists (mkFile c name ver None). rewrite Hfiles2. split; [apply nth_opt_app_new | auto]. }
  apply wbind_inv in H as [(u2 & w3 & E & H) | (e & E & _)].
  2: { apply wtry_inv in E as (? & _ & [=]). }
  apply wret_inv in H as (-> & ->).
  apply wtry_inv in E as (r0 & E & _).
  rewrite Hroot in E.
  destruct HE2 as (n2 & Hn2 & Hcont2). assert (n2 = n) by (rewrite Hnodes2, Hn in Hn2; congruence). subst n2.
  unfold fuel_of in E.
  destruct (atf_root _ _ _ _ _ _ _ _ Hn2 Hcont2 Hpar E) as [->|(fs & ->)].
  - split; [exact HI2|]. split; [exact HS2|]. split; [exact HR2|]. split; [exists n; auto|]. exact HF2.
  - destruct (DR_wset_files n0 nm nf w2 croot n fs Hn2 Hcr HI2) as (HI3 & HS3).
    split; auto. split; [eapply DSame_trans; eauto|].
    split; [apply RootOf_wset_files; auto|]. split; [apply RootEmpty_wset_files; auto; exists n; auto|].
    exact HF2.
Qed.

Lemma RootOf_same n0 nm croot c w w' :
  w_nodes w' = w_nodes w -> w_models w' = w_models w -> RootOf n0 nm croot c w -> RootOf n0 nm croot c w'.
Proof. intros En Em (A & B & n & x & H1 & H2 & H3 & H4 & H5 & H6). split; auto. split; auto. exists n, x. rewrite En, Em. repeat split; auto. Qed.
Lemma RootEmpty_same croot w w' : w_nodes w' = w_nodes w -> RootEmpty croot w -> RootEmpty croot w'.
Proof. intros En (n & H1 & H2). exists n. rewrite En. auto. Qed.

(* the first loop of duplicate: one new file per file of the original *)
Lemma dup_files_spec n0 nm nf croot c : forall files filemap w r w',
  DInv n0 nm nf w -> RootOf n0 nm croot c w -> RootEmpty croot w ->
  dup_files T c files filemap w = Val (r, w') ->
  DInv n0 nm nf w' /\ DSame n0 nm nf w w' /\ RootOf n0 nm croot c w' /\ RootEmpty croot w'.
Proof.
  induction files as [|f rest IH]; intros filemap w r w' HI HR HE H; cbn [dup_files] in H.
  - apply wret_inv in H as (_ & ->). repeat (split; auto); apply DSame_refl.
  - apply wbind_inv in H as [(fl & w1 & E & H) | (e & E & _)].
    2: { apply get_file_inv in E as (? & _ & [=] & _). }
    apply get_file_inv in E as (fl' & _ & [= <-] & ->).
    apply wbind_inv in H as [(nfid & w1 & E & H) | (e & E & ->)].
    2: { destruct (create_file_fresh _ _ _ _ _ _ _ _ _ _ HI HR HE E) as (A & B & C & D & _). auto. }
    destruct (create_file_fresh _ _ _ _ _ _ _ _ _ _ HI HR HE E) as (HI1 & HS1 & HR1 & HE1 & HF1).
    destruct (HF1 nfid eq_refl) as (Hge & flx & Hflx & _).
    apply wbind_inv in H as [(nfl & w2 & E2 & H) | (e & E2 & _)].
    2: { apply get_file_inv in E2 as (? & _ & [=] & _). }
    apply get_file_inv in E2 as (nfl' & _ & [= <-] & ->).
    apply wbind_inv in H as [(u & w2 & E2 & H) | (e & E2 & _)]; [|discriminate E2].
    unfold set_file in E2. injection E2 as _ <-.
    set (w2 := mkWorld _ _ _ _) in *.
    assert (HI2 : DInv n0 nm nf w2).
    { apply (DInv_same_nodes n0 nm nf w1); auto.
      - apply HI1.
      - unfold w2; cbn. rewrite list_set_length. apply HI1. }
    assert (HS2 : DSame n0 nm nf w1 w2).
    { split; [|split]; auto. unfold w2; cbn. apply firstn_list_set. exact Hge. }
    destruct (IH _ _ _ _ HI2 (RootOf_same _ _ _ _ w1 w2 eq_refl eq_refl HR1) (RootEmpty_same _ w1 w2 eq_refl HE1) H)
      as (A & B & C & D).
    split; auto. split; auto. eapply DSame_trans; [exact HS1|]. eapply DSame_trans; eauto.
Qed.

(* ------------------------------------------------------------------ the second loop: copies below the new root *)
Lemma model_of_root w croot n c :
  w_nodes w croot = Some n -> n_parent n = PModel c -> model_of croot w = Val (OK c, w).
Proof.
  intros Hn Hp. unfold model_of, wbind, wget, fuel_of. cbn [model_walk].
  unfold wbind, get_node. rewrite Hn, Hp. reflexivity.
Qed.

Lemma firstn_IdxOnly m ms ms' nm : IdxOnly m ms ms' -> (nm <= N.to_nat m)%nat -> firstn nm ms' = firstn nm ms.
Proof. intros [->|(x & i & o & _ & ->)] H; auto. apply firstn_list_set. exact H. Qed.

Lemma copy_into_root n0 nm nf croot c other w r w' :
  DInv n0 nm nf w -> RootOf n0 nm croot c w ->
  copy_call T LATEST croot other None w = Val (r, w') ->
  DInv n0 nm nf w' /\ DSame n0 nm nf w w' /\ RootOf n0 nm croot c w'.
Proof.
  intros (I1 & I2 & I3 & I4 & I5) (Hcr & Hc & n & x & Hn & Hpar & Hx & Hroot & Hra & Hrcm) H.
  destruct (copy_source_unchanged T LATEST _ _ _ _ _ _ I5 H) as (Cw' & _ & Hh).
  destruct (Hh n Hn) as (content' & Hn').
  destruct (frame_copy T LATEST _ _ _ _ _ _ I5 H) as (m & (F1 & F2 & F3 & F4) & Hm).
  destruct (copy_call_FK T LATEST n0 _ _ _ _ _ _ I1 I4 H) as (K1 & K2).
  assert (Hidx : firstn nm (w_models w') = firstn nm (w_models w)).
  { destruct Hm as [->|Hm]; auto.
    rewrite (model_of_root _ _ _ _ Hn Hpar) in Hm. injection Hm as <-. eapply firstn_IdxOnly; eauto. }
  split; [|split].
  - repeat split; auto; try lia; try apply Cw'.
    + rewrite (IdxOnly_length _ _ _ F4). exact I2.
    + rewrite F3. exact I3.
  - split; [|split]; auto.
    + intros i Hi. apply F2; lia.
    + rewrite F3. reflexivity.
  - split; auto. split; auto.
    destruct (IdxOnly_nth _ _ _ _ _ F4 Hx) as (y & Hy & Hry & _ & _).
    exists (set_content n content'), y. repeat split; auto. congruence.
Qed.

Lemma dup_children_spec n0 nm nf croot c : forall items w r w',
  DInv n0 nm nf w -> RootOf n0 nm croot c w ->
  dup_children T LATEST croot items w = Val (r, w') ->
  DInv n0 nm nf w' /\ DSame n0 nm nf w w' /\ RootOf n0 nm croot c w'.
Proof.
  induction items as [|[e|d] rest IH]; intros w r w' HI HR H; cbn [dup_children] in H.
  - apply wret_inv in H as (_ & ->). repeat (split; auto); apply DSame_refl.
  - apply wbind_inv in H as [(cc & w1 & E & H) | (e0 & E & ->)].
    + destruct (copy_into_root _ _ _ _ _ _ _ _ _ HI HR E) as (A & B & C).
      destruct (IH _ _ _ A C H) as (A2 & B2 & C2). split; auto. split; auto. eapply DSame_trans; eauto.
    + exact (copy_into_root _ _ _ _ _ _ _ _ _ HI HR E).
  - eauto.
Qed.

(* ------------------------------------------------------------------ the pre-order walk only lists descendants *)
Definition dfs_kids (dfs : id -> W (list id)) : list citem -> W (list id) :=
  fix kids (l : list citem) : W (list id) :=
    match l with
    | [] => wret []
    | CElem c :: r => (do a <- dfs c; do b <- kids r; wret (a ++ b))%W
    | CData _ :: r => kids r
    end.
Lemma dfs_ids_S f i :
  dfs_ids (S f) i = (do n <- get_node i; do rest <- dfs_kids (dfs_ids f) (n_content n); wret (i :: rest))%W.
Proof. reflexivity. Qed.

Lemma dfs_ids_Sub f : forall i w r w', dfs_ids f i w = Val (r, w') -> forall l, r = OK l -> forall x, In x l -> Sub w i x.
Proof.
  induction f as [|f IH]; intros i w r w' H l -> x Hx; [discriminate H|].
  rewrite dfs_ids_S in H.
  apply wbind_inv in H as [(n & w1 & E & H) | (e & E & [=])].
  apply get_node_inv in E as (n' & Hn & [= <-] & ->).
  apply wbind_inv in H as [(rest & w1 & E & H) | (e & E & [=])].
  apply wret_inv in H as ([= ->] & _).
  destruct Hx as [<-|Hx]; [constructor|].
  assert (K : forall items w0 ids w2, dfs_kids (dfs_ids f) items w0 = Val (OK ids, w2) ->
              forall y, In y ids -> exists c, In (CElem c) items /\ Sub w0 c y).
  { clear - IH. induction items as [|[c|d] items IHi]; intros w0 ids w2 H y Hy; cbn [dfs_kids] in H.
    - apply wret_inv in H as ([= ->] & _). destruct Hy.
    - apply wbind_inv in H as [(a & w3 & E & H) | (e & E & [=])].
      assert (w3 = w0) by (eapply ro_dfs_ids; eauto). subst w3.
      apply wbind_inv in H as [(b & w4 & E2 & H) | (e & E2 & [=])].
      apply wret_inv in H as ([= ->] & _).
      apply in_app_or in Hy as [Hy|Hy].
      + exists c. split; [left; reflexivity|]. eapply IH; eauto.
      + destruct (IHi _ _ _ E2 y Hy) as (c' & Hc' & HS). exists c'. split; [right; exact Hc' | exact HS].
    - destruct (IHi _ _ _ H y Hy) as (c' & Hc' & HS). exists c'. split; [right; exact Hc' | exact HS]. }
  destruct (K _ _ _ _ E x Hx) as (c & Hc & HS). eapply Sub_prepend; eauto.
Qed.

(* ------------------------------------------------------------------ the third loop: file membership of the copy *)
Lemma dup_membership_spec n0 nm nf croot c filemap : forall oids cids w r w',
  (forall x, In x cids -> n0 <= x) ->
  DInv n0 nm nf w -> RootOf n0 nm croot c w ->
  dup_membership filemap oids cids w = Val (r, w') ->
  DInv n0 nm nf w' /\ DSame n0 nm nf w w' /\ RootOf n0 nm croot c w'.
Proof.
  induction oids as [|o orest IH]; intros cids w r w' Hfresh HI HR H.
  - cbn in H. apply wret_inv in H as (_ & ->). repeat (split; auto); apply DSame_refl.
  - destruct cids as [|cc crest]; cbn [dup_membership] in H.
    { apply wret_inv in H as (_ & ->). repeat (split; auto); apply DSame_refl. }
    apply wbind_inv in H as [(on & w1 & E & H) | (e & E & _)].
    2: { apply get_node_inv in E as (? & _ & [=] & _). }
    apply get_node_inv in E as (on' & _ & [= <-] & ->).
    apply wbind_inv in H as [(wg & w1 & E & H) | (e & E & _)].
    2: { apply wget_inv in E as ([=] & _). }
    apply wget_inv in E as ([= ->] & ->).
    apply wbind_inv in H as [(u & w1 & E & H) | (e & E & _)].
    2: { apply modify_node_wset in E as (? & _ & [=] & _). }
    apply modify_node_wset in E as (cn & Hcn & _ & ->).
    assert (Hcc : n0 <= cc) by (apply Hfresh; left; reflexivity).
    destruct (DR_wset_files n0 nm nf w cc cn (translate_files w filemap (n_files on)) Hcn Hcc HI) as (HI1 & HS1).
    pose proof (RootOf_wset_files _ _ _ _ _ _ _ (translate_files w filemap (n_files on)) Hcn HR) as HR1.
    destruct (IH crest _ _ _ (fun x Hx => Hfresh x (or_intror Hx)) HI1 HR1 H) as (A & B & C).
    split; auto. split; auto. eapply DSame_trans; eauto.
Qed.

End Dup.

Section DupTop.
Variable T : tables.
Variable tab_el tab_en : nametab.
Variable check_fn : N -> list N -> res bool.
Variable LATEST : N.
Variable root_attrs : list (N * cdata).

(* what duplicate() leaves behind when it succeeds: model c is new, its root is the node allocated first, carries the
   decor of the original root, and everything reachable from it was allocated by this call *)
Definition DupResult (m : N) (w : world) (c : N) (w' : world) : Prop :=
  c = N.of_nat (List.length (w_models w)) /\
  exists x rn xc rc,
    nth_opt (w_models w) (N.to_nat m) = Some x /\ w_nodes w (m_root x) = Some rn /\
    nth_opt (w_models w') (N.to_nat c) = Some xc /\ m_root xc = w_next w /\
    w_nodes w' (w_next w) = Some rc /\ n_parent rc = PModel c /\
    n_attrs rc = n_attrs rn /\ n_comment rc = n_comment rn /\
    FreshKids (w_next w) w' /\ Closed w' /\
    (forall y, Sub w' (w_next w) y -> w_next w <= y).

Lemma Closed_nodes w w' : Closed w -> w_nodes w' = w_nodes w -> w_next w' = w_next w -> Closed w'.
Proof. intros [A B] En Ex. split; intros; rewrite ?En, ?Ex in *; eauto. Qed.

Lemma dup_body_spec m w r w' :
  Closed w ->
  (forall x, nth_opt (w_models w) (N.to_nat m) = Some x -> exists rn, w_nodes w (m_root x) = Some rn) ->
  m_duplicate_body T LATEST root_attrs m w = Val (r, w') ->
  DSame (w_next w) (List.length (w_models w)) (List.length (w_files w)) w w' /\ w_next w <= w_next w' /\
  (List.length (w_models w) <= List.length (w_models w'))%nat /\ (List.length (w_files w) <= List.length (w_files w'))%nat /\
  forall c, r = OK c -> DupResult m w c w'.
Proof.
  intros Cw Hroots H. unfold m_duplicate_body in H.
  set (n0 := w_next w). set (nm := List.length (w_models w)). set (nf := List.length (w_files w)).
  assert (EXIT : forall w1 (r1 : out N), DInv n0 nm nf w1 -> DSame n0 nm nf w w1 -> (forall c, r1 <> OK c) ->
     DSame n0 nm nf w w1 /\ n0 <= w_next w1 /\ (nm <= List.length (w_models w1))%nat /\ (nf <= List.length (w_files w1))%nat /\
     forall c, r1 = OK c -> DupResult m w c w1).
  { intros w1 r1 (A & B & C & _) S Hr. split; [exact S|]. split; [exact A|]. split; [exact B|]. split; [exact C|].
    intros c0 Hc0. exfalso. eapply Hr; eauto. }
  apply wbind_inv in H as [(x & w1 & E & H) | (e & E & _)].
  2: { apply get_model_inv in E as (? & _ & [=] & _). }
  apply get_model_inv in E as (x' & Hx & [= <-] & ->).
  destruct (Hroots x Hx) as (rn & Hrn).
  assert (Hrootlt : m_root x < n0) by (eapply (proj1 Cw); eauto).
  apply wbind_inv in H as [(c & w1 & E & H) | (e & E & _)].
  2: { apply new_model_inv in E as (? & ? & [=] & _). }
  apply new_model_inv in E as (rname & rty & Ec & ->). injection Ec as ->.
  set (c := N.of_nat nm) in *.
  set (rnode := mkNode (PModel c) rname rty [] root_attrs [] None) in *.
  set (w1 := mkWorld _ _ _ _) in *.
  apply wbind_inv in H as [(rn1 & w2 & E & H) | (e & E & _)].
  2: { apply get_node_inv in E as (? & _ & [=] & _). }
  apply get_node_inv in E as (rn1' & Hrn1 & [= <-] & ->).
  assert (rn1 = rn).
  { unfold w1 in Hrn1; cbn in Hrn1. rewrite upd_neq in Hrn1 by (fold n0; lia). congruence. }
  subst rn1. clear Hrn1.
  apply wbind_inv in H as [(cx & w2 & E & H) | (e & E & _)].
  2: { apply get_model_inv in E as (? & _ & [=] & _). }
  apply get_model_inv in E as (cx' & Hcx & [= <-] & ->).
  assert (cx = mkModel n0 [] [] []).
  { unfold w1 in Hcx; cbn [w_models] in Hcx. unfold c in Hcx. rewrite Nnat.Nat2N.id in Hcx.
    unfold nm in Hcx. rewrite nth_opt_app_new in Hcx. injection Hcx as <-. reflexivity. }
  subst cx. cbn [m_root] in H.
  (* the root of the copy gets the decor of the original root *)
  apply wbind_inv in H as [(u & w2 & E & H) | (e & E & _)].
  2: { apply modify_node_wset in E as (? & _ & [=] & _). }
  apply modify_node_wset in E as (rn0 & Hrn0 & _ & ->).
  assert (rn0 = rnode).
  { unfold w1 in Hrn0; cbn [w_nodes] in Hrn0. unfold n0 in Hrn0. rewrite upd_eq in Hrn0. injection Hrn0 as <-. reflexivity. }
  subst rn0.
  set (rnode2 := set_comment (set_attrs rnode (n_attrs rn)) (n_comment rn)) in *.
  set (w2 := wset w1 n0 rnode2) in *.
  assert (Cw1 : Closed w1).
  { apply (Closed_nodes (walloc w rnode)); [|reflexivity|reflexivity].
    apply Closed_alloc; [exact Cw | intros y []]. }
  assert (Cw2 : Closed w2).
  { apply (Closed_upd w1 n0 rnode rnode2 Cw1); [unfold w1; cbn; apply upd_eq | intros y []]. }
  assert (FK2 : FreshKids n0 w2).
  { intros p k y Hp Hk Hin. unfold w2, wset, w1 in Hk; cbn [w_nodes] in Hk.
    destruct (N.eq_dec p n0) as [->|Hne].
    - rewrite upd_eq in Hk. injection Hk as <-. destruct Hin.
    - rewrite upd_neq in Hk by exact Hne. unfold n0 in Hne. rewrite upd_neq in Hk by exact Hne.
      apply (proj1 Cw) in Hk. unfold n0 in Hp. lia. }
  assert (HI2 : DInv n0 nm nf w2).
  { repeat split; try apply Cw2; auto.
    - unfold w2, wset, w1; cbn. lia.
    - unfold w2, wset, w1; cbn. rewrite app_length. cbn. lia. }
  assert (HS2 : DSame n0 nm nf w w2).
  { split; [|split].
    - intros i Hi. unfold w2, wset, w1; cbn. rewrite !upd_neq by lia. reflexivity.
    - reflexivity.
    - unfold w2, wset, w1; cbn. apply firstn_app_le. unfold nm. lia. }
  assert (HR2 : RootOf (n_attrs rn) (n_comment rn) n0 nm n0 c w2).
  { split; [lia|]. split; [unfold c; rewrite Nnat.Nat2N.id; lia|].
    exists rnode2, (mkModel n0 [] [] []). unfold w2, wset; cbn [w_nodes w_models]. rewrite upd_eq.
    repeat split; auto. }
  assert (HE2 : RootEmpty n0 w2).
  { exists rnode2. unfold w2, wset; cbn [w_nodes]. rewrite upd_eq. auto. }
  (* files *)
  apply wbind_inv in H as [(filemap & w3 & E & H) | (e & E & ->)].
  2: { destruct (dup_files_spec T _ _ _ _ _ _ _ _ _ _ _ _ HI2 HR2 HE2 E) as (A & B & _).
       apply EXIT; [exact A | eapply DSame_trans; eauto | intros c0 [=]]. }
  destruct (dup_files_spec T _ _ _ _ _ _ _ _ _ _ _ _ HI2 HR2 HE2 E) as (HI3 & HS3 & HR3 & _). clear E.
  (* copies of the root's sub-elements *)
  apply wbind_inv in H as [(u4 & w4 & E & H) | (e & E & ->)].
  2: { destruct (dup_children_spec T LATEST _ _ _ _ _ _ _ _ _ _ _ HI3 HR3 E) as (A & B & _).
       apply EXIT; [exact A | eapply DSame_trans; [exact HS2|]; eapply DSame_trans; eauto | intros c0 [=]]. }
  destruct (dup_children_spec T LATEST _ _ _ _ _ _ _ _ _ _ _ HI3 HR3 E) as (HI4 & HS4 & HR4). clear E.
  assert (HS04 : DSame n0 nm nf w w4).
  { eapply DSame_trans; [exact HS2|]. eapply DSame_trans; eauto. }
  apply wbind_inv in H as [(wg & w5 & E & H) | (e & E & _)].
  2: { apply wget_inv in E as ([=] & _). }
  apply wget_inv in E as ([= ->] & ->).
  apply wbind_inv in H as [(oids & w5 & E & H) | (e & E & ->)].
  2: { assert (w' = w4) by (eapply ro_dfs_ids; eauto). subst w'. apply EXIT; auto. intros c0 [=]. }
  assert (w5 = w4) by (eapply ro_dfs_ids; eauto). subst w5. clear E.
  apply wbind_inv in H as [(cids & w5 & E & H) | (e & E & ->)].
  2: { assert (w' = w4) by (eapply ro_dfs_ids; eauto). subst w'. apply EXIT; auto. intros c0 [=]. }
  assert (w5 = w4) by (eapply ro_dfs_ids; eauto). subst w5.
  assert (Hcids : forall y, In y cids -> n0 <= y).
  { intros y Hy. eapply FreshKids_Sub; [apply HI4 | apply N.le_refl | eapply dfs_ids_Sub; eauto]. }
  clear E.
  apply wbind_inv in H as [(u6 & w6 & E & H) | (e & E & ->)].
  2: { destruct (dup_membership_spec _ _ _ _ _ _ _ _ _ _ _ _ _ Hcids HI4 HR4 E) as (A & B & _).
       apply EXIT; [exact A | eapply DSame_trans; eauto | intros c0 [=]]. }
  destruct (dup_membership_spec _ _ _ _ _ _ _ _ _ _ _ _ _ Hcids HI4 HR4 E) as (HI6 & HS6 & HR6). clear E.
  apply wret_inv in H as (-> & ->).
  assert (HS06 : DSame n0 nm nf w w6) by (eapply DSame_trans; eauto).
  destruct HI6 as (I1 & I2 & I3 & I4 & I5).
  split; auto. split; auto. split; auto. split; auto.
  intros c0 [= <-]. split; [reflexivity|].
  destruct HR6 as (_ & _ & rc & xc & Hrc & Hpar & Hxc & Hrt & Hat & Hcm).
  exists x, rn, xc, rc. repeat split; auto; try apply I5.
  intros y HS. exact (FreshKids_Sub n0 _ n0 y I4 (N.le_refl _) HS).
Qed.

(* AutosarModel::duplicate: the original is untouched; on failure the model and file lists are exactly what they were *)
Theorem duplicate_spec m w r w' :
  Closed w ->
  (forall x, nth_opt (w_models w) (N.to_nat m) = Some x -> exists rn, w_nodes w (m_root x) = Some rn) ->
  m_duplicate T tab_el tab_en check_fn LATEST root_attrs m w = Val (r, w') ->
  (forall i, i < w_next w -> w_nodes w' i = w_nodes w i) /\ w_next w <= w_next w' /\
  firstn (List.length (w_files w)) (w_files w') = w_files w /\
  firstn (List.length (w_models w)) (w_models w') = w_models w /\
  match r with
  | ER _ => w_files w' = w_files w /\ w_models w' = w_models w
  | OK c => DupResult m w c w'
  end.
Proof.
  intros Cw Hroots H. unfold m_duplicate in H.
  destruct (m_duplicate_body T LATEST root_attrs m w) as [[[c|e] w1]|s|] eqn:E; try discriminate H.
  - injection H as <- <-.
    destruct (dup_body_spec m w _ _ Cw Hroots E) as ((S1 & S2 & S3) & Hn & _ & _ & HR).
    rewrite !firstn_all in *. split; [exact S1|]. split; [exact Hn|]. split; [exact S2|]. split; [exact S3|].
    apply HR. reflexivity.
  - injection H as <- <-.
    destruct (dup_body_spec m w _ _ Cw Hroots E) as ((S1 & S2 & S3) & Hn & _ & _ & _).
    rewrite !firstn_all in *. unfold drop_models_files; cbn.
    rewrite S2, S3, !firstn_all.
    split; [exact S1|]. split; [exact Hn|]. auto.
Qed.

End DupTop.
