(* Tree/LoadProofsWalk.v — the two-pointer walk of merge_element (Load.walk) computes the partition of the two child
   lists by their merge partner, for EVERY order of the two lists:
     keys      an element's merge key is (element name, item name) when it is identifiable, else (element name,
               DEFINITION-REF text); [pmatch] is equality of merge keys, [partner_in l k] the first match of k in l;
     class     [Keyed la lb]: whether an element is identifiable depends only on its element name, no two elements of
               one list have the same merge key, the node ids of each list are distinct (and every key field is
               available: no table lookup panics, find_sub_element(.., u32::MAX) finds the element);
     result    wk_merge  = every a of la that has a partner in lb, with that partner, in the order of la
               wk_a_only = the elements of la without a partner, in the order of la
               wk_b_only = the elements of lb without a partner in la, in the order of lb (with some position)
               and the walk is rejected (InvalidFileMerge) exactly by calc_identifiables_merge: never when the parent
               is splittable, never when every identifiable element of la has its partner in lb.
   [walk_conflict]: if the parent is not splittable, all elements are identifiable and of one kind, and both lists have
   an element without partner (a divergence in both directions), the walk returns InvalidFileMerge. *)
From AV Require Import Base.Bytes Base.Outcome Hash.HashModel Tree.Heap Tree.Ops Tree.Load.
Open Scope string_scope.
Open Scope list_scope.
Open Scope N_scope.

(* ------------------------------------------------------------------ pure keys *)
Record pk := mkPk { pk_id : id; pk_name : N; pk_ident : bool; pk_item : option (list N); pk_defref : option (list N);
                    pk_idx : list N }.

Definition inj (p : pk) : ckey :=
  mkKey (pk_id p) (pk_name p) (Val (pk_ident p)) (Val (pk_item p)) (Val (pk_defref p)) (Val (Some (pk_idx p))).

(* x is what k would be merged with *)
Definition pmatch (k x : pk) : bool :=
  (pk_name x =? pk_name k) &&
  (if pk_ident k then opt_bytes_eqb (pk_item x) (pk_item k) else opt_bytes_eqb (pk_defref x) (pk_defref k)).

Definition partner_in (l : list pk) (k : pk) : option pk := find (pmatch k) l.
Definition has_partner (l : list pk) (k : pk) : bool := match partner_in l k with Some _ => true | None => false end.

Definition merges_of (la lb : list pk) : list (id * id) :=
  flat_map (fun a => match partner_in lb a with Some b => [(pk_id a, pk_id b)] | None => [] end) la.
Definition a_only_of (la lb : list pk) : list id := map pk_id (filter (fun a => negb (has_partner lb a)) la).
Definition b_only_of (la lb : list pk) : list id := map pk_id (filter (fun b => negb (has_partner la b)) lb).

(* no two elements (at different positions) with the same merge key *)
Inductive Uniq : list pk -> Prop :=
| Uniq_nil : Uniq []
| Uniq_cons k l : (forall x, In x l -> pmatch k x = false) -> Uniq l -> Uniq (k :: l).

Record Keyed (la lb : list pk) : Prop := mkKeyed {
  ky_ident : forall x y, In x (la ++ lb) -> In y (la ++ lb) -> pk_name x = pk_name y -> pk_ident x = pk_ident y;
  ky_ua : Uniq la;
  ky_ub : Uniq lb;
  ky_ida : NoDup (map pk_id la);
  ky_idb : NoDup (map pk_id lb)
}.

(* ------------------------------------------------------------------ basic facts *)
Lemma opt_bytes_eqb_sym a b : opt_bytes_eqb a b = opt_bytes_eqb b a.
Proof.
  destruct a as [a|], b as [b|]; cbn; auto.
  destruct (bytes_eqb a b) eqn:E1, (bytes_eqb b a) eqn:E2; auto.
  - apply bytes_eqb_spec in E1. subst. rewrite bytes_eqb_refl in E2. discriminate.
  - apply bytes_eqb_spec in E2. subst. rewrite bytes_eqb_refl in E1. discriminate.
Qed.

Lemma opt_bytes_eqb_trans a b c : opt_bytes_eqb a b = true -> opt_bytes_eqb b c = true -> opt_bytes_eqb a c = true.
Proof.
  destruct a as [a|], b as [b|], c as [c|]; cbn; try discriminate; auto.
  intros H1 H2. apply bytes_eqb_spec in H1, H2. subst. apply bytes_eqb_refl.
Qed.

Lemma pmatch_sym k x : pk_ident k = pk_ident x -> pmatch k x = pmatch x k.
Proof.
  intros Hi. unfold pmatch. rewrite (N.eqb_sym (pk_name x)). rewrite <- Hi.
  destruct (pk_ident k); rewrite opt_bytes_eqb_sym; reflexivity.
Qed.

Lemma pmatch_name k x : pmatch k x = true -> pk_name x = pk_name k.
Proof. unfold pmatch. intros H. apply andb_true_iff in H as [H _]. apply N.eqb_eq in H. exact H. Qed.

Lemma pmatch_trans k x y :
  pk_ident k = pk_ident x -> pmatch k x = true -> pmatch x y = true -> pmatch k y = true.
Proof.
  intros Hi H1 H2. unfold pmatch in *. apply andb_true_iff in H1 as [N1 K1]. apply andb_true_iff in H2 as [N2 K2].
  apply N.eqb_eq in N1, N2. apply andb_true_iff. split; [apply N.eqb_eq; congruence|].
  rewrite <- Hi in K2. destruct (pk_ident k); eapply opt_bytes_eqb_trans; eauto.
Qed.

Lemma find_some_in {A} (p : A -> bool) l x : find p l = Some x -> In x l /\ p x = true.
Proof. apply find_some. Qed.

Lemma partner_in_spec l k x : partner_in l k = Some x -> In x l /\ pmatch k x = true.
Proof. apply find_some. Qed.

Lemma partner_in_none l k x : partner_in l k = None -> In x l -> pmatch k x = false.
Proof. intros H Hi. unfold partner_in in H. eapply find_none in H; eauto. Qed.

(* ------------------------------------------------------------------ the model's searches on pure keys *)
Lemma find_sibling_item_inj name item l :
  find_sibling_item name item (map inj l) =
  Val (option_map pk_id (find (fun x => (pk_name x =? name) && opt_bytes_eqb (pk_item x) item) l)).
Proof.
  induction l as [|x l IH]; cbn [map find_sibling_item find]; [reflexivity|].
  cbn [inj k_name k_item]. destruct (pk_name x =? name); cbn [andb bind].
  - destruct (opt_bytes_eqb (pk_item x) item); [reflexivity|exact IH].
  - exact IH.
Qed.

Lemma find_sibling_defref_inj name dr l :
  find_sibling_defref name dr (map inj l) =
  Val (option_map pk_id (find (fun x => (pk_name x =? name) && opt_bytes_eqb (pk_defref x) dr) l)).
Proof.
  induction l as [|x l IH]; cbn [map find_sibling_defref find]; [reflexivity|].
  cbn [inj k_name k_defref]. destruct (pk_name x =? name); cbn [andb bind].
  - destruct (opt_bytes_eqb (pk_defref x) dr); [reflexivity|exact IH].
  - exact IH.
Qed.

Lemma find_ext {A} (p q : A -> bool) l : (forall x, p x = q x) -> find p l = find q l.
Proof. intros H. induction l as [|x l IH]; cbn; [reflexivity|]. rewrite H, IH. reflexivity. Qed.

Lemma find_merge_partner_inj l k : find_merge_partner (map inj l) (inj k) = Val (option_map pk_id (partner_in l k)).
Proof.
  unfold find_merge_partner, partner_in. cbn [inj k_ident k_item k_defref k_name bind].
  destruct (pk_ident k) eqn:Ei.
  - rewrite find_sibling_item_inj. f_equal. f_equal. apply find_ext. intros x. unfold pmatch. rewrite Ei. reflexivity.
  - rewrite find_sibling_defref_inj. f_equal. f_equal. apply find_ext. intros x. unfold pmatch. rewrite Ei. reflexivity.
Qed.

(* the decision of one iteration, on pure keys *)
Definition decide (la0 lb0 : list pk) (sp : bool) (pos : N) (ka kb : pk) : out action :=
  if pk_name ka =? pk_name kb then
    if pmatch ka kb then OK MergeEqual else
    match partner_in lb0 ka with
    | Some s => OK (MergeUnequal (pk_id s))
    | None => if pk_ident ka then (if sp then OK AOnly else ER InvalidFileMerge) else OK AOnly
    end
  else
    match partner_in lb0 ka with
    | Some s => OK (MergeUnequal (pk_id s))
    | None => match partner_in la0 kb with
              | Some _ => OK AOnly
              | None => OK (match lex_cmp (pk_idx ka) (pk_idx kb) with Lt => AOnly | _ => BOnly pos end)
              end
    end.

Lemma merge_action_inj la0 lb0 sp pos ka kb :
  merge_action (map inj la0) (map inj lb0) sp pos (inj ka) (inj kb) = Val (decide la0 lb0 sp pos ka kb).
Proof.
  unfold merge_action, decide. cbn [inj k_name k_ident k_idx bind].
  destruct (pk_name ka =? pk_name kb) eqn:En.
  - apply N.eqb_eq in En.
    destruct (pk_ident ka) eqn:Ei.
    + unfold calc_identifiables_merge. cbn [inj k_item k_name bind].
      assert (Em : pmatch ka kb = opt_bytes_eqb (pk_item ka) (pk_item kb)).
      { unfold pmatch. rewrite Ei, En, N.eqb_refl. cbn [andb]. apply opt_bytes_eqb_sym. }
      rewrite Em. destruct (opt_bytes_eqb (pk_item ka) (pk_item kb)); [reflexivity|].
      rewrite find_sibling_item_inj. cbn [bind].
      replace (find _ lb0) with (partner_in lb0 ka).
      2:{ unfold partner_in. apply find_ext. intros x. unfold pmatch. rewrite Ei. reflexivity. }
      destruct (partner_in lb0 ka); cbn [option_map]; [reflexivity|]. destruct sp; reflexivity.
    + unfold calc_element_merge. cbn [inj k_defref k_name bind].
      assert (Em : pmatch ka kb = opt_bytes_eqb (pk_defref ka) (pk_defref kb)).
      { unfold pmatch. rewrite Ei, En, N.eqb_refl. cbn [andb]. apply opt_bytes_eqb_sym. }
      rewrite Em. destruct (opt_bytes_eqb (pk_defref ka) (pk_defref kb)); [reflexivity|].
      rewrite find_sibling_defref_inj. cbn [bind].
      replace (find _ lb0) with (partner_in lb0 ka).
      2:{ unfold partner_in. apply find_ext. intros x. unfold pmatch. rewrite Ei. reflexivity. }
      destruct (partner_in lb0 ka); reflexivity.
  - rewrite (find_merge_partner_inj lb0 ka). cbn [bind].
    destruct (partner_in lb0 ka); cbn [option_map]; [reflexivity|].
    rewrite (find_merge_partner_inj la0 kb). cbn [bind].
    destruct (partner_in la0 kb); reflexivity.
Qed.

(* ------------------------------------------------------------------ the walk on pure keys *)
Fixpoint pwalk (fuel : nat) (la0 lb0 : list pk) (sp : bool) (cnt pos : N) (la lb : list pk) (acc : walked)
  {struct fuel} : res (out walked) :=
  match fuel with
  | O => Fuel
  | S f =>
    match la, lb with
    | ka :: la', kb :: lb' =>
      match decide la0 lb0 sp pos ka kb with
      | ER e => Val (ER e)
      | OK MergeEqual =>
        pwalk f la0 lb0 sp cnt (pos + 1) la' lb' (mkWalked (wk_merge acc ++ [(pk_id ka, pk_id kb)]) (wk_a_only acc) (wk_b_only acc))
      | OK (MergeUnequal o) =>
        pwalk f la0 lb0 sp cnt (pos + 1) la' lb (mkWalked (wk_merge acc ++ [(pk_id ka, o)]) (wk_a_only acc) (wk_b_only acc))
      | OK AOnly =>
        pwalk f la0 lb0 sp cnt (pos + 1) la' lb (mkWalked (wk_merge acc) (wk_a_only acc ++ [pk_id ka]) (wk_b_only acc))
      | OK (BOnly p) =>
        pwalk f la0 lb0 sp cnt pos la lb'
              (mkWalked (wk_merge acc) (wk_a_only acc)
                        (if merged_b (wk_merge acc) (pk_id kb) then wk_b_only acc else wk_b_only acc ++ [(pk_id kb, p)]))
      end
    | _, [] => Val (OK (mkWalked (wk_merge acc) (wk_a_only acc ++ map pk_id la) (wk_b_only acc)))
    | [], _ =>
      Val (OK (mkWalked (wk_merge acc) (wk_a_only acc)
                        (wk_b_only acc ++ map (fun kb => (pk_id kb, cnt))
                                              (filter (fun kb => negb (merged_b (wk_merge acc) (pk_id kb))) lb))))
    end
  end.

Lemma walk_inj fuel : forall la0 lb0 sp cnt pos la lb acc,
  walk fuel (map inj la0) (map inj lb0) sp cnt pos (map inj la) (map inj lb) acc = pwalk fuel la0 lb0 sp cnt pos la lb acc.
Proof.
  induction fuel as [|f IH]; intros la0 lb0 sp cnt pos la lb acc; [reflexivity|].
  cbn [walk pwalk]. destruct la as [|ka la']; destruct lb as [|kb lb']; cbn [map].
  - reflexivity.
  - f_equal. f_equal. f_equal. f_equal.
    change (inj kb :: map inj lb') with (map inj (kb :: lb')).
    generalize (kb :: lb'). intros l. induction l as [|x l IHl]; cbn [map filter]; [reflexivity|].
    cbn [inj k_id]. destruct (negb _); cbn [map]; [f_equal|]; exact IHl.
  - f_equal. f_equal. f_equal. rewrite map_map. reflexivity.
  - rewrite merge_action_inj. cbn [bind].
    destruct (decide la0 lb0 sp pos ka kb) as [[| o | | p]|e]; cbn [inj k_id].
    + apply IH.
    + change (inj kb :: map inj lb') with (map inj (kb :: lb')). apply IH.
    + change (inj kb :: map inj lb') with (map inj (kb :: lb')). apply IH.
    + change (inj ka :: map inj la') with (map inj (ka :: la')). apply IH.
    + reflexivity.
Qed.

(* ------------------------------------------------------------------ the partition *)
Lemma pmatch_refl k : pmatch k k = true.
Proof.
  unfold pmatch. rewrite N.eqb_refl. cbn [andb].
  destruct (pk_ident k); [destruct (pk_item k)|destruct (pk_defref k)]; cbn; auto using bytes_eqb_refl.
Qed.

Lemma merges_of_app la1 la2 lb : merges_of (la1 ++ la2) lb = merges_of la1 lb ++ merges_of la2 lb.
Proof. unfold merges_of. apply flat_map_app. Qed.
Lemma a_only_of_app la1 la2 lb : a_only_of (la1 ++ la2) lb = a_only_of la1 lb ++ a_only_of la2 lb.
Proof. unfold a_only_of. rewrite filter_app, map_app. reflexivity. Qed.
Lemma b_only_of_app la lb1 lb2 : b_only_of la (lb1 ++ lb2) = b_only_of la lb1 ++ b_only_of la lb2.
Proof. unfold b_only_of. rewrite filter_app, map_app. reflexivity. Qed.

Section Partition.
Variables la0 lb0 : list pk.
Hypothesis K : Keyed la0 lb0.

Let all := la0 ++ lb0.

Lemma pm_sym x y : In x all -> In y all -> pmatch x y = pmatch y x.
Proof.
  intros Hx Hy. destruct (N.eq_dec (pk_name x) (pk_name y)) as [E|E].
  - apply pmatch_sym. eapply ky_ident; eauto.
  - unfold pmatch. assert (E1 : (pk_name y =? pk_name x) = false) by (apply N.eqb_neq; congruence).
    assert (E2 : (pk_name x =? pk_name y) = false) by (apply N.eqb_neq; congruence).
    rewrite E1, E2. reflexivity.
Qed.

Lemma pm_trans x y z : In x all -> In y all -> pmatch x y = true -> pmatch y z = true -> pmatch x z = true.
Proof.
  intros Hx Hy H1 H2. apply (pmatch_trans x y z); [|exact H1|exact H2].
  apply (ky_ident _ _ K); [exact Hx|exact Hy|]. symmetry. apply pmatch_name. exact H1.
Qed.

Lemma uniq_eq l : Uniq l -> incl l all -> forall x y, In x l -> In y l -> pmatch x y = true -> x = y.
Proof.
  induction 1 as [|k l Hk Hu IH]; intros Hin x y Hx Hy Hm; [destruct Hx|].
  assert (Hl : incl l all) by (intros z Hz; apply Hin; right; exact Hz).
  destruct Hx as [<-|Hx]; destruct Hy as [<-|Hy]; auto.
  - rewrite Hk in Hm by exact Hy. discriminate.
  - rewrite pm_sym in Hm; [|apply Hin; right; exact Hx|apply Hin; left; reflexivity].
    rewrite Hk in Hm by exact Hx. discriminate.
Qed.

Lemma uniq_app_false p l : Uniq (p ++ l) -> forall x y, In x p -> In y l -> pmatch x y = false.
Proof.
  induction p as [|k p IH]; intros Hu x y Hx Hy; [destruct Hx|].
  cbn [app] in Hu. inversion Hu as [|k' l' Hk Hu' E]; subst.
  destruct Hx as [<-|Hx].
  - apply Hk. apply in_or_app. right. exact Hy.
  - eapply IH; eauto.
Qed.

Lemma in_a x : In x la0 -> In x all. Proof. intros H. apply in_or_app. left. exact H. Qed.
Lemma in_b x : In x lb0 -> In x all. Proof. intros H. apply in_or_app. right. exact H. Qed.

(* the partner is unique *)
Lemma partner_b_unique a b : In a la0 -> In b lb0 -> pmatch a b = true -> partner_in lb0 a = Some b.
Proof.
  intros Ha Hb Hm. destruct (partner_in lb0 a) as [b'|] eqn:E.
  - apply partner_in_spec in E as [Hb' Hm']. f_equal.
    eapply (uniq_eq lb0 (ky_ub _ _ K)); eauto.
    + intros z Hz. apply in_b. exact Hz.
    + eapply pm_trans; [apply in_b; exact Hb'|apply in_a; exact Ha| |exact Hm].
      rewrite pm_sym; [exact Hm'|apply in_b; exact Hb'|apply in_a; exact Ha].
  - eapply partner_in_none in E; eauto. congruence.
Qed.

Lemma id_eq_b x y : In x lb0 -> In y lb0 -> pk_id x = pk_id y -> x = y.
Proof.
  intros Hx Hy E. pose proof (ky_idb _ _ K) as Hn. clear K.
  induction lb0 as [|z l IH]; [destruct Hx|].
  cbn [map] in Hn. inversion Hn as [|? ? Hnot Hn']; subst.
  destruct Hx as [<-|Hx]; destruct Hy as [<-|Hy]; auto.
  - exfalso. apply Hnot. rewrite E. apply in_map. exact Hy.
  - exfalso. apply Hnot. rewrite <- E. apply in_map. exact Hx.
Qed.

(* a b is the second component of a pair of merges_of pa lb0 iff an element of pa is its partner *)
Lemma merged_b_spec pa b :
  incl pa la0 -> In b lb0 ->
  merged_b (merges_of pa lb0) (pk_id b) = existsb (fun a => pmatch b a) pa.
Proof.
  intros Hpa Hb. induction pa as [|a pa IH]; [reflexivity|].
  assert (Ha : In a la0) by (apply Hpa; left; reflexivity).
  assert (Hpa' : incl pa la0) by (intros z Hz; apply Hpa; right; exact Hz).
  change (a :: pa) with ([a] ++ pa). rewrite merges_of_app. unfold merged_b in *. rewrite !existsb_app.
  f_equal; [|apply (IH Hpa')]. cbn [existsb]. rewrite orb_false_r. unfold merges_of. cbn [flat_map]. rewrite app_nil_r.
  destruct (partner_in lb0 a) as [b'|] eqn:E; cbn [existsb snd].
  - rewrite orb_false_r. pose proof (partner_in_spec _ _ _ E) as [Hb' Hm'].
    destruct (pk_id b' =? pk_id b) eqn:Ei.
    + apply N.eqb_eq in Ei. apply id_eq_b in Ei; auto. subst b'.
      rewrite pm_sym; [symmetry; exact Hm'|apply in_b; exact Hb|apply in_a; exact Ha].
    + symmetry. destruct (pmatch b a) eqn:Em; [|reflexivity]. exfalso.
      assert (Hab : pmatch a b = true) by (rewrite pm_sym; [exact Em|apply in_a; exact Ha|apply in_b; exact Hb]).
      pose proof (partner_b_unique a b Ha Hb Hab) as E2.
      rewrite E in E2. injection E2 as ->. rewrite N.eqb_refl in Ei. discriminate.
  - symmetry. destruct (pmatch b a) eqn:Em; [|reflexivity]. exfalso.
    assert (Hab : pmatch a b = true) by (rewrite pm_sym; [exact Em|apply in_a; exact Ha|apply in_b; exact Hb]).
    eapply partner_in_none in E; eauto. congruence.
Qed.

Lemma partner_a_unique a b : In a la0 -> In b lb0 -> pmatch b a = true -> partner_in la0 b = Some a.
Proof.
  intros Ha Hb Hm. destruct (partner_in la0 b) as [a'|] eqn:E.
  - apply partner_in_spec in E as [Ha' Hm']. f_equal.
    eapply (uniq_eq la0 (ky_ua _ _ K)); eauto.
    + intros z Hz. apply in_a. exact Hz.
    + eapply pm_trans; [apply in_a; exact Ha'|apply in_b; exact Hb| |exact Hm].
      rewrite pm_sym; [exact Hm'|apply in_a; exact Ha'|apply in_b; exact Hb].
  - eapply partner_in_none in E; eauto. congruence.
Qed.

(* no conflict can be reported: the parent is splittable, or every identifiable element of la0 has its partner *)
Definition NoConflict (sp : bool) : Prop :=
  sp = true \/ forall a, In a la0 -> pk_ident a = true -> has_partner lb0 a = true.

(* the state of the loop: pa / pb have been consumed *)
Record Inv (pa la pb lb : list pk) (acc : walked) : Prop := mkInv {
  iv_a : la0 = pa ++ la;
  iv_b : lb0 = pb ++ lb;
  iv_merge : wk_merge acc = merges_of pa lb0;
  iv_a_only : wk_a_only acc = a_only_of pa lb0;
  iv_b_only : map fst (wk_b_only acc) = b_only_of la0 pb;
  iv_passed : forall b, In b pb -> has_partner la0 b = true -> exists a, In a pa /\ pmatch b a = true
}.

Lemma has_partner_true l k : has_partner l k = true <-> exists x, In x l /\ pmatch k x = true.
Proof.
  unfold has_partner. destruct (partner_in l k) as [x|] eqn:E.
  - apply partner_in_spec in E. split; eauto.
  - split; [discriminate|]. intros (x & Hx & Hm). rewrite (partner_in_none _ _ _ E Hx) in Hm. discriminate.
Qed.

Lemma has_partner_false l k : has_partner l k = false <-> partner_in l k = None.
Proof. unfold has_partner. destruct (partner_in l k); split; congruence. Qed.

Theorem pwalk_partition sp cnt : NoConflict sp ->
  forall fuel pa la pb lb acc pos,
    Inv pa la pb lb acc -> (List.length la + List.length lb < fuel)%nat ->
    exists wk, pwalk fuel la0 lb0 sp cnt pos la lb acc = Val (OK wk) /\
               wk_merge wk = merges_of la0 lb0 /\ wk_a_only wk = a_only_of la0 lb0 /\
               map fst (wk_b_only wk) = b_only_of la0 lb0.
Proof.
  intros NC. induction fuel as [|f IH]; intros pa la pb lb acc pos I Hf; [lia|].
  destruct I as [Ea Eb Im Ia Ib Ip].
  cbn [pwalk]. destruct lb as [|kb lb']; [|destruct la as [|ka la']].
  2:{ (* la exhausted: the rest of lb that was not merged is b-only *)
    rewrite app_nil_r in Ea. subst pa. remember (kb :: lb') as lb.
    eexists. split; [reflexivity|]. cbn [wk_merge wk_a_only wk_b_only].
    split; [exact Im|]. split; [exact Ia|].
    transitivity (b_only_of la0 (pb ++ lb)); [|rewrite <- Eb; reflexivity].
    rewrite map_app, Ib, b_only_of_app. f_equal.
    assert (Hl : incl lb lb0) by (rewrite Eb; intros z Hz; apply in_or_app; right; exact Hz).
    assert (HF : forall l, incl l lb0 ->
              map fst (map (fun kb0 : pk => (pk_id kb0, cnt))
                           (filter (fun kb0 : pk => negb (merged_b (wk_merge acc) (pk_id kb0))) l)) = b_only_of la0 l).
    { intros l. induction l as [|b l IHl]; intros Hl0; [reflexivity|].
      cbn [filter]. assert (Hb : In b lb0) by (apply Hl0; left; reflexivity).
      assert (Hl' : incl l lb0) by (intros z Hz; apply Hl0; right; exact Hz).
      rewrite Im, (merged_b_spec la0 b (incl_refl _) Hb).
      replace (existsb (fun a => pmatch b a) la0) with (has_partner la0 b).
      2:{ destruct (has_partner la0 b) eqn:E.
          - apply has_partner_true in E as (x & Hx & Hm). symmetry. apply existsb_exists. eauto.
          - apply has_partner_false in E. symmetry. apply not_true_is_false. intros H.
            apply existsb_exists in H as (x & Hx & Hm). rewrite (partner_in_none _ _ _ E Hx) in Hm. discriminate. }
      unfold b_only_of. cbn [filter].
      destruct (negb (has_partner la0 b)); cbn [map fst]; [f_equal|]; rewrite <- Im; apply IHl; exact Hl'. }
    apply HF. exact Hl. }
  - (* lb exhausted: the rest of la has no partner *)
    rewrite app_nil_r in Eb. subst pb.
    assert (Hnone : forall a, In a la -> partner_in lb0 a = None).
    { intros a Ha. destruct (partner_in lb0 a) as [b|] eqn:E; [|reflexivity]. exfalso.
      apply partner_in_spec in E as [Hb Hm].
      assert (Ha0 : In a la0) by (rewrite Ea; apply in_or_app; right; exact Ha).
      assert (Hba : pmatch b a = true) by (rewrite pm_sym; [exact Hm|apply in_b; exact Hb|apply in_a; exact Ha0]).
      destruct (Ip b Hb) as (a' & Ha' & Hm'). { apply has_partner_true. eauto. }
      assert (Hx : pmatch a' a = false).
      { eapply (uniq_app_false pa la); eauto. rewrite <- Ea. apply (ky_ua _ _ K). }
      assert (Ha0' : In a' la0) by (rewrite Ea; apply in_or_app; left; exact Ha').
      rewrite (pm_trans a' b a) in Hx; [discriminate|apply in_a; exact Ha0'|apply in_b; exact Hb| |exact Hba].
      rewrite pm_sym; [exact Hm'|apply in_a; exact Ha0'|apply in_b; exact Hb]. }
    eexists. split; [destruct la; reflexivity|]. cbn [wk_merge wk_a_only wk_b_only].
    rewrite Ea at 1 2. rewrite merges_of_app, a_only_of_app, Im, Ia.
    split; [|split; [|exact Ib]].
    + replace (merges_of la lb0) with (@nil (id * id)); [rewrite app_nil_r; reflexivity|].
      symmetry. unfold merges_of. generalize Hnone. generalize la. intros l Hl.
      induction l as [|a l IHl]; [reflexivity|]. cbn [flat_map]. rewrite (Hl a) by (left; reflexivity).
      apply IHl. intros z Hz. apply Hl. right. exact Hz.
    + f_equal. unfold a_only_of. generalize Hnone. generalize la. intros l Hl.
      induction l as [|a l IHl]; [reflexivity|]. cbn [filter map].
      assert (E : has_partner lb0 a = false) by (apply has_partner_false; apply Hl; left; reflexivity).
      rewrite E. cbn [negb map]. f_equal. apply IHl. intros z Hz. apply Hl. right. exact Hz.
  - (* one iteration *)
    assert (Hka : In ka la0) by (rewrite Ea; apply in_or_app; right; left; reflexivity).
    assert (Hkb : In kb lb0) by (rewrite Eb; apply in_or_app; right; left; reflexivity).
    assert (Ea' : la0 = (pa ++ [ka]) ++ la') by (rewrite <- app_assoc; exact Ea).
    assert (Eb' : lb0 = (pb ++ [kb]) ++ lb') by (rewrite <- app_assoc; exact Eb).
    cbn [List.length] in Hf.
    (* the three ways to advance *)
    assert (StepMerge : forall b, partner_in lb0 ka = Some b ->
              Inv (pa ++ [ka]) la' pb (kb :: lb')
                  (mkWalked (wk_merge acc ++ [(pk_id ka, pk_id b)]) (wk_a_only acc) (wk_b_only acc))).
    { intros b E. constructor; cbn [wk_merge wk_a_only wk_b_only]; auto.
      - rewrite merges_of_app, Im. f_equal. unfold merges_of. cbn [flat_map]. rewrite E. reflexivity.
      - rewrite a_only_of_app, Ia.
        replace (a_only_of [ka] lb0) with (@nil id); [rewrite app_nil_r; reflexivity|].
        unfold a_only_of, has_partner. cbn [filter]. rewrite E. reflexivity.
      - intros b0 Hb0 Hp. destruct (Ip b0 Hb0 Hp) as (a & Ha & Hm). exists a. split; [apply in_or_app; left; exact Ha|exact Hm]. }
    assert (StepAOnly : partner_in lb0 ka = None ->
              Inv (pa ++ [ka]) la' pb (kb :: lb')
                  (mkWalked (wk_merge acc) (wk_a_only acc ++ [pk_id ka]) (wk_b_only acc))).
    { intros E. constructor; cbn [wk_merge wk_a_only wk_b_only]; auto.
      - rewrite merges_of_app, Im.
        replace (merges_of [ka] lb0) with (@nil (id * id)); [rewrite app_nil_r; reflexivity|].
        unfold merges_of. cbn [flat_map]. rewrite E. reflexivity.
      - rewrite a_only_of_app, Ia. f_equal. unfold a_only_of, has_partner. cbn [filter]. rewrite E. reflexivity.
      - intros b0 Hb0 Hp. destruct (Ip b0 Hb0 Hp) as (a & Ha & Hm). exists a. split; [apply in_or_app; left; exact Ha|exact Hm]. }
    unfold decide.
    destruct (pk_name ka =? pk_name kb) eqn:En.
    + destruct (pmatch ka kb) eqn:Em.
      * (* MergeEqual *)
        pose proof (partner_b_unique ka kb Hka Hkb Em) as E.
        apply (IH (pa ++ [ka]) la' (pb ++ [kb]) lb'); [|lia].
        destruct (StepMerge kb E) as [_ _ Im' Ia' _ _].
        constructor; cbn [wk_merge wk_a_only wk_b_only]; auto.
        -- rewrite b_only_of_app, Ib.
           assert (Hp : has_partner la0 kb = true).
           { apply has_partner_true. exists ka. split; [exact Hka|].
             rewrite pm_sym; [exact Em|apply in_b; exact Hkb|apply in_a; exact Hka]. }
           replace (b_only_of la0 [kb]) with (@nil id); [rewrite app_nil_r; reflexivity|].
           unfold b_only_of. cbn [filter]. rewrite Hp. reflexivity.
        -- intros b0 Hb0 Hp. apply in_app_or in Hb0 as [Hb0|[<-|[]]].
           ++ destruct (Ip b0 Hb0 Hp) as (a & Ha & Hm). exists a. split; [apply in_or_app; left; exact Ha|exact Hm].
           ++ exists ka. split; [apply in_or_app; right; left; reflexivity|].
              rewrite pm_sym; [exact Em|apply in_b; exact Hkb|apply in_a; exact Hka].
      * destruct (partner_in lb0 ka) as [s|] eqn:E.
        -- apply (IH (pa ++ [ka]) la' pb (kb :: lb')); [|cbn [List.length]; lia].
           apply (StepMerge s eq_refl).
        -- destruct (pk_ident ka) eqn:Ei.
           ++ destruct sp.
              ** apply (IH (pa ++ [ka]) la' pb (kb :: lb')); [|cbn [List.length]; lia]. apply StepAOnly. reflexivity.
              ** exfalso. destruct NC as [NC|NC]; [discriminate|].
                 specialize (NC ka Hka Ei). apply has_partner_false in E. congruence.
           ++ apply (IH (pa ++ [ka]) la' pb (kb :: lb')); [|cbn [List.length]; lia]. apply StepAOnly. reflexivity.
    + destruct (partner_in lb0 ka) as [s|] eqn:E.
      * apply (IH (pa ++ [ka]) la' pb (kb :: lb')); [|cbn [List.length]; lia].
        apply (StepMerge s eq_refl).
      * destruct (partner_in la0 kb) as [a|] eqn:E2.
        -- apply (IH (pa ++ [ka]) la' pb (kb :: lb')); [|cbn [List.length]; lia]. apply StepAOnly. reflexivity.
        -- destruct (lex_cmp (pk_idx ka) (pk_idx kb)).
           ++ (* BOnly *)
              apply (IH pa (ka :: la') (pb ++ [kb]) lb'); [|cbn [List.length]; lia].
              assert (Hnm : merged_b (wk_merge acc) (pk_id kb) = false).
              { rewrite Im, (merged_b_spec pa kb); [| |exact Hkb].
                - apply not_true_is_false. intros H. apply existsb_exists in H as (x & Hx & Hm).
                  eapply partner_in_none in E2; [rewrite E2 in Hm; discriminate|].
                  rewrite Ea. apply in_or_app. left. exact Hx.
                - intros z Hz. rewrite Ea. apply in_or_app. left. exact Hz. }
              rewrite Hnm. constructor; cbn [wk_merge wk_a_only wk_b_only]; auto.
              ** rewrite map_app, Ib, b_only_of_app. f_equal. unfold b_only_of. cbn [filter].
                 assert (Hp : has_partner la0 kb = false) by (apply has_partner_false; exact E2).
                 rewrite Hp. reflexivity.
              ** intros b0 Hb0 Hp. apply in_app_or in Hb0 as [Hb0|[<-|[]]]; [apply Ip; assumption|].
                 apply has_partner_false in E2. congruence.
           ++ apply (IH (pa ++ [ka]) la' pb (kb :: lb')); [|cbn [List.length]; lia]. apply StepAOnly. reflexivity.
           ++ apply (IH pa (ka :: la') (pb ++ [kb]) lb'); [|cbn [List.length]; lia].
              assert (Hnm : merged_b (wk_merge acc) (pk_id kb) = false).
              { rewrite Im, (merged_b_spec pa kb); [| |exact Hkb].
                - apply not_true_is_false. intros H. apply existsb_exists in H as (x & Hx & Hm).
                  eapply partner_in_none in E2; [rewrite E2 in Hm; discriminate|].
                  rewrite Ea. apply in_or_app. left. exact Hx.
                - intros z Hz. rewrite Ea. apply in_or_app. left. exact Hz. }
              rewrite Hnm. constructor; cbn [wk_merge wk_a_only wk_b_only]; auto.
              ** rewrite map_app, Ib, b_only_of_app. f_equal. unfold b_only_of. cbn [filter].
                 assert (Hp : has_partner la0 kb = false) by (apply has_partner_false; exact E2).
                 rewrite Hp. reflexivity.
              ** intros b0 Hb0 Hp. apply in_app_or in Hb0 as [Hb0|[<-|[]]]; [apply Ip; assumption|].
                 apply has_partner_false in E2. congruence.
Qed.

End Partition.

(* ------------------------------------------------------------------ the statements about Load.walk *)
Theorem walk_partition la0 lb0 sp cnt :
  Keyed la0 lb0 -> NoConflict la0 lb0 sp ->
  exists wk,
    walk (S (List.length la0 + List.length lb0)) (map inj la0) (map inj lb0) sp cnt 0 (map inj la0) (map inj lb0)
         (mkWalked [] [] []) = Val (OK wk) /\
    wk_merge wk = merges_of la0 lb0 /\ wk_a_only wk = a_only_of la0 lb0 /\ map fst (wk_b_only wk) = b_only_of la0 lb0.
Proof.
  intros K NC. rewrite walk_inj.
  apply (pwalk_partition la0 lb0 K sp cnt NC _ [] la0 [] lb0); [|lia].
  constructor; cbn; auto. intros b [].
Qed.

(* a divergence in both directions among identifiable elements of one kind below a parent that is not splittable *)
Theorem walk_conflict la0 lb0 cnt name :
  Keyed la0 lb0 ->
  (forall x, In x (la0 ++ lb0) -> pk_name x = name /\ pk_ident x = true) ->
  (exists a, In a la0 /\ has_partner lb0 a = false) ->
  (exists b, In b lb0 /\ has_partner la0 b = false) ->
  walk (S (List.length la0 + List.length lb0)) (map inj la0) (map inj lb0) false cnt 0 (map inj la0) (map inj lb0)
       (mkWalked [] [] []) = Val (ER InvalidFileMerge).
Proof.
  intros K Hk (a0 & Ha0 & Pa0) (b0 & Hb0 & Pb0). rewrite walk_inj.
  assert (G : forall fuel la lb acc pos,
             incl la la0 -> incl lb lb0 -> In a0 la -> In b0 lb -> (List.length la + List.length lb < fuel)%nat ->
             pwalk fuel la0 lb0 false cnt pos la lb acc = Val (ER InvalidFileMerge)).
  { induction fuel as [|f IH]; intros la lb acc pos Hla Hlb Ia Ib Hf; [lia|].
    destruct la as [|ka la']; [destruct Ia|]. destruct lb as [|kb lb']; [destruct Ib|].
    cbn [pwalk]. unfold decide.
    assert (Hka : In ka la0) by (apply Hla; left; reflexivity).
    assert (Hkb : In kb lb0) by (apply Hlb; left; reflexivity).
    destruct (Hk ka) as [Na Ida]; [apply in_or_app; left; exact Hka|].
    destruct (Hk kb) as [Nb Idb]; [apply in_or_app; right; exact Hkb|].
    rewrite Na, Nb, N.eqb_refl, Ida.
    assert (Hla' : incl la' la0) by (intros z Hz; apply Hla; right; exact Hz).
    assert (Hlb' : incl lb' lb0) by (intros z Hz; apply Hlb; right; exact Hz).
    cbn [List.length] in Hf.
    destruct (pmatch ka kb) eqn:Em.
    - (* partners: neither is one of the two witnesses *)
      apply IH; auto; try lia.
      + destruct Ia as [<-|Ia]; [|exact Ia]. exfalso.
        apply has_partner_false in Pa0. rewrite (partner_in_none _ _ _ Pa0 Hkb) in Em. discriminate.
      + destruct Ib as [<-|Ib]; [|exact Ib]. exfalso.
        apply has_partner_false in Pb0.
        rewrite (pm_sym la0 lb0 K) in Em; [|apply in_or_app; left; exact Hka|apply in_or_app; right; exact Hkb].
        rewrite (partner_in_none _ _ _ Pb0 Hka) in Em. discriminate.
    - destruct (partner_in lb0 ka) as [s|] eqn:E; [|reflexivity].
      apply IH; auto; try (cbn [List.length]; lia).
      destruct Ia as [<-|Ia]; [|exact Ia]. exfalso. apply has_partner_false in Pa0. congruence. }
  apply G; auto using incl_refl; lia.
Qed.

(* ------------------------------------------------------------------ lifted to merge_element: a conflict is reported
   before anything is modified at this level *)
Section Lift.
Variable T : tables.
Variable LATEST name_definition_ref : N.

Lemma merge_element_conflict f w pa pb files nf na nb la0 lb0 name :
  w_nodes w pa = Some na -> w_nodes w pb = Some nb ->
  keys_of T name_definition_ref w (n_type na) (n_content na) = Val (map inj la0) ->
  keys_of T name_definition_ref w (n_type na) (n_content nb) = Val (map inj lb0) ->
  splittable_in T (n_type na)
    (N.min (files_min_version LATEST w files)
           (match nth_opt (w_files w) (N.to_nat nf) with Some x => f_version x | None => LATEST end)) = Val false ->
  Keyed la0 lb0 ->
  (forall x, In x (la0 ++ lb0) -> pk_name x = name /\ pk_ident x = true) ->
  (exists a, In a la0 /\ has_partner lb0 a = false) ->
  (exists b, In b lb0 /\ has_partner la0 b = false) ->
  merge_element T LATEST name_definition_ref (S f) pa files pb nf w = Val (ER InvalidFileMerge, w).
Proof.
  intros Ha Hb Ka Kb Hs K Hk Ea Eb.
  cbn [merge_element]. unfold wbind at 1. cbn [wget].
  unfold wbind at 1. unfold get_node at 1. rewrite Ha.
  unfold wbind at 1. unfold get_node at 1. rewrite Hb.
  unfold wbind at 1. unfold wl, wlift. rewrite Ka.
  unfold wbind at 1. rewrite Kb.
  unfold wbind at 1. rewrite Hs.
  unfold wbind at 1. rewrite !map_length.
  rewrite (walk_conflict la0 lb0 _ name K Hk Ea Eb). reflexivity.
Qed.

End Lift.
