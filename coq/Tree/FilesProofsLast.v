(* Tree/FilesProofsLast.v — C10 proofs: AutosarModel::remove_file of the LAST file of a model.
   Every sub-element of the root is removed through remove_sub_element, the root's set is reset, the index maps are
   cleared: the model is empty again and the invariant holds trivially.  This needs every removal to succeed, which the
   model can only refuse with ShortNameRemovalForbidden when the root's type is a named type: excluded (root_named). *)
From Coq Require Import PeanoNat Arith Lia.
From AV Require Import Base.Bytes Base.Outcome Hash.HashModel Tree.Heap Tree.Ops Tree.Script Tree.Serialize
  Tree.Inv Tree.InvProofsBase Tree.InvProofsCore Tree.InvProofsTree Tree.InvProofsPrim Tree.InvProofsNav
  Tree.InvProofsRemove Tree.InvProofsFiles
  Tree.Files Tree.FilesProofsBase Tree.FilesProofsProj Tree.FilesProofsFrame Tree.FilesProofsOps
  Tree.FilesProofsSet Tree.FilesProofsHole Tree.FilesProofsAdd Tree.FilesProofsStrip Tree.FilesProofsRemove.
Open Scope string_scope.
Open Scope list_scope.
Open Scope N_scope.

Section Last.
Variable T : tables.

Lemma index_of_citem_some l c : In c (elems l) -> exists k, index_of (citem_is c) l = Some k.
Proof.
  intros H. destruct (index_of (citem_is c) l) as [k|] eqn:E; eauto.
  exfalso. eapply index_of_citem_none; eauto.
Qed.

(* removing a child of a model root whose type is not a named type always succeeds *)
Lemma remove_child_ok pi d w r w' pn k :
  Core w -> w_nodes w pi = Some pn -> n_parent pn = PModel k -> is_named T (n_type pn) = Val false -> In d (kids pn) ->
  e_remove_sub_element T pi d w = Val (r, w') ->
  exists pn', w_nodes w' pi = Some pn' /\ n_parent pn' = n_parent pn /\ n_type pn' = n_type pn /\
              forall c, In c (kids pn') <-> In c (kids pn) /\ c <> d.
Proof.
  intros C Hpn Hpp Hnamed Hd H.
  assert (lists w pi d) as Hl by (exists pn; auto).
  destruct (c_up _ C _ _ Hl) as (dn & Hdn & Hdp).
  assert (d <> pi) as Hne by (eapply not_own_parent; eauto; exists dn; auto).
  unfold e_remove_sub_element in H. assert ((pi =? d) = false) as E by (apply N.eqb_neq; congruence). rewrite E in H.
  assert (model_of pi w = Val (OK k, w)) as Hmo.
  { unfold model_of, wbind, wget, fuel_of. cbn [model_walk]. unfold wbind, get_node. rewrite Hpn, Hpp. reflexivity. }
  apply wbind_inv in H as [(m & w1 & H1 & H) | (e0 & H1 & _)]; [|congruence].
  rewrite Hmo in H1. injection H1 as <- <-.
  unfold raw_remove_sub_element in H.
  apply wbind_inv in H as [(ns & w1 & H1 & H) | (e0 & H1 & _)]; [|apply get_node_inv in H1 as (? & _ & [=] & _)].
  apply get_node_inv in H1 as (ns' & Hns & [= <-] & ->). assert (ns = pn) by congruence. subst ns.
  assert (path_unchecked T pn w = Val (OK (join_path []), w)) as Hpu.
  { unfold path_unchecked, item_name, wbind, wl, wlift, wget, fuel_of. rewrite Hnamed. cbn. rewrite Hpp. reflexivity. }
  apply wbind_inv in H as [(path & w1 & H1 & H) | (e0 & H1 & _)]; [|congruence].
  rewrite Hpu in H1. injection H1 as <- <-.
  destruct (index_of_citem_some _ _ Hd) as (pos & Hidx). unfold kids in Hd. rewrite Hidx in H.
  apply wbind_inv in H as [(named & w1 & H1 & H) | (e0 & H1 & _)]; [|apply wl_inv in H1 as (? & _ & [=] & _)].
  apply wl_inv in H1 as (named' & Hn' & [= <-] & ->). assert (named = false) by congruence. subst named.
  apply wbind_inv in H as [(sn & w1 & H1 & H) | (e0 & H1 & _)]; [|apply get_node_inv in H1 as (? & _ & [=] & _)].
  apply get_node_inv in H1 as (sn' & Hsn & [= <-] & ->). cbn [andb] in H.
  apply wbind_inv in H as [(w0 & w1 & H1 & H) | (e0 & H1 & _)]; [|apply wget_inv in H1 as ([=] & _)].
  apply wget_inv in H1 as ([= ->] & ->).
  assert (allocated w d) as Hda by (exists sn; auto).
  set (f := N.to_nat (w_next w)) in *.
  pose proof (enough_top _ _ C Hda) as He. fold f in He.
  apply wbind_inv in H as [(u & w1 & H1 & H) | (e0 & H1 & _)].
  2:{ destruct (remove_internal_spec T w C f d k (join_path []) Hda He w _ _ (fun x _ => eq_refl) H1) as ([=] & _). }
  destruct (remove_internal_spec T w C f d k (join_path []) Hda He w _ _ (fun x _ => eq_refl) H1) as (_ & _ & _ & _ & Fr).
  apply modify_node_wset in H as (nq & Hnq & _ & ->).
  assert (~ In pi (subl f w d)) as Hps by (apply subl_not_parent; auto).
  rewrite (Fr pi Hps) in Hnq. assert (nq = pn) by congruence. subst nq.
  exists (set_content pn (remove_at (n_content pn) pos)). rewrite nodes_wset_eq.
  split; [reflexivity|]. split; [reflexivity|]. split; [reflexivity|].
  intros c0. unfold kids. cbn [n_content set_content].
  apply (elems_remove_elem (n_content pn) d pos (index_of_citem _ _ _ Hidx) (c_nodup _ C _ _ Hpn)).
Qed.

Definition rm_kids_loop (root : id) : list citem -> W unit :=
  fix each (l : list citem) : W unit :=
    match l with
    | [] => wret tt
    | CElem c :: rest => wbind (wtry (e_remove_sub_element T root c)) (fun _ => each rest)
    | CData _ :: rest => each rest
    end.

Lemma rm_kids_spec root k : forall l w r w' rn,
  TreeInv w -> w_nodes w root = Some rn -> n_parent rn = PModel k -> is_named T (n_type rn) = Val false ->
  NoDup (elems l) -> (forall c, In c (elems l) -> In c (kids rn)) ->
  rm_kids_loop root l w = Val (r, w') ->
  TreeInv w' /\ Frame w w' /\
  exists rn', w_nodes w' root = Some rn' /\ n_parent rn' = PModel k /\ n_type rn' = n_type rn /\
              forall c, In c (kids rn') -> In c (kids rn) /\ ~ In c (elems l).
Proof.
  induction l as [|[c|d] l IH]; intros w r w' rn TI Hrn Hp Hnm Hnd Hin H; cbn [rm_kids_loop] in H.
  - apply wret_inv in H as (_ & ->). split; auto. split; [apply Frame_refl|]. exists rn. repeat split; auto.
  - pose proof TI as (C & _). rewrite elems_cons_elem in Hnd, Hin. inversion Hnd as [|? ? Hnc Hnd']; subst.
    apply wbind_inv in H as [(u & w1 & H1 & H) | (e0 & H1 & _)]; [|apply wtry_inv in H1 as (? & _ & [=])].
    assert (TreeInv w1) as TI1 by (apply (TreeInv_Pres _ _ _ _ (Pres_try _ (Pres_e_remove T root c)) H1 TI)).
    destruct (ff_try _ (ff_e_remove_sub_element T root c) _ _ _ (core_fresh _ C) H1) as (F1 & _).
    apply wtry_inv in H1 as (r0 & H1 & _).
    destruct (remove_child_ok root c w r0 w1 rn k C Hrn Hp Hnm (Hin c (or_introl eq_refl)) H1) as (rn1 & Hrn1 & Pp1 & Ty1 & Kk1).
    destruct (IH w1 r w' rn1 TI1 Hrn1) as (TI2 & F2 & rn2 & Hrn2 & Pp2 & Ty2 & Kk2); auto; try congruence.
    { intros c' Hc'. apply Kk1. split; [apply Hin; right; auto|]. intros ->. contradiction. }
    split; auto. split; [eapply Frame_trans; eauto|]. exists rn2. repeat split; auto; try congruence.
    + apply Kk1. apply Kk2. exact H0.
    + intros [<-|Hc']; [apply Kk2 in H0 as (Hk & _); apply Kk1 in Hk; tauto | apply Kk2 in H0; tauto].
  - rewrite elems_cons_data in Hnd, Hin. destruct (IH w r w' rn TI Hrn Hp Hnm Hnd Hin H) as (TI2 & F2 & rn2 & R).
    split; auto. split; auto. exists rn2. rewrite elems_cons_data. exact R.
Qed.

Lemma reach_only_root w r : (forall n, w_nodes w r = Some n -> kids n = []) -> forall i, Reach w r i -> i = r.
Proof.
  intros Hk i H. induction H as [_|p c Hp IH (pn & Hpn & Hc)]; auto. subst p.
  rewrite (Hk _ Hpn) in Hc. destruct Hc.
Qed.

Theorem remove_file_last_inv m f w r w' :
  TreeInv w -> FilesInv T w -> last_file w (OpRemoveFile m f) = true -> root_named T w (OpRemoveFile m f) = false ->
  m_remove_file T m f w = Val (r, w') -> FilesInv T w'.
Proof.
  intros TI FI HL HN H. pose proof TI as (C & _ & RO). unfold m_remove_file in H.
  apply wbind_inv in H as [(x & w0 & H1 & H) | (e0 & H1 & _)]; [|apply get_model_inv in H1 as (? & _ & [=] & _)].
  apply get_model_inv in H1 as (x' & Hx & [= <-] & ->).
  unfold last_file, model_b in HL. rewrite Hx in HL.
  destruct (index_of (N.eqb f) (m_files x)) as [pos|] eqn:Hpos; [|discriminate].
  apply wbind_inv in H as [(u & w1 & H1 & H) | (e0 & H1 & _)]; [|discriminate].
  apply set_model_inv in H1 as (_ & ->). rewrite HL in H.
  set (x1 := set_mfiles x (swap_remove_at (m_files x) pos)) in *.
  assert (m_files x1 = []) as Hx1f by (unfold x1; cbn; apply is_empty_nil; exact HL).
  set (w1 := wmodels w (list_set (w_models w) (N.to_nat m) x1)) in *.
  assert (In x (w_models w)) as Hxin by (eapply nth_opt_In; eauto).
  destruct (root_node _ _ C Hxin) as (rn & k & Hrn & Hrp).
  assert (is_named T (n_type rn) = Val false) as Hnm.
  { unfold root_named, model_b in HN. rewrite Hx, Hrn in HN. destruct (is_named T (n_type rn)) as [[|]| |]; congruence. }
  assert (forall j, w_nodes w1 j = w_nodes w j) as Hn1 by reflexivity.
  assert (same_tree w w1) as ST.
  { repeat split; auto. unfold roots, w1. cbn. apply list_set_map. intros y Hy. rewrite <- nth_opt_error in Hy.
    assert (y = x) by congruence. subst. reflexivity. }
  assert (TreeInv w1) as TI1 by (eapply TreeInv_same_tree; eauto). pose proof TI1 as (C1 & _).
  (* the loop over the root's children *)
  apply wbind_inv in H as [(r0 & w2 & H2 & H) | (e0 & H2 & _)]; [|apply get_node_inv in H2 as (? & _ & [=] & _)].
  apply get_node_inv in H2 as (r0' & Hr0 & [= <-] & ->). rewrite Hn1 in Hr0. assert (r0 = rn) by congruence. subst r0.
  apply wbind_inv in H as [(u2 & w2 & H2 & H) | (e0 & H2 & _)].
  2:{ exfalso. assert (forall l w0 e1 w3, rm_kids_loop (m_root x) l w0 = Val (ER e1, w3) -> False) as NE.
      { induction l as [|[c|d] l IHl]; intros w0 e1 w3 Hk; cbn [rm_kids_loop] in Hk; [discriminate| |eauto].
        apply wbind_inv in Hk as [(? & ? & _ & Hk) | (? & Hk & _)]; [eauto|apply wtry_inv in Hk as (? & _ & [=])]. }
      eapply NE. exact H2. }
  assert (w_nodes w1 (m_root x) = Some rn) as Hrn1 by (rewrite Hn1; exact Hrn).
  destruct (rm_kids_spec (m_root x) k (n_content rn) w1 (OK u2) w2 rn TI1 Hrn1 Hrp Hnm (c_nodup _ C _ _ Hrn) (fun c Hc => Hc) H2)
    as (TI2 & F2 & rn2 & Hrn2 & Pp2 & Ty2 & Kk2).
  assert (kids rn2 = []) as Hk2.
  { destruct (kids rn2) as [|c l] eqn:E; auto. exfalso. destruct (Kk2 c) as (Hc & Hnc); [left; auto|]. apply Hnc. exact Hc. }
  pose proof TI2 as (C2 & _ & RO2).
  (* set_file_membership root [] *)
  apply wbind_inv in H as [(u3 & w3 & H3 & H) | (e0 & H3 & _)].
  2:{ exfalso. unfold set_file_membership in H3.
      apply wbind_inv in H3 as [(n3 & w4 & H4 & H3) | (? & H4 & _)]; [|apply get_node_inv in H4 as (? & _ & [=] & _)].
      apply get_node_inv in H4 as (? & _ & [= <-] & ->).
      apply wbind_inv in H3 as [(p & w4 & H4 & H3) | (? & H4 & _)]; [|apply wtry_inv in H4 as (? & _ & [=])].
      assert (w4 = w2) as -> by (refine ((_ : ro (wtry (parent_of n3))) _ _ _ H4); ro_tac).
      apply wbind_inv in H3 as [(ps & w4 & H5 & H3) | (? & H5 & _)].
      - cbn [is_empty orb] in H3. apply modify_node_wset in H3 as (? & _ & [=] & _).
      - destruct p as [[pi|]|]; try discriminate.
        apply wbind_inv in H5 as [(? & ? & _ & H5) | (? & H5 & _)]; [|apply get_node_inv in H5 as (? & _ & [=] & _)].
        apply wbind_inv in H5 as [(? & ? & _ & H5) | (? & H5 & _)]; [discriminate|apply wl_inv in H5 as (? & _ & [=] & _)]. }
  assert (exists n3, w_nodes w3 (m_root x) = Some (set_files n3 []) /\ kids n3 = [] /\ n_parent n3 = PModel k /\
                     (forall j, j <> m_root x -> w_nodes w3 j = w_nodes w2 j) /\ w_models w3 = w_models w2 /\ w_next w3 = w_next w2)
    as (n3 & Hn3 & Hk3 & Hp3 & Ho3 & Hm3 & Hx3).
  { unfold set_file_membership in H3.
    apply wbind_inv in H3 as [(n3 & w4 & H4 & H3) | (? & H4 & [=])].
    apply get_node_inv in H4 as (n3' & Hn3 & [= <-] & ->). assert (n3 = rn2) by congruence. subst n3.
    apply wbind_inv in H3 as [(p & w4 & H4 & H3) | (? & H4 & [=])].
    assert (w4 = w2) as -> by (refine ((_ : ro (wtry (parent_of rn2))) _ _ _ H4); ro_tac).
    apply wbind_inv in H3 as [(ps & w4 & H5 & H3) | (? & H5 & [=])].
    assert (w4 = w2) as ->.
    { destruct p as [[pi|]|]; [|apply wret_inv in H5 as (_ & ->); auto|apply wret_inv in H5 as (_ & ->); auto].
      refine ((_ : ro (wbind (get_node pi) (fun pn => wbind (wl (splittable T (n_type pn))) (fun s => wret (negb (s =? 0)))))) _ _ _ H5). ro_tac. }
    cbn [is_empty orb] in H3. apply modify_node_wset in H3 as (n4 & Hn4 & _ & ->). assert (n4 = rn2) by congruence. subst n4.
    exists rn2. rewrite nodes_wset_eq. repeat split; auto. intros j Hj. apply nodes_wset_neq. exact Hj. }
  (* clearing the index maps *)
  apply modify_model_inv in H as (xm & Hxm & _ & ->).
  set (xc := set_origins (set_idents xm []) []) in *.
  rewrite Hm3 in Hxm.
  (* the model at position m of w2 *)
  assert (m_root xm = m_root x /\ m_files xm = []) as (Hxmr & Hxmf).
  { pose proof (RO2 _ _ _ Hrn2 Pp2) as Hr. unfold roots in Hr. rewrite nth_error_map in Hr.
    assert (k = m) as ->.
    { pose proof (RO _ _ _ Hrn Hrp) as Hq. unfold roots in Hq. rewrite nth_error_map in Hq. rewrite nth_opt_error in Hx.
      destruct (nth_error (w_models w) (N.to_nat k)) as [y|] eqn:Hy; [|discriminate]. cbn in Hq. injection Hq as Hq.
      assert (y = x) by (apply (same_root_same_model w y x C); [eapply nth_error_In; eauto | exact Hxin | exact Hq]). subst y.
      destruct (Nat.eq_dec (N.to_nat k) (N.to_nat m)) as [E|E]; [apply Nnat.N2Nat.inj; auto|].
      exfalso. eapply (diff_pos_diff_root w _ _ x x C Hy Hx E). reflexivity. }
    rewrite nth_opt_error in Hxm. rewrite Hxm in Hr. cbn in Hr. injection Hr as Hr. split; auto.
    assert (In xm (w_models w2)) as Hxm2 by (eapply nth_error_In; eauto).
    destruct (fr_models _ _ F2 _ Hxm2) as [(y1 & Hy1 & Hv)|(Hf & _)]; auto.
    injection Hv as Hvr Hvf. rewrite <- Hvf.
    assert (In x1 (w_models w1)) as Hx1in by (unfold w1; cbn; eapply list_set_in; eauto).
    assert (y1 = x1) by (apply (same_root_same_model w1 y1 x1 C1 Hy1 Hx1in); cbn; congruence). subst y1. exact Hx1f. }
  set (w' := wmodels w3 (list_set (w_models w3) (N.to_nat m) xc)).
  assert (forall j, w_nodes w' j = w_nodes w3 j) as Hn' by reflexivity.
  intros y Hy. unfold w' in Hy. cbn in Hy. rewrite Hm3 in Hy. apply in_list_set_pos in Hy as [->|(j & Hj & Hy)].
  - (* the emptied model *)
    assert (forall i, Reach w' (m_root xc) i -> i = m_root x) as Only.
    { intros i Hi. cbn in Hi. rewrite Hxmr in Hi. apply (reach_only_root w' (m_root x)); auto.
      intros n Hn. rewrite Hn', Hn3 in Hn. injection Hn as <-. exact Hk3. }
    constructor.
    + intros i n Hr Hn. rewrite (Only i Hr) in Hn. rewrite Hn', Hn3 in Hn. injection Hn as <-. cbn. intros g [].
    + intros i n p Hr Hn Hne. exfalso. rewrite (Only i Hr) in Hn. rewrite Hn', Hn3 in Hn. injection Hn as <-. apply Hne. reflexivity.
    + intros i n p pn Hr Hn Hne. exfalso. rewrite (Only i Hr) in Hn. rewrite Hn', Hn3 in Hn. injection Hn as <-. apply Hne. reflexivity.
    + intros Hne. exfalso. apply Hne. cbn. exact Hxmf.
  - (* another model: untouched *)
    assert (In y (w_models w2)) as Hy2 by (eapply nth_error_In; eauto).
    rewrite nth_opt_error in Hxm.
    assert (m_root y <> m_root x) as Hne by (rewrite <- Hxmr; apply (diff_pos_diff_root w2 j (N.to_nat m) y xm C2 Hy Hxm Hj)).
    assert (FilesInvM T w2 y) as FI2.
    { destruct (fr_models _ _ F2 _ Hy2) as [(y1 & Hy1 & Hv)|(Hf & Hnew)].
      - apply (frame_transfer_model T w1 w2 y1 y TI1 C2 F2 Hy1 Hy2 Hv).
        injection Hv as Hvr Hvf. unfold w1 in Hy1. cbn in Hy1. apply in_list_set_pos in Hy1 as [->|(j1 & Hj1 & Hy1)].
        + exfalso. apply Hne. rewrite <- Hvr. reflexivity.
        + apply (inv_more_files T w w1 y1 y1); auto; try apply incl_refl. apply FI. eapply nth_error_In; eauto.
      - apply (frame_transfer_new T w1 w2 y TI1 C2 F2 Hf Hnew). }
    assert (same_tree w2 w') as ST2.
    { repeat split.
      - cbn. exact Hx3.
      - unfold roots, w'. cbn. rewrite Hm3. apply list_set_map. intros y0 Hy0. assert (y0 = xm) by congruence. subst. reflexivity.
      - intros i. unfold skel. rewrite Hn'. destruct (N.eq_dec i (m_root x)) as [->|Hi].
        + rewrite Hn3, Hrn2. change (kids (set_files n3 [])) with (kids n3). change (n_parent (set_files n3 [])) with (n_parent n3).
          rewrite Hk3, Hk2, Hp3, Pp2. reflexivity.
        + rewrite Ho3; auto. }
    apply (inv_same_nodes T w2 w' y C2 Hy2 ST2); auto.
    intros i Hi. rewrite Hn'. apply Ho3. intros ->. apply Hne.
    assert (In xm (w_models w2)) as Hxm2 by (eapply nth_error_In; eauto).
    rewrite <- Hxmr. apply (reach_one_root w2 y xm (m_root x) C2 Hy2 Hxm2 Hi). rewrite Hxmr. constructor. exists rn2; auto.
Qed.

End Last.
