(* Tree/NoPanicProofsMoveX.v — C12, layer 9: move_element_here / _at BETWEEN two models (move_element_full) never panic
   or run out of fuel; with Tree/NoPanicProofsMove.v this covers every move.
   Read-only prefix: two paths, the pre-order of the moved subtree, its named paths and its reference texts (the text of a
   reference element is a string or an enum item — [RefNoFloat]: a reference element holds no Float, which is the node
   invariant RX of Tree/IndexProofsNodeInv.v).  Then: unlink (the source parent is not the destination: the two elements
   are in different models), the source model's maps shrink, re-parent, make_unique_item_name in the destination model
   (whose identifiables map the source loops did not touch), the two registration loops, the insertion. *)
From Coq Require Import Lia.
From AV Require Import Base.Bytes Base.Outcome Hash.HashModel Spec.SpecOps Xml.TablesOk Tree.Heap Tree.Ops Tree.Script Tree.Inv.
From AV Require Import Tree.NoPanic Tree.NoPanicProofsBase Tree.NoPanicProofsOps1 Tree.NoPanicProofsClosed Tree.NoPanicProofsOps2.
From AV Require Import Tree.NoPanicProofsOps3 Tree.NoPanicProofsOps5 Tree.NoPanicProofsDepth Tree.NoPanicProofsDec Tree.NoPanicProofsCopy.
From AV Require Import Tree.NoPanicProofsCopy2 Tree.NoPanicProofsMove.
Open Scope string_scope.
Open Scope list_scope.
Open Scope N_scope.

Section MoveX.
Variable T : tables.
Variable tab_el tab_en : nametab.
Variable check_fn : N -> list N -> res bool.
Variable LATEST : N.
Variable root_attrs : list (N * cdata).
Hypothesis OK12 : tables_ok12 T = true.
Hypothesis CHECK : forall fn s, exists b, check_fn fn s = Val b.
Collection Env := T tab_el tab_en check_fn LATEST root_attrs OK12 CHECK.
Set Default Proof Using "Env".

Notation ENV f := (f T tab_el tab_en check_fn LATEST root_attrs OK12 CHECK) (only parsing).
Notation TOK := (ok12_tables T OK12) (only parsing).
Notation node_ok := (node_ok T tab_el tab_en).
Notation Closed := (Closed T tab_el tab_en).
Notation PanicFree := (PanicFree T tab_el tab_en).
Notation mj := (mj T tab_el tab_en).

(* a reference element holds no Float (so `character_data().to_string()` of a reference never formats a float) *)
Definition RefNoFloat (w : world) : Prop :=
  forall i n b, w_nodes w i = Some n -> is_ref T (n_type n) = Val true -> character_data T n <> Val (Some (DFloat b)).

Lemma ref_texts_ok w : Closed w -> RefNoFloat w -> forall ids, (forall i, In i ids -> i < w_next w) ->
  rd (ref_texts T tab_en ids) w (fun r => forall p, In p r -> snd p < w_next w).
Proof.
  intros C RNF. induction ids as [|i rest IH]; intros LI; cbn [ref_texts].
  - apply rd_ret. intros p [].
  - destruct (ENV get_node_ok w i C (LI i (or_introl eq_refl))) as (n & EG & EN & NO).
    eapply (rd_bind _ _ _ (fun a => a = n)); [exists (OK n); split; [exact EG|]; intros a [= <-]; reflexivity|]. intros n' ->.
    pose proof NO as (ET & _ & _ & CD & _).
    destruct (is_ref_ok T TOK _ ET) as (isr & EI).
    eapply rd_bind; [apply (rd_wl _ isr w (fun a => a = isr) EI); reflexivity|]. intros isr' ->.
    eapply rd_bind; [apply IH; intros i0 H0; apply LI; right; exact H0|]. intros r HR.
    destruct isr; [|apply rd_ret; exact HR].
    destruct (ENV character_data_ok w n NO) as (cd & ECD).
    eapply rd_bind; [apply (rd_wl _ cd w (fun a => a = cd) ECD); reflexivity|]. intros cd' ->.
    destruct cd as [d|]; [|apply rd_ret; exact HR].
    assert (DOK : cdata_ok tab_en d).
    { apply CD. unfold character_data in ECD. destruct (n_content n) as [|[c|d0] [|? ?]]; try discriminate ECD.
      destruct (content_mode T (n_type n)) as [md| |]; try discriminate ECD. cbn in ECD.
      destruct ((md =? MCharacters) || (md =? MMixed)); [|discriminate ECD]. injection ECD as ->. left. reflexivity. }
    assert (NF : forall b, d <> DFloat b). { intros b ->. exact (RNF i n b EN EI ECD). }
    destruct (ENV cdata_to_string_ok d DOK NF) as (s & ES).
    eapply rd_bind; [apply (rd_wl _ s w (fun a => a = s) ES); reflexivity|]. intros s' ->.
    apply rd_ret. intros p [<-|IN]; [cbn; apply LI; left; reflexivity|apply HR; exact IN].
Qed.

(* Element::model does not depend on the fuel once it returns *)
Lemma model_walk_mono w : forall f i r, model_walk f i w = Val (OK r, w) -> model_walk (S f) i w = Val (OK r, w).
Proof.
  induction f as [|f IH]; intros i r H; [discriminate|].
  cbn [model_walk] in H. change (model_walk (S (S f)) i) with
    (wbind (get_node i) (fun n => match n_parent n with PElem p => model_walk (S f) p | PModel m => wret m | PNone => wfail ItemDeleted end)).
  unfold wbind in *. destruct (get_node i w) as [[[n|e] w1]|s|] eqn:EG; try discriminate.
  unfold get_node in EG. destruct (w_nodes w i) as [n0|]; [|discriminate]. injection EG as E1 E2. subst n w1.
  destruct (n_parent n0) as [|m|p]; try exact H. apply IH. exact H.
Qed.

Lemma model_of_child w mv mn self a b : w_nodes w mv = Some mn -> n_parent mn = PElem self ->
  model_of mv w = Val (OK a, w) -> model_of self w = Val (OK b, w) -> a = b.
Proof.
  intros EM EP HA HB. unfold model_of, wbind, wget in *. unfold fuel_of in *.
  cbn [model_walk] in HA. unfold wbind in HA. rewrite (get_node_val _ _ _ EM) in HA. rewrite EP in HA.
  apply model_walk_mono in HA. rewrite HA in HB. congruence.
Qed.

(* model-only steps: what they keep *)
Definition sj (m : N) (w : world) : out unit -> world -> Prop := fun _ w' =>
  Closed w' /\ w_nodes w' = w_nodes w /\ w_next w' = w_next w /\ List.length (w_models w') = List.length (w_models w) /\
  nth_opt (w_models w') (N.to_nat m) = nth_opt (w_models w) (N.to_nat m).

Lemma nth_opt_list_set_other {A} (l : list A) : forall k j x, j <> k -> nth_opt (list_set l k x) j = nth_opt l j.
Proof.
  induction l as [|y l IH]; intros k j x NE; [destruct k; reflexivity|].
  destruct k, j; cbn; try reflexivity; [congruence|]. apply IH. congruence.
Qed.

Lemma sj_modify_model m w ms f : Closed w -> ms < N.of_nat (List.length (w_models w)) -> ms <> m ->
  (forall x, model_ok w x -> model_ok w (f x)) -> runsQ (modify_model ms f) w (sj m w).
Proof.
  intros C L NE F. destruct (ENV get_model_ok w ms C L) as (x & _ & EX & MO).
  exists (OK tt), (wmodel w ms (f x)). split; [apply modify_model_val; exact EX|].
  split; [apply Closed_wmodel; auto|]. split; [reflexivity|]. split; [reflexivity|].
  split; [apply InvProofsBase.list_set_length|]. cbn [wmodel w_models]. apply nth_opt_list_set_other. lia.
Qed.

Lemma sj_trans m a b c r1 r2 : sj m a r1 b -> sj m b r2 c -> sj m a r2 c.
Proof. intros (C1 & E1 & N1 & L1 & M1) (C2 & E2 & N2 & L2 & M2). split; [exact C2|]. repeat split; congruence. Qed.
Lemma sj_refl m w : Closed w -> sj m w (OK tt) w.
Proof. intros C. split; [exact C|]. repeat split; reflexivity. Qed.

(* ---------- ElementRaw::move_element_full ---------- *)
Lemma np_move_full w self mv pos m m_src version n :
  Closed w -> UpWF w -> HBall w -> SizeOk w -> RefNoFloat w -> w_nodes w self = Some n -> mv < w_next w -> self <> mv ->
  (forall mn, w_nodes w mv = Some mn -> n_parent mn <> PElem self) ->
  m < N.of_nat (List.length (w_models w)) -> m_src < N.of_nat (List.length (w_models w)) -> m <> m_src ->
  pos <= N.of_nat (List.length (n_content n)) ->
  runs (move_element_full T tab_en check_fn self mv pos m m_src version) w.
Proof.
  intros C U HB SZ RNF EN Lmv NEQ NPAR Lm Lms MNE LE. unfold move_element_full.
  assert (L : self < w_next w) by (apply (cl_alloc _ _ _ _ C); congruence).
  pose proof (cl_node _ _ _ _ C _ _ EN) as NO.
  eapply runs_bind; [apply get_node_val; exact EN|]. intros ? [= <-].
  destruct (ENV get_node_ok w mv C Lmv) as (mn & EGM & EMN & NOM).
  eapply runs_bind; [exact EGM|]. intros ? [= <-].
  eapply rd_bind_runs; [apply (ENV path_unchecked_ok w mn C U NOM)|]. intros src_prefix _.
  eapply rd_bind_runs; [apply (ENV path_unchecked_ok w n C U NO)|]. intros dest_prefix _.
  pose proof NOM as (_ & _ & _ & _ & POM).
  unfold parent_of. destruct (n_parent mn) as [|pm|src_parent] eqn:EPM.
  - eapply runs_bind; [reflexivity|]. intros ? [=].
  - eapply runs_bind; [reflexivity|]. intros ? [= <-]. apply runs_fail.
  - eapply runs_bind; [reflexivity|]. intros ? [= <-].
    assert (SNE : src_parent <> self). { intros ->. eapply NPAR; eauto. }
    eapply runs_bind; [apply wget_val|]. intros ? [= <-].
    eapply rd_bind_runs; [apply (dfs_ids_runs T tab_el tab_en w C (fuel_of w) mv Lmv (HB mv Lmv))|]. intros ids IDS.
    eapply rd_bind_runs; [apply (ENV named_paths_ok w C U ids IDS)|]. intros original _.
    eapply rd_bind_runs; [apply (ref_texts_ok w C RNF ids IDS)|]. intros orig_refs OR.
    (* detach_from *)
    destruct (ENV get_node_ok w src_parent C POM) as (pn & EGP & EPN & NOP).
    unfold detach_from.
    destruct (index_of (citem_is mv) (n_content pn)) as [k|] eqn:EIX;
      [|eapply runs_bind; [unfold wbind; rewrite EGP, EIX; reflexivity|]; intros ? [=]].
    eapply runs_bind; [unfold wbind; rewrite EGP, EIX; reflexivity|]. intros ? [= <-].
    set (w1 := wset w src_parent (set_content pn (remove_at (n_content pn) k))).
    assert (C1 : Closed w1).
    { apply Closed_wset; auto. destruct NOP as (A & B & D & E & P). split; [exact A|]. split; [exact B|]. cbn.
      split; [intros c IN; apply D; exact (ENV in_remove_at' _ _ _ IN)|]. split; [intros d IN; apply E; exact (ENV in_remove_at' _ _ _ IN)|exact P]. }
    assert (EN1 : w_nodes w1 self = Some n) by (unfold w1; cbn [wset w_nodes]; rewrite upd_other; [exact EN|congruence]).
    (* the source model forgets the subtree: two loops over model m_src only *)
    assert (LOOP1 : forall l wk, Closed wk -> m_src < N.of_nat (List.length (w_models wk)) ->
       runsQ ((fix each (l : list (list N * id)) : W unit :=
                 match l with [] => wret tt | (p, _) :: r => wbind (remove_identifiable m_src p) (fun _ => each r) end) l) wk (sj m wk)).
    { induction l as [|[p e] r IH]; intros wk Ck Lk.
      - exists (OK tt), wk. split; [reflexivity|apply sj_refl; exact Ck].
      - destruct (sj_modify_model m wk m_src (fun x => set_idents x (assoc_swap_remove p (m_idents x))) Ck Lk ltac:(congruence))
          as (r1 & wa & E1 & S1).
        { intros x. apply (ENV mok_remove_identifiable). }
        pose proof S1 as (Ca & _ & _ & La & _).
        destruct (IH wa Ca ltac:(lia)) as (r2 & wb & E2 & S2).
        unfold remove_identifiable. unfold runsQ, wbind. rewrite E1. destruct r1 as [[]|e1].
        + exists r2, wb. split; [exact E2|eapply sj_trans; eauto].
        + exists (ER e1), wa. split; [reflexivity|exact S1]. }
    assert (LOOP2 : forall l wk, Closed wk -> m_src < N.of_nat (List.length (w_models wk)) ->
       runsQ ((fix each (l : list (list N * id)) : W unit :=
                 match l with [] => wret tt | (p, e) :: r => wbind (remove_reference_origin m_src p e) (fun _ => each r) end) l) wk (sj m wk)).
    { induction l as [|[p e] r IH]; intros wk Ck Lk.
      - exists (OK tt), wk. split; [reflexivity|apply sj_refl; exact Ck].
      - assert (R1 : runsQ (remove_reference_origin m_src p e) wk (sj m wk)).
        { unfold remove_reference_origin. apply sj_modify_model; [exact Ck|exact Lk|congruence|].
          intros x. apply (ENV mok_remove_reference_origin). }
        destruct R1 as (r1 & wa & E1 & S1).
        pose proof S1 as (Ca & _ & _ & La & _).
        destruct (IH wa Ca ltac:(lia)) as (r2 & wb & E2 & S2).
        unfold runsQ, wbind. rewrite E1. destruct r1 as [[]|e1].
        + exists r2, wb. split; [exact E2|eapply sj_trans; eauto].
        + exists (ER e1), wa. split; [reflexivity|exact S1]. }
    destruct (LOOP1 original w1 C1 Lms) as (r2 & w2 & E2 & S2).
    eapply runs_bind; [exact E2|]. intros [] ->. destruct S2 as (C2 & EN2 & N2 & L2 & M2).
    destruct (LOOP2 orig_refs w2 C2 ltac:(rewrite L2; exact Lms)) as (r3 & w3 & E3 & S3).
    eapply runs_bind; [exact E3|]. intros [] ->. destruct S3 as (C3 & EN3 & N3 & L3 & M3).
    (* re-parent *)
    assert (Lmv3 : mv < w_next w3) by (rewrite N3, N2; exact Lmv).
    destruct (ENV get_node_ok w3 mv C3 Lmv3) as (mn3 & _ & EMN3 & NOM3).
    eapply runs_bind; [apply (modify_node_val mv _ w3 mn3 EMN3)|]. intros ? [= <-].
    set (w4 := wset w3 mv (set_parent mn3 (PElem self))).
    assert (L3s : self < w_next w3) by (rewrite N3, N2; exact L).
    assert (C4 : Closed w4).
    { apply Closed_wset; auto. destruct NOM3 as (A & B & D & E & _). split; [exact A|]. split; [exact B|]. split; [exact D|]. split; [exact E|exact L3s]. }
    assert (EN4 : w_nodes w4 self = Some n).
    { unfold w4. cbn [wset w_nodes]. rewrite upd_other; [|congruence]. rewrite EN3, EN2. exact EN1. }
    assert (SZ4 : SizeM w4 m).
    { intros x EX. unfold w4 in EX. cbn [wset w_models] in EX. rewrite M3, M2 in EX. exact (ENV SizeOk_M w m SZ x EX). }
    assert (S4 : selflen self pos w4) by (exists n; split; [exact EN4|exact LE]).
    assert (Lmv4 : mv < w_next w4) by exact Lmv3.
    assert (Lm4 : m < N.of_nat (List.length (w_models w4))).
    { unfold w4. cbn [wset w_models]. rewrite L3, L2. exact Lm. }
    eapply (runsQ_runs _ w4 (@NoPanicProofsMove.mj T tab_el tab_en id self pos w4)).
    destruct (ENV get_node_ok w4 mv C4 Lmv4) as (mn4 & EG4 & EMN4 & NOM4).
    eapply (ENV mj_rd); [exact C4|exact S4|exists (OK mn4); split; [exact EG4|]; intros a [= <-]; exact (eq_refl mn4)|]. intros ? <-.
    destruct (ENV is_identifiable_ok w4 mn4 C4 NOM4) as (ident & EID).
    eapply (ENV mj_rd); [exact C4|exact S4|exists (OK ident); split; [exact EID|]; intros a [= <-]; exact (eq_refl ident)|]. intros ? <-.
    eapply (ENV mj_bind).
    { destruct ident; [|apply (ENV mj_ret); assumption].
      eapply (ENV mj_bind); [apply (ENV mj_make_unique self pos w4 mv m dest_prefix C4 SZ4 S4 Lmv4 Lm4)|].
      intros nm w5 C5 X5 S5 N5. apply (ENV mj_ret); assumption. }
    intros dest_path w5 C5 X5 S5 N5.
    assert (Lm5 : m < N.of_nat (List.length (w_models w5))) by (eapply (ENV ext_models); eauto).
    (* the identifiables of the destination model *)
    eapply (ENV mj_bind).
    { clear X5. revert w5 C5 S5 N5 Lm5. generalize original. intros paths.
      induction paths as [|[op e] r IH]; intros w5 C5 S5 N5 Lm5.
      - apply (ENV mj_ret); assumption.
      - eapply (ENV mj_bind).
        + destruct (strip_prefix src_prefix op); [|apply (ENV mj_ret); assumption].
          unfold add_identifiable. apply (ENV mj_modify_model); [exact C5|exact S5|exact Lm5|]. intros y MO.
          apply model_ok_iff in MO as (A & D). apply model_ok_iff. cbn. split; [exact A|exact D].
        + intros [] w6 C6 X6 S6 N6. apply (IH w6 C6); auto.
          * lia.
          * eapply (ENV ext_models); eauto. }
    intros [] w6 C6 X6 S6 N6.
    assert (Lm6 : m < N.of_nat (List.length (w_models w6))) by (eapply (ENV ext_models); eauto).
    assert (OR6 : forall p, In p orig_refs -> snd p < w_next w6).
    { intros p IN. rewrite N6, N5. unfold w4. cbn [wset w_next]. rewrite N3, N2. unfold w1. cbn [wset w_next]. apply OR. exact IN. }
    (* the reference origins of the destination model *)
    eapply (ENV mj_bind).
    { clear X6 N6. revert w6 C6 S6 Lm6 OR6. generalize orig_refs. intros refs.
      induction refs as [|[old_ref re] r IH]; intros w6 C6 S6 Lm6 OR6.
      - apply (ENV mj_ret); assumption.
      - assert (Lre : re < w_next w6) by (apply (OR6 (old_ref, re)); left; reflexivity).
        assert (ADD : forall key w7, Closed w7 -> selflen self pos w7 -> m < N.of_nat (List.length (w_models w7)) -> re < w_next w7 ->
                  runsQ (add_reference_origin m key re) w7 (@NoPanicProofsMove.mj T tab_el tab_en unit self pos w7)).
        { intros key w7 C7 S7 Lm7 Lre7. unfold add_reference_origin. apply (ENV mj_modify_model); [exact C7|exact S7|exact Lm7|].
          intros y MO. apply (ENV mok_add_reference_origin); assumption. }
        eapply (ENV mj_bind).
        + destruct (existsb (fun p => bytes_eqb (fst p) old_ref) original); [|apply ADD; assumption].
          destruct (strip_prefix src_prefix old_ref) as [suffix|]; [|apply ADD; assumption]. cbv zeta.
          eapply (ENV mj_bind); [apply (ENV mj_raw_set_character_data self pos w6 re (DString (dest_path ++ suffix)) version C6 S6 Lre I)|].
          intros [] w7 C7 X7 S7 N7. apply ADD; auto; [eapply (ENV ext_models); eauto|lia].
        + intros [] w7 C7 X7 S7 N7. apply (IH w7 C7); auto.
          * eapply (ENV ext_models); eauto.
          * intros p IN. rewrite N7. apply OR6. right. exact IN. }
    intros [] w7 C7 X7 S7 N7.
    (* the insertion *)
    destruct S7 as (ns & ENS & LNS).
    eapply (ENV mj_bind).
    { unfold content_insert.
      eapply (ENV mj_rd); [exact C7|exists ns; split; [exact ENS|exact LNS]|exists (OK ns); split; [apply get_node_val; exact ENS|]; intros a [= <-]; exact (eq_refl ns)|].
      intros ? <-. destruct (N.of_nat (List.length (n_content ns)) <? pos) eqn:EL; [apply N.ltb_lt in EL; lia|].
      apply (ENV mj_set_node self pos w7 self _ ns C7 (ex_intro _ ns (conj ENS LNS)) ENS).
      - pose proof (cl_node _ _ _ _ C7 _ _ ENS) as (A & B & D & E & P). split; [exact A|]. split; [exact B|]. cbn.
        split; [|split; [|exact P]].
        + intros y IN. apply (ENV in_insert_at) in IN as [[= ->]|IN]; [|apply D; exact IN].
          rewrite N7, N6, N5. exact Lmv4.
        + intros d IN. apply (ENV in_insert_at) in IN as [[=]|IN]. apply E. exact IN.
      - intros _. cbn [set_content n_content].
        assert (GE : forall (l : list citem) k x, (List.length l <= List.length (insert_at l k x))%nat).
        { induction l as [|z l IHl]; intros k0 x0; destruct k0; cbn; try lia. specialize (IHl k0 x0). lia. }
        apply GE. }
    intros [] w8 C8 X8 S8 N8. apply (ENV mj_ret); assumption.
Qed.

(* ---------- Element::move_element_here / _at: every case ---------- *)
Lemma np_move_all w h mv : PanicFree w -> SizeOk w -> RefNoFloat w -> h < w_next w -> mv < w_next w ->
  runs (e_move_element_here T tab_en check_fn LATEST h mv) w.
Proof.
  intros PF SZ RNF L Lmv. pose proof PF as [C U CU].
  pose proof (ENV Live12_of_PanicFree w PF) as (_ & HB).
  unfold e_move_element_here. destruct (h =? mv) eqn:EHM; [apply runs_fail|]. apply N.eqb_neq in EHM.
  destruct (ENV model_of_ok w mv C U Lmv) as (r1 & E1 & F1).
  eapply runs_bind; [exact E1|]. intros m_src ->. specialize (F1 m_src eq_refl).
  destruct (ENV model_of_ok w h C U L) as (r2 & E2 & F2).
  eapply runs_bind; [exact E2|]. intros m ->. specialize (F2 m eq_refl).
  eapply rd_bind_runs; [apply (ENV min_version_ok w mv C U Lmv)|]. intros v_src _.
  eapply rd_bind_runs; [apply (ENV min_version_ok w h C U L)|]. intros v _.
  destruct (negb (v =? v_src)); [apply runs_fail|].
  destruct (ENV get_node_ok w h C L) as (n & EG & EN & NO).
  eapply runs_bind; [exact EG|]. intros ? [= <-].
  destruct (ENV get_node_ok w mv C Lmv) as (mn & EGM & EMN & NOM).
  eapply runs_bind; [exact EGM|]. intros ? [= <-].
  eapply rd_bind_runs; [apply (ENV calc_range_ok w n (n_name mn) v C NO)|]. intros [s e] [_ LE]. cbn [fst snd] in LE.
  destruct (m =? m_src) eqn:EMM.
  - unfold parent_of. destruct (n_parent mn) as [|pm|p] eqn:EP.
    + eapply runs_bind; [reflexivity|]. intros ? [=].
    + eapply runs_bind; [reflexivity|]. intros ? [= <-]. apply runs_fail.
    + eapply runs_bind; [reflexivity|]. intros ? [= <-].
      destruct (p =? h) eqn:EPH; [apply runs_ret|]. apply N.eqb_neq in EPH.
      eapply (ENV np_move_local w h mv e m v n); eauto.
      intros mn0 E0. rewrite EMN in E0. injection E0 as <-. rewrite EP. intros [= ->]. congruence.
  - apply N.eqb_neq in EMM.
    eapply (np_move_full w h mv e m m_src v n); eauto.
    intros mn0 E0 EP0. rewrite EMN in E0. injection E0 as <-.
    apply EMM. symmetry. exact (model_of_child w mv mn h m_src m EMN EP0 E1 E2).
Qed.

Lemma np_move_at_all w h mv pos : PanicFree w -> SizeOk w -> RefNoFloat w -> h < w_next w -> mv < w_next w ->
  runs (e_move_element_here_at T tab_en check_fn LATEST h mv pos) w.
Proof.
  intros PF SZ RNF L Lmv. pose proof PF as [C U CU].
  pose proof (ENV Live12_of_PanicFree w PF) as (_ & HB).
  unfold e_move_element_here_at. destruct (h =? mv) eqn:EHM; [apply runs_fail|]. apply N.eqb_neq in EHM.
  destruct (ENV model_of_ok w mv C U Lmv) as (r1 & E1 & F1).
  eapply runs_bind; [exact E1|]. intros m_src ->. specialize (F1 m_src eq_refl).
  destruct (ENV model_of_ok w h C U L) as (r2 & E2 & F2).
  eapply runs_bind; [exact E2|]. intros m ->. specialize (F2 m eq_refl).
  eapply rd_bind_runs; [apply (ENV min_version_ok w mv C U Lmv)|]. intros v_src _.
  eapply rd_bind_runs; [apply (ENV min_version_ok w h C U L)|]. intros v _.
  destruct (negb (v =? v_src)); [apply runs_fail|].
  destruct (ENV get_node_ok w h C L) as (n & EG & EN & NO).
  eapply runs_bind; [exact EG|]. intros ? [= <-].
  destruct (ENV get_node_ok w mv C Lmv) as (mn & EGM & EMN & NOM).
  eapply runs_bind; [exact EGM|]. intros ? [= <-].
  eapply rd_bind_runs; [apply (ENV calc_range_ok w n (n_name mn) v C NO)|]. intros [s e] [_ LE]. cbn [fst snd] in LE.
  destruct ((s <=? pos) && (pos <=? e)) eqn:B; [|apply runs_fail].
  apply andb_true_iff in B as [_ B]. apply N.leb_le in B.
  destruct (m =? m_src) eqn:EMM.
  - unfold parent_of. destruct (n_parent mn) as [|pm|p] eqn:EP.
    + eapply runs_bind; [reflexivity|]. intros ? [=].
    + eapply runs_bind; [reflexivity|]. intros ? [= <-]. apply runs_fail.
    + eapply runs_bind; [reflexivity|]. intros ? [= <-].
      destruct (p =? h) eqn:EPH; [apply (ENV np_move_position); auto|]. apply N.eqb_neq in EPH.
      eapply (ENV np_move_local w h mv pos m v n); eauto; [|lia].
      intros mn0 E0. rewrite EMN in E0. injection E0 as <-. rewrite EP. intros [= ->]. congruence.
  - apply N.eqb_neq in EMM.
    eapply (np_move_full w h mv pos m m_src v n); eauto; [|lia].
    intros mn0 E0 EP0. rewrite EMN in E0. injection E0 as <-.
    apply EMM. symmetry. exact (model_of_child w mv mn h m_src m EMN EP0 E1 E2).
Qed.

End MoveX.
