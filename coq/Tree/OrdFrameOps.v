(* Tree/OrdFrameOps.v — C07, histories: the operations of Tree/Ops.v that never add a sub-element to a content list and never
   allocate are shp (Tree/OrdFrame.v) from every base world, so AllOrd is inherited across them: remove_sub_element[_kind],
   set_item_name, set / remove character data, character content items, attributes, set_reference_target, comment, and the four
   file operations.  Same decomposition as agent-c17's Tree/CompatFrameOps.v (the tactic is the same, the node relation sharper). *)
From Coq Require Import PeanoNat Arith Lia.
From AV Require Import Base.Bytes Base.Outcome Hash.HashModel Spec.SpecOps Tree.Heap Tree.Ops Tree.Script Tree.Inv
  Tree.InvProofsBase Tree.InvProofsCore Tree.InvProofsPrim Tree.InvProofsRefs Tree.InvProofsRemove
  Tree.Range Tree.RangeProofsKeep Tree.OrdFrame.
Open Scope string_scope.
Open Scope list_scope.
Open Scope N_scope.

(* anonymous list loops: induction on the list, one unfolding of the fix *)
Ltac sh_loop :=
  match goal with
  | |- shp ?w0 (?F ?l) =>
    is_fix F;
    let l' := fresh "l" in
    generalize l; intro l'; induction l' as [|? ? ?]; lazy beta iota fix zeta
  end.
Ltac sh_go := repeat first [ sh_step | sh_loop ].

Section Ops.
Variable T : tables.
Variable tab_el tab_en : nametab.
Variable check_fn : N -> list N -> res bool.
Variable LATEST : N.
Variable w0 : world.

Lemma shp_add_identifiable m p e : shp w0 (add_identifiable m p e).
Proof. unfold add_identifiable. sh_go. Qed.
Lemma shp_remove_identifiable m p : shp w0 (remove_identifiable m p).
Proof. unfold remove_identifiable. sh_go. Qed.
Lemma shp_fix_identifiables m a b : shp w0 (fix_identifiables m a b).
Proof. unfold fix_identifiables. sh_go. Qed.
Lemma shp_add_reference_origin m r e : shp w0 (add_reference_origin m r e).
Proof. unfold add_reference_origin. sh_go. Qed.
Lemma shp_fix_reference_origins m a b e : shp w0 (fix_reference_origins m a b e).
Proof. unfold fix_reference_origins. sh_go. Qed.
Lemma shp_remove_reference_origin m r e : shp w0 (remove_reference_origin m r e).
Proof. unfold remove_reference_origin. sh_go. Qed.
Hint Resolve shp_add_identifiable shp_remove_identifiable shp_fix_identifiables shp_add_reference_origin
  shp_fix_reference_origins shp_remove_reference_origin : shp.

Lemma shp_raw_set_cdata i v version : shp w0 (raw_set_character_data T check_fn i v version).
Proof. unfold raw_set_character_data. sh_go. Qed.
Hint Resolve shp_raw_set_cdata : shp.

Lemma shp_detach p c : shp w0 (detach_from p c).
Proof. unfold detach_from. sh_go. Qed.
Hint Resolve shp_detach : shp.

Lemma shp_make_unique i m pp : shp w0 (make_unique_item_name T i m pp).
Proof. unfold make_unique_item_name. sh_go. Qed.
Hint Resolve shp_make_unique : shp.

Lemma shp_remove_internal fuel : forall i m path, shp w0 (remove_internal T fuel i m path).
Proof. induction fuel as [|f IH]; intros i m path; cbn [remove_internal]; sh_go. Qed.
Hint Resolve shp_remove_internal : shp.

Lemma shp_raw_remove self sub m : shp w0 (raw_remove_sub_element T self sub m).
Proof. unfold raw_remove_sub_element. sh_go. Qed.
Hint Resolve shp_raw_remove : shp.
Lemma shp_e_remove h sub : shp w0 (e_remove_sub_element T h sub).
Proof. unfold e_remove_sub_element. sh_go. Qed.
Hint Resolve shp_e_remove : shp.
Lemma shp_e_remove_kind h name : shp w0 (e_remove_sub_element_kind T h name).
Proof. unfold e_remove_sub_element_kind. sh_go. Qed.

Lemma shp_set_item_name h nm : shp w0 (e_set_item_name T check_fn LATEST h nm).
Proof. unfold e_set_item_name. sh_go. Qed.
Lemma shp_set_cdata h v : shp w0 (e_set_character_data T tab_en check_fn LATEST h v).
Proof. unfold e_set_character_data. sh_go. Qed.
Lemma shp_remove_cdata h : shp w0 (e_remove_character_data T h).
Proof. unfold e_remove_character_data. sh_go. Qed.
Lemma shp_insert_citem h text pos : shp w0 (e_insert_character_content_item T h text pos).
Proof. unfold e_insert_character_content_item. sh_go. Qed.
Lemma shp_remove_citem h pos : shp w0 (e_remove_character_content_item T h pos).
Proof. unfold e_remove_character_content_item. sh_go. Qed.
Lemma shp_raw_set_attribute h attr v version : shp w0 (raw_set_attribute T check_fn h attr v version).
Proof. unfold raw_set_attribute. sh_go. Qed.
Hint Resolve shp_raw_set_attribute : shp.
Lemma shp_set_attribute h attr v : shp w0 (e_set_attribute T check_fn LATEST h attr v).
Proof. unfold e_set_attribute. sh_go. Qed.
Lemma shp_remove_attribute h attr : shp w0 (e_remove_attribute T h attr).
Proof. unfold e_remove_attribute. sh_go. Qed.
Lemma shp_set_ref_target h target : shp w0 (e_set_reference_target T tab_el tab_en check_fn LATEST h target).
Proof. unfold e_set_reference_target. sh_go. Qed.
Lemma shp_set_comment h c : shp w0 (e_set_comment h c).
Proof. unfold e_set_comment. sh_go. Qed.
Lemma shp_add_to_file_restricted fuel : forall e f, shp w0 (add_to_file_restricted T fuel e f).
Proof. induction fuel as [|fl IH]; intros e f; cbn [add_to_file_restricted]; sh_go. Qed.
Hint Resolve shp_add_to_file_restricted : shp.
Lemma shp_add_to_file e f : shp w0 (e_add_to_file T e f).
Proof. unfold e_add_to_file. sh_go. Qed.
Lemma shp_remove_from_file e f : shp w0 (e_remove_from_file T e f).
Proof. unfold e_remove_from_file. sh_go. Qed.
Lemma shp_create_file m name version : shp w0 (m_create_file T m name version).
Proof.
  unfold m_create_file. apply shp_bind; [sh_go|intros x].
  intros w r w' F H. apply wbind_inv in H as [(wc & w1 & H1 & H2) | (e & H1 & _)]; [|apply wget_inv in H1 as ([=] & _)].
  apply wget_inv in H1 as ([= <-] & ->).
  destruct (existsb _ (m_files x)); [apply wfail_inv in H2 as (_ & ->); exact F|].
  apply wbind_inv in H2 as [(u & w2 & H1 & H2) | (e & H1 & _)]; [|discriminate H1].
  unfold wput in H1. injection H1 as <- <-.
  revert H2. match goal with |- ?k ?ww = _ -> _ => assert (shp w0 k) as K by sh_go; intros H2; apply (K _ _ _) in H2; [exact H2|] end.
  destruct F as (F & G & Nx). split; [intros j y Hy; exact (F _ _ Hy)|split; [intros j Hj; exact (G j Hj)|exact Nx]].
Qed.
Lemma shp_set_file_membership e fm : shp w0 (set_file_membership T e fm).
Proof. unfold set_file_membership. sh_go. Qed.
Hint Resolve shp_set_file_membership : shp.
Lemma shp_remove_file m f : shp w0 (m_remove_file T m f).
Proof. unfold m_remove_file. sh_go. Qed.

End Ops.
