(* Tree/FilesProofsHist.v — C10 proofs: single steps and histories, and the refutation witnesses of the Known10 classes
   on the tiny table set.  The two facts of C03 that are used (every operation preserves Core; every operation outside
   C03's Known classes preserves TreeInv: Tree/InvProofs.v Core_step, TreeInv_step) are Section hypotheses here and are
   discharged in Properties/C10.v. *)
From Coq Require Import PeanoNat Arith Lia.
From AV Require Import Base.Bytes Base.Outcome Hash.HashModel Tree.Heap Tree.Ops Tree.Script Tree.Serialize
  Tree.Inv Tree.InvProofsBase Tree.InvProofsCore Tree.InvProofsTree Tree.InvProofsPrim
  Tree.Files Tree.FilesProofsBase Tree.FilesProofsProj Tree.FilesProofsFrame Tree.FilesProofsOps
  Tree.FilesProofsInv.
Open Scope string_scope.
Open Scope list_scope.
Open Scope N_scope.

Section Hist.
Variable T : tables.
Variable tab_el tab_en : nametab.
Variable check_fn : N -> list N -> res bool.
Variable LATEST : N.
Variable root_attrs : list (N * cdata).

Let run := run_op T tab_el tab_en check_fn LATEST root_attrs.

Definition CoreStep : Prop := forall o w r w', Core w -> run o w = Val (r, w') -> Core w'.
Definition TreeStep : Prop := forall o w r w', TreeInv w -> Known T tab_el tab_en check_fn LATEST root_attrs w o = false ->
  run o w = Val (r, w') -> TreeInv w'.
Hypothesis core_step : CoreStep.
Hypothesis tree_step : TreeStep.

Theorem inv_step o w r w' :
  TreeInv w -> FilesInv T w -> RootNamedLast T w o = false -> Known10 w o = false -> Unowned w o = false ->
  run o w = Val (r, w') -> FilesInv T w'.
Proof.
  intros TI FI HP HK HU H. pose proof TI as (C & _).
  assert (Core w') as C' by (eapply core_step; eauto).
  eapply inv_step_core; eauto.
Qed.

(* ---------- histories ---------- *)
Definition step_ok (w : world) (o : op) : bool :=
  negb (Known T tab_el tab_en check_fn LATEST root_attrs w o) && negb (RootNamedLast T w o) && negb (Known10 w o) && negb (Unowned w o).

Fixpoint steps_ok (l : list op) (w : world) : bool :=
  match l with
  | [] => true
  | o :: rest => step_ok w o && match run o w with Val (_, w') => steps_ok rest w' | _ => true end
  end.

Theorem inv_histories l : forall w w', TreeInv w -> FilesInv T w -> steps_ok l w = true ->
  run_ops T tab_el tab_en check_fn LATEST root_attrs l w = Val w' -> TreeInv w' /\ FilesInv T w'.
Proof.
  induction l as [|o rest IH]; intros w w' TI FI Hok H; cbn [run_ops steps_ok] in *.
  - injection H as <-. auto.
  - apply Bool.andb_true_iff in Hok as (Hs & Hok). unfold step_ok in Hs.
    apply Bool.andb_true_iff in Hs as (Hs & H4). apply Bool.andb_true_iff in Hs as (Hs & H3).
    apply Bool.andb_true_iff in Hs as (H1 & H2).
    apply Bool.negb_true_iff in H1, H2, H3, H4.
    change (Inv.run T tab_el tab_en check_fn LATEST root_attrs o w) with (run o w) in H.
    destruct (run o w) as [[r w1]| |] eqn:Er; try discriminate.
    apply (IH w1 w'); auto.
    + eapply tree_step; eauto.
    + eapply inv_step; eauto.
Qed.

Lemma empty_filesinv : FilesInv T empty_world.
Proof. intros x []. Qed.

End Hist.

(* ====================================================================== refutations on the tiny table set *)
Lemma empty_core : Core empty_world.
Proof.
  constructor.
  - intros i. split; [intros (n & [=])|intros H; cbn in H; lia].
  - intros p c (n & [=] & _).
  - intros p n [=].
  - intros k r H. destruct k; discriminate.
  - intros i (n & [=]).
Qed.
Lemma empty_treeinv : TreeInv empty_world.
Proof.
  split; [apply empty_core|]. split.
  - intros c p (n & [=] & _).
  - intros i n m [=].
Qed.

Section Witness.
Import TinyF.
Hypothesis core_step : CoreStep tiny tiny_el tiny_en tiny_check_fn LATEST [].
Hypothesis tree_step : TreeStep tiny tiny_el tiny_en tiny_check_fn LATEST [].

Definition runs := run_ops tiny tiny_el tiny_en tiny_check_fn LATEST [].
Definition ok_steps := steps_ok tiny tiny_el tiny_en tiny_check_fn LATEST [].
Definition world_after (s : list op) : world := match runs s empty_world with Val w => w | _ => empty_world end.

Lemma after_inv s : ok_steps s empty_world = true -> (exists w, runs s empty_world = Val w) ->
  TreeInv (world_after s) /\ FilesInv tiny (world_after s).
Proof.
  intros Hok (w & Hw). unfold world_after. rewrite Hw.
  eapply (inv_histories tiny tiny_el tiny_en tiny_check_fn LATEST [] core_step tree_step); eauto.
  - apply empty_treeinv.
  - apply empty_filesinv.
Qed.

(* a state of the model violates FilesInv when the checker says so *)
Lemma not_inv w : Core w -> (forall x, In x (w_models w) -> reach_list (fuel_of w) w (m_root x) <> None) ->
  files_ok tiny w = false -> ~ FilesInv tiny w.
Proof. intros C Hf Hb FI. rewrite (files_ok_complete tiny w C FI Hf) in Hb. discriminate. Qed.

Definition refuted (known : world -> op -> bool) : Prop :=
  exists w o r w', TreeInv w /\ FilesInv tiny w /\ known w o = true /\ run o w = Val (r, w') /\ ~ FilesInv tiny w'.

(* s: a history of operations outside all Known / Pending classes; o: the offending operation *)
Lemma refute (known : world -> op -> bool) s o :
  ok_steps s empty_world = true -> (exists w, runs s empty_world = Val w) ->
  known (world_after s) o = true ->
  (match run o (world_after s) with
   | Val (_, wv) => negb (files_ok tiny wv) &&
                    forallb (fun x => match reach_list (fuel_of wv) wv (m_root x) with Some _ => true | None => false end) (w_models wv)
   | _ => false end) = true ->
  refuted known.
Proof.
  intros Hok Hrun Hk Hb. destruct (after_inv s Hok Hrun) as (TI & FI).
  destruct (run o (world_after s)) as [[r w']| |] eqn:Er; try discriminate.
  apply Bool.andb_true_iff in Hb as (Hb & Hf). apply Bool.negb_true_iff in Hb.
  exists (world_after s), o, r, w'. split; [exact TI|]. split; [exact FI|]. split; [exact Hk|]. split; [exact Er|].
  apply not_inv; auto.
  - eapply core_step; [apply TI|exact Er].
  - intros x Hx Hn. rewrite forallb_forall in Hf. specialize (Hf x Hx). rewrite Hn in Hf. discriminate.
Qed.

(* (i) a removed file is added again *)
Theorem add_foreign_refuted : refuted Known_add_foreign.
Proof.
  apply (refute _ (base ++ [OpRemoveFile 0 1]) (OpAddToFile 7 1)); [vm_compute; reflexivity | eexists; vm_compute; reflexivity | vm_compute; reflexivity | vm_compute; reflexivity].
Qed.

(* (viii) the root loses the last file of its own set: through remove_from_file and through remove_file *)
Theorem root_last_refuted : refuted Known_root_last.
Proof.
  apply (refute _ (base ++ [OpRemoveFromFile 0 0]) (OpRemoveFromFile 0 1)); [vm_compute; reflexivity | eexists; vm_compute; reflexivity | vm_compute; reflexivity | vm_compute; reflexivity].
Qed.
Theorem root_last_remove_file_refuted : refuted (fun w o => Known_root_last w o && match o with OpRemoveFile _ _ => true | _ => false end).
Proof.
  apply (refute _ (base ++ [OpRemoveFromFile 0 0]) (OpRemoveFile 0 1)); [vm_compute; reflexivity | eexists; vm_compute; reflexivity | vm_compute; reflexivity | vm_compute; reflexivity].
Qed.

(* (iv) a moved element keeps its local sets *)
Theorem move_local_refuted : refuted Known_move_local.
Proof.
  apply (refute _ (split ++ [OpCreateSub 7 nELEMENTS]) (OpMove 9 5)); [vm_compute; reflexivity | eexists; vm_compute; reflexivity | vm_compute; reflexivity | vm_compute; reflexivity].
Qed.

End Witness.
