(* Tree/FilesProofsHist.v — C10 proofs: single steps and histories with C03's theorems discharged (Core_step,
   TreeInv_step), and the refutation witnesses of the Known10 classes on the tiny table set. *)
From Coq Require Import PeanoNat Arith Lia.
From AV Require Import Base.Bytes Base.Outcome Hash.HashModel Tree.Heap Tree.Ops Tree.Script Tree.Serialize
  Tree.Inv Tree.InvProofsBase Tree.InvProofsCore Tree.InvProofsTree Tree.InvProofsPrim Tree.InvProofs
  Tree.Files Tree.FilesProofsBase Tree.FilesProofsProj Tree.FilesProofsFrame Tree.FilesProofsOps
  Tree.FilesProofsInv.
Open Scope string_scope.
Open Scope list_scope.
Open Scope N_scope.

Section Hist.
Variable T : tables.
Variable tab_el tab_en : nametab.
Variable check_fn : N -> list N -> res bool.
Variable LATEST : N.
Variable root_attrs : list (N * cdata).

Let run := run_op T tab_el tab_en check_fn LATEST root_attrs.

Theorem inv_step o w r w' :
  TreeInv w -> FilesInv T w -> Pending10 w o = false -> Known10 w o = false -> Unowned w o = false ->
  run o w = Val (r, w') -> FilesInv T w'.
Proof.
  intros TI FI HP HK HU H. pose proof TI as (C & _).
  assert (Core w') as C' by (eapply (Core_step T tab_el tab_en check_fn LATEST root_attrs); eauto).
  eapply inv_step_core; eauto.
Qed.

(* ---------- histories ---------- *)
Definition step_ok (w : world) (o : op) : bool :=
  negb (Known T tab_el tab_en check_fn LATEST root_attrs w o) && negb (Pending10 w o) && negb (Known10 w o) && negb (Unowned w o).

Fixpoint steps_ok (l : list op) (w : world) : bool :=
  match l with
  | [] => true
  | o :: rest => step_ok w o && match run o w with Val (_, w') => steps_ok rest w' | _ => true end
  end.

Theorem inv_histories l : forall w w', TreeInv w -> FilesInv T w -> steps_ok l w = true ->
  run_ops T tab_el tab_en check_fn LATEST root_attrs l w = Val w' -> TreeInv w' /\ FilesInv T w'.
Proof.
  induction l as [|o rest IH]; intros w w' TI FI Hok H; cbn [run_ops steps_ok] in *.
  - injection H as <-. auto.
  - apply Bool.andb_true_iff in Hok as (Hs & Hok). unfold step_ok in Hs.
    apply Bool.andb_true_iff in Hs as (Hs & H4). apply Bool.andb_true_iff in Hs as (Hs & H3).
    apply Bool.andb_true_iff in Hs as (H1 & H2).
    apply Bool.negb_true_iff in H1, H2, H3, H4.
    change (Inv.run T tab_el tab_en check_fn LATEST root_attrs o w) with (run o w) in H.
    destruct (run o w) as [[r w1]| |] eqn:Er; try discriminate.
    apply (IH w1 w'); auto.
    + eapply (TreeInv_step T tab_el tab_en check_fn LATEST root_attrs); eauto.
    + eapply inv_step; eauto.
Qed.

Lemma empty_filesinv : FilesInv T empty_world.
Proof. intros x []. Qed.

End Hist.
