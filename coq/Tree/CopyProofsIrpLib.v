(* Tree/CopyProofsIrpLib.v — C13 independence calculus, layer 2: association lists, the index primitives, the
   read-only functions that return node ids (with what is known about the ids), and the tactics. *)
From AV Require Import Base.Bytes Base.Outcome Hash.HashModel Tree.Heap Tree.Ops Tree.Script
  Tree.CopyProofsW Tree.CopyProofsDefs Tree.CopyProofsIrp.
From Coq Require Import Lia PeanoNat.
Open Scope string_scope.
Open Scope list_scope.
Open Scope N_scope.

(* ------------------------------------------------------------------ values of association lists *)
Section Vals.
Context {A : Type}.
Variable V : A -> Prop.
Definition AllV (l : list (list N * A)) : Prop := forall k a, In (k, a) l -> V a.

Lemma AllV_nil : AllV [].
Proof. intros k a []. Qed.
Lemma AllV_insert k a l : AllV l -> V a -> AllV (assoc_insert k a l).
Proof.
  intros Hl Ha. induction l as [|[k' a'] l IH]; cbn.
  - intros k0 a0 [[= <- <-]|[]]. exact Ha.
  - destruct (bytes_eqb k' k).
    + intros k0 a0 [[= <- <-]|H]; [exact Ha | eapply Hl; right; exact H].
    + intros k0 a0 [[= <- <-]|H]; [eapply Hl; left; reflexivity|].
      eapply IH; [|exact H]. intros k1 a1 H1. eapply Hl. right. exact H1.
Qed.
Lemma AllV_snoc k a l : AllV l -> V a -> AllV (l ++ [(k, a)]).
Proof. intros Hl Ha k0 a0 H. apply in_app_or in H as [H|[[= <- <-]|[]]]; [eapply Hl; exact H | exact Ha]. Qed.
Lemma AllV_get k l a : AllV l -> assoc_get k l = Some a -> V a.
Proof. intros Hl E. apply assoc_get_In in E as (k' & H). eapply Hl; eauto. Qed.
Lemma AllV_incl l l' : (forall x, In x l' -> In x l) -> AllV l -> AllV l'.
Proof. intros Hi Hl k a H. eapply Hl. apply Hi. exact H. Qed.
End Vals.

Lemma in_removelast {A} (x : A) l : In x (removelast l) -> In x l.
Proof.
  induction l as [|y l IH]; cbn; auto. destruct l as [|z l]; [intros []|].
  intros [->|H]; [left; reflexivity | right; apply IH; exact H].
Qed.
Lemma in_list_set {A} (x y : A) l k : In x (list_set l k y) -> x = y \/ In x l.
Proof.
  revert k. induction l as [|z l IH]; intros [|k]; cbn; auto.
  - intros [->|H]; auto.
  - intros [->|H]; auto. destruct (IH _ H); auto.
Qed.
Lemma in_swap_remove_at {A} (x : A) l k : In x (swap_remove_at l k) -> In x l.
Proof.
  unfold swap_remove_at. destruct (rev l) as [|lst r] eqn:E; [intros []|].
  assert (Hl : In lst l). { apply in_rev. rewrite E. left. reflexivity. }
  destruct (Nat.eqb (S k) (List.length l)); intros H; apply in_removelast in H; auto.
  apply in_list_set in H as [->|H]; auto.
Qed.
Lemma in_assoc_swap_remove {A} (x : list N * A) k l : In x (assoc_swap_remove k l) -> In x l.
Proof. unfold assoc_swap_remove. destruct (assoc_index k l); auto. apply in_swap_remove_at. Qed.
Lemma in_assoc_remove {A} (x : list N * A) k l : In x (assoc_remove k l) -> In x l.
Proof. unfold assoc_remove. intros H. apply filter_In in H. tauto. Qed.
Lemma in_remove_at_l {A} (x : A) l k : In x (remove_at l k) -> In x l.
Proof.
  revert k. induction l as [|y l IH]; intros k H; [destruct k; exact H|].
  destruct k; cbn [remove_at] in H; [right; exact H|]. destruct H as [H|H]; [left; exact H|right; exact (IH _ H)].
Qed.
Lemma in_insert_at_l {A} (l : list A) k x y : In y (insert_at l k x) -> In y l \/ y = x.
Proof.
  revert k. induction l as [|z l IH]; intros [|k]; cbn; intros H.
  - destruct H as [->|[]]; auto.
  - destruct H as [->|[]]; auto.
  - destruct H as [->|H]; auto.
  - destruct H as [->|H]; auto. apply IH in H as [H|H]; auto.
Qed.

Section Lib.
Variable P : id -> Prop.
Variable PM : N -> Prop.
Variable PF : N -> Prop.
Notation GoodN := (GoodN P PM).
Notation GoodM := (GoodM P).
Notation OutI := (OutI P).
Notation OutC := (OutC P).

Definition NP (j : id) : Prop := ~ P j.

Lemma GoodM_parts x : GoodM x <-> ~ P (m_root x) /\ AllV NP (m_idents x) /\ AllV OutI (m_origins x).
Proof.
  unfold GoodM, AllV, NP, CopyProofsIrp.OutI. split.
  - intros (A & B & C). repeat split; auto. intros k l H c Hc. eapply C; eauto.
  - intros (A & B & C). repeat split; auto. intros p l j H Hj. eapply C; eauto.
Qed.

Lemma GoodM_set_idents x l : GoodM x -> AllV NP l -> GoodM (set_idents x l).
Proof. rewrite !GoodM_parts. cbn. tauto. Qed.
Lemma GoodM_set_origins x l : GoodM x -> AllV OutI l -> GoodM (set_origins x l).
Proof. rewrite !GoodM_parts. cbn. tauto. Qed.
Lemma GoodM_set_mfiles x l : GoodM x -> GoodM (set_mfiles x l).
Proof. rewrite !GoodM_parts. cbn. tauto. Qed.
Lemma GoodM_idents x : GoodM x -> AllV NP (m_idents x).
Proof. rewrite GoodM_parts. tauto. Qed.
Lemma GoodM_origins_all x : GoodM x -> AllV OutI (m_origins x).
Proof. rewrite GoodM_parts. tauto. Qed.

Lemma OutI_app l1 l2 : OutI l1 -> OutI l2 -> OutI (l1 ++ l2).
Proof. intros H1 H2 c Hc. apply in_app_or in Hc as [Hc|Hc]; auto. Qed.
Lemma OutI_one e : ~ P e -> OutI [e].
Proof. intros He c [<-|[]]. exact He. Qed.
Lemma OutI_swap_remove_at l k : OutI l -> OutI (swap_remove_at l k).
Proof. intros H c Hc. apply H. eapply in_swap_remove_at; eauto. Qed.
Lemma OutI_remove_first e l : OutI l -> OutI (remove_first e l).
Proof. intros H. unfold remove_first. destruct (index_of (N.eqb e) l); auto. apply OutI_swap_remove_at. exact H. Qed.

(* the fold of fix_identifiables keeps the values *)
Lemma fix_idents_fold old_path new_path keys : forall idents,
  AllV NP idents ->
  AllV NP (fold_left (fun idents key =>
         match strip_prefix old_path key with
         | Some suffix =>
           if is_empty suffix || starts_with_slash suffix then
             match assoc_get key idents with
             | Some entry => assoc_insert (new_path ++ suffix) entry (assoc_swap_remove key idents)
             | None => idents
             end
           else idents
         | None => idents
         end) keys idents).
Proof.
  induction keys as [|key keys IH]; intros idents H; cbn [fold_left]; auto.
  apply IH. destruct (strip_prefix old_path key); auto. destruct (_ || _); auto.
  destruct (assoc_get key idents) eqn:E; auto.
  apply AllV_insert; [|eapply AllV_get; eauto].
  eapply AllV_incl; [|exact H]. intros x. apply in_assoc_swap_remove.
Qed.

(* ------------------------------------------------------------------ the index primitives *)
(* declared here: lemmas above must not be generalised over the bounds *)
Variables L LM LF : N.
Notation Sealed := (SealedL P PM PF L LM LF).
Notation irpq := (irpqL P PM PF L LM LF).
Notation irp := (irpL P PM PF L LM LF).

Lemma irp_add_identifiable m p e : ~ PM m -> ~ P e -> irp (add_identifiable m p e).
Proof.
  intros Hm He. apply irp_modify_model; auto. intros x Hx. apply GoodM_set_idents; auto.
  apply AllV_insert; [apply GoodM_idents; auto | exact He].
Qed.
Lemma irp_remove_identifiable m p : ~ PM m -> irp (remove_identifiable m p).
Proof.
  intros Hm. apply irp_modify_model; auto. intros x Hx. apply GoodM_set_idents; auto.
  eapply AllV_incl; [|apply GoodM_idents; eauto]. intros y. apply in_assoc_swap_remove.
Qed.
Lemma irp_fix_identifiables m a c : ~ PM m -> irp (fix_identifiables m a c).
Proof.
  intros Hm. apply irp_modify_model; auto. intros x Hx. apply GoodM_set_idents; auto.
  apply fix_idents_fold. apply GoodM_idents; auto.
Qed.
Lemma irp_add_reference_origin m r e : ~ PM m -> ~ P e -> irp (add_reference_origin m r e).
Proof.
  intros Hm He. apply irp_modify_model; auto. intros x Hx. apply GoodM_set_origins; auto.
  pose proof (GoodM_origins_all x Hx) as Ho.
  destruct (assoc_get r (m_origins x)) eqn:E.
  - apply AllV_insert; auto. apply OutI_app; [eapply AllV_get; eauto | apply OutI_one; auto].
  - apply AllV_snoc; auto. apply OutI_one; auto.
Qed.
Lemma irp_fix_reference_origins m a c e : ~ PM m -> ~ P e -> irp (fix_reference_origins m a c e).
Proof.
  intros Hm He. unfold fix_reference_origins. destruct (bytes_eqb a c); [apply irp_ro; ro_tac|].
  apply irp_modify_model; auto. intros x Hx. apply GoodM_set_origins; auto.
  pose proof (GoodM_origins_all x Hx) as Ho.
  assert (H1 : AllV OutI (match assoc_get a (m_origins x) with
              | Some l =>
                match index_of (N.eqb e) l with
                | Some k => let l' := swap_remove_at l k in
                            if is_empty l' then assoc_remove a (m_origins x)
                            else assoc_insert a l' (m_origins x)
                | None => m_origins x
                end
              | None => m_origins x
              end)).
  { destruct (assoc_get a (m_origins x)) eqn:E; auto. destruct (index_of (N.eqb e) l); auto. cbv zeta.
    destruct (is_empty _).
    - eapply AllV_incl; [|exact Ho]. intros y. apply in_assoc_remove.
    - apply AllV_insert; auto. apply OutI_swap_remove_at. eapply AllV_get; eauto. }
  cbv zeta. match goal with |- AllV _ (match assoc_get c ?o with _ => _ end) => set (o1 := o) in * end.
  destruct (assoc_get c o1) eqn:E2.
  - apply AllV_insert; auto. apply OutI_app; [eapply AllV_get; eauto | apply OutI_one; auto].
  - apply AllV_snoc; auto. apply OutI_one; auto.
Qed.
Lemma irp_remove_reference_origin m r e : ~ PM m -> irp (remove_reference_origin m r e).
Proof.
  intros Hm. apply irp_modify_model; auto. intros x Hx. apply GoodM_set_origins; auto.
  pose proof (GoodM_origins_all x Hx) as Ho.
  destruct (assoc_get r (m_origins x)) eqn:E; auto. cbv zeta. destruct (is_empty _).
  - eapply AllV_incl; [|exact Ho]. intros y. apply in_assoc_remove.
  - apply AllV_insert; auto. apply OutI_remove_first. eapply AllV_get; eauto.
Qed.

(* ------------------------------------------------------------------ read-only functions that return ids *)
Variable T : tables.
Variable tab_el tab_en : nametab.
Variable check_fn : N -> list N -> res bool.
Variable LATEST : N.

Lemma irpq_ro_post {A} (Q : A -> Prop) (c : W A) :
  ro c -> (forall w a, Sealed w -> c w = Val (OK a, w) -> Q a) -> irpq Q c.
Proof.
  intros R HQ w r w' S E B. pose proof (R _ _ _ E). subst w'. split; [exact S|]. split; [apply Same_refl|].
  intros a ->. eapply HQ; eauto.
Qed.

Lemma model_walk_out f : forall i w m w', Sealed w -> ~ P i -> model_walk f i w = Val (OK m, w') -> ~ PM m.
Proof.
  induction f as [|f IH]; intros i w m w' S Hi H; [discriminate H|]. cbn [model_walk] in H.
  apply wbind_inv in H as [(n & w1 & E & H) | (e & E & [=])].
  apply get_node_inv in E as (n' & Hn & [= <-] & ->).
  destruct (proj1 (proj2 S) i n Hi Hn) as (_ & Hp & Hb).
  destruct (n_parent n) as [|k|p] eqn:Ep.
  - apply wfail_inv in H as ([=] & _).
  - apply wret_inv in H as ([= <-] & _). apply (Hb m). reflexivity.
  - eapply (IH p); [exact S | apply Hp; reflexivity | exact H].
Qed.
Lemma irpq_model_of h : ~ P h -> irpq (fun m => ~ PM m) (model_of h).
Proof.
  intros Hh. apply irpq_ro_post; [apply ro_model_of|]. intros w m S E. unfold model_of in E.
  apply wbind_inv in E as [(w0 & w1 & E1 & E) | (e & E1 & [=])]. apply wget_inv in E1 as ([= ->] & ->).
  eapply model_walk_out; eauto.
Qed.

Definition dfs_kids (dfs : id -> W (list id)) : list citem -> W (list id) :=
  fix kids (l : list citem) : W (list id) :=
    match l with
    | [] => wret []
    | CElem c :: r => (do a <- dfs c; do b0 <- kids r; wret (a ++ b0))%W
    | CData _ :: r => kids r
    end.
Lemma dfs_ids_unfold f i :
  dfs_ids (S f) i = (do n <- get_node i; do rest <- dfs_kids (dfs_ids f) (n_content n); wret (i :: rest))%W.
Proof. reflexivity. Qed.

Lemma dfs_out f : forall i w l w', Sealed w -> ~ P i -> dfs_ids f i w = Val (OK l, w') -> OutI l.
Proof.
  induction f as [|f IH]; intros i w l w' S Hi H; [discriminate H|]. rewrite dfs_ids_unfold in H.
  apply wbind_inv in H as [(n & w1 & E & H) | (e & E & [=])].
  apply get_node_inv in E as (n' & Hn & [= <-] & ->).
  destruct (proj1 (proj2 S) i n Hi Hn) as (Hk & _ & _).
  apply wbind_inv in H as [(rest & w1 & E & H) | (e & E & [=])].
  apply wret_inv in H as ([= ->] & _).
  assert (K : forall items w0 ids w2, OutC items -> Sealed w0 -> dfs_kids (dfs_ids f) items w0 = Val (OK ids, w2) -> OutI ids).
  { clear - IH. induction items as [|[c|d] items IHi]; intros w0 ids w2 Ho S H; cbn [dfs_kids] in H.
    - apply wret_inv in H as ([= ->] & _). intros x [].
    - apply OutC_cons_elem in Ho as (Hc & Ho).
      apply wbind_inv in H as [(a & w3 & E & H) | (e & E & [=])].
      assert (w3 = w0) by (eapply ro_dfs_ids; eauto). subst w3.
      apply wbind_inv in H as [(b0 & w4 & E2 & H) | (e & E2 & [=])].
      apply wret_inv in H as ([= ->] & _).
      apply OutI_app; [eapply IH; eauto | eapply IHi; eauto].
    - apply OutC_cons_data in Ho. eapply IHi; eauto. }
  intros x [<-|Hx]; [exact Hi|]. eapply K; eauto.
Qed.
Lemma irpq_dfs_ids f i : ~ P i -> irpq OutI (dfs_ids f i).
Proof. intros Hi. apply irpq_ro_post; [apply ro_dfs_ids|]. intros w l S E. eapply dfs_out; eauto. Qed.

Lemma irpq_named_paths ids : OutI ids -> irpq (OutP P) (named_paths T ids).
Proof.
  intros Ho. apply irpq_ro_post; [apply ro_named_paths|]. revert Ho.
  induction ids as [|i ids IH]; intros Ho w l S E; cbn [named_paths] in E.
  - apply wret_inv in E as ([= ->] & _). intros k c [].
  - apply OutI_cons in Ho as (Hi & Ho).
    apply wbind_inv in E as [(n & w1 & E1 & E) | (e & E1 & [=])].
    apply get_node_inv in E1 as (n' & _ & [= <-] & ->).
    apply wbind_inv in E as [(named & w1 & E1 & E) | (e & E1 & [=])].
    apply wl_inv in E1 as (? & _ & [= <-] & ->).
    apply wbind_inv in E as [(r & w1 & E1 & E) | (e & E1 & [=])].
    assert (w1 = w) by (eapply ro_named_paths; eauto). subst w1.
    pose proof (IH Ho _ _ S E1) as Hr.
    destruct named.
    + apply wbind_inv in E as [(p & w1 & E2 & E) | (e & E2 & [=])].
      apply wret_inv in E as ([= ->] & _). destruct p; auto.
      intros k c [[= <- <-]|H]; [exact Hi | eapply Hr; eauto].
    + apply wret_inv in E as ([= ->] & _). exact Hr.
Qed.

Lemma irpq_ref_texts ids : OutI ids -> irpq (OutP P) (ref_texts T tab_en ids).
Proof.
  intros Ho. apply irpq_ro_post; [apply ro_ref_texts|]. revert Ho.
  induction ids as [|i ids IH]; intros Ho w l S E; cbn [ref_texts] in E.
  - apply wret_inv in E as ([= ->] & _). intros k c [].
  - apply OutI_cons in Ho as (Hi & Ho).
    apply wbind_inv in E as [(n & w1 & E1 & E) | (e & E1 & [=])].
    apply get_node_inv in E1 as (n' & _ & [= <-] & ->).
    apply wbind_inv in E as [(isr & w1 & E1 & E) | (e & E1 & [=])].
    apply wl_inv in E1 as (? & _ & [= <-] & ->).
    apply wbind_inv in E as [(r & w1 & E1 & E) | (e & E1 & [=])].
    assert (w1 = w) by (eapply ro_ref_texts; eauto). subst w1.
    pose proof (IH Ho _ _ S E1) as Hr.
    destruct isr.
    + apply wbind_inv in E as [(cd & w1 & E2 & E) | (e & E2 & [=])].
      apply wl_inv in E2 as (? & _ & [= <-] & ->).
      destruct cd as [d|].
      * apply wbind_inv in E as [(s0 & w1 & E2 & E) | (e & E2 & [=])].
        apply wret_inv in E as ([= ->] & _).
        intros k c [[= <- <-]|H]; [exact Hi | eapply Hr; eauto].
      * apply wret_inv in E as ([= ->] & _). exact Hr.
    + apply wret_inv in E as ([= ->] & _). exact Hr.
Qed.

Lemma irpq_parent_of n : GoodN n -> irpq (OutO P) (parent_of n).
Proof.
  intros (_ & Hp & _). unfold parent_of. destruct (n_parent n) as [|k|p] eqn:E.
  - apply irpq_fail.
  - apply irpq_ret. intros c [=].
  - apply irpq_ret. intros c [= <-]. apply Hp. reflexivity.
Qed.

Lemma irpq_first_named name l : OutC l -> irpq (OutO P) (first_named name l).
Proof.
  intros Ho. apply irpq_ro_post; [apply ro_first_named|]. revert Ho.
  induction l as [|[c|d] l IH]; intros Ho w o S E; cbn [first_named] in E.
  - apply wret_inv in E as ([= ->] & _). intros c [=].
  - apply OutC_cons_elem in Ho as (Hc & Ho).
    apply wbind_inv in E as [(cn & w1 & E1 & E) | (e & E1 & [=])].
    apply get_node_inv in E1 as (n' & _ & [= <-] & ->).
    destruct (n_name cn =? name).
    + apply wret_inv in E as ([= ->] & _). intros c0 [= <-]. exact Hc.
    + eapply IH; eauto.
  - apply OutC_cons_data in Ho. eapply IH; eauto.
Qed.
Lemma irpq_get_sub_element h name : ~ P h -> irpq (OutO P) (get_sub_element h name).
Proof.
  intros Hh. unfold get_sub_element. apply irpq_get; auto. intros n Hn. apply irpq_first_named. apply GoodN_OutC with (PM := PM). exact Hn.
Qed.

Lemma irpq_first_named_item name item l : OutC l -> irpq (OutO P) (first_named_item T name item l).
Proof.
  intros Ho. apply irpq_ro_post; [apply ro_first_named_item|]. revert Ho.
  induction l as [|[c|d] l IH]; intros Ho w o S E; cbn [first_named_item] in E.
  - apply wret_inv in E as ([= ->] & _). intros c [=].
  - apply OutC_cons_elem in Ho as (Hc & Ho).
    apply wbind_inv in E as [(cn & w1 & E1 & E) | (e & E1 & [=])].
    apply get_node_inv in E1 as (n' & _ & [= <-] & ->).
    apply wbind_inv in E as [(nm & w1 & E1 & E) | (e & E1 & [=])].
    assert (w1 = w) by (eapply ro_item_name; eauto). subst w1.
    destruct (_ && _).
    + apply wret_inv in E as ([= ->] & _). intros c0 [= <-]. exact Hc.
    + eapply IH; eauto.
  - apply OutC_cons_data in Ho. eapply IH; eauto.
Qed.

End Lib.
