(* Tree/IndexProofsFilesOps.v — C04/C05 for Element::remove_from_file and AutosarModel::remove_file (a file other than
   the last one of the model): both are sequences of file-membership updates and of remove_sub_element calls whose
   results are ignored.  The bundle  TreeFacts /\ Inv04 /\ NoLate /\ (Inv05)  is kept by every such step
   (e_remove_shape, removed_treefacts, removed_inv04, removed_inv05, removed_nolate), hence by the whole operation.
   NoLate (no SHORT-NAME at a position other than the first below an element of a named type) is what excludes the
   class K04-front for every removal of the sequence; it follows from Known04 = false (late_short). *)
From Coq Require Import PeanoNat Arith Lia.
From AV Require Import Base.Bytes Base.Outcome Hash.HashModel Tree.Heap Tree.Ops Tree.Script Tree.IndexProofsW
  Tree.Index Tree.IndexProofsBase Tree.IndexProofsAssoc Tree.IndexProofsFrame Tree.IndexProofsAttach
  Tree.IndexProofsTree Tree.IndexProofsNamed Tree.Refs Tree.RefsProofsBase Tree.RefsProofs Tree.IndexProofsRemove
  Tree.IndexProofsRemoveOp.
Open Scope string_scope.
Open Scope list_scope.
Open Scope N_scope.

(* ---------- worlds that differ in file sets only (nodes: n_files; models: m_files) *)
Definition fview (n : node) := set_files n [].
Definition FO (w w' : world) : Prop :=
  (forall j, option_map fview (w_nodes w' j) = option_map fview (w_nodes w j)) /\
  w_next w' = w_next w /\ map mview (w_models w') = map mview (w_models w).

Lemma FO_SV w w' : FO w w' -> SV w w'.
Proof.
  intros (H1 & _ & H3). split; [|exact H3]. intros j. specialize (H1 j).
  destruct (w_nodes w' j) as [a|], (w_nodes w j) as [b|]; cbn in *; try discriminate; [|reflexivity].
  assert (E : fview a = fview b) by congruence. unfold fview, set_files in E. unfold tview. injection E as _ -> -> -> _ _. reflexivity.
Qed.
Lemma FO_SE w w' : FO w w' -> SE w w'.
Proof.
  intros (H1 & H2 & H3). split; [|split; [exact H2|]].
  - intros j. specialize (H1 j).
    destruct (w_nodes w' j) as [a|], (w_nodes w j) as [b|]; cbn in *; try discriminate; [|reflexivity].
    assert (E : fview a = fview b) by congruence. unfold fview, set_files in E. unfold sview. injection E as -> _ _ -> _ _. reflexivity.
  - revert H3. generalize (w_models w) (w_models w'). induction l as [|a l IH]; intros [|b l']; cbn; try discriminate; [reflexivity|].
    intros [= Hr _ _ Hl]. rewrite Hr. f_equal. apply IH. exact Hl.
Qed.

Lemma fo_set_files w s sn fs : w_nodes w s = Some sn ->
  FO w (mkWorld (upd (w_nodes w) s (set_files sn fs)) (w_next w) (w_files w) (w_models w)).
Proof.
  intros Hs. split; [|split; reflexivity]. intros j. cbn. destruct (N.eq_dec j s) as [->|Hne].
  - rewrite upd_eq, Hs. reflexivity.
  - rewrite upd_neq by exact Hne. reflexivity.
Qed.

Lemma fo_set_mfiles w m x fs : nth_opt (w_models w) (N.to_nat m) = Some x ->
  FO w (mkWorld (w_nodes w) (w_next w) (w_files w) (list_set (w_models w) (N.to_nat m) (set_mfiles x fs))).
Proof.
  intros Hx. split; [intros j; reflexivity|]. split; [reflexivity|]. cbn. apply list_set_map_same.
  intros y Hy. rewrite Hx in Hy. injection Hy as <-. reflexivity.
Qed.

Section FilesOps.
Variable T : tables.
Variable check_fn : N -> list N -> res bool.
Hypothesis TK : TablesOK T check_fn.
Variable LATEST : N.
Notation Inv04 := (Inv04 T check_fn).
Notation SHORTN := (name_short_name T).
Notation NoLate := (NoLate T).

(* ---------- the static side condition *)
Lemma late_short_false w : TreeFacts w -> late_short T w = false -> NoLate w.
Proof.
  intros HF HL i n k s sn Hi Hnm Hk Hs. unfold late_short in HL.
  assert (Hall : forall j, In j (map N.of_nat (seq 0 (N.to_nat (w_next w)))) -> late_short_at T w j = false).
  { intros j Hj. destruct (late_short_at T w j) eqn:E; [|reflexivity].
    assert (existsb (late_short_at T w) (map N.of_nat (seq 0 (N.to_nat (w_next w)))) = true) by (apply existsb_exists; eauto). congruence. }
  assert (Hin : In i (map N.of_nat (seq 0 (N.to_nat (w_next w))))).
  { pose proof (tf_alloc _ HF _ _ Hi). apply in_map_iff. exists (N.to_nat i). split; [apply N2Nat.id|]. apply in_seq. lia. }
  specialize (Hall i Hin). unfold late_short_at, named_node in Hall. rewrite Hi, Hnm in Hall. cbn [andb] in Hall.
  destruct (n_content n) as [|it rest]; [discriminate|]. cbn in Hk.
  destruct (existsb _ rest) eqn:Ee; [discriminate|].
  assert (is_short_node T w s = false).
  { destruct (is_short_node T w s) eqn:Es; [|reflexivity].
    assert (existsb (fun it => match it with CElem s => is_short_node T w s | CData _ => false end) rest = true).
    { apply existsb_exists. exists (CElem s). split; [eapply nth_error_In; eauto|exact Es]. }
    congruence. }
  unfold is_short_node in H. rewrite Hs in H. apply N.eqb_neq. exact H.
Qed.

Lemma nolate_nv w w' : NV w w' -> NoLate w -> NoLate w'.
Proof.
  intros HN HL i n' k s sn' Hi Hnm Hk Hs.
  destruct (nv_node_back w w' i n' HN Hi) as (n & Hn & Hv). destruct (nv_node_back w w' s sn' HN Hs) as (sn & Hsn & Hvs).
  unfold tview in Hv, Hvs. injection Hv as _ Ht Hc. injection Hvs as Hname _ _. rewrite Hname.
  eapply (HL i n k s sn); eauto; congruence.
Qed.

(* ---------- the bundle; b = true: with Inv05 *)
Definition G5 (b : bool) (w : world) : Prop :=
  TreeFacts w /\ Inv04 w /\ NoLate w /\ (b = true -> Inv05 T w).
Definition GP (b : bool) (w w' : world) : Prop := G5 b w -> G5 b w'.
Lemma GP_refl b w : GP b w w. Proof. intros H. exact H. Qed.
Lemma GP_trans b a c d : GP b a c -> GP b c d -> GP b a d. Proof. unfold GP. auto. Qed.

Lemma gp_fo b w w' : FO w w' -> GP b w w'.
Proof.
  intros HFO (HF & HI & HL & H5). pose proof (FO_SV _ _ HFO) as HSV. split; [eapply TreeFacts_se; [apply FO_SE; exact HFO|exact HF]|].
  split; [eapply Inv04_iv; [apply SV_IV; exact HSV|exact HI]|]. split; [eapply nolate_nv; [exact (proj1 HSV)|exact HL]|].
  intros Hb. eapply Inv05_sv; [exact HSV|auto].
Qed.

Notation pgp b := (pres (GP b)).

Lemma gp_remove b pi d : pgp b (e_remove_sub_element T pi d).
Proof.
  intros w r w' H (HF & HI & HL & H5).
  destruct (e_remove_shape T check_fn pi d w r w' HF HI H) as [->|Hrm]; [exact (conj HF (conj HI (conj HL H5)))|].
  destruct Hrm as (n & pos & m & x & pp & K & R & Hn & Hidx & Hr & Hpp & Hx & Hsh & Hh' & Hout & Hin & Hm & HK & HR & Hnx).
  assert (Hfront : named T (n_type n) = true -> pos = O ->
    forall s rest sn, n_content n = CElem d :: CElem s :: rest -> w_nodes w s = Some sn -> n_name sn <> SHORTN).
  { intros Hnm _ s rest sn Hc Hs. eapply (HL pi n O s sn); eauto. rewrite Hc. reflexivity. }
  split; [eapply removed_treefacts with (h := pi) (sub := d) (n := n) (pos := pos) (m := m) (x := x) (K := K) (R := R); eauto|].
  split; [eapply (removed_inv04 T check_fn w w' pi d n pos m x pp K R); eauto|].
  split; [eapply removed_nolate with (h := pi) (sub := d) (n := n) (pos := pos); eauto|].
  intros Hb. eapply removed_inv05 with (h := pi) (sub := d) (n := n) (pos := pos) (m := m) (x := x) (R := R); eauto.
Qed.

Lemma gp_modify_files b e fs : pgp b (modify_node e (fun x => set_files x fs)).
Proof.
  intros w r w' H. apply modify_node_inv in H as (n & Hn & _ & ->). apply gp_fo. apply fo_set_files. exact Hn.
Qed.

(* the two loops of remove_from_file, as they stand in Ops.v *)
Definition scan_loop (f : N) : list id -> W (list id) :=
  fix scan (l : list id) : W (list id) :=
    match l with
    | [] => wret []
    | s :: rest =>
      wbind (get_node s) (fun sn =>
        if negb (is_empty (n_files sn)) then
          let fs := set_remove f (n_files sn) in
          wbind (set_node s (set_files sn fs)) (fun _ =>
          wbind (scan rest) (fun r => wret (if is_empty fs then s :: r else r)))
        else scan rest)
    end.

Lemma gp_scan b f : forall l, pgp b (scan_loop f l).
Proof.
  induction l as [|s rest IH]; intros w r w' H; cbn [scan_loop] in H.
  - winv H. apply GP_refl.
  - wnode H sn Hsn. destruct (negb (is_empty (n_files sn))).
    + wbind_w H u w1 E1. 2:{ apply set_node_inv in E1 as ([=] & _). }
      apply set_node_inv in E1 as (_ & ->).
      eapply GP_trans; [apply gp_fo; apply fo_set_files; exact Hsn|].
      wbind_w H r0 w2 E2.
      * winv H. eapply IH; eauto.
      * eapply IH; eauto.
    + eapply IH; eauto.
Qed.

Ltac gp_step :=
  first
  [ solve [apply (pres_ro (GP _) (GP_refl _)); ro_tac]
  | apply gp_remove
  | apply gp_modify_files
  | apply gp_scan
  | apply (pres_bind (GP _) (GP_trans _)); [|intros ?]
  | apply pres_try
  | match goal with
    | |- pres _ (match ?x with _ => _ end) => destruct x
    | |- pres _ (if ?b then _ else _) => destruct b
    | |- pres _ (let '(_, _) := ?x in _) => destruct x
    end ].
Ltac gp_tac := repeat gp_step.

Definition del_loop : list id -> W unit :=
  fix del (l : list id) : W unit :=
    match l with
    | [] => wret tt
    | d :: rest =>
      wbind (get_node d) (fun dn =>
      wbind (wtry (parent_of dn)) (fun p =>
      wbind (match p with
             | Some (Some pi) => wbind (wtry (e_remove_sub_element T pi d)) (fun _ => wret tt)
             | _ => wret tt
             end) (fun _ => del rest)))
    end.

Lemma gp_del b : forall l, pgp b (del_loop l).
Proof. induction l as [|d rest IH]; cbn [del_loop]; gp_tac; exact IH. Qed.

Lemma gp_remove_from_file b e f : pgp b (e_remove_from_file T e f).
Proof.
  unfold e_remove_from_file. gp_tac. apply (gp_del b).
Qed.

Lemma gp_remove_file b m f w r w' : last_file w m f = false -> m_remove_file T m f w = Val (r, w') -> GP b w w'.
Proof.
  intros HL H. unfold m_remove_file in H. wmodel H x Hx. unfold last_file, model_at in HL. rewrite Hx in HL.
  destruct (index_of (N.eqb f) (m_files x)) as [pos|]; [|winv H; apply GP_refl].
  wbind_w H u w1 E1. 2:{ apply set_model_inv in E1 as ([=] & _). }
  apply set_model_inv in E1 as (_ & ->). rewrite HL in H.
  eapply GP_trans; [apply gp_fo; apply fo_set_mfiles; exact Hx|].
  wbind_w H u2 w2 E2.
  - winv H. apply wtry_inv in E2 as (r0 & E2 & _). eapply gp_remove_from_file; eauto.
  - apply wtry_inv in E2 as (r0 & E2 & _). eapply gp_remove_from_file; eauto.
Qed.

(* ---------- the two operations *)
Theorem C45_remove_from_file b e f w r w' :
  TreeFacts w -> Inv04 w -> (b = true -> Inv05 T w) -> Known04 T LATEST w (OpRemoveFromFile e f) = false ->
  e_remove_from_file T e f w = Val (r, w') -> TreeFacts w' /\ Inv04 w' /\ (b = true -> Inv05 T w').
Proof.
  intros HF HI H5 HK H. cbn in HK.
  destruct (gp_remove_from_file b e f w r w' H) as (HF' & HI' & _ & H5'); [|auto].
  split; [exact HF|]. split; [exact HI|]. split; [apply late_short_false; assumption|exact H5].
Qed.

Theorem C45_remove_file b m f w r w' :
  TreeFacts w -> Inv04 w -> (b = true -> Inv05 T w) -> Known04 T LATEST w (OpRemoveFile m f) = false ->
  last_file w m f = false ->
  m_remove_file T m f w = Val (r, w') -> TreeFacts w' /\ Inv04 w' /\ (b = true -> Inv05 T w').
Proof.
  intros HF HI H5 HK HLF H. cbn in HK.
  destruct (gp_remove_file b m f w r w' HLF H) as (HF' & HI' & _ & H5'); [|auto].
  split; [exact HF|]. split; [exact HI|]. split; [apply late_short_false; assumption|exact H5].
Qed.

End FilesOps.
