(* Tree/IndexProofsFilesOps.v — C04/C05 for Element::remove_from_file and AutosarModel::remove_file (a file other than
   the last one of the model): both are sequences of file-membership updates and of remove_sub_element calls whose
   results are ignored.  The bundle  TreeFacts /\ Inv04 /\ NoLate /\ (Inv05)  is kept by every such step
   (e_remove_shape, removed_treefacts, removed_inv04, removed_inv05, removed_nolate), hence by the whole operation.
   NoLate (no SHORT-NAME at a position other than the first below an element of a named type) is what excludes the
   class K04-front for every removal of the sequence; it follows from Known04 = false (late_short). *)
From Coq Require Import PeanoNat Arith Lia.
From AV Require Import Base.Bytes Base.Outcome Hash.HashModel Tree.Heap Tree.Ops Tree.Script Tree.IndexProofsW
  Tree.Index Tree.IndexProofsBase Tree.IndexProofsAssoc Tree.IndexProofsFrame Tree.IndexProofsAttach
  Tree.IndexProofsTree Tree.IndexProofsNamed Tree.Refs Tree.RefsProofsBase Tree.RefsProofs Tree.IndexProofsRemove
  Tree.IndexProofsRemoveOp Tree.IndexProofsReg.
Open Scope string_scope.
Open Scope list_scope.
Open Scope N_scope.

(* ---------- worlds that differ in file sets only (nodes: n_files; models: m_files) *)
Definition fview (n : node) := set_files n [].
Definition FO (w w' : world) : Prop :=
  (forall j, option_map fview (w_nodes w' j) = option_map fview (w_nodes w j)) /\
  w_next w' = w_next w /\ map mview (w_models w') = map mview (w_models w).

Lemma FO_SV w w' : FO w w' -> SV w w'.
Proof.
  intros (H1 & _ & H3). split; [|exact H3]. intros j. specialize (H1 j).
  destruct (w_nodes w' j) as [a|], (w_nodes w j) as [b|]; cbn in *; try discriminate; [|reflexivity].
  assert (E : fview a = fview b) by congruence. unfold fview, set_files in E. unfold tview. injection E as _ -> -> -> _ _. reflexivity.
Qed.
Lemma FO_SE w w' : FO w w' -> SE w w'.
Proof.
  intros (H1 & H2 & H3). split; [|split; [exact H2|]].
  - intros j. specialize (H1 j).
    destruct (w_nodes w' j) as [a|], (w_nodes w j) as [b|]; cbn in *; try discriminate; [|reflexivity].
    assert (E : fview a = fview b) by congruence. unfold fview, set_files in E. unfold sview. injection E as -> _ _ -> _ _. reflexivity.
  - revert H3. generalize (w_models w) (w_models w'). induction l as [|a l IH]; intros [|b l']; cbn; try discriminate; [reflexivity|].
    intros [= Hr _ _ Hl]. rewrite Hr. f_equal. apply IH. exact Hl.
Qed.

Lemma fo_set_files w s sn fs : w_nodes w s = Some sn ->
  FO w (mkWorld (upd (w_nodes w) s (set_files sn fs)) (w_next w) (w_files w) (w_models w)).
Proof.
  intros Hs. split; [|split; reflexivity]. intros j. cbn. destruct (N.eq_dec j s) as [->|Hne].
  - rewrite upd_eq, Hs. reflexivity.
  - rewrite upd_neq by exact Hne. reflexivity.
Qed.

Lemma fo_set_mfiles w m x fs : nth_opt (w_models w) (N.to_nat m) = Some x ->
  FO w (mkWorld (w_nodes w) (w_next w) (w_files w) (list_set (w_models w) (N.to_nat m) (set_mfiles x fs))).
Proof.
  intros Hx. split; [intros j; reflexivity|]. split; [reflexivity|]. cbn. apply list_set_map_same.
  intros y Hy. rewrite Hx in Hy. injection Hy as <-. reflexivity.
Qed.

Section FilesOps.
Variable T : tables.
Variable check_fn : N -> list N -> res bool.
Hypothesis TK : TablesOK T check_fn.
Variable LATEST : N.
Notation Inv04 := (Inv04 T check_fn).
Notation SHORTN := (name_short_name T).
Notation NoLate := (NoLate T).

(* ---------- the static side condition *)
Lemma late_short_false w : TreeFacts w -> late_short T w = false -> NoLate w.
Proof.
  intros HF HL i n k s sn Hi Hnm Hk Hs. unfold late_short in HL.
  assert (Hall : forall j, In j (map N.of_nat (seq 0 (N.to_nat (w_next w)))) -> late_short_at T w j = false).
  { intros j Hj. destruct (late_short_at T w j) eqn:E; [|reflexivity].
    assert (existsb (late_short_at T w) (map N.of_nat (seq 0 (N.to_nat (w_next w)))) = true) by (apply existsb_exists; eauto). congruence. }
  assert (Hin : In i (map N.of_nat (seq 0 (N.to_nat (w_next w))))).
  { pose proof (tf_alloc _ HF _ _ Hi). apply in_map_iff. exists (N.to_nat i). split; [apply N2Nat.id|]. apply in_seq. lia. }
  specialize (Hall i Hin). unfold late_short_at, named_node in Hall. rewrite Hi, Hnm in Hall. cbn [andb] in Hall.
  destruct (n_content n) as [|it rest]; [discriminate|]. cbn in Hk.
  destruct (existsb _ rest) eqn:Ee; [discriminate|].
  assert (is_short_node T w s = false).
  { destruct (is_short_node T w s) eqn:Es; [|reflexivity].
    assert (existsb (fun it => match it with CElem s => is_short_node T w s | CData _ => false end) rest = true).
    { apply existsb_exists. exists (CElem s). split; [eapply nth_error_In; eauto|exact Es]. }
    congruence. }
  unfold is_short_node in H. rewrite Hs in H. apply N.eqb_neq. exact H.
Qed.

Lemma nolate_nv w w' : NV w w' -> NoLate w -> NoLate w'.
Proof.
  intros HN HL i n' k s sn' Hi Hnm Hk Hs.
  destruct (nv_node_back w w' i n' HN Hi) as (n & Hn & Hv). destruct (nv_node_back w w' s sn' HN Hs) as (sn & Hsn & Hvs).
  unfold tview in Hv, Hvs. injection Hv as _ Ht Hc. injection Hvs as Hname _ _. rewrite Hname.
  eapply (HL i n k s sn); eauto; congruence.
Qed.

(* ---------- the bundle; b = true: with Inv05 *)
Definition G5 (b : bool) (w : world) : Prop :=
  TreeFacts w /\ Inv04 w /\ NoLate w /\ (b = true -> Inv05 T w).
Definition GP (b : bool) (w w' : world) : Prop := G5 b w -> G5 b w'.
Lemma GP_refl b w : GP b w w. Proof. intros H. exact H. Qed.
Lemma GP_trans b a c d : GP b a c -> GP b c d -> GP b a d. Proof. unfold GP. auto. Qed.

Lemma gp_fo b w w' : FO w w' -> GP b w w'.
Proof.
  intros HFO (HF & HI & HL & H5). pose proof (FO_SV _ _ HFO) as HSV. split; [eapply TreeFacts_se; [apply FO_SE; exact HFO|exact HF]|].
  split; [eapply Inv04_iv; [apply SV_IV; exact HSV|exact HI]|]. split; [eapply nolate_nv; [exact (proj1 HSV)|exact HL]|].
  intros Hb. eapply Inv05_sv; [exact HSV|auto].
Qed.

Notation pgp b := (pres (GP b)).

Lemma gp_remove b pi d : pgp b (e_remove_sub_element T pi d).
Proof.
  intros w r w' H (HF & HI & HL & H5).
  destruct (e_remove_shape T check_fn pi d w r w' HF HI H) as [->|Hrm]; [exact (conj HF (conj HI (conj HL H5)))|].
  destruct Hrm as (n & pos & m & x & pp & K & R & Hn & Hidx & Hr & Hpp & Hx & Hsh & Hh' & Hout & Hin & Hm & HK & HR & Hnx).
  assert (Hfront : named T (n_type n) = true -> pos = O ->
    forall s rest sn, n_content n = CElem d :: CElem s :: rest -> w_nodes w s = Some sn -> n_name sn <> SHORTN).
  { intros Hnm _ s rest sn Hc Hs. eapply (HL pi n O s sn); eauto. rewrite Hc. reflexivity. }
  assert (HR2 : (forall p j, In (p, j) R -> reach T w d j) /\ (forall p j, reach T w d j -> ref_text T w j = Some p -> In (p, j) R)).
  { split; [intros p j HinR; apply HR in HinR; tauto|intros p j Hd Ht; apply HR; auto]. }
  split; [eapply removed_treefacts with (h := pi) (sub := d) (n := n) (pos := pos) (m := m) (x := x) (K := K) (R := R); eauto|].
  split; [eapply (removed_inv04 T check_fn w w' pi d n pos m x pp K R); eauto|].
  split; [eapply removed_nolate with (h := pi) (sub := d) (n := n) (pos := pos); eauto|].
  intros Hb. eapply removed_inv05 with (h := pi) (sub := d) (n := n) (pos := pos) (m := m) (x := x) (R := R); eauto.
Qed.

Lemma gp_modify_files b e fs : pgp b (modify_node e (fun x => set_files x fs)).
Proof.
  intros w r w' H. apply modify_node_inv in H as (n & Hn & _ & ->). apply gp_fo. apply fo_set_files. exact Hn.
Qed.

(* the two loops of remove_from_file, as they stand in Ops.v *)
Definition scan_loop (f : N) : list id -> W (list id) :=
  fix scan (l : list id) : W (list id) :=
    match l with
    | [] => wret []
    | s :: rest =>
      wbind (get_node s) (fun sn =>
        if negb (is_empty (n_files sn)) then
          let fs := set_remove f (n_files sn) in
          wbind (set_node s (set_files sn fs)) (fun _ =>
          wbind (scan rest) (fun r => wret (if is_empty fs then s :: r else r)))
        else scan rest)
    end.

Lemma gp_scan b f : forall l, pgp b (scan_loop f l).
Proof.
  induction l as [|s rest IH]; intros w r w' H; cbn [scan_loop] in H.
  - winv H. apply GP_refl.
  - wnode H sn Hsn. destruct (negb (is_empty (n_files sn))).
    + wbind_w H u w1 E1. 2:{ apply set_node_inv in E1 as ([=] & _). }
      apply set_node_inv in E1 as (_ & ->).
      eapply GP_trans; [apply gp_fo; apply fo_set_files; exact Hsn|].
      wbind_w H r0 w2 E2.
      * winv H. eapply IH; eauto.
      * eapply IH; eauto.
    + eapply IH; eauto.
Qed.

Ltac gp_step :=
  first
  [ solve [apply (pres_ro (GP _) (GP_refl _)); ro_tac]
  | apply gp_remove
  | apply gp_modify_files
  | apply gp_scan
  | apply (pres_bind (GP _) (GP_trans _)); [|intros ?]
  | apply pres_try
  | match goal with
    | |- pres _ (match ?x with _ => _ end) => destruct x
    | |- pres _ (if ?b then _ else _) => destruct b
    | |- pres _ (let '(_, _) := ?x in _) => destruct x
    end ].
Ltac gp_tac := repeat gp_step.

Definition del_loop : list id -> W unit :=
  fix del (l : list id) : W unit :=
    match l with
    | [] => wret tt
    | d :: rest =>
      wbind (get_node d) (fun dn =>
      wbind (wtry (parent_of dn)) (fun p =>
      wbind (match p with
             | Some (Some pi) => wbind (wtry (e_remove_sub_element T pi d)) (fun _ => wret tt)
             | _ => wret tt
             end) (fun _ => del rest)))
    end.

Lemma gp_del b : forall l, pgp b (del_loop l).
Proof. induction l as [|d rest IH]; cbn [del_loop]; gp_tac; exact IH. Qed.

Lemma gp_remove_from_file b e f : pgp b (e_remove_from_file T e f).
Proof.
  unfold e_remove_from_file. gp_tac. apply (gp_del b).
Qed.

Lemma gp_remove_file b m f w r w' : last_file w m f = false -> m_remove_file T m f w = Val (r, w') -> GP b w w'.
Proof.
  intros HL H. unfold m_remove_file in H. wmodel H x Hx. unfold last_file, model_at in HL. rewrite Hx in HL.
  destruct (index_of (N.eqb f) (m_files x)) as [pos|]; [|winv H; apply GP_refl].
  wbind_w H u w1 E1. 2:{ apply set_model_inv in E1 as ([=] & _). }
  apply set_model_inv in E1 as (_ & ->). rewrite HL in H.
  eapply GP_trans; [apply gp_fo; apply fo_set_mfiles; exact Hx|].
  wbind_w H u2 w2 E2.
  - winv H. apply wtry_inv in E2 as (r0 & E2 & _). eapply gp_remove_from_file; eauto.
  - apply wtry_inv in E2 as (r0 & E2 & _). eapply gp_remove_from_file; eauto.
Qed.

(* ---------- remove_file of the LAST file: every sub-element of the root is removed, the two maps are reset *)
Definition each_root (root : id) : list citem -> W unit :=
  fix each (l : list citem) : W unit :=
    match l with
    | [] => wret tt
    | CElem c :: rest => wbind (wtry (e_remove_sub_element T root c)) (fun _ => each rest)
    | CData _ :: rest => each rest
    end.

Lemma each_root_spec b root m ty : named T ty = false -> forall l w r w',
  G5 b w ->
  (exists nr, w_nodes w root = Some nr /\ n_parent nr = PModel m /\ n_type nr = ty /\ forall c, In (CElem c) (n_content nr) -> In (CElem c) l) ->
  each_root root l w = Val (r, w') ->
  r = OK tt /\ G5 b w' /\ exists nr', w_nodes w' root = Some nr' /\ n_parent nr' = PModel m /\ n_type nr' = ty /\ forall c, ~ In (CElem c) (n_content nr').
Proof.
  intros Hty. induction l as [|[c|d] rest IH]; intros w r w' HG (nr & Hnr & Hp & Ht & Hsub) H; cbn [each_root] in H.
  - winv H. split; [reflexivity|]. split; [exact HG|]. exists nr. repeat split; auto.
  - apply wbind_inv in H as [(u & w1 & E1 & H)|(e & E1 & _)]; [|apply wtry_inv in E1 as (? & _ & [=])].
    apply wtry_inv in E1 as (r0 & E1 & _).
    pose proof (gp_remove b root c w r0 w1 E1 HG) as HG1. pose proof HG as (HF & HI & _).
    apply (IH w1 r w' HG1); [|exact H].
    destruct (index_of (citem_is c) (n_content nr)) as [pos|] eqn:Eidx.
    + assert (Hc : child_of w root c) by (exists nr; split; [exact Hnr|eapply index_of_citem; eauto]).
      assert (Hty' : named T (n_type nr) = false) by (rewrite Ht; exact Hty).
      destruct (e_remove_root_child T check_fn root c w r0 w1 nr m HF HI E1 Hnr Hp Hty' Hc)
        as (n0 & pos0 & m0 & x0 & pp0 & K & R & Hn0 & Hidx0 & _ & _ & _ & _ & Hh' & _).
      rewrite Hnr in Hn0. injection Hn0 as <-. rewrite Eidx in Hidx0. injection Hidx0 as <-.
      eexists. split; [exact Hh'|]. split; [exact Hp|]. split; [exact Ht|]. intros c0 Hc0. cbn [set_content n_content] in Hc0.
      apply (in_remove_at_citem c _ pos c0 (tf_nodup _ HF _ _ Hnr) Eidx) in Hc0 as (Hc0 & Hne).
      destruct (Hsub c0 Hc0) as [[= E]|Hin]; [congruence|exact Hin].
    + assert (w1 = w) as ->.
      { destruct (e_remove_shape2 T check_fn root c w r0 w1 HF HI E1) as [(E & _)|Hr]; [exact E|].
        destruct Hr as (n0 & pos0 & _ & _ & _ & _ & _ & Hn0 & Hidx0 & _). rewrite Hnr in Hn0. injection Hn0 as <-. congruence. }
      exists nr. split; [exact Hnr|]. split; [exact Hp|]. split; [exact Ht|]. intros c0 Hc0.
      destruct (Hsub c0 Hc0) as [[= E]|Hin]; [|exact Hin]. subst c0.
      pose proof (index_of_none _ _ Eidx _ Hc0) as Hf. cbn in Hf. rewrite N.eqb_refl in Hf. discriminate.
  - apply (IH w r w' HG); [|exact H]. exists nr. split; [exact Hnr|]. split; [exact Hp|]. split; [exact Ht|].
    intros c0 Hc0. destruct (Hsub c0 Hc0) as [[=]|Hin]. exact Hin.
Qed.

Lemma gp_set_file_membership b e fm : pgp b (set_file_membership T e fm).
Proof. unfold set_file_membership. gp_tac. Qed.

(* the maps of a model whose root has no sub-element, is not of a named type and not of a reference type are empty *)
Lemma cleared_inv b w m x root nr :
  G5 b w -> model_at w m = Some x -> m_root x = root -> w_nodes w root = Some nr ->
  named T (n_type nr) = false -> isref T (n_type nr) = false -> (forall c, ~ In (CElem c) (n_content nr)) ->
  G5 b (mkWorld (w_nodes w) (w_next w) (w_files w) (list_set (w_models w) (N.to_nat m) (set_origins (set_idents x []) []))).
Proof.
  intros (HF & HI & HL & H5) Hx Hroot Hnr Hnn Hnref Hnokids.
  set (w' := mkWorld (w_nodes w) (w_next w) (w_files w) (list_set (w_models w) (N.to_nat m) (set_origins (set_idents x []) []))).
  assert (Hm' : w_models w' = list_set (w_models w) (N.to_nat m) (set_origins (set_idents x []) [])) by reflexivity.
  assert (Hsame : model_at w' m = Some (set_origins (set_idents x []) [])) by (eapply model_at_set_same; eauto).
  assert (Hother : forall m2, m2 <> m -> model_at w' m2 = model_at w m2) by (intros m2 Hne; eapply model_at_set_other; eauto).
  assert (HSE : SE w w').
  { split; [intros j; reflexivity|]. split; [reflexivity|]. rewrite Hm'. clear -Hx. unfold model_at in Hx. revert Hx.
    generalize (N.to_nat m). generalize (w_models w). induction l as [|y l IH]; intros [|k] H; cbn in *; try discriminate; auto.
    - injection H as ->. reflexivity.
    - f_equal. auto. }
  assert (Hdp : forall a i q, dpath T w' a i q <-> dpath T w a i q).
  { intros a i q. split; intros H; induction H as [|p c q Hp IH Hc];
      [constructor|exact (dp_step T w a p c q IH Hc)|constructor|exact (dp_step T w' a p c q IH Hc)]. }
  assert (Hreach_m : forall i, MReach T w m i -> i = root).
  { intros i (y & Hy & (q & Hd)). rewrite Hx in Hy. injection Hy as <-. rewrite Hroot in Hd.
    destruct (dpath_head T _ _ _ _ Hd) as [(E & _)|(c & q' & (n0 & Hn0 & Hc) & _)]; [exact E|]. rewrite Hnr in Hn0. injection Hn0 as <-.
    exfalso. eapply Hnokids; eauto. }
  assert (Hmr : forall m2 i, MReach T w' m2 i <-> MReach T w m2 i).
  { intros m2 i. unfold MReach, reach. destruct (N.eq_dec m2 m) as [->|Hne].
    - rewrite Hsame, Hx. cbn [set_origins set_idents m_root]. split; intros (y & [= <-] & (q & Hd)); eexists; (split; [reflexivity|]); exists q; apply Hdp; exact Hd.
    - rewrite (Hother m2 Hne). split; intros (y & Hy & (q & Hd)); exists y; (split; [exact Hy|]); exists q; apply Hdp; exact Hd. }
  assert (Hps_other : forall m2 p i, m2 <> m -> (PathSet T w' m2 p i <-> PathSet T w m2 p i)).
  { intros m2 p i Hne. unfold PathSet. rewrite Hmr. unfold SpecPath, spath. rewrite (Hother m2 Hne).
    split; intros (H1 & H2 & (y & Hy & (q & Hd & ->))); (split; [exact H1|]); (split; [exact H2|]); exists y; (split; [exact Hy|]); exists q;
      (split; [apply Hdp; exact Hd|reflexivity]). }
  split; [eapply TreeFacts_se; eauto|]. split; [|split].
  - pose proof HI as [I1 I2 I3 IL I4 I5]. constructor; try assumption.
    + intros m2 y Hy p i. destruct (N.eq_dec m2 m) as [->|Hne].
      * rewrite Hsame in Hy. injection Hy as <-. cbn [set_origins set_idents m_idents assoc_get]. split; [discriminate|].
        intros (Hr & Hid & _). exfalso. apply Hmr in Hr. rewrite (Hreach_m i Hr) in Hid.
        unfold identifiable in Hid. cbn [w' w_nodes] in Hid. rewrite Hnr in Hid. unfold identifiable_n in Hid. rewrite Hnn in Hid. discriminate.
      * rewrite (Hother m2 Hne) in Hy. rewrite (Hps_other m2 p i Hne). apply (I4 m2 y Hy).
    + intros m2 y Hy. destruct (N.eq_dec m2 m) as [->|Hne].
      * rewrite Hsame in Hy. injection Hy as <-. constructor.
      * rewrite (Hother m2 Hne) in Hy. apply (I5 m2 y Hy).
  - exact HL.
  - intros Hb. destruct (H5 Hb) as [IE IT]. constructor.
    + intros m2 y Hy p. destruct (N.eq_dec m2 m) as [->|Hne].
      * rewrite Hsame in Hy. injection Hy as <-. unfold origins_of. cbn [set_origins m_origins assoc_get]. split; [constructor|].
        intros r. split; [intros []|]. intros (Hr & Ht). apply Hmr in Hr. rewrite (Hreach_m r Hr) in Ht.
        unfold ref_text in Ht. cbn [w' w_nodes] in Ht. rewrite Hnr, Hnref in Ht. discriminate.
      * rewrite (Hother m2 Hne) in Hy. destruct (IE m2 y Hy p) as (H1 & H2). split; [exact H1|]. intros r. rewrite H2. unfold RefSet. rewrite Hmr. reflexivity.
    + intros m2 y Hy. destruct (N.eq_dec m2 m) as [->|Hne].
      * rewrite Hsame in Hy. injection Hy as <-. cbn. split; [constructor|]. intros p l [].
      * rewrite (Hother m2 Hne) in Hy. apply (IT m2 y Hy).
Qed.

Lemma gp_remove_file_last b m f w r w' :
  TreeFacts w -> root_unplain T w m = false -> last_file w m f = true -> m_remove_file T m f w = Val (r, w') -> GP b w w'.
Proof.
  intros HF0 Hplain HL H HG. unfold m_remove_file in H. wmodel H x Hx. unfold last_file, model_at in HL. rewrite Hx in HL.
  destruct (index_of (N.eqb f) (m_files x)) as [pos|]; [|discriminate].
  wbind_w H u w1 E1. 2:{ apply set_model_inv in E1 as ([=] & _). }
  apply set_model_inv in E1 as (_ & ->). rewrite HL in H.
  set (w1 := mkWorld (w_nodes w) (w_next w) (w_files w) (list_set (w_models w) (N.to_nat m) (set_mfiles x (swap_remove_at (m_files x) pos)))) in *.
  assert (HG1 : G5 b w1) by (apply (gp_fo b w w1); [apply fo_set_mfiles; exact Hx|exact HG]).
  destruct (tf_roots _ HF0 m x Hx) as (nr & Hnr & Hpr).
  unfold root_unplain, model_at in Hplain. rewrite Hx in Hplain. apply orb_false_iff in Hplain as (Hnn & Hnref).
  unfold named_node in Hnn. unfold is_ref_node in Hnref. rewrite Hnr in Hnn, Hnref.
  wnode H r0 Hr0. assert (r0 = nr) by (cbn in Hr0; congruence). subst r0.
  assert (Hex : exists nr0, w_nodes w1 (m_root x) = Some nr0 /\ n_parent nr0 = PModel m /\ n_type nr0 = n_type nr /\
                 forall c, In (CElem c) (n_content nr0) -> In (CElem c) (n_content nr)).
  { exists nr. repeat split; auto. }
  wbind_w H u2 w2 E2.
  2:{ exfalso. destruct (each_root_spec b (m_root x) m (n_type nr) Hnn (n_content nr) w1 _ _ HG1 Hex E2) as ([=] & _). }
  destruct (each_root_spec b (m_root x) m (n_type nr) Hnn (n_content nr) w1 _ _ HG1 Hex E2) as (_ & HG2 & nr2 & Hnr2 & Hp2 & Ht2 & Hk2).
  wbind_w H u3 w3 E3.
  2:{ exfalso. revert E3. unfold set_file_membership. intros E3. wnode E3 n3 Hn3. wbind_ro E3 p3 Ep3; [|apply wtry_inv in Ep3 as (? & _ & [=])].
      wbind_w E3 ps w4 E4.
      - destruct (is_empty [] || ps); [apply modify_node_inv in E3 as (? & _ & [=] & _)|winv E3].
      - destruct p3 as [[pi|]|]; try (winv E4). wnode E4 pn Hpn. wval E4 sv Hsv. winv E4. }
  pose proof (gp_set_file_membership b (m_root x) [] w2 _ w3 E3 HG2) as HG3.
  (* the root node after the file-membership reset *)
  assert (Hnr3 : exists nr3, w_nodes w3 (m_root x) = Some nr3 /\ n_type nr3 = n_type nr /\ n_content nr3 = n_content nr2 /\ n_parent nr3 = PModel m).
  { unfold set_file_membership in E3. wnode E3 n3 Hn3. rewrite Hnr2 in Hn3. injection Hn3 as <-.
    apply wbind_inv in E3 as [(p3 & wa & Ep3 & E3)|(e3 & _ & [=])].
    assert (wa = w2) as -> by (refine ((_ : ro (wtry (parent_of nr2))) _ _ _ Ep3); ro_tac).
    apply wbind_inv in E3 as [(ps & wb & E4 & E3)|(e3 & _ & [=])].
    assert (wb = w2) as ->.
    { destruct p3 as [[pi|]|]; try (apply wret_inv in E4 as (_ & ->); reflexivity).
      refine ((_ : ro (do pn <- get_node pi; do s0 <- wl (splittable T (n_type pn)); wret (negb (s0 =? 0)))%W) _ _ _ E4). ro_tac. }
    cbn [is_empty orb] in E3. apply modify_node_inv in E3 as (n4 & Hn4 & _ & ->). rewrite Hnr2 in Hn4. injection Hn4 as <-.
    eexists. cbn. rewrite upd_eq. split; [reflexivity|]. split; [exact Ht2|]. split; [reflexivity|exact Hp2]. }
  destruct Hnr3 as (nr3 & Hnr3 & Ht3 & Hc3 & Hp3).
  apply modify_model_inv in H as (y & Hy & _ & ->).
  pose proof HG3 as (HF3 & _).
  destruct (tf_pmodel _ HF3 _ _ m Hnr3 Hp3) as (x3 & Hx3 & Hr3). assert (x3 = y) by (unfold model_at in Hx3; congruence). subst x3.
  apply (cleared_inv b w3 m y (m_root x) nr3 HG3 Hx3 Hr3 Hnr3).
  - rewrite Ht3. exact Hnn.
  - rewrite Ht3. exact Hnref.
  - intros c. rewrite Hc3. apply Hk2.
Qed.

(* ---------- the two operations *)
Theorem C45_remove_from_file b e f w r w' :
  TreeFacts w -> Inv04 w -> (b = true -> Inv05 T w) -> Known04 T LATEST w (OpRemoveFromFile e f) = false ->
  e_remove_from_file T e f w = Val (r, w') -> TreeFacts w' /\ Inv04 w' /\ (b = true -> Inv05 T w').
Proof.
  intros HF HI H5 HK H. cbn in HK.
  destruct (gp_remove_from_file b e f w r w' H) as (HF' & HI' & _ & H5'); [|auto].
  split; [exact HF|]. split; [exact HI|]. split; [apply late_short_false; assumption|exact H5].
Qed.

Theorem C45_remove_file b m f w r w' :
  TreeFacts w -> Inv04 w -> (b = true -> Inv05 T w) -> Known04 T LATEST w (OpRemoveFile m f) = false ->
  m_remove_file T m f w = Val (r, w') -> TreeFacts w' /\ Inv04 w' /\ (b = true -> Inv05 T w').
Proof.
  intros HF HI H5 HK H. cbn [Known04] in HK. apply orb_false_iff in HK as (HK & HK2).
  assert (HG : G5 b w) by (split; [exact HF|]; split; [exact HI|]; split; [apply late_short_false; assumption|exact H5]).
  destruct (last_file w m f) eqn:EL.
  - cbn [andb] in HK2. destruct (gp_remove_file_last b m f w r w' HF HK2 EL H HG) as (HF' & HI' & _ & H5'). auto.
  - destruct (gp_remove_file b m f w r w' EL H HG) as (HF' & HI' & _ & H5'). auto.
Qed.

End FilesOps.
