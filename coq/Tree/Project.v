(* Tree/Project.v — C07 (reload clause): the content of ONE file of a model as a pure element tree (the trees of Xml/Parser.v,
   over which C01 states the round trip and C08 StrictValid).  The filter is the one ArxmlFile::serialize applies
   (Tree/Serialize.v `passes`): a sub-element belongs to the file when its local file set is empty or contains the file.
   Also: SVNR = StrictValid (Xml/StrictValidDef.v) without the clause "every required attribute is present", and the node-wise
   condition WorldOK under which the projection is SVNR (proved in Tree/RangeProofsProject.v).   DEFINITIONS only. *)
From AV Require Import Base.Bytes Base.Outcome Spec.SpecOps Tree.Heap Tree.Range.
From AV Require Xml.Parser Xml.StrictValidDef.
Open Scope list_scope.
Open Scope N_scope.

Definition to_pc (d : cdata) : Parser.cdata :=
  match d with
  | DEnum e => Parser.DEnum e | DString s => Parser.DString s | DUInt n => Parser.DUInt n | DFloat b => Parser.DFloat b
  end.

Definition passes (for_file : option N) (n : node) : bool :=
  match for_file with None => true | Some f => is_empty (n_files n) || set_mem f (n_files n) end.

Fixpoint proj_items (rec : id -> option Parser.etree) (w : world) (ff : option N) (l : list citem)
  : option (list (Parser.etree + Parser.cdata)) :=
  match l with
  | [] => Some []
  | CData d :: r => option_map (cons (inr (to_pc d))) (proj_items rec w ff r)
  | CElem c :: r =>
    match w_nodes w c with
    | None => None
    | Some cn =>
      if passes ff cn then
        match rec c, proj_items rec w ff r with
        | Some t, Some rest => Some (inl t :: rest)
        | _, _ => None
        end
      else proj_items rec w ff r
    end
  end.

Fixpoint proj (fuel : nat) (w : world) (ff : option N) (i : id) {struct fuel} : option Parser.etree :=
  match fuel with
  | O => None
  | S f =>
    match w_nodes w i with
    | None => None
    | Some n =>
      option_map (fun c => Parser.ENode (n_name n) (n_type n) (map (fun a => (fst a, to_pc (snd a))) (n_attrs n)) c (n_comment n))
                 (proj_items (proj f w ff) w ff (n_content n))
    end
  end.

(* the child list of a node restricted to one file: names of the sub-elements that pass, None for character data *)
Fixpoint kept_items (w : world) (ff : option N) (l : list citem) : option (list (option N)) :=
  match l with
  | [] => Some []
  | CData _ :: r => option_map (cons None) (kept_items w ff r)
  | CElem c :: r =>
    match w_nodes w c with
    | None => None
    | Some cn => if passes ff cn then option_map (cons (Some (n_name cn))) (kept_items w ff r) else kept_items w ff r
    end
  end.

Section ProjectDefs.
Import Xml.Parser Xml.StrictValidDef.
Variable T : tables.
Variable check_fn : N -> list N -> res bool.
Variable ver : N.

(* StrictValid without "every required attribute is present" *)
Inductive SVNR : etree -> Prop :=
| SVNR_node name ty attrs content comment :
    Forall (attr_valid T check_fn ver ty) attrs -> children_nr ty [] [] content -> shortname_ok T ver ty content ->
    SVNR (ENode name ty attrs content comment)
with children_nr : etype -> list N -> list (etree + Parser.cdata) -> list (etree + Parser.cdata) -> Prop :=
| cn_nil ty prev pre : children_nr ty prev pre []
| cn_elem ty prev pre c rest idx :
    find_sub_element T ty (e_name c) ver = Val (Some (e_type c, idx)) ->
    no_conflict T ty prev idx -> mult_ok T ty idx (e_name c) pre -> SVNR c ->
    children_nr ty idx (pre ++ [inl c]) rest -> children_nr ty prev pre (inl c :: rest)
| cn_text ty prev pre v rest :
    text_ok T check_fn ver ty v -> children_nr ty prev (pre ++ [inr v]) rest -> children_nr ty prev pre (inr v :: rest).

(* what the world must satisfy, node by node *)
Definition node_ok (w : world) (ff : option N) (n : node) : Prop :=
  Forall (attr_valid T check_fn ver (n_type n)) (map (fun a => (fst a, to_pc (snd a))) (n_attrs n)) /\
  (forall d, In (CData d) (n_content n) -> text_ok T check_fn ver (n_type n) (to_pc d)) /\
  (exists items, items_of w (n_content n) = Some items /\ Ordered T (n_type n) ver items) /\
  (forall c cn, In (CElem c) (n_content n) -> w_nodes w c = Some cn ->
     exists idx, find_sub_element T (n_type n) (n_name cn) ver = Val (Some (n_type cn, idx))) /\
  (is_named_in_version T (n_type n) ver = Val true ->
     exists c cn, In (CElem c) (n_content n) /\ w_nodes w c = Some cn /\ passes ff cn = true /\ n_name cn = name_short_name T).

Definition WorldOK (w : world) (ff : option N) : Prop := forall i n, w_nodes w i = Some n -> node_ok w ff n.

End ProjectDefs.

(* ------------------------------------------------------------------ the loader's own typing of a subtree
   The loader never sees the STORED type of an element: it gives the root of what it reads a type and every sub-element the
   type the parent's type lists for the sub-element's NAME in the file version.  LoaderWalk fuel w v i lt: reading the subtree
   below i with type lt in version v, to depth fuel, every child list passes the loader's checks (LoaderAccepts) and every
   sub-element's name resolves (no IncorrectBeginElement / ElementVersionError); n_type plays no role.
   OrdSet w v S: S is closed under sub-elements and the child list of every element of S is in the specification order of its
   STORED type in version v (what the order invariants of the editing calls maintain). *)
Section LoaderWalkDefs.
Variable T : tables.

Fixpoint LoaderWalk (fuel : nat) (w : world) (v : N) (i : id) (lt : etype) {struct fuel} : Prop :=
  match fuel with
  | O => True
  | S f =>
    exists n items, w_nodes w i = Some n /\ items_of w (n_content n) = Some items /\ LoaderAccepts T lt v items /\
      forall c cn, In (CElem c) (n_content n) -> w_nodes w c = Some cn ->
        exists et ix, find_sub_element T lt (n_name cn) v = Val (Some (et, ix)) /\ LoaderWalk f w v c et
  end.

Definition OrdSet (w : world) (v : N) (S : id -> Prop) : Prop :=
  forall i, S i -> exists n items, w_nodes w i = Some n /\ items_of w (n_content n) = Some items /\
    Ordered T (n_type n) v items /\ forall c, In (CElem c) (n_content n) -> S c.

End LoaderWalkDefs.
