(* Tree/ProjectCanon.v — C07 (reload clause): the part of C01's RootCanon (Xml/RoundTripFile.v: "the loader reads the written
   text back as this very tree, silently") that does NOT follow from WorldOK (Tree/Project.v), stated node by node over the
   world instead of over the projected tree.        DEFINITIONS only (proofs: Tree/RangeProofsCanon.v).
   WorldOK gives the structure: every child resolves to its stored type, no choice conflict, multiplicities, SHORT-NAME where
   named (all via the order invariant).  What remains are conditions on VALUES and spellings, which no editing call checks or
   which the property explicitly exempts:
     comment text that the lexer reads back (no "--", valid UTF-8)                 [C01 class: comment]
     the element name has a clean spelling in the name table                        [table fact]
     attributes: canonical value spellings, known in the version, and every REQUIRED attribute present
                                                                                     [the allowed RequiredAttributeMissing lives here]
     character data: canonical value spellings, not blank                           [known finding string-blank-or-empty]
     the kept content has the layout the serializer writes for the content mode: at most one value in a Characters
       element, no two neighbouring texts in a Mixed element, no text elsewhere    [C10: hollow / C08: single value]
   RootHeader: the root is the AUTOSAR element and its attributes are the header from which the loader derives `ver`
       (known finding root-namespace-editable is its failure). *)
From AV Require Import Base.Bytes Base.Outcome Hash.HashModel Spec.SpecOps Spec.Versions Tree.Heap Tree.Range Tree.Project.
From AV Require Xml.Parser Xml.StrictValidDef Xml.RoundTripAttrs Xml.RoundTripElem Xml.RoundTripFile.
Open Scope string_scope.
Open Scope list_scope.
Open Scope N_scope.

Section CanonDefs.
Import Xml.Parser Xml.RoundTripAttrs Xml.RoundTripElem.
Variable strict : bool.
Variable T : tables.
Variable tab_el tab_at tab_en : nametab.
Variable check_fn : N -> list N -> res bool.
Variable float_fmt : N -> list N.
Variable float_parse : list N -> option N.
Variable ver : N.

(* the layout of the kept child list (None = a character data item) that the serializer can write back for a content mode;
   the counterpart of RoundTripElem.ShapeOk over Range.v's abstraction of a child list *)
Definition ShapeKept (mode : N) (k : list (option N)) : Prop :=
  if mode =? MCharacters then k = [] \/ k = [None]
  else if mode =? MMixed then forall (a b : option N) pre post, k = pre ++ a :: b :: post -> a = None -> b <> None
  else Forall (fun c : option N => c <> None) k.

(* va: the version under which the attributes are read (the file version; for the root the placeholder 4.0.1) *)
Definition NodeCanonAt (va : N) (w : world) (ff : option N) (n : node) : Prop :=
  CommentsOk (n_comment n) /\
  (exists nm, ElemNameOk tab_el (n_name n) nm) /\
  AttrsOk T tab_at tab_en check_fn float_fmt float_parse va (n_type n) (map (fun a => (fst a, to_pc (snd a))) (n_attrs n)) /\
  (exists mode kitems named, content_mode T (n_type n) = Val mode /\ kept_items w ff (n_content n) = Some kitems /\
     ShapeKept mode kitems /\ is_named_in_version T (n_type n) ver = Val named /\
     (* only a SHORT-NAME that is the FIRST content item names the element for the loader (parser.rs, fix of the late
        SHORT-NAME defect): the kept content of a named element starts with it *)
     (named = true -> exists r, kitems = Some (name_short_name T) :: r)) /\
  (forall d, In (CData d) (n_content n) -> TextOk T tab_en check_fn float_fmt float_parse ver (n_type n) (to_pc d)).

(* every element except the root *)
Definition WorldCanon (w : world) (ff : option N) (root : id) : Prop :=
  (forall i n, w_nodes w i = Some n -> i <> root -> NodeCanonAt ver w ff n) /\
  (forall i n, w_nodes w i = Some n -> ~ In (CElem root) (n_content n)).

Definition RootHeader (w : world) (ff : option N) (root : id) : Prop :=
  exists rn e v401,
    w_nodes w root = Some rn /\ elem T (autosar_element T) = Val e /\ version_of_ident "Autosar_4_0_1" = Some v401 /\
    n_name rn = ed_name e /\ n_type rn = (autosar_element T, ed_type e) /\
    NodeCanonAt v401 w ff rn /\
    (forall st, parse_file_header strict tab_at (map (fun a => (fst a, to_pc (snd a))) (n_attrs rn)) st
                = Val (Ret tt (Parser.set_version st ver))).

(* the structural part of WorldOK that the canonical form needs: order, exact types, SHORT-NAME where named (no value clauses) *)
Definition node_struct (w : world) (ff : option N) (n : node) : Prop :=
  (exists items, items_of w (n_content n) = Some items /\ Ordered T (n_type n) ver items) /\
  (forall c cn, In (CElem c) (n_content n) -> w_nodes w c = Some cn ->
     exists idx, find_sub_element T (n_type n) (n_name cn) ver = Val (Some (n_type cn, idx))) /\
  (is_named_in_version T (n_type n) ver = Val true ->
     exists c cn, In (CElem c) (n_content n) /\ w_nodes w c = Some cn /\ passes ff cn = true /\ n_name cn = name_short_name T).

Definition WorldStruct (w : world) (ff : option N) : Prop := forall i n, w_nodes w i = Some n -> node_struct w ff n.

End CanonDefs.
