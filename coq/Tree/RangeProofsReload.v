(* Tree/RangeProofsReload.v — C07 (reload clause): the composition with C01's file round trip, as a corollary with explicit
   hypotheses.  What is PROVED here: for a world that is node-wise OK (Tree/RangeProofsProject.v WorldOK: Ordered child lists,
   recorded child types = resolved types, checked values and attributes, SHORT-NAME where named), the projection t of a file
   is StrictValid-minus-required-attributes (SVNR); and IF t is moreover canonical in C01's sense (RootCanon: canonical value
   spellings, comments, required attributes present, header attributes of the version) THEN loading the bytes that
   serialize_file produces for t gives back exactly t, in strict and lenient mode, with no warning.
   What is NOT proved (stated as hypotheses): RootCanon of the projection (values drawn from outside the canonical forms and
   never-set required attributes are exactly where the recorded findings and the allowed RequiredAttributeMissing live), and
   that ArxmlFile::serialize over the heap (Tree/Serialize.v f_serialize) writes the bytes of serialize_file of the projection. *)
From AV Require Import Base.Bytes Base.Outcome Hash.HashModel Spec.SpecOps Tree.Heap Tree.Range Tree.SpecWF Tree.Project
  Tree.RangeProofsProject.
From AV Require Import Xml.Lexer Xml.Parser Xml.Serializer Xml.StrictValidDef Xml.RoundTripFile.
Open Scope list_scope.
Open Scope N_scope.

Theorem reload_clean_composed :
  forall (strict : bool) (T : tables) (tab_el tab_at tab_en : nametab) (check_fn : N -> list N -> res bool)
         (float_fmt : N -> list N) (float_parse : list N -> option N) (ver : N),
  SpecWF T ->
  forall (w : world) (f : N) (fuel : nat) (root : id) (t : etree) (sa : option bool) (bs : list N),
  WorldOK T check_fn ver w (Some f) ->
  proj fuel w (Some f) root = Some t ->
  RootCanon strict T tab_el tab_at tab_en check_fn float_fmt float_parse ver t ->
  Serializer.set_version T tab_at check_fn ver t = Val t ->
  serialize_file T tab_el tab_at tab_en check_fn float_fmt ver sa t = Val bs ->
  SVNR T check_fn ver t /\
  exists st, load strict T tab_el tab_at tab_en check_fn float_parse bs = Val (Ret t st) /\
             p_warnings st = [] /\ p_version st = ver /\ p_standalone st = sa.
Proof.
  intros strict T tab_el tab_at tab_en check_fn float_fmt float_parse ver WF w f fuel root t sa bs OK HP RC SV SF.
  split.
  - destruct (proj_svnr T check_fn ver WF w (Some f) OK fuel root t HP) as (H & _). exact H.
  - eapply serialize_load_roundtrip; eauto.
Qed.
