(* Tree/CompatSerLink.v — the text the heap serializer writes for a file IS the text of the v-typed projection:
     ser_heap fuel w (Some f) i indent inline = ser_elem (vproj .. fuel ty i) indent inline
   for every node strict validation visits, provided (SerCond)
     - the node's stored type and its v-type have the same content mode (follows from rel_ok when the datatypes are equal),
     - a Characters-mode node does not start with a sub-element,
     - a node with content keeps at least one item in the file (otherwise the heap writes <X>..</X>, the projection <X/>).
   Hence ArxmlFile::serialize's output after its relabelling step is xml_header ++ ser_elem (relabelled projection). *)
From Coq Require Import PeanoNat Arith Lia.
From AV Require Import Base.Bytes Base.Outcome Hash.HashModel Spec.SpecOps Tree.Heap Tree.Ops Tree.Script Tree.Serialize
  Tree.Inv Tree.InvProofsBase Tree.InvProofsCore Tree.InvProofsTree Tree.Files Tree.FilesProofsBase Tree.FilesProofsProj
  Tree.Compat Tree.CompatSpec Tree.CompatBridge.
From AV Require Import Xml.Parser Xml.Serializer Xml.StrictValidDef.
Open Scope string_scope.
Open Scope list_scope.
Open Scope N_scope.

Section Link.
Variable T : tables.
Variable tab_el tab_at tab_en : nametab.
Variable float_fmt : N -> list N.
Variable w : world.
Variable f v : N.

Notation SH := (ser_heap T tab_el tab_at tab_en float_fmt).
Notation SE := (ser_elem T tab_el tab_at tab_en float_fmt).

Definition tree_items (indent : nat) : list (etree + Parser.cdata) -> res (list N) :=
  fix items (l : list (etree + Parser.cdata)) : res (list N) :=
    match l with
    | [] => Val []
    | inl sub :: l' => (let* a := SE sub (S indent) true in let* b := items l' in Val (a ++ b))%res
    | inr cd :: l' => (let* a := ser_cdata tab_en float_fmt cd in let* b := items l' in Val (a ++ b))%res
    end.
Definition tree_subs (indent : nat) : list (etree + Parser.cdata) -> res (list N) :=
  fix subs (l : list (etree + Parser.cdata)) : res (list N) :=
    match l with
    | [] => Val []
    | inl sub :: l' => (let* a := SE sub (S indent) false in let* b := subs l' in Val (a ++ b))%res
    | inr _ :: l' => subs l'
    end.

Lemma ser_elem_unfold name ty attrs content comment indent inline :
  SE (ENode name ty attrs content comment) indent inline =
  (let* nm := unwrap "ElementName::to_str: STRING_TABLE index" (to_str tab_el name) in
   let* ats := ser_attrs tab_at tab_en float_fmt attrs in
   let pre := comment_part comment indent inline ++ (if inline then [] else newline_indent indent) in
   match content with
   | [] => Val (pre ++ [60] ++ nm ++ ats ++ [47; 62])
   | first :: _ =>
     let* mode := content_mode T ty in
     let open_tag := [60] ++ nm ++ ats ++ [62] in
     let close_tag := [60; 47] ++ nm ++ [62] in
     if mode =? MCharacters then
       let* body := match first with inr cd => ser_cdata tab_en float_fmt cd | inl _ => Val [] end in
       Val (pre ++ open_tag ++ body ++ close_tag)
     else if mode =? MMixed then
       let* body := tree_items indent content in Val (pre ++ open_tag ++ body ++ close_tag)
     else
       let* body := tree_subs indent content in Val (pre ++ open_tag ++ body ++ newline_indent indent ++ close_tag)
   end)%res.
Proof. reflexivity. Qed.

(* the side condition, for the nodes strict validation of file f visits *)
Definition kept (it : citem) : Prop :=
  match it with CData _ => True | CElem c => exists cn, w_nodes w c = Some cn /\ in_file f cn = true end.
Definition SerCond : Prop :=
  forall ty i n, Vis T w f v ty i -> w_nodes w i = Some n ->
    content_mode T (n_type n) = content_mode T ty /\
    (content_mode T ty = Val MCharacters -> forall c rest, n_content n <> CElem c :: rest) /\
    (n_content n <> [] -> exists it, In it (n_content n) /\ kept it).

Section Loops.
Variable fl : nat.
Hypothesis IH : forall tc c t indent inline, Vis T w f v tc c -> vproj T w f v fl tc c = Some t -> SH fl w (Some f) c indent inline = SE t indent inline.
Variable ty : N * N.
Variable i : id.
Variable n : node.
Hypothesis HV : Vis T w f v ty i.
Hypothesis Hn : w_nodes w i = Some n.

Lemma items_link indent : forall l content',
  (forall c, In (CElem c) l -> In (CElem c) (n_content n)) ->
  vproj_items T w f v (vproj T w f v fl) ty l = Some content' ->
  heap_items T tab_el tab_at tab_en float_fmt fl w (Some f) indent l = tree_items indent content'.
Proof.
  induction l as [|[c|d] l IHl]; intros content' Hl HP; cbn [vproj_items] in HP.
  - injection HP as <-. reflexivity.
  - assert (Hl' : forall c0, In (CElem c0) l -> In (CElem c0) (n_content n)) by (intros c0 H0; apply Hl; right; exact H0).
    cbn [heap_items]. destruct (w_nodes w c) as [cn|] eqn:Ecn; [|discriminate].
    unfold passes. fold (in_file f cn). destruct (in_file f cn) eqn:Ef; [|exact (IHl _ Hl' HP)].
    destruct (find_sub_element T ty (n_name cn) v) as [[[tc ixs]|]| |] eqn:Efind; try discriminate.
    destruct (vproj T w f v fl tc c) as [t|] eqn:Et; [|discriminate].
    destruct (vproj_items T w f v (vproj T w f v fl) ty l) as [rest|] eqn:Er; [|discriminate]. injection HP as <-.
    cbn [tree_items].
    rewrite (IH tc c t (S indent) true (Vis_child T w f v ty i n c cn tc ixs HV Hn (Hl c (or_introl eq_refl)) Ecn Ef Efind) Et).
    rewrite (IHl rest Hl' eq_refl). reflexivity.
  - assert (Hl' : forall c0, In (CElem c0) l -> In (CElem c0) (n_content n)) by (intros c0 H0; apply Hl; right; exact H0).
    destruct (vproj_items T w f v (vproj T w f v fl) ty l) as [rest|] eqn:Er; [|discriminate]. cbn [option_map] in HP. injection HP as <-.
    cbn [heap_items tree_items]. unfold ser_cd. rewrite (IHl rest Hl' eq_refl). reflexivity.
Qed.

Lemma subs_link indent : forall l content',
  (forall c, In (CElem c) l -> In (CElem c) (n_content n)) ->
  vproj_items T w f v (vproj T w f v fl) ty l = Some content' ->
  heap_subs T tab_el tab_at tab_en float_fmt fl w (Some f) indent l = tree_subs indent content'.
Proof.
  induction l as [|[c|d] l IHl]; intros content' Hl HP; cbn [vproj_items] in HP.
  - injection HP as <-. reflexivity.
  - assert (Hl' : forall c0, In (CElem c0) l -> In (CElem c0) (n_content n)) by (intros c0 H0; apply Hl; right; exact H0).
    cbn [heap_subs]. destruct (w_nodes w c) as [cn|] eqn:Ecn; [|discriminate].
    unfold passes. fold (in_file f cn). destruct (in_file f cn) eqn:Ef; [|exact (IHl _ Hl' HP)].
    destruct (find_sub_element T ty (n_name cn) v) as [[[tc ixs]|]| |] eqn:Efind; try discriminate.
    destruct (vproj T w f v fl tc c) as [t|] eqn:Et; [|discriminate].
    destruct (vproj_items T w f v (vproj T w f v fl) ty l) as [rest|] eqn:Er; [|discriminate]. injection HP as <-.
    cbn [tree_subs].
    rewrite (IH tc c t (S indent) false (Vis_child T w f v ty i n c cn tc ixs HV Hn (Hl c (or_introl eq_refl)) Ecn Ef Efind) Et).
    rewrite (IHl rest Hl' eq_refl). reflexivity.
  - assert (Hl' : forall c0, In (CElem c0) l -> In (CElem c0) (n_content n)) by (intros c0 H0; apply Hl; right; exact H0).
    destruct (vproj_items T w f v (vproj T w f v fl) ty l) as [rest|] eqn:Er; [|discriminate]. cbn [option_map] in HP. injection HP as <-.
    cbn [heap_subs tree_subs]. exact (IHl rest Hl' eq_refl).
Qed.

(* a kept item survives the projection *)
Lemma kept_nonempty : forall l content', vproj_items T w f v (vproj T w f v fl) ty l = Some content' ->
  (exists it, In it l /\ kept it) -> content' <> [].
Proof.
  induction l as [|[c|d] l IHl]; intros content' HP (it & Hin & Hk); [destruct Hin|..]; cbn [vproj_items] in HP.
  - destruct (w_nodes w c) as [cn|] eqn:Ecn; [|discriminate].
    destruct (in_file f cn) eqn:Ef.
    + destruct (find_sub_element T ty (n_name cn) v) as [[[tc ixs]|]| |]; try discriminate.
      destruct (vproj T w f v fl tc c); [|discriminate]. destruct (vproj_items T w f v (vproj T w f v fl) ty l); [|discriminate].
      injection HP as <-. discriminate.
    + apply (IHl _ HP). destruct Hin as [<-|Hin]; [|eauto].
      destruct Hk as (cn' & Hcn' & Hf'). rewrite Ecn in Hcn'. injection Hcn' as <-. rewrite Ef in Hf'. discriminate.
  - destruct (vproj_items T w f v (vproj T w f v fl) ty l); [|discriminate]. cbn [option_map] in HP. injection HP as <-. discriminate.
Qed.
End Loops.

Hypothesis HC : SerCond.

Theorem ser_heap_vproj fuel : forall ty i t indent inline,
  Vis T w f v ty i -> vproj T w f v fuel ty i = Some t -> SH fuel w (Some f) i indent inline = SE t indent inline.
Proof.
  induction fuel as [|fl IH]; intros ty i t indent inline HV HP; [discriminate|].
  cbn [vproj] in HP. destruct (w_nodes w i) as [n|] eqn:En; [|discriminate].
  destruct (vproj_items T w f v (vproj T w f v fl) ty (n_content n)) as [content'|] eqn:Ei; [|discriminate]. injection HP as <-.
  destruct (HC ty i n HV En) as (Hmode & Hchars & Hkept).
  rewrite (ser_heap_unfold T tab_el tab_at tab_en float_fmt fl w (Some f) i indent inline), En, ser_elem_unfold.
  destruct (unwrap "ElementName::to_str: STRING_TABLE index" (to_str tab_el (n_name n))) as [nm| |]; cbn [bind]; try reflexivity.
  unfold ser_ats. fold (pc_attrs (n_attrs n)).
  destruct (n_content n) as [|first restc] eqn:Ec.
  - cbn [vproj_items] in Ei. injection Ei as <-. destruct (ser_attrs tab_at tab_en float_fmt (pc_attrs [])); reflexivity || (destruct (ser_attrs tab_at tab_en float_fmt (pc_attrs (n_attrs n))); reflexivity).
  - assert (Hne : content' <> []).
    { apply (kept_nonempty fl ty (first :: restc) content' Ei). apply Hkept. discriminate. }
    destruct content' as [|first' rest']; [congruence|].
    destruct (ser_attrs tab_at tab_en float_fmt (pc_attrs (n_attrs n))) as [ats| |]; cbn [bind]; try reflexivity.
    rewrite Hmode. destruct (content_mode T ty) as [mode| |] eqn:Em; cbn [bind]; try reflexivity.
    destruct (mode =? MCharacters) eqn:Emc.
    + apply N.eqb_eq in Emc. subst mode.
      destruct first as [c|d]; [exfalso; exact (Hchars eq_refl c restc eq_refl)|].
      cbn [vproj_items] in Ei. destruct (vproj_items T w f v (vproj T w f v fl) ty restc); [|discriminate].
      cbn [option_map] in Ei. injection Ei as <- <-. reflexivity.
    + assert (Hl : forall c, In (CElem c) (first :: restc) -> In (CElem c) (n_content n)) by (intros c Hc; rewrite Ec; exact Hc).
      destruct (mode =? MMixed).
      * rewrite (items_link fl (fun tc c t ind inl HVc Hc => IH tc c t ind inl HVc Hc) ty i n HV En indent _ _ Hl Ei). reflexivity.
      * rewrite (subs_link fl (fun tc c t ind inl HVc Hc => IH tc c t ind inl HVc Hc) ty i n HV En indent _ _ Hl Ei). reflexivity.
Qed.

End Link.

(* ------------------------------------------------------------------ ArxmlFile::serialize *)
Section FileText.
Variable T : tables.
Variable tab_el tab_at tab_en : nametab.
Variable check_fn : N -> list N -> res bool.
Variable float_fmt : N -> list N.
Variable attr_schema_location : N.

(* the text ArxmlFile::serialize returns is the header plus the serialization of the v-typed projection of the world it leaves
   behind (the root's xsi:schemaLocation already rewritten) *)
Theorem heap_text_is_projection w f v text w1 t :
  f_serialize T tab_el tab_at tab_en check_fn float_fmt attr_schema_location f w = Val (OK text, w1) ->
  SerCond T w1 f v -> file_tree T w1 f v t ->
  exists fl body, nth_opt (w_files w1) (N.to_nat f) = Some fl /\
    text = xml_header (f_standalone fl) ++ body /\ ser_elem T tab_el tab_at tab_en float_fmt t 0 false = Val body.
Proof.
  intros H HC (r & ty & Hroot & HP). unfold f_serialize in H.
  wstepn H fl Ef. apply get_file_inv in Ef as (fl' & Hfl & Efl & _). assert (fl = fl') by congruence. subst fl'. clear Efl.
  wstepn H m Em. apply get_model_inv in Em as (m' & Hm & Emm & _). assert (m = m') by congruence. subst m'. clear Emm.
  wstepn H fm Efm. destruct fm as [lc files].
  destruct (negb (set_mem f files)); [apply wfail_inv in H as ([=] & _)|].
  wstepn H fname Efn.
  wstepn H o Ea. apply wtry_inv in Ea as (r1 & Ea & _).
  match type of Ea with _ ?wa = Val (_, ?wb) => assert (Hfm : w_files wb = w_files wa /\ w_models wb = w_models wa) end.
  { unfold raw_set_attribute in Ea. revert Ea. clear. intros Ea.
    wstepn Ea n En. wstepn Ea sp Es.
    destruct sp as [[[[cd spec] req] mask]|]; [|apply wfail_inv in Ea as (_ & ->); auto].
    destruct (N.land _ mask =? 0); [apply wfail_inv in Ea as (_ & ->); auto|].
    wstepn Ea ok Eo. destruct ok; [|apply wfail_inv in Ea as (_ & ->); auto].
    apply set_node_wset in Ea as (_ & ->). auto.
    all: auto. }
  destruct Hfm as (Hf1 & Hm1).
  destruct (ser_heap T tab_el tab_at tab_en float_fmt _ _ (Some f) (m_root m) 0 false) as [s| |] eqn:Es; try discriminate.
  injection H as <- <-.
  destruct Hroot as (x & mx & nx & Hx & Hmx & -> & Hnx & ->).
  rewrite Hf1 in Hx. rewrite Hfl in Hx. injection Hx as <-. rewrite Hm1 in Hmx. rewrite Hm in Hmx. injection Hmx as <-.
  exists fl, s. split; [rewrite Hf1; exact Hfl|]. split; [reflexivity|].
  rewrite <- Es. symmetry.
  apply (ser_heap_vproj T tab_el tab_at tab_en float_fmt _ f v HC _ (n_type nx) (m_root m) t 0%nat false); [|exact HP].
  apply Vis_root. exists fl, m, nx. rewrite Hf1, Hm1. auto.
Qed.

End FileText.
