(* Base/Outcome.v — result type of every model function that mirrors Rust code which can panic.
   Val a      : the Rust expression evaluates to a
   Pan site   : the Rust panics (index / slice out of range, unwrap on None, unreachable!, overflow)
   Fuel       : the MODEL ran out of recursion fuel (never a behaviour of the code; theorems exclude it
                by proving a fuel bound, finite sweeps check that it does not occur) *)
From Coq Require Export String.
From Coq Require Import List.

Inductive res (A : Type) : Type := Val (a : A) | Pan (site : string) | Fuel.
Arguments Val {A} a.
Arguments Pan {A} site.
Arguments Fuel {A}.

Definition bind {A B} (m : res A) (f : A -> res B) : res B :=
  match m with Val a => f a | Pan s => Pan s | Fuel => Fuel end.

Declare Scope res_scope.
Delimit Scope res_scope with res.
Notation "'let*' x ':=' m 'in' k" := (bind m (fun x => k))
  (at level 200, x name, m at level 100, k at level 200, right associativity) : res_scope.
Notation "'let*' ' p ':=' m 'in' k" := (bind m (fun x => match x with p => k end))
  (at level 200, p pattern, m at level 100, k at level 200, right associativity) : res_scope.

(* Rust `opt.unwrap()` / indexing with a table that may be out of range *)
Definition unwrap {A} (site : string) (o : option A) : res A :=
  match o with Some a => Val a | None => Pan site end.

Definition is_val {A} (r : res A) : bool := match r with Val _ => true | _ => false end.
Definition is_pan {A} (r : res A) : bool := match r with Pan _ => true | _ => false end.

Lemma bind_val {A B} (m : res A) (f : A -> res B) b :
  bind m f = Val b -> exists a, m = Val a /\ f a = Val b.
Proof. destruct m; cbn; try discriminate. eauto. Qed.
