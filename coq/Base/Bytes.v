(* Base/Bytes.v — bytes are N (< 256), byte strings are list N.
   Shared by every model.  No proofs about the code here. *)
From Coq Require Export List NArith Bool Lia String Ascii.
From Coq.Strings Require Import Byte.
Export ListNotations.
Open Scope N_scope.

Definition is_byte (b : N) : bool := b <? 256.
Definition bytes_ok (s : list N) : bool := forallb is_byte s.

Definition bytes_of_string (s : string) : list N :=
  map Byte.to_N (list_byte_of_string s).

(* BS "abc" : the bytes of an ASCII literal (no notation: a keyword would capture identifiers) *)
Definition BS (s : string) : list N := bytes_of_string s.

Fixpoint bytes_eqb (a b : list N) : bool :=
  match a, b with
  | [], [] => true
  | x :: a', y :: b' => (x =? y) && bytes_eqb a' b'
  | _, _ => false
  end.

Lemma bytes_eqb_spec a b : bytes_eqb a b = true <-> a = b.
Proof.
  revert b; induction a as [|x a IH]; intros [|y b]; cbn [bytes_eqb];
    try (split; congruence).
  rewrite andb_true_iff, N.eqb_eq, IH. split.
  - intros [-> ->]; reflexivity.
  - intros H; inversion H; auto.
Qed.

Lemma bytes_eqb_refl a : bytes_eqb a a = true.
Proof. apply bytes_eqb_spec; reflexivity. Qed.

Definition all_bytes : list N := map N.of_nat (seq 0 256).

Lemma all_bytes_spec b : b < 256 -> In b all_bytes.
Proof.
  intros H. unfold all_bytes. apply in_map_iff.
  exists (N.to_nat b). split; [apply N2Nat.id|].
  apply in_seq. lia.
Qed.

Lemma all_bytes_lt b : In b all_bytes -> b < 256.
Proof.
  unfold all_bytes. intros H. apply in_map_iff in H as (n & <- & Hn).
  apply in_seq in Hn. lia.
Qed.

Lemma bytes_ok_forall s : bytes_ok s = true <-> Forall (fun b => b < 256) s.
Proof.
  unfold bytes_ok. rewrite forallb_forall, Forall_forall.
  unfold is_byte. split; intros H x Hx; specialize (H x Hx);
    [apply N.ltb_lt | apply N.ltb_lt]; exact H.
Qed.

Lemma bytes_of_string_ok s : bytes_ok (bytes_of_string s) = true.
Proof.
  apply bytes_ok_forall, Forall_forall. intros b Hb.
  unfold bytes_of_string in Hb. apply in_map_iff in Hb as (x & <- & _).
  destruct x; vm_compute; reflexivity.
Qed.

(* nth with explicit failure: models a Rust index expression that panics *)
Fixpoint nth_opt {A} (l : list A) (n : nat) : option A :=
  match l, n with
  | [], _ => None
  | x :: _, O => Some x
  | _ :: l', S n' => nth_opt l' n'
  end.

Lemma nth_opt_Some {A} (l : list A) n x : nth_opt l n = Some x -> (n < List.length l)%nat.
Proof.
  revert n; induction l as [|y l IH]; intros [|n]; cbn; try congruence; try lia.
  intros H; apply IH in H; lia.
Qed.

Lemma nth_opt_lt {A} (l : list A) n : (n < List.length l)%nat -> exists x, nth_opt l n = Some x.
Proof.
  revert n; induction l as [|y l IH]; intros [|n]; cbn; try lia; eauto.
  intros H; apply IH; lia.
Qed.

Lemma nth_opt_In {A} (l : list A) n x : nth_opt l n = Some x -> In x l.
Proof.
  revert n; induction l as [|y l IH]; intros [|n]; cbn; try congruence.
  - intros [= ->]; auto.
  - intros H; right; eapply IH; eauto.
Qed.

Lemma nth_opt_nth_error {A} (l : list A) n : nth_opt l n = nth_error l n.
Proof. revert n; induction l as [|y l IH]; intros [|n]; cbn; auto. Qed.
