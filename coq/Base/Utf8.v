(* Base/Utf8.v — std::str::from_utf8 (validity), String::from_utf8_lossy (maximal-subpart replacement, as
   core::str::Utf8Chunks implements it), char::from_u32 and UTF-8 encoding.  Models of std, sampled by the
   correspondence harness; nothing of the repository is modelled here. *)
From AV Require Import Base.Bytes.
Open Scope N_scope.

Definition in_rng (lo hi c : N) : bool := (lo <=? c) && (c <=? hi).
Definition is_cont (c : N) : bool := in_rng 128 191 c.

(* length of the chunk starting at the head of s: (valid?, number of bytes consumed >= 1) *)
Definition utf8_chunk (s : list N) : bool * nat :=
  match s with
  | [] => (true, 0%nat)
  | b0 :: r =>
    if b0 <? 128 then (true, 1%nat)
    else if in_rng 194 223 b0 then
      match r with b1 :: _ => if is_cont b1 then (true, 2%nat) else (false, 1%nat) | [] => (false, 1%nat) end
    else if in_rng 224 239 b0 then
      let lo := if b0 =? 224 then 160 else 128 in
      let hi := if b0 =? 237 then 159 else 191 in
      match r with
      | b1 :: r1 =>
        if in_rng lo hi b1 then
          match r1 with b2 :: _ => if is_cont b2 then (true, 3%nat) else (false, 2%nat) | [] => (false, 2%nat) end
        else (false, 1%nat)
      | [] => (false, 1%nat)
      end
    else if in_rng 240 244 b0 then
      let lo := if b0 =? 240 then 144 else 128 in
      let hi := if b0 =? 244 then 143 else 191 in
      match r with
      | b1 :: r1 =>
        if in_rng lo hi b1 then
          match r1 with
          | b2 :: r2 =>
            if is_cont b2 then
              match r2 with b3 :: _ => if is_cont b3 then (true, 4%nat) else (false, 3%nat) | [] => (false, 3%nat) end
            else (false, 2%nat)
          | [] => (false, 2%nat)
          end
        else (false, 1%nat)
      | [] => (false, 1%nat)
      end
    else (false, 1%nat)
  end.

Fixpoint utf8_valid_fuel (fuel : nat) (s : list N) : bool :=
  match fuel with
  | O => true
  | S f =>
    match s with
    | [] => true
    | _ => let '(ok, n) := utf8_chunk s in if ok then utf8_valid_fuel f (skipn n s) else false
    end
  end.
Definition utf8_valid (s : list N) : bool := utf8_valid_fuel (S (List.length s)) s.

Definition REPLACEMENT : list N := [239; 191; 189].

Fixpoint utf8_lossy_fuel (fuel : nat) (s : list N) : list N :=
  match fuel with
  | O => []
  | S f =>
    match s with
    | [] => []
    | _ => let '(ok, n) := utf8_chunk s in
           (if ok then firstn n s else REPLACEMENT) ++ utf8_lossy_fuel f (skipn n s)
    end
  end.
Definition utf8_lossy (s : list N) : list N := utf8_lossy_fuel (S (List.length s)) s.

(* char::from_u32 *)
Definition is_char (v : N) : bool := (v <=? 1114111) && negb (in_rng 55296 57343 v).

(* String::push(ch) *)
Definition utf8_encode (v : N) : list N :=
  if v <? 128 then [v]
  else if v <? 2048 then [192 + v / 64; 128 + v mod 64]
  else if v <? 65536 then [224 + v / 4096; 128 + (v / 64) mod 64; 128 + v mod 64]
  else [240 + v / 262144; 128 + (v / 4096) mod 64; 128 + (v / 64) mod 64; 128 + v mod 64].

(* u8::is_ascii_whitespace: SPACE, TAB, LF, FF, CR *)
Definition is_ws (c : N) : bool := (c =? 32) || (c =? 9) || (c =? 10) || (c =? 12) || (c =? 13).
