(* Base/Radix.v — core::num::<unsigned>::from_str_radix (as documented and as in the std source):
   empty -> Err; a lone '+' or '-' -> Err; a leading '+' is skipped; for unsigned types a leading '-' is NOT
   skipped and fails as an invalid digit; digits 0-9 a-z A-Z below the radix; overflow -> Err.
   Model of std; sampled by correspondence wherever it is used (character references, u64 values). *)
From AV Require Import Base.Bytes.
Open Scope N_scope.

Definition digit_val (radix c : N) : option N :=
  let d := if (48 <=? c) && (c <=? 57) then Some (c - 48)
           else if (97 <=? c) && (c <=? 122) then Some (c - 97 + 10)
           else if (65 <=? c) && (c <=? 90) then Some (c - 65 + 10)
           else None in
  match d with Some v => if v <? radix then Some v else None | None => None end.

Fixpoint digits_val (radix : N) (limit : N) (acc : N) (s : list N) : option N :=
  match s with
  | [] => Some acc
  | c :: s' =>
    match digit_val radix c with
    | None => None
    | Some d => let acc' := acc * radix + d in
                if limit <? acc' then None else digits_val radix limit acc' s'
    end
  end.

(* unsigned type of the given bit width *)
Definition from_str_radix_u (bits radix : N) (s : list N) : option N :=
  match s with
  | [] => None
  | [43] | [45] => None
  | 43 :: ds => digits_val radix (2 ^ bits - 1) 0 ds
  | ds => digits_val radix (2 ^ bits - 1) 0 ds
  end.
