(* Extract/Extract.v — extraction of the executable models to OCaml for the correspondence check.
   ExtrOcamlBasic only: bool, option, list, prod, unit, sumbool are mapped to OCaml's; N, Z, positive, nat
   stay the extracted inductive types.  No Extract Constant.  Used only for the tie, never inside a theorem. *)
From Coq Require Import Extraction ExtrOcamlBasic.
From AV Require Import Base.Bytes Base.Outcome Hash.HashModel Spec.SpecOps.
Extraction Language OCaml.
Extraction "avmodel.ml"
  HashModel.hashfunc HashModel.from_bytes HashModel.to_str
  SpecOps.find_sub_element SpecOps.sub_element_spec_list SpecOps.get_sub_element_version_mask
  SpecOps.get_sub_element_multiplicity SpecOps.get_sub_element_container_mode SpecOps.find_common_group
  SpecOps.is_named SpecOps.is_named_in_version SpecOps.is_ref SpecOps.content_mode SpecOps.chardata_spec
  SpecOps.find_attribute_spec SpecOps.attribute_spec_list SpecOps.is_ordered SpecOps.splittable
  SpecOps.splittable_in SpecOps.std_restriction SpecOps.verify_reference_dest SpecOps.reference_dest_value
  SpecOps.et_new.
