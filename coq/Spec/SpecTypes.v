(* Spec/SpecTypes.v — the entry types of the specification tables (shared by the generated tables and the model) *)
From Coq Require Import List NArith.
Open Scope N_scope.

(* CharacterDataSpec *)
Inductive cdspec := CEnum (items : list (N * N)) | CPattern (fn : N) (maxlen : option N)
 | CString (preserve : bool) (maxlen : option N) | CUInt | CFloat.
