(* Spec/SpecOps.v — model of the lookup functions of autosar-data-specification/src/lib.rs,
   written function by function over an ABSTRACT table set (any tables; Spec/SpecReal.v instantiates
   it with the tables the translator extracts).  Every Rust index / slice expression is a `Pan`
   when out of range; group recursion is on fuel (`Fuel` never stands for a behaviour of the code). *)
From AV Require Import Base.Bytes Base.Outcome.
From AV Require Export Spec.SpecTypes.
Open Scope string_scope.
Open Scope N_scope.

Record elemdef := { ed_name : N; ed_type : N; ed_mult : N; ed_ordered : N; ed_split : N; ed_restrict : N }.
Record dtype := { dt_sub_start : N; dt_sub_end : N; dt_sub_ver : N;
                  dt_attr_start : N; dt_attr_end : N; dt_attr_ver : N;
                  dt_cdata : N (* 0 = None, id+1 *); dt_mode : N; dt_ref_start : N; dt_ref_end : N }.

Record tables := {
  T_elements : N -> option elemdef;      n_elements : N;
  T_subelements : N -> option (N * N);   n_subelements : N;     (* (0=Element|1=Group, idx) *)
  T_attributes : N -> option (N * N * N); n_attributes : N;     (* (name, chardata_id, required) *)
  T_version_info : N -> option N;        n_version_info : N;
  T_datatypes : N -> option dtype;       n_datatypes : N;
  T_ref_items : N -> option N;           n_ref_items : N;
  T_cdata : N -> option cdspec;          n_cdata : N;
  reference_type_idx : N; autosar_element : N; name_short_name : N; attr_dest : N
}.

(* content modes *)
Definition MSequence := 0. Definition MChoice := 1. Definition MBag := 2.
Definition MCharacters := 3. Definition MMixed := 4.

Section Ops.
Variable T : tables.

Definition etype := (N * N)%type.   (* ElementType { def, typ } *)

Definition elem (i : N) : res elemdef := unwrap "ELEMENTS[i]" (T_elements T i).
Definition dt (i : N) : res dtype := unwrap "DATATYPES[i]" (T_datatypes T i).
Definition vinfo (i : N) : res N := unwrap "VERSION_INFO[i]" (T_version_info T i).
Definition subel (i : N) : res (N * N) := unwrap "SUBELEMENTS[i]" (T_subelements T i).

(* ElementType::new(def) *)
Definition et_new (def : N) : res etype :=
  (let* e := elem def in Val (def, ed_type e))%res.

(* &TABLE[start..end] : panics unless start <= end <= len *)
Definition slice_chk (site : string) (start stop len : N) : res unit :=
  if (stop <? start) || (len <? stop) then Pan site else Val tt.

(* ElementType::get_sub_elements(etype) as (start, stop) after the slice check *)
Definition sub_slice (ty : N) : res (N * N * dtype) :=
  (let* d := dt ty in
   let* _ := slice_chk "SUBELEMENTS[a..b]" (dt_sub_start d) (dt_sub_end d) (n_subelements T) in
   Val (dt_sub_start d, dt_sub_end d, d))%res.

(* find_sub_element_internal *)
Fixpoint find_sub (fuel : nat) (ty target version : N) {struct fuel} : res (option (etype * list N)) :=
  match fuel with
  | O => Fuel
  | S fuel' =>
    (let* '(start, stop, d) := sub_slice ty in
     (fix loop (k : nat) (pos : N) {struct k} : res (option (etype * list N)) :=
        match k with
        | O => Val None
        | S k' =>
          let* '(kind, idx) := subel (start + pos) in
          if kind =? 0 then
            let* e := elem idx in
            let* mask := vinfo (dt_sub_ver d + pos) in
            if (ed_name e =? target) && negb (N.land version mask =? 0)
            then (let* et := et_new idx in Val (Some (et, [pos])))
            else loop k' (pos + 1)
          else
            match find_sub fuel' idx target version with
            | Val (Some (et, ixs)) => Val (Some (et, pos :: ixs))
            | Val None => loop k' (pos + 1)
            | Pan s => Pan s
            | Fuel => Fuel
            end
        end) (N.to_nat (stop - start)) 0)%res
  end.

Definition FUEL : nat := 24.

(* pub fn find_sub_element(&self, name, version) *)
Definition find_sub_element (t : etype) (target version : N) := find_sub FUEL (snd t) target version.

(* short_name_version_mask *)
Definition short_name_version_mask (ty : N) : res (option N) :=
  (let* '(start, stop, d) := sub_slice ty in
   if start =? stop then Val None else
   let* '(kind, idx) := subel start in
   if kind =? 0 then
     let* e := elem idx in
     if ed_name e =? name_short_name T then (let* m := vinfo (dt_sub_ver d) in Val (Some m)) else Val None
   else Val None)%res.

Definition is_named (t : etype) : res bool :=
  (let* m := short_name_version_mask (snd t) in Val (match m with Some _ => true | None => false end))%res.

Definition is_named_in_version (t : etype) (v : N) : res bool :=
  (let* m := short_name_version_mask (snd t) in
   Val (match m with Some mask => negb (N.land mask v =? 0) | None => false end))%res.

(* sub_element_spec_iter, drained: (name, type, version_mask, name_version_mask) in iteration order *)
Fixpoint list_sub (fuel : nat) (ty : N) {struct fuel} : res (list (N * etype * N * N)) :=
  match fuel with
  | O => Fuel
  | S fuel' =>
    (let* d := dt ty in
     let start := dt_sub_start d in let stop := dt_sub_end d in
     (fix loop (k : nat) (pos : N) {struct k} : res (list (N * etype * N * N)) :=
        match k with
        | O => Val []
        | S k' =>
          let* '(kind, idx) := subel (start + pos) in
          if kind =? 0 then
            let* e := elem idx in
            let* mask := vinfo (dt_sub_ver d + pos) in
            let* et := et_new idx in
            let* nm := short_name_version_mask (snd et) in
            let* rest := loop k' (pos + 1) in
            Val ((ed_name e, et, mask, match nm with Some m => m | None => 0 end) :: rest)
          else
            let* inner := list_sub fuel' idx in
            let* rest := loop k' (pos + 1) in
            Val (inner ++ rest)%list
        end) (N.to_nat (stop - start)) 0)%res
  end.

Definition sub_element_spec_list (t : etype) := list_sub FUEL (snd t).

(* get_sub_element_spec(self, element_indices) -> Option<(&SubElement, u32)> *)
Fixpoint walk_groups (cur_ty : N) (ixs : list N) {struct ixs} : res (option ((N * N) * N)) :=
  match ixs with
  | [] => Val None    (* not reached: the caller handles the empty list *)
  | [last] =>
    (let* '(start, stop, d) := sub_slice cur_ty in
     if stop - start <=? last then Pan "current_spec[last_idx]" else
     let* se := subel (start + last) in
     let* m := vinfo (dt_sub_ver d + last) in
     Val (Some (se, m)))%res
  | i :: rest =>
    (let* '(start, stop, d) := sub_slice cur_ty in
     if stop - start <=? i then Pan "current_spec[element_indices[idx]]" else
     let* '(kind, idx) := subel (start + i) in
     if kind =? 0 then Val None else walk_groups idx rest)%res
  end.

Definition get_sub_element_spec (t : etype) (ixs : list N) : res (option ((N * N) * N)) :=
  match ixs with
  | [] => Val None
  | _ =>
    (* the Rust computes the slice and version start of self.typ before looking at the indices *)
    (let* _ := sub_slice (snd t) in walk_groups (snd t) ixs)%res
  end.

Definition get_sub_element_version_mask (t : etype) (ixs : list N) : res (option N) :=
  (let* r := get_sub_element_spec t ixs in Val (option_map snd r))%res.

Definition get_sub_element_multiplicity (t : etype) (ixs : list N) : res (option N) :=
  (let* r := get_sub_element_spec t ixs in
   match r with
   | Some ((0, def), _) => (let* e := elem def in Val (Some (ed_mult e)))
   | _ => Val None
   end)%res.

Definition get_sub_element_container_mode (t : etype) (ixs : list N) : res N :=
  if (N.of_nat (List.length ixs) <? 2) then (let* d := dt (snd t) in Val (dt_mode d))%res
  else
    (let* r := get_sub_element_spec t (removelast ixs) in
     match r with
     | Some ((1, gid), _) => (let* d := dt gid in Val (dt_mode d))
     | _ => Pan "unreachable: element container is not a group"
     end)%res.

(* find_common_group *)
Fixpoint common_group (result : N) (a b : list N) {struct a} : res N :=
  match a, b with
  | x :: a', y :: b' =>
    if x =? y then
      (let* '(start, stop, d) := sub_slice result in
       if stop - start <=? x then Pan "get_sub_elements(result)[i]" else
       let* '(kind, idx) := subel (start + x) in
       if kind =? 0 then Val result else common_group idx a' b')%res
    else Val result
  | _, _ => Val result
  end.
Definition find_common_group (t : etype) (a b : list N) : res N := common_group (snd t) a b.

Definition is_ref (t : etype) : res bool :=
  (let* d := dt (snd t) in
   Val (if dt_cdata d =? 0 then false else (dt_cdata d - 1 =? reference_type_idx T)))%res.

Definition content_mode (t : etype) : res N := (let* d := dt (snd t) in Val (dt_mode d))%res.

Definition chardata_spec (t : etype) : res (option cdspec) :=
  (let* d := dt (snd t) in
   if dt_cdata d =? 0 then Val None
   else (let* c := unwrap "CHARACTER_DATA[i]" (T_cdata T (dt_cdata d - 1)) in Val (Some c)))%res.

(* attributes *)
Definition attr_slice (ty : N) : res (N * N * dtype) :=
  (let* d := dt ty in Val (dt_attr_start d, dt_attr_end d, d))%res.

(* find_attribute_spec -> Option<(spec, required, version)>; spec returned as its CHARACTER_DATA index too *)
Definition find_attribute_spec (t : etype) (attrname : N) : res (option (N * cdspec * N * N)) :=
  (let* '(start, stop, d) := attr_slice (snd t) in
   let* _ := slice_chk "ATTRIBUTES[a..b]" start stop (n_attributes T) in
   (fix loop (k : nat) (pos : N) {struct k} : res (option (N * cdspec * N * N)) :=
      match k with
      | O => Val None
      | S k' =>
        let* '(name, cdid, req) := unwrap "ATTRIBUTES[i]" (T_attributes T (start + pos)) in
        if name =? attrname then
          let* ver := vinfo (dt_attr_ver d + pos) in
          let* c := unwrap "CHARACTER_DATA[i]" (T_cdata T cdid) in
          Val (Some (cdid, c, req, ver))
        else loop k' (pos + 1)
      end) (N.to_nat (stop - start)) 0)%res.

(* attribute_spec_iter drained: (name, chardata id, spec, required) *)
Definition attribute_spec_list (t : etype) : res (list (N * N * cdspec * N)) :=
  (let* '(start, stop, d) := attr_slice (snd t) in
   (fix loop (k : nat) (pos : N) {struct k} : res (list (N * N * cdspec * N)) :=
      match k with
      | O => Val []
      | S k' =>
        let* '(name, cdid, req) := unwrap "ATTRIBUTES[i]" (T_attributes T (start + pos)) in
        let* c := unwrap "CHARACTER_DATA[i]" (T_cdata T cdid) in
        let* rest := loop k' (pos + 1) in
        Val ((name, cdid, c, req) :: rest)
      end) (N.to_nat (stop - start)) 0)%res.

Definition is_ordered (t : etype) : res bool := (let* e := elem (fst t) in Val (negb (ed_ordered e =? 0)))%res.
Definition splittable (t : etype) : res N := (let* e := elem (fst t) in Val (ed_split e))%res.
Definition splittable_in (t : etype) (v : N) : res bool :=
  (let* e := elem (fst t) in Val (negb (N.land (ed_split e) v =? 0)))%res.
Definition std_restriction (t : etype) : res N := (let* e := elem (fst t) in Val (ed_restrict e))%res.

(* &REF_ITEMS[start..end] as a list *)
Definition ref_slice (ty : N) : res (list N) :=
  (let* d := dt ty in
   let* _ := slice_chk "REF_ITEMS[a..b]" (dt_ref_start d) (dt_ref_end d) (n_ref_items T) in
   (fix loop (k : nat) (pos : N) {struct k} : res (list N) :=
      match k with
      | O => Val []
      | S k' => let* x := unwrap "REF_ITEMS[i]" (T_ref_items T (dt_ref_start d + pos)) in
                let* rest := loop k' (pos + 1) in Val (x :: rest)
      end) (N.to_nat (dt_ref_end d - dt_ref_start d)) 0)%res.

Definition verify_reference_dest (t : etype) (dest : N) : res bool :=
  (let* l := ref_slice (snd t) in Val (existsb (N.eqb dest) l))%res.

(* reference_dest_value(self, other) *)
Definition reference_dest_value (t other : etype) : res (option N) :=
  (let* r := is_ref t in
   if negb r then Val None else
   let* n := is_named other in
   if negb n then Val None else
   let* a := find_attribute_spec t (attr_dest T) in
   match a with
   | None => Val None           (* the `?` *)
   | Some (_, CEnum items, _, _) =>
     let* ref_by := ref_slice (snd other) in
     Val (find (fun rv => existsb (fun it => N.eqb rv (fst it)) items) ref_by)
   | Some _ => Val None
   end)%res.

End Ops.
