(* Spec/SpecProofs.v — C18, lookup part.
   (1) boolean checkers "every listed sub-element / attribute is found by the lookup" with their
       reflection into Prop (the checkers are evaluated on the real tables in Gen/SpecSweep*.v);
   (2) [U] reference_dest_value is accepted by verify_reference_dest and lies in the DEST enum,
       for EVERY table set. *)
From AV Require Import Base.Bytes Base.Outcome Spec.SpecOps.
Open Scope N_scope.

Section Check.
Variable T : tables.
Variable vbits : list N.     (* the version bits (AutosarVersion as u32) *)

Definition et_eqb (a b : etype) : bool := (fst a =? fst b) && (snd a =? snd b).
Lemma et_eqb_eq a b : et_eqb a b = true -> a = b.
Proof.
  destruct a, b; unfold et_eqb; cbn [fst snd]. rewrite andb_true_iff, !N.eqb_eq. intros [-> ->]; reflexivity.
Qed.

Definition has (mask v : N) : bool := negb (N.land mask v =? 0).

Definition sub_item := (N * etype * N * N)%type.
Definition it_name (i : sub_item) := fst (fst (fst i)).
Definition it_type (i : sub_item) := snd (fst (fst i)).
Definition it_mask (i : sub_item) := snd (fst i).

(* one listed item, one version *)
Definition sub_item_ok (ty : N) (items : list sub_item) (v : N) (it : sub_item) : bool :=
  if has (it_mask it) v then
    match find_sub T FUEL ty (it_name it) v with
    | Val (Some (et', ixs)) =>
        existsb (fun it2 => (it_name it2 =? it_name it) && et_eqb (it_type it2) et' && has (it_mask it2) v) items
        && match get_sub_element_version_mask T (0, ty) ixs with
           | Val (Some m) => has m v
           | _ => false
           end
    | _ => false
    end
  else true.

Definition check_sub (ty : N) : bool :=
  match list_sub T FUEL ty with
  | Val items => forallb (fun v => forallb (sub_item_ok ty items v) items) vbits
  | _ => false
  end.

Definition attr_item := (N * N * cdspec * N)%type.
Definition check_attr (ty : N) : bool :=
  match attribute_spec_list T (0, ty) with
  | Val items =>
      forallb (fun it : attr_item =>
        let '(name, cdid, _, req) := it in
        match find_attribute_spec T (0, ty) name with
        | Val (Some (cdid', _, req', ver)) =>
            existsb (fun it2 : attr_item => let '(n2, c2, _, r2) := it2 in (n2 =? name) && (c2 =? cdid') && (r2 =? req')) items
            && negb (ver =? 0)
        | _ => false
        end) items
  | _ => false
  end.

(* a reference type has a DEST attribute whose spec is an enumeration *)
Definition check_ref (ty : N) : bool :=
  match is_ref T (0, ty) with
  | Val true =>
      match find_attribute_spec T (0, ty) (attr_dest T) with
      | Val (Some (_, CEnum _, _, _)) => true
      | _ => false
      end
  | Val false => true
  | _ => false
  end.

Definition check_ty (ty : N) : bool := check_sub ty && check_attr ty.

(* ---- reflection ---- *)
Definition listing_lookup_spec (ty : N) : Prop :=
  exists items, list_sub T FUEL ty = Val items /\
  forall v it, In v vbits -> In it items -> has (it_mask it) v = true ->
    exists et' ixs m,
      find_sub T FUEL ty (it_name it) v = Val (Some (et', ixs)) /\
      (exists it2, In it2 items /\ it_name it2 = it_name it /\ it_type it2 = et' /\ has (it_mask it2) v = true) /\
      get_sub_element_version_mask T (0, ty) ixs = Val (Some m) /\ has m v = true.

Lemma check_sub_sound ty : check_sub ty = true -> listing_lookup_spec ty.
Proof.
  unfold check_sub, listing_lookup_spec.
  destruct (list_sub T FUEL ty) as [items| |]; try discriminate.
  intros H. exists items. split; [reflexivity|].
  rewrite forallb_forall in H. intros v it Hv Hit Hm.
  specialize (H v Hv). rewrite forallb_forall in H. specialize (H it Hit).
  unfold sub_item_ok in H. rewrite Hm in H.
  destruct (find_sub T FUEL ty (it_name it) v) as [[[et' ixs]|]| |] eqn:EF; try discriminate.
  apply andb_true_iff in H as [H1 H2].
  destruct (get_sub_element_version_mask T (0, ty) ixs) as [[m|]| |] eqn:EM; try discriminate.
  exists et', ixs, m. split; [reflexivity|]. split; [|split; [exact EM|exact H2]].
  apply existsb_exists in H1 as (it2 & Hin & Hc).
  rewrite !andb_true_iff in Hc. destruct Hc as [[Hn He] Hh].
  exists it2. split; [exact Hin|]. split; [apply N.eqb_eq; exact Hn|]. split; [apply et_eqb_eq; exact He|exact Hh].
Qed.

Definition attr_lookup_spec (ty : N) : Prop :=
  exists items, attribute_spec_list T (0, ty) = Val items /\
  forall name cdid c req, In (name, cdid, c, req) items ->
    exists cdid' c' req' ver,
      find_attribute_spec T (0, ty) name = Val (Some (cdid', c', req', ver)) /\ ver <> 0 /\
      exists c2, In (name, cdid', c2, req') items.

Lemma check_attr_sound ty : check_attr ty = true -> attr_lookup_spec ty.
Proof.
  unfold check_attr, attr_lookup_spec.
  destruct (attribute_spec_list T (0, ty)) as [items| |]; try discriminate.
  intros H. exists items. split; [reflexivity|].
  rewrite forallb_forall in H. intros name cdid c req Hin. specialize (H _ Hin). cbn beta iota in H.
  destruct (find_attribute_spec T (0, ty) name) as [[[[[cdid' c'] req'] ver]|]| |] eqn:EF; try discriminate.
  apply andb_true_iff in H as [H1 H2].
  exists cdid', c', req', ver. split; [reflexivity|]. split.
  - apply negb_true_iff, N.eqb_neq in H2. exact H2.
  - apply existsb_exists in H1 as ([[[n2 c2] c3] r2] & Hin2 & Hc).
    rewrite !andb_true_iff, !N.eqb_eq in Hc. destruct Hc as [[-> ->] ->]. eauto.
Qed.

Definition ref_has_dest_spec (ty : N) : Prop :=
  (is_ref T (0, ty) = Val false) \/
  (is_ref T (0, ty) = Val true /\ exists cdid items req ver,
      find_attribute_spec T (0, ty) (attr_dest T) = Val (Some (cdid, CEnum items, req, ver))).

Lemma check_ref_sound ty : check_ref ty = true -> ref_has_dest_spec ty.
Proof.
  unfold check_ref, ref_has_dest_spec.
  destruct (is_ref T (0, ty)) as [[|]| |]; try discriminate; [|left; reflexivity].
  destruct (find_attribute_spec T (0, ty) (attr_dest T)) as [[[[[cdid c] req] ver]|]| |]; try discriminate.
  destruct c; try discriminate. intros _. right. split; [reflexivity|]. eauto.
Qed.

(* ---- [U] DEST proposal is accepted, for every table set ---- *)
Theorem dest_sound (t other : etype) (d : N) :
  reference_dest_value T t other = Val (Some d) ->
  verify_reference_dest T other d = Val true /\
  exists cdid items req ver,
    find_attribute_spec T t (attr_dest T) = Val (Some (cdid, CEnum items, req, ver)) /\ In d (map fst items).
Proof.
  unfold reference_dest_value, verify_reference_dest.
  destruct (is_ref T t) as [r| |]; cbn [bind]; try discriminate.
  destruct r; cbn [negb]; [|discriminate].
  destruct (is_named T other) as [n| |]; cbn [bind]; try discriminate.
  destruct n; cbn [negb]; [|discriminate].
  destruct (find_attribute_spec T t (attr_dest T)) as [[[[[cdid c] req] ver]|]| |]; cbn [bind]; try discriminate.
  destruct c as [items| | | |]; try discriminate.
  destruct (ref_slice T (snd other)) as [ref_by| |]; cbn [bind]; try discriminate.
  intros [= Hf]. apply find_some in Hf as [Hin Hex].
  split.
  - f_equal. apply existsb_exists. exists d. split; [exact Hin|apply N.eqb_refl].
  - exists cdid, items, req, ver. split; [reflexivity|].
    apply existsb_exists in Hex as (it & Hit & He). apply N.eqb_eq in He. subst d.
    apply in_map. exact Hit.
Qed.

End Check.

Definition rangeN (lo hi : N) : list N := map (fun k => lo + N.of_nat k) (seq 0 (N.to_nat (hi - lo))).

Lemma rangeN_spec lo hi i : lo <= i < hi -> In i (rangeN lo hi).
Proof.
  intros H. unfold rangeN. apply in_map_iff. exists (N.to_nat (i - lo)). split; [lia|]. apply in_seq. lia.
Qed.
