(* Spec/SpecSweepFacts.v — the sharded kernel evaluation (Gen/SpecSweep*.v) turned into the Prop-level
   statements of C18 about every datatype of the current tables. *)
From AV Require Import Base.Bytes Base.Outcome Spec.SpecOps Spec.SpecProofs Spec.SpecReal.
From AV.Gen Require Import Versions SpecSweepAll.
Open Scope N_scope.

Definition version_bits : list N := map snd ver_enum.

Lemma real_listing_lookup ty : ty < n_datatypes RT -> listing_lookup_spec RT version_bits ty.
Proof.
  rewrite sweep_n_datatypes. intros H. apply check_sub_sound.
  pose proof (sweep_all ty H) as S. unfold check_ty in S. apply andb_true_iff in S as [S _]. exact S.
Qed.

Lemma real_attr_lookup ty : ty < n_datatypes RT -> attr_lookup_spec RT ty.
Proof.
  rewrite sweep_n_datatypes. intros H. apply check_attr_sound.
  pose proof (sweep_all ty H) as S. unfold check_ty in S. apply andb_true_iff in S as [_ S]. exact S.
Qed.
