(* Spec/Versions.v — model of autosarversion.rs (filename, from_str, from_u64/from_val, `as u32`)
   over the association lists the translator extracts, and the [F]/[U] facts of C18 about them. *)
From AV Require Import Base.Bytes.
From AV.Gen Require Import Versions.
Open Scope N_scope.

Definition n_versions : N := N.of_nat (List.length ver_enum).

(* `v as u32` for the version declared at position i *)
Definition ver_value (i : N) : option N := option_map snd (nth_opt ver_enum (N.to_nat i)).

(* a Rust `match` takes the first arm that matches *)
Fixpoint assocN {A} (k : N) (l : list (N * A)) : option A :=
  match l with [] => None | (k', a) :: l' => if k' =? k then Some a else assocN k l' end.
Fixpoint assocS {A} (k : string) (l : list (string * A)) : option A :=
  match l with [] => None | (k', a) :: l' => if String.eqb k' k then Some a else assocS k l' end.

Definition filename (i : N) : option string := assocN i ver_filename.
Definition from_str (s : string) : option N := assocS s ver_from_str.
Definition from_u64 (n : N) : option N := assocN n ver_from_u64.
(* from_val(n: u32) = from_u32(n) = from_u64(n as u64) ; from_i64 rejects negatives first *)
Definition from_val (n : N) : option N := from_u64 n.

Lemma assocN_In {A} k (l : list (N * A)) a : assocN k l = Some a -> In (k, a) l.
Proof.
  induction l as [|[k' a'] l IH]; cbn [assocN]; [discriminate|].
  destruct (k' =? k) eqn:E.
  - apply N.eqb_eq in E. intros [= ->]. subst. left; reflexivity.
  - intros H; right; auto.
Qed.
Lemma assocS_In {A} k (l : list (string * A)) a : assocS k l = Some a -> In (k, a) l.
Proof.
  induction l as [|[k' a'] l IH]; cbn [assocS]; [discriminate|].
  destruct (String.eqb k' k) eqn:E.
  - apply String.eqb_eq in E. intros [= ->]. subst. left; reflexivity.
  - intros H; right; auto.
Qed.

Definition is_pow2 (v : N) : bool :=
  match v with Npos p => (fix go (p : positive) := match p with xH => true | xO q => go q | xI _ => false end) p
             | N0 => false end.

Definition iotaV : list N := map N.of_nat (seq 0 (List.length ver_enum)).

Definition opt_eqbN (a b : option N) := match a, b with Some x, Some y => x =? y | None, None => true | _, _ => false end.
Definition opt_eqbS (a b : option string) :=
  match a, b with Some x, Some y => String.eqb x y | None, None => true | _, _ => false end.

(* [F] certificate: evaluated on the 21 versions of the current source *)
Definition versions_ok : bool :=
  (* every version has a value that is one bit of a u32, a file name, and both conversions return it *)
  forallb (fun i =>
    match ver_value i, filename i with
    | Some v, Some f => is_pow2 v && (v <? 4294967296) && opt_eqbN (from_str f) (Some i) && opt_eqbN (from_u64 v) (Some i)
    | _, _ => false
    end) iotaV
  (* every arm of from_str / from_u64 / filename is consistent with the enum (so nothing else is accepted) *)
  && forallb (fun p => opt_eqbS (filename (snd p)) (Some (fst p))) ver_from_str
  && forallb (fun p => opt_eqbN (ver_value (snd p)) (Some (fst p))) ver_from_u64
  && forallb (fun p => fst p <? n_versions) ver_filename.

Lemma opt_eqbN_eq a b : opt_eqbN a b = true -> a = b.
Proof. destruct a, b; cbn; try congruence. intros H; apply N.eqb_eq in H; congruence. Qed.
Lemma opt_eqbS_eq a b : opt_eqbS a b = true -> a = b.
Proof. destruct a, b; cbn; try congruence. intros H; apply String.eqb_eq in H; congruence. Qed.

Lemma iotaV_spec i : In i iotaV <-> i < n_versions.
Proof.
  unfold iotaV, n_versions. rewrite in_map_iff. split.
  - intros (k & <- & Hk). apply in_seq in Hk. lia.
  - intros H. exists (N.to_nat i). split; [apply N2Nat.id|]. apply in_seq. lia.
Qed.

Section Facts.
Hypothesis OK : versions_ok = true.

Lemma ok_parts :
  (forall i, i < n_versions -> exists v f, ver_value i = Some v /\ filename i = Some f /\
       is_pow2 v = true /\ v < 4294967296 /\ from_str f = Some i /\ from_u64 v = Some i) /\
  (forall s i, In (s, i) ver_from_str -> filename i = Some s) /\
  (forall n i, In (n, i) ver_from_u64 -> ver_value i = Some n).
Proof.
  unfold versions_ok in OK. rewrite !andb_true_iff, !forallb_forall in OK.
  destruct OK as [[[H1 H2] H3] _]. repeat split.
  - intros i Hi. specialize (H1 i (proj2 (iotaV_spec i) Hi)).
    destruct (ver_value i) as [v|]; [|discriminate]. destruct (filename i) as [f|]; [|discriminate].
    rewrite !andb_true_iff in H1. destruct H1 as [[[P L] HS] HU].
    exists v, f. repeat split; auto; [apply N.ltb_lt; exact L| apply opt_eqbN_eq; exact HS | apply opt_eqbN_eq; exact HU].
  - intros s i Hin. specialize (H2 _ Hin). apply opt_eqbS_eq in H2. exact H2.
  - intros n i Hin. specialize (H3 _ Hin). apply opt_eqbN_eq in H3. exact H3.
Qed.

(* value -> version -> value, file name -> version -> file name : for ALL strings / numbers [U] *)
Theorem from_str_exact s i : from_str s = Some i <-> (i < n_versions /\ filename i = Some s).
Proof.
  destruct ok_parts as (A & B & C). split.
  - intros H. pose proof (B _ _ (assocS_In _ _ _ H)) as F. split; [|exact F].
    unfold versions_ok in OK. rewrite !andb_true_iff, !forallb_forall in OK.
    destruct OK as [_ H4]. apply assocN_In in F. specialize (H4 _ F). apply N.ltb_lt in H4. exact H4.
  - intros [Hi Hf]. destruct (A i Hi) as (v & f & _ & Ff & _ & _ & HS & _). congruence.
Qed.

Theorem from_val_exact n i : from_val n = Some i <-> (i < n_versions /\ ver_value i = Some n).
Proof.
  destruct ok_parts as (A & B & C). unfold from_val. split.
  - intros H. pose proof (C _ _ (assocN_In _ _ _ H)) as V. split; [|exact V].
    unfold ver_value in V. destruct (nth_opt ver_enum (N.to_nat i)) eqn:E; [|discriminate].
    apply nth_opt_Some in E. unfold n_versions. lia.
  - intros [Hi Hv]. destruct (A i Hi) as (v & f & Vv & _ & _ & _ & _ & U). congruence.
Qed.

Theorem values_single_bits i v : ver_value i = Some v -> is_pow2 v = true /\ v < 4294967296.
Proof.
  intros H. assert (Hi : i < n_versions).
  { unfold ver_value in H. destruct (nth_opt ver_enum (N.to_nat i)) eqn:E; [|discriminate].
    apply nth_opt_Some in E. unfold n_versions. lia. }
  destruct ok_parts as (A & _). destruct (A i Hi) as (v' & f & Vv & _ & P & Lt & _). split; congruence.
Qed.

Theorem values_injective i j v : ver_value i = Some v -> ver_value j = Some v -> i = j.
Proof.
  intros Hi Hj. destruct (from_val_exact v i) as [_ A]. destruct (from_val_exact v j) as [_ B].
  assert (Li : i < n_versions).
  { unfold ver_value in Hi. destruct (nth_opt ver_enum (N.to_nat i)) eqn:E; [|discriminate].
    apply nth_opt_Some in E. unfold n_versions. lia. }
  assert (Lj : j < n_versions).
  { unfold ver_value in Hj. destruct (nth_opt ver_enum (N.to_nat j)) eqn:E; [|discriminate].
    apply nth_opt_Some in E. unfold n_versions. lia. }
  specialize (A (conj Li Hi)). specialize (B (conj Lj Hj)). congruence.
Qed.

Theorem filenames_injective i j f : i < n_versions -> j < n_versions ->
  filename i = Some f -> filename j = Some f -> i = j.
Proof.
  intros Li Lj Hi Hj. destruct (from_str_exact f i) as [_ A]. destruct (from_str_exact f j) as [_ B].
  specialize (A (conj Li Hi)). specialize (B (conj Lj Hj)). congruence.
Qed.
End Facts.

Lemma versions_ok_holds : versions_ok = true.
Proof. vm_cast_no_check (@eq_refl bool true). Qed.

(* ---- byte-string interface used by the parser model ---- *)
Fixpoint assocB {A} (k : list N) (l : list (string * A)) : option A :=
  match l with [] => None | (k', a) :: l' => if bytes_eqb (bytes_of_string k') k then Some a else assocB k l' end.
(* AutosarVersion::from_str on bytes; returns the version's u32 value *)
Definition version_of_filename (s : list N) : option N :=
  match assocB s ver_from_str with Some i => ver_value i | None => None end.
(* AutosarVersion::<ident> as u32 *)
Definition version_of_ident (ident : string) : option N := assocS ident ver_enum.
Definition version_latest : option N := ver_value ver_latest.
Definition filename_of_version (v : N) : option (list N) :=
  match from_val v with Some i => option_map bytes_of_string (filename i) | None => None end.
