(* Spec/SpecReal.v — the abstract table signature instantiated with the generated tables.
   Lists are loaded into PositiveMaps (pure Gallina, O(log n) lookup) once, by vm_compute. *)
From Coq Require Import FMapPositive.
From AV Require Import Base.Bytes Base.Outcome Spec.SpecOps.
From AV.Gen Require Import SpecTables.
Open Scope N_scope.

Definition build {A} (l : list A) : PositiveMap.t A :=
  fst (fold_left (fun (acc : PositiveMap.t A * positive) x =>
                    (PositiveMap.add (snd acc) x (fst acc), Pos.succ (snd acc))) l (PositiveMap.empty A, 1%positive)).
Definition get {A} (m : PositiveMap.t A) (i : N) : option A := PositiveMap.find (N.succ_pos i) m.

Definition mk_elem (e : N*N*N*N*N*N) : elemdef :=
  let '(a,b,c,d,e',f) := e in
  {| ed_name := a; ed_type := b; ed_mult := c; ed_ordered := d; ed_split := e'; ed_restrict := f |}.
Definition mk_dt (x : N*N*N*N*N*N*N*N*N*N) : dtype :=
  let '(a,b,c,d,e,f,g,h,i,j) := x in
  {| dt_sub_start := a; dt_sub_end := b; dt_sub_ver := c; dt_attr_start := d; dt_attr_end := e; dt_attr_ver := f;
     dt_cdata := g; dt_mode := h; dt_ref_start := i; dt_ref_end := j |}.

Definition m_elements := Eval vm_compute in build (map mk_elem t_elements).
Definition m_subelements := Eval vm_compute in build t_subelements.
Definition m_attributes := Eval vm_compute in build t_attributes.
Definition m_version_info := Eval vm_compute in build t_version_info.
Definition m_datatypes := Eval vm_compute in build (map mk_dt t_datatypes).
Definition m_ref_items := Eval vm_compute in build t_ref_items.
Definition m_cdata := Eval vm_compute in build t_cdata.

Definition lenN {A} (l : list A) : N := N.of_nat (List.length l).

Definition len_elements : N := Eval vm_compute in lenN t_elements.
Definition len_subelements : N := Eval vm_compute in lenN t_subelements.
Definition len_attributes : N := Eval vm_compute in lenN t_attributes.
Definition len_version_info : N := Eval vm_compute in lenN t_version_info.
Definition len_datatypes : N := Eval vm_compute in lenN t_datatypes.
Definition len_ref_items : N := Eval vm_compute in lenN t_ref_items.
Definition len_cdata : N := Eval vm_compute in lenN t_cdata.

Definition RT : tables := {|
  T_elements := get m_elements;          n_elements := len_elements;
  T_subelements := get m_subelements;    n_subelements := len_subelements;
  T_attributes := get m_attributes;      n_attributes := len_attributes;
  T_version_info := get m_version_info;  n_version_info := len_version_info;
  T_datatypes := get m_datatypes;        n_datatypes := len_datatypes;
  T_ref_items := get m_ref_items;        n_ref_items := len_ref_items;
  T_cdata := get m_cdata;                n_cdata := len_cdata;
  reference_type_idx := t_reference_type_idx; autosar_element := t_autosar_element;
  name_short_name := t_short_name; attr_dest := t_attr_dest |}.
