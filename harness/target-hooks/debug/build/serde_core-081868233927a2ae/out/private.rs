#[doc(hidden)]
pub mod __private229 {
    #[doc(hidden)]
    pub use crate::private::*;
}
