#[doc(hidden)]
pub mod __private229 {
    #[doc(hidden)]
    pub use crate::private::*;
}
use serde_core::__private229 as serde_core_private;
