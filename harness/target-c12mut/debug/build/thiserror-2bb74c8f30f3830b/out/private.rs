#[doc(hidden)]
pub mod __private20 {
    #[doc(hidden)]
    pub use crate::private::*;
}
