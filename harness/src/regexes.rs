//! C19: the 28 pattern validators, reached through the public CharacterDataSpec::Pattern{check_fn}.
//! Oracle for the failing-input search: the `regex` crate (bytes mode, no unicode) on the PUBLISHED text.
use crate::spec::reachable;
use crate::util::*;
use autosar_data_specification::*;
use std::collections::{BTreeMap, BTreeSet};

pub type CheckFn = fn(&[u8]) -> bool;

/// regex text -> check_fn (every Pattern spec reachable from ROOT through element and attribute specs)
pub fn collect_patterns() -> BTreeMap<String, Vec<CheckFn>> {
    let mut m: BTreeMap<String, Vec<CheckFn>> = BTreeMap::new();
    let mut add = |c: &CharacterDataSpec| {
        if let CharacterDataSpec::Pattern { check_fn, regex, .. } = c {
            let e = m.entry(regex.to_string()).or_default();
            if !e.iter().any(|f| *f as usize == *check_fn as usize) {
                e.push(*check_fn);
            }
        }
    };
    for t in reachable() {
        if let Some(c) = t.chardata_spec() {
            add(c);
        }
        for (_, c, _) in t.attribute_spec_iter() {
            add(c);
        }
    }
    m
}

fn load_texts(dump: &str) -> Vec<(u32, String)> {
    read_lines(&format!("{}/regex_texts.txt", dump))
        .iter()
        .map(|l| {
            let i = l.find(' ').unwrap();
            (l[..i].parse().unwrap(), l[i + 1..].to_string())
        })
        .collect()
}

fn oracle(text: &str) -> regex::bytes::Regex {
    regex::bytes::RegexBuilder::new(&format!("^(?:{})$", text)).unicode(false).dot_matches_new_line(false).build().expect("regex")
}

/// atoms of the regex text as byte sets: literals, classes, \d, `.`
fn atoms(text: &str) -> Vec<[bool; 256]> {
    let b = text.as_bytes();
    let mut out: Vec<[bool; 256]> = Vec::new();
    let single = |c: u8| {
        let mut s = [false; 256];
        s[c as usize] = true;
        s
    };
    let digits = || {
        let mut s = [false; 256];
        for c in b'0'..=b'9' {
            s[c as usize] = true;
        }
        s
    };
    let mut i = 0;
    while i < b.len() {
        let c = b[i];
        match c {
            b'\\' => {
                if b[i + 1] == b'd' {
                    out.push(digits());
                } else {
                    out.push(single(b[i + 1]));
                }
                i += 2;
            }
            b'[' => {
                let mut s = [false; 256];
                i += 1;
                while b[i] != b']' {
                    let lo;
                    if b[i] == b'\\' {
                        if b[i + 1] == b'd' {
                            for d in b'0'..=b'9' {
                                s[d as usize] = true;
                            }
                            i += 2;
                            continue;
                        }
                        lo = b[i + 1];
                        i += 2;
                    } else {
                        lo = b[i];
                        i += 1;
                    }
                    if b[i] == b'-' && b[i + 1] != b']' {
                        let hi = b[i + 1];
                        for d in lo..=hi {
                            s[d as usize] = true;
                        }
                        i += 2;
                    } else {
                        s[lo as usize] = true;
                    }
                }
                out.push(s);
                i += 1;
            }
            b'.' => {
                let mut s = [true; 256];
                s[10] = false;
                out.push(s);
                i += 1;
            }
            b'{' => {
                while b[i] != b'}' {
                    i += 1;
                }
                i += 1;
            }
            b'(' | b')' | b'|' | b'?' | b'*' | b'+' | b'^' | b'$' => i += 1,
            _ => {
                out.push(single(c));
                i += 1;
            }
        }
    }
    out
}

/// one representative per block of the partition of 0..=255 induced by the atoms (+ the block of outsiders)
fn alphabet(text: &str) -> Vec<u8> {
    let at = atoms(text);
    let mut blocks: BTreeMap<Vec<bool>, u8> = BTreeMap::new();
    for c in 0..=255u8 {
        let sig: Vec<bool> = at.iter().map(|a| a[c as usize]).collect();
        blocks.entry(sig).or_insert(c);
    }
    let mut v: Vec<u8> = blocks.values().cloned().collect();
    v.sort();
    v
}

fn reduce(alpha: &[u8], _f: CheckFn, _re: &regex::bytes::Regex) -> Vec<u8> {
    alpha.to_vec()
}

pub fn main(args: &[String]) {
    let mode = args[0].as_str();
    let dump = &args[1];
    let texts = load_texts(dump);
    let pats = collect_patterns();
    match mode {
        // eval <dump> <file>: lines "<n> <hex>" -> "<n> <hex> <impl 0|1|P> <oracle 0|1>"
        "eval" => {
            for l in read_lines(&args[2]) {
                let mut it = l.split(' ');
                let n: u32 = it.next().unwrap().parse().unwrap();
                let hx = it.next().unwrap_or("");
                let s = unhex(hx);
                let text = &texts.iter().find(|(k, _)| *k == n).expect("validator number").1;
                let fs = pats.get(text).expect("pattern not reachable");
                let r = match guard(|| fs[0](&s)) {
                    Ok(b) => (b as u32).to_string(),
                    Err(_) => "P".into(),
                };
                println!("{} {} {} {}", n, hx, r, oracle(text).is_match(&s) as u32);
            }
        }
        // sweep <dump> <seed> <tier>: check_fn vs oracle; prints DISAGREE lines, SAMPLE lines and STAT
        "sweep" => {
            let seed: u64 = args[2].parse().unwrap();
            let thorough = args.get(3).map(|s| s == "thorough").unwrap_or(false);
            let budget: u64 = if thorough { 6_000_000 } else { 250_000 };
            let corpus: Vec<(u32, Vec<u8>)> = match args.get(4) {
                Some(p) => read_lines(p).iter().filter(|l| !l.is_empty()).map(|l| {
                    let i = l.find(' ').unwrap();
                    (l[..i].parse().unwrap(), l[i + 1..].as_bytes().to_vec())
                }).collect(),
                None => vec![],
            };
            for (n, text) in texts.iter() {
                let fs = match pats.get(text) {
                    Some(f) => f,
                    None => {
                        println!("DISAGREE {} - validator not reachable through any spec", n);
                        continue;
                    }
                };
                if fs.len() != 1 {
                    println!("NOTE {} regex text is served by {} different check functions", n, fs.len());
                }
                let re = oracle(text);
                let mut rng = SplitMix64(seed ^ (*n as u64) << 8);
                let mut evals = 0u64;
                let mut acc = 0u64;
                let mut dis = 0u64;
                let mut members: Vec<Vec<u8>> = Vec::new();
                for f in fs.iter() {
                    let alpha = reduce(&alphabet(text), *f, &re);
                    let k = alpha.len() as u64;
                    // exhaustive up to the largest length that fits the budget
                    let mut maxlen = 0u32;
                    let mut total = 1u64;
                    while maxlen < 12 && total * k <= budget {
                        total *= k;
                        maxlen += 1;
                    }
                    let mut check = |s: &[u8], evals: &mut u64, acc: &mut u64, dis: &mut u64, members: &mut Vec<Vec<u8>>| {
                        *evals += 1;
                        let want = re.is_match(s);
                        let got = guard(|| f(s));
                        if want {
                            *acc += 1;
                            if members.len() < 4000 {
                                members.push(s.to_vec());
                            }
                        }
                        if got != Ok(want) {
                            *dis += 1;
                            if *dis <= 5 {
                                println!("DISAGREE {} {} validator={:?} regex={}", n, hex(s), got, want);
                            }
                        }
                        if *evals % 9973 == 1 || (want && *acc % 211 == 1) {
                            println!("SAMPLE {} {} {}", n, hex(s), match got { Ok(b) => (b as u32).to_string(), Err(_) => "P".into() });
                        }
                    };
                    for (cn, cs) in corpus.iter() {
                        if cn == n {
                            check(cs, &mut evals, &mut acc, &mut dis, &mut members);
                            println!("SAMPLE {} {} {}", n, hex(cs), match guard(|| f(cs)) { Ok(b) => (b as u32).to_string(), Err(_) => "P".into() });
                        }
                    }
                    let mut idx = vec![0usize; 0];
                    // enumerate by length
                    for len in 0..=maxlen as usize {
                        idx.clear();
                        idx.resize(len, 0);
                        loop {
                            let s: Vec<u8> = idx.iter().map(|i| alpha[*i]).collect();
                            check(&s, &mut evals, &mut acc, &mut dis, &mut members);
                            let mut p = len;
                            loop {
                                if p == 0 {
                                    break;
                                }
                                p -= 1;
                                idx[p] += 1;
                                if idx[p] < alpha.len() {
                                    break;
                                }
                                idx[p] = 0;
                                if p == 0 {
                                    p = usize::MAX;
                                    break;
                                }
                            }
                            if len == 0 || p == usize::MAX {
                                break;
                            }
                        }
                    }
                    // the alphabet above has ONE representative per block of the partition the REGEX induces; an implementation
                    // can tell bytes of one block apart (e.g. `char::from(b).is_alphanumeric()` accepts the Latin-1 letters of the
                    // outsider block).  Bytes next to the ASCII classes and the bytes std's char predicates treat specially are
                    // therefore substituted / inserted at every position of the first members
                    const EXTRA: [u8; 26] = [0x00, 0x09, 0x0a, 0x0d, 0x20, 0x2f, 0x3a, 0x40, 0x5b, 0x60, 0x7b, 0x7f, 0x80, 0x85, 0xa0, 0xaa,
                                             0xb2, 0xb5, 0xba, 0xbc, 0xc0, 0xc3, 0xd7, 0xe9, 0xf7, 0xff];
                    let firsts: Vec<Vec<u8>> = members.iter().filter(|m| !m.is_empty()).take(60).cloned().collect();
                    for m in firsts.iter() {
                        for p in 0..m.len().min(12) {
                            for c in EXTRA.iter() {
                                let mut t = m.clone();
                                t[p] = *c;
                                check(&t, &mut evals, &mut acc, &mut dis, &mut members);
                                let mut t = m.clone();
                                t.insert(p + 1, *c);
                                check(&t, &mut evals, &mut acc, &mut dis, &mut members);
                            }
                        }
                    }
                    // members grown by random edits (insert / replace / delete / concatenate / repeat to length bounds)
                    let rounds = if thorough { 400_000 } else { 30_000 };
                    for r in 0..rounds {
                        if members.is_empty() {
                            break;
                        }
                        let mut s = members[rng.below(members.len() as u64) as usize].clone();
                        let ops = 1 + rng.below(3);
                        for _ in 0..ops {
                            let c = if rng.below(4) == 0 { EXTRA[rng.below(EXTRA.len() as u64) as usize] } else { alpha[rng.below(k) as usize] };
                            match rng.below(6) {
                                0 => {
                                    let p = rng.below(s.len() as u64 + 1) as usize;
                                    s.insert(p, c);
                                }
                                1 if !s.is_empty() => {
                                    let p = rng.below(s.len() as u64) as usize;
                                    s[p] = c;
                                }
                                2 if !s.is_empty() => {
                                    let p = rng.below(s.len() as u64) as usize;
                                    s.remove(p);
                                }
                                3 => {
                                    let o = members[rng.below(members.len() as u64) as usize].clone();
                                    s.extend_from_slice(&o);
                                }
                                4 if !s.is_empty() => {
                                    // repeat one byte up to a length boundary (127/128/129, 4/5)
                                    let p = rng.below(s.len() as u64) as usize;
                                    let reps = [3usize, 4, 5, 126, 127, 128, 129][rng.below(7) as usize];
                                    let b = s[p];
                                    for _ in 0..reps {
                                        s.insert(p, b);
                                    }
                                }
                                _ => {
                                    s.push(c);
                                }
                            }
                        }
                        check(&s, &mut evals, &mut acc, &mut dis, &mut members);
                        let _ = r;
                    }
                    println!("STAT {} alphabet={} exhaustive_len<={} evaluations={} accepted={} disagreements={}", n, alpha.len(), maxlen, evals, acc, dis);
                }
            }
        }
        _ => panic!("regex: unknown mode"),
    }
}
