//! C01 / C02 / C08: the loader (lexer.rs, parser.rs, load_buffer, check_buffer) and the writer (ArxmlFile::serialize).
//!   xml run <cases> [-v | -d <blk>] [--shard k n] [--nort] [--only i]     canonical observation per case (same lines as ocaml/xml_driver.ml)
//!   xml exh <maxlen> <prefixhex|-> [same options]                          all strings over the 15-symbol token alphabet
//!   xml gen <dump> <seed> <tier> <outprefix> <corpus>                      writes the case files (documents, defects, mutants)
//!   xml oracle <cases> <set>                                               direct property oracles on the implementation alone
//!   xml depth <n> / xml depthprobe <n>...                                  nesting probes (child process)
//! Case file line:  `<strict 0|1> <hex bytes> [tag]`.
use crate::util::*;
use autosar_data::*;
use std::collections::HashMap;
use std::sync::atomic::{AtomicU64, Ordering};
use std::sync::Mutex;

pub mod docgen;
pub mod oracle;
pub mod reader;

// ------------------------------------------------------------------------------------------------ panic site + watchdog
static PANIC_SITE: Mutex<String> = Mutex::new(String::new());
static WD_CASE: AtomicU64 = AtomicU64::new(u64::MAX);
static WD_TICK: AtomicU64 = AtomicU64::new(0);

pub fn install_panic_site_hook() {
    std::panic::set_hook(Box::new(|info| {
        let s = match info.location() {
            Some(l) => {
                let f = l.file();
                let short = f.rsplit('/').next().unwrap_or(f);
                format!("{}:{}", short, l.line())
            }
            None => "?".to_string(),
        };
        if let Ok(mut g) = PANIC_SITE.lock() {
            *g = s;
        }
    }));
}

pub fn last_panic_site() -> String {
    PANIC_SITE.lock().map(|g| g.clone()).unwrap_or_default()
}

/// a case that runs longer than `secs` is reported and the process exits with code 3 (hang = C02 failure)
pub fn start_watchdog(secs: u64) {
    std::thread::spawn(move || {
        let mut last = (u64::MAX, 0u64);
        let mut since = std::time::Instant::now();
        loop {
            std::thread::sleep(std::time::Duration::from_millis(200));
            let cur = (WD_CASE.load(Ordering::SeqCst), WD_TICK.load(Ordering::SeqCst));
            if cur != last {
                last = cur;
                since = std::time::Instant::now();
            } else if cur.0 != u64::MAX && since.elapsed().as_secs() >= secs {
                println!("{} TIMEOUT", cur.0);
                println!("FAIL c02.hang case={} no result after {}s", cur.0, secs);
                std::process::exit(3);
            }
        }
    });
}

pub fn wd_enter(case: u64) {
    WD_CASE.store(case, Ordering::SeqCst);
    WD_TICK.fetch_add(1, Ordering::SeqCst);
}

pub fn wd_leave() {
    WD_CASE.store(u64::MAX, Ordering::SeqCst);
}

// ------------------------------------------------------------------------------------------------ hashing
pub fn fnv(bytes: &[u8]) -> u64 {
    let mut h: u64 = 0xcbf29ce484222325;
    for b in bytes {
        h ^= *b as u64;
        h = h.wrapping_mul(0x100000001b3);
    }
    h
}

// ------------------------------------------------------------------------------------------------ errors
pub fn lexerr_name(e: &ArxmlLexerError) -> &'static str {
    match e {
        ArxmlLexerError::IncompleteData => "IncompleteData",
        ArxmlLexerError::InvalidElement => "InvalidElement",
        ArxmlLexerError::InvalidProcessingInstruction => "InvalidProcessingInstruction",
        ArxmlLexerError::InvalidXmlHeader => "InvalidXmlHeader",
        ArxmlLexerError::InvalidComment => "InvalidComment",
        _ => "OtherLexerError",
    }
}

/// (kind, element, item) — element = the `element`/`parent_element` field, item = the typed name field, else 0
pub fn parserr_parts(e: &ArxmlParserError) -> (&'static str, u16, u16) {
    use ArxmlParserError::*;
    match e {
        InvalidArxmlFileHeader => ("InvalidArxmlFileHeader", 0, 0),
        UnexpectedXmlFileHeader { element } => ("UnexpectedXmlFileHeader", *element as u16, 0),
        UnknownAutosarVersion { .. } => ("UnknownAutosarVersion", 0, 0),
        InvalidAutosarVersion { .. } => ("InvalidAutosarVersion", 0, 0),
        IncorrectBeginElement { element, sub_element } => ("IncorrectBeginElement", *element as u16, *sub_element as u16),
        InvalidBeginElement { element, .. } => ("InvalidBeginElement", *element as u16, 0),
        IncorrectEndElement { element, other_element } => ("IncorrectEndElement", *element as u16, *other_element as u16),
        InvalidEndElement { parent_element, .. } => ("InvalidEndElement", *parent_element as u16, 0),
        ElementChoiceConflict { element, sub_element } => ("ElementChoiceConflict", *element as u16, *sub_element as u16),
        ElementVersionError { element, sub_element, .. } => ("ElementVersionError", *element as u16, *sub_element as u16),
        TooManySubElements { element, sub_element } => ("TooManySubElements", *element as u16, *sub_element as u16),
        RequiredSubelementMissing { element, sub_element } => ("RequiredSubelementMissing", *element as u16, *sub_element as u16),
        AttributeValueError { element, .. } => ("AttributeValueError", *element as u16, 0),
        UnknownAttributeError { element, .. } => ("UnknownAttributeError", *element as u16, 0),
        AttributeVersionError { element, attribute, .. } => ("AttributeVersionError", *element as u16, *attribute as u16),
        RequiredAttributeMissing { element, attribute } => ("RequiredAttributeMissing", *element as u16, *attribute as u16),
        CharacterContentForbidden { element } => ("CharacterContentForbidden", *element as u16, 0),
        EnumItemVersionError { element, enum_item, .. } => ("EnumItemVersionError", *element as u16, *enum_item as u16),
        UnknownEnumItem { .. } => ("UnknownEnumItem", 0, 0),
        InvalidEnumItem { element, item } => ("InvalidEnumItem", *element as u16, *item as u16),
        StringValueTooLong { .. } => ("StringValueTooLong", 0, 0),
        RegexMatchError { .. } => ("RegexMatchError", 0, 0),
        Utf8Error { .. } => ("Utf8Error", 0, 0),
        UnexpectedEndOfFile { element } => ("UnexpectedEndOfFile", *element as u16, 0),
        InvalidNumber { .. } => ("InvalidNumber", 0, 0),
        AdditionalDataError => ("AdditionalDataError", 0, 0),
        InvalidXmlEntity { .. } => ("InvalidXmlEntity", 0, 0),
        _ => ("OtherParserError", 0, 0),
    }
}

pub fn err_str(e: &AutosarDataError) -> String {
    match e {
        AutosarDataError::LexerError { line, source, .. } => format!("lex {} {}", line, lexerr_name(source)),
        AutosarDataError::ParserError { line, source, .. } => {
            let (k, el, it) = parserr_parts(source);
            format!("parse {} {} {} {}", line, k, el, it)
        }
        AutosarDataError::OverlappingDataError { .. } => "overlap".to_string(),
        other => {
            let d = format!("{:?}", other);
            format!("other:{}", d.split(|c: char| !c.is_alphanumeric()).next().unwrap_or("?"))
        }
    }
}

pub fn err_line(e: &AutosarDataError) -> Option<usize> {
    match e {
        AutosarDataError::LexerError { line, .. } => Some(*line),
        AutosarDataError::ParserError { line, .. } => Some(*line),
        _ => None,
    }
}

// ------------------------------------------------------------------------------------------------ loading
pub struct Loaded {
    pub model: AutosarModel,
    pub file: ArxmlFile,
    pub warnings: Vec<AutosarDataError>,
}

pub enum LoadResult {
    Ok(Loaded),
    Err(AutosarDataError),
    Panic(String),
}

pub fn load(bytes: &[u8], strict: bool) -> LoadResult {
    let r = guard(|| {
        let model = AutosarModel::new();
        match model.load_buffer(bytes, "f.arxml", strict) {
            Ok((file, warnings)) => Ok(Loaded { model, file, warnings }),
            Err(e) => Err(e),
        }
    });
    match r {
        Ok(Ok(l)) => LoadResult::Ok(l),
        Ok(Err(e)) => LoadResult::Err(e),
        Err(_) => LoadResult::Panic(last_panic_site()),
    }
}

pub fn check(bytes: &[u8]) -> &'static str {
    match guard(|| autosar_data::check_buffer(bytes)) {
        Ok(true) => "1",
        Ok(false) => "0",
        Err(_) => "P",
    }
}

pub fn cdata_str(c: &CharacterData) -> String {
    match c {
        CharacterData::Enum(i) => format!("E:{}", i.to_str()),
        CharacterData::String(s) => format!("S:{}", hex(s.as_bytes())),
        CharacterData::UnsignedInteger(v) => format!("U:{}", v),
        CharacterData::Float(f) => format!("F:{:016x}", f.to_bits()),
    }
}

fn pos_str(p: &[usize]) -> String {
    if p.is_empty() {
        "root".to_string()
    } else {
        p.iter().map(|x| x.to_string()).collect::<Vec<_>>().join(".")
    }
}

struct Walk {
    out: String,
    ne: usize,
    posmap: HashMap<Element, String>,
    refpaths: Vec<String>,
}

fn walk(e: &Element, depth: usize, pos: &mut Vec<usize>, w: &mut Walk) {
    w.ne += 1;
    w.posmap.insert(e.clone(), pos_str(pos));
    let t = e.element_type();
    let (d, y) = crate::spec::et_ids(&t);
    let c = match e.comment() {
        None => "-".to_string(),
        Some(c) => format!("c{}", hex(c.as_bytes())),
    };
    w.out.push_str(&format!("E {} {} {},{} {}\n", depth, e.element_name().to_str(), d, y, c));
    for a in e.attributes() {
        w.out.push_str(&format!("A {}={}\n", a.attrname.to_str(), cdata_str(&a.content)));
    }
    let isref = t.is_ref();
    for (i, item) in e.content().enumerate() {
        match item {
            ElementContent::Element(sub) => {
                pos.push(i);
                walk(&sub, depth + 1, pos, w);
                pos.pop();
            }
            ElementContent::CharacterData(cd) => {
                w.out.push_str(&format!("C {}\n", cdata_str(&cd)));
                if isref {
                    if let CharacterData::String(s) = &cd {
                        if !w.refpaths.contains(s) {
                            w.refpaths.push(s.clone());
                        }
                    }
                }
            }
        }
    }
}

/// canonical dump of a loaded file (tree, version, standalone, identifiables, reference origins) and the element count
pub fn dump_loaded(l: &Loaded) -> (String, usize) {
    let mut w = Walk { out: String::new(), ne: 0, posmap: HashMap::new(), refpaths: Vec::new() };
    let root = l.model.root_element();
    walk(&root, 0, &mut Vec::new(), &mut w);
    w.out.push_str(&format!("V {}\n", l.file.version() as u32));
    w.out.push_str(&format!(
        "SA {}\n",
        match l.file.xml_standalone() {
            None => "-",
            Some(true) => "yes",
            Some(false) => "no",
        }
    ));
    for (path, weak) in l.model.identifiable_elements() {
        let p = weak.upgrade().and_then(|e| w.posmap.get(&e).cloned()).unwrap_or_else(|| "dead".to_string());
        w.out.push_str(&format!("I {} {}\n", hex(path.as_bytes()), p));
    }
    for rp in w.refpaths.iter() {
        let origins: Vec<String> = l
            .model
            .get_references_to(rp)
            .iter()
            .map(|we| we.upgrade().and_then(|e| w.posmap.get(&e).cloned()).unwrap_or_else(|| "dead".to_string()))
            .collect();
        w.out.push_str(&format!("R {} {}\n", hex(rp.as_bytes()), origins.join(";")));
    }
    (w.out, w.ne)
}

pub fn warnings_str(ws: &[AutosarDataError]) -> String {
    format!("nw={} w=[{}]", ws.len(), ws.iter().map(err_str).collect::<Vec<_>>().join(";"))
}

pub struct Obs {
    pub line: String,
    pub site: String,
    pub dump: String,
    pub ser: Option<String>,
}

pub fn serialize(l: &Loaded) -> Result<String, String> {
    match guard(|| l.file.serialize()) {
        Ok(Ok(s)) => Ok(s),
        Ok(Err(e)) => Err(format!("ERR({})", err_str(&e))),
        Err(_) => Err("PANIC".to_string()),
    }
}

/// one observation: check_buffer + load + serialize + reload + reserialize
pub fn observe(bytes: &[u8], strict: bool, with_rt: bool) -> Obs {
    let chk = check(bytes);
    match load(bytes, strict) {
        LoadResult::Panic(site) => Obs { line: format!("PANIC chk={}", chk), site, dump: String::new(), ser: None },
        LoadResult::Err(e) => Obs { line: format!("ERR {} chk={}", err_str(&e), chk), site: String::new(), dump: String::new(), ser: None },
        LoadResult::Ok(l) => {
            let (d, ne) = dump_loaded(&l);
            let head = format!("OK t={:016x} ne={} {} chk={}", fnv(d.as_bytes()), ne, warnings_str(&l.warnings), chk);
            if !with_rt {
                return Obs { line: head, site: String::new(), dump: d, ser: None };
            }
            match serialize(&l) {
                Err(what) => Obs { line: format!("{} ser={}", head, what), site: last_panic_site(), dump: d, ser: None },
                Ok(text) => {
                    let rt = match load(text.as_bytes(), strict) {
                        LoadResult::Panic(_) => "rt=PANIC".to_string(),
                        LoadResult::Err(e) => format!("rt=ERR({})", err_str(&e).split_whitespace().collect::<Vec<_>>().join("_")),
                        LoadResult::Ok(l2) => {
                            let (d2, _) = dump_loaded(&l2);
                            let s2 = match serialize(&l2) {
                                Ok(t2) => format!("{:016x}", fnv(t2.as_bytes())),
                                Err(w) => w,
                            };
                            format!("rt={:016x}/{}/{}", fnv(d2.as_bytes()), l2.warnings.len(), s2)
                        }
                    };
                    Obs { line: format!("{} ser={:016x} {}", head, fnv(text.as_bytes()), rt), site: String::new(), dump: d, ser: Some(text) }
                }
            }
        }
    }
}

// ------------------------------------------------------------------------------------------------ output
pub struct Sink {
    blk: u64,
    blk_n: usize,
    blk_idx: usize,
    blksize: usize,
    stats: std::collections::BTreeMap<String, u64>,
    mode: u8, // 0 full, 1 verbose, 2 digest
}

fn stat_key(l: &str) -> String {
    let f: Vec<&str> = l.split_whitespace().collect();
    match f.as_slice() {
        ["OK", _, _, nw, ..] => {
            if *nw == "nw=0" {
                "OK".into()
            } else {
                "OK+warnings".into()
            }
        }
        ["ERR", "lex", _, k, ..] => format!("ERR.lex.{}", k),
        ["ERR", "parse", _, k, ..] => format!("ERR.parse.{}", k),
        ["ERR", k, ..] => format!("ERR.{}", k),
        [k, ..] => k.to_string(),
        [] => "?".into(),
    }
}

impl Sink {
    pub fn new(mode: u8, blksize: usize) -> Self {
        Sink { blk: 0xcbf29ce484222325, blk_n: 0, blk_idx: 0, blksize, stats: Default::default(), mode }
    }
    pub fn emit(&mut self, id: &str, o: &Obs) {
        *self.stats.entry(stat_key(&o.line)).or_insert(0) += 1;
        if self.mode == 2 {
            for b in id.bytes().chain(std::iter::once(b' ')).chain(o.line.bytes()).chain(std::iter::once(b'\n')) {
                self.blk ^= b as u64;
                self.blk = self.blk.wrapping_mul(0x100000001b3);
            }
            self.blk_n += 1;
            if self.blk_n == self.blksize {
                println!("B {} {:016x} {}", self.blk_idx, self.blk, self.blk_n);
                self.blk = 0xcbf29ce484222325;
                self.blk_n = 0;
                self.blk_idx += 1;
            }
        } else {
            if o.site.is_empty() {
                println!("{} {}", id, o.line);
            } else {
                println!("{} {} @{}", id, o.line, o.site);
            }
            if self.mode == 1 {
                print!("{}", o.dump);
                if let Some(t) = &o.ser {
                    println!("SER {}", hex(t.as_bytes()));
                }
            }
        }
    }
    pub fn finish(&mut self) {
        if self.mode == 2 && self.blk_n > 0 {
            println!("B {} {:016x} {}", self.blk_idx, self.blk, self.blk_n);
        }
        for (k, v) in self.stats.iter() {
            println!("STAT {} {}", k, v);
        }
    }
}

pub const ALPHABET: &[u8; 15] = b"<>/?!-=\"'&;# \nx";

pub fn exh_count(maxlen: u32) -> u64 {
    let mut p = 1u64;
    let mut acc = 0u64;
    for _ in 0..=maxlen {
        acc += p;
        p *= 15;
    }
    acc
}

pub fn exh_string(c: u64) -> Vec<u8> {
    let (mut k, mut p, mut off) = (0usize, 1u64, 0u64);
    while c >= off + p {
        off += p;
        p *= 15;
        k += 1;
    }
    let mut r = c - off;
    let mut b = vec![b' '; k];
    for i in (0..k).rev() {
        b[i] = ALPHABET[(r % 15) as usize];
        r /= 15;
    }
    b
}

struct Opts {
    mode: u8,
    blk: usize,
    shard: (u64, u64),
    rt: bool,
    only: i64,
}

fn parse_opts(args: &[String]) -> Opts {
    let mut o = Opts { mode: 0, blk: 4096, shard: (0, 1), rt: true, only: -1 };
    let mut i = 0;
    while i < args.len() {
        match args[i].as_str() {
            "-v" => o.mode = 1,
            "-d" => {
                o.mode = 2;
                o.blk = args[i + 1].parse().unwrap();
                i += 1;
            }
            "--shard" => {
                o.shard = (args[i + 1].parse().unwrap(), args[i + 2].parse().unwrap());
                i += 2;
            }
            "--nort" => o.rt = false,
            "--only" => {
                o.only = args[i + 1].parse().unwrap();
                i += 1;
            }
            _ => {}
        }
        i += 1;
    }
    o
}

pub fn read_cases(path: &str) -> Vec<(bool, Vec<u8>, String)> {
    read_lines(path)
        .iter()
        .map(|l| {
            let f: Vec<&str> = l.split(' ').filter(|x| !x.is_empty()).collect();
            let strict = f.first().map(|x| *x == "1").unwrap_or(false);
            let (hx, tag) = match f.get(1) {
                Some(h) if h.bytes().all(|c| c.is_ascii_hexdigit()) => (*h, f.get(2).copied().unwrap_or("")),
                Some(t) => ("", *t),
                None => ("", ""),
            };
            (strict, unhex(hx), tag.to_string())
        })
        .collect()
}

fn run_main(args: &[String]) {
    let o = parse_opts(&args[1..]);
    let cases = read_cases(&args[0]);
    let mut s = Sink::new(o.mode, o.blk);
    for (idx, (strict, bytes, _)) in cases.iter().enumerate() {
        let idx = idx as u64;
        if idx % o.shard.1 != o.shard.0 || (o.only >= 0 && o.only as u64 != idx) {
            continue;
        }
        wd_enter(idx);
        let ob = observe(bytes, *strict, o.rt);
        wd_leave();
        s.emit(&idx.to_string(), &ob);
    }
    s.finish();
}

fn exh_main(args: &[String]) {
    let maxlen: u32 = args[0].parse().unwrap();
    let prefix = if args[1] == "-" { Vec::new() } else { unhex(&args[1]) };
    let o = parse_opts(&args[2..]);
    let mut s = Sink::new(o.mode, o.blk);
    let total = exh_count(maxlen);
    let mut c = o.shard.0;
    while c < total {
        if o.only < 0 || o.only as u64 == c {
            let mut b = prefix.clone();
            b.extend_from_slice(&exh_string(c));
            wd_enter(c);
            let o0 = observe(&b, false, o.rt);
            let o1 = observe(&b, true, o.rt);
            wd_leave();
            s.emit(&format!("{}/0", c), &o0);
            s.emit(&format!("{}/1", c), &o1);
        }
        c += o.shard.1;
    }
    s.finish();
}

// ------------------------------------------------------------------------------------------------ nesting probes
pub fn nested_doc(depth: usize) -> Vec<u8> {
    let mut s = String::new();
    s.push_str("<?xml version=\"1.0\" encoding=\"utf-8\"?>\n<AUTOSAR xsi:schemaLocation=\"http://autosar.org/schema/r4.0 AUTOSAR_00050.xsd\" xmlns=\"http://autosar.org/schema/r4.0\" xmlns:xsi=\"http://www.w3.org/2001/XMLSchema-instance\">");
    for i in 0..depth {
        s.push_str(&format!("<AR-PACKAGES><AR-PACKAGE><SHORT-NAME>p{}</SHORT-NAME>", i));
    }
    for _ in 0..depth {
        s.push_str("</AR-PACKAGE></AR-PACKAGES>");
    }
    s.push_str("</AUTOSAR>\n");
    s.into_bytes()
}

/// child: load a document with `depth` nested AR-PACKAGES/AR-PACKAGE pairs, serialize it, drop it
fn depth_child(args: &[String]) {
    let depth: usize = args[0].parse().unwrap();
    let doc = nested_doc(depth);
    match load(&doc, true) {
        LoadResult::Ok(l) => {
            println!("DEPTH {} loaded", depth);
            let s = serialize(&l);
            println!("DEPTH {} serialized {}", depth, s.map(|t| t.len().to_string()).unwrap_or_else(|e| e));
            drop(l);
            println!("DEPTH {} dropped", depth);
        }
        LoadResult::Err(e) => println!("DEPTH {} err {}", depth, err_str(&e)),
        LoadResult::Panic(s) => println!("DEPTH {} panic {}", depth, s),
    }
}

/// parent: one child process per depth; a stack overflow is observed as the child's signal
fn depth_probe(args: &[String]) {
    let exe = std::env::current_exe().unwrap();
    for d in args {
        let out = std::process::Command::new(&exe).args(["xml", "depth", d]).output();
        match out {
            Ok(o) => {
                let stdout = String::from_utf8_lossy(&o.stdout);
                let last = stdout.lines().last().unwrap_or("").to_string();
                #[cfg(unix)]
                let sig = {
                    use std::os::unix::process::ExitStatusExt;
                    o.status.signal()
                };
                #[cfg(not(unix))]
                let sig: Option<i32> = None;
                if o.status.success() && last.ends_with("dropped") {
                    println!("PROBE depth={} ok", d);
                } else if let Some(s) = sig {
                    println!("PROBE depth={} signal={} after=[{}]", d, s, last);
                } else {
                    println!("PROBE depth={} exit={:?} after=[{}]", d, o.status.code(), last);
                }
            }
            Err(e) => println!("PROBE depth={} spawn-failed {}", d, e),
        }
    }
}

pub fn main(args: &[String]) {
    if args.is_empty() {
        eprintln!("usage: avh xml run|exh|gen|oracle|depth|depthprobe ...");
        std::process::exit(2);
    }
    install_panic_site_hook();
    match args[0].as_str() {
        "run" => {
            start_watchdog(20);
            run_main(&args[1..])
        }
        "exh" => {
            start_watchdog(20);
            exh_main(&args[1..])
        }
        "gen" => {
            if let Err(m) = guard(|| docgen::main(&args[1..])) {
                eprintln!("generator panicked: {} at {}", m, last_panic_site());
                std::process::exit(101);
            }
        }
        "oracle" => {
            start_watchdog(20);
            oracle::main(&args[1..])
        }
        "multifile" => {
            start_watchdog(30);
            oracle::multifile_main(&args[1..])
        }
        "exhoracle" => {
            start_watchdog(20);
            oracle::exh_main(&args[1..])
        }
        "depth" => depth_child(&args[1..]),
        "depthprobe" => depth_probe(&args[1..]),
        other => {
            eprintln!("unknown xml subcommand {}", other);
            std::process::exit(2);
        }
    }
}
