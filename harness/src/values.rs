//! C20: typed values — CharacterData::{parse_integer::<T>, parse_float, parse_bool, to_string} and (through the
//! verification hook H3, `--cfg autosar_data_verif`) CharacterData::{parse, check_value, serialize_internal} with the
//! REAL CharacterDataSpec entries of the specification, on a generated stream.
//!
//!   avh values run <seed> <quick|thorough>      generate the stream and observe every case
//!   avh values eval <file>                      observe the cases listed in <file> (the part of a line before " => ")
//!
//! One canonical line per observation:  <case> => <result> [key=value ...]
//!   PI  <hex text>            => u8:.. u16:.. u32:.. u64:.. u128:.. usize:.. i8:.. i16:.. i32:.. i64:.. i128:.. isize:..   (decimal or -)
//!   PIU <n>                   => the same twelve results for CharacterData::UnsignedInteger(n)
//!   PIF <bits> / PIE <item>   => the same for Float / Enum values (all -)
//!   PF  <hex text>            => <f64 bits as 16 hex digits | ->  std=<bits|-> of text.parse::<f64>() computed by the harness itself
//!   PFU <n> / PFF <bits> / PFE <item>
//!   PB  <hex text>            => T | F | -          PBU <n> => -
//!   TS  <value>               => <hex of to_string()> ser=<hex of serialize_internal> std=<hex of std to_string (U/F)>
//!   PARSE <spec#> <version> <hex text>   => <value> | -
//!   CHK <spec#> <version> <value>        => 0 | 1
//!   RT  <spec#> <version> <value>        => <parse(to_string(value))> | - | skip (check_value false)
//!   <value> = E:<discriminant> | S:<hex> | U:<n> | F:<16 hex digits>
//! Floats are printed as their 64 bits, never as decimal text.
//! Texts reach the library as &str, so byte strings that are not valid UTF-8 cannot be passed (not reachable).
//!
//! The DIRECT PROPERTY ORACLE (independent of the Coq model) runs on every case and prints
//!   ORACLE-FAIL <class> <case> : <what>
//! it uses the published regexes of the specification (regex crate) to decide "is in the lexical form", exact
//! integer arithmetic by hand (sign + u128 magnitude with overflow flag; for floats a bit-by-bit scan of the
//! digit string: 53 leading bits, round bit, sticky bit) and nothing from chardata.rs.
use crate::spec::{cdata_summary, reachable};
use crate::util::*;
use autosar_data::CharacterData;
use autosar_data_specification::*;
use std::collections::BTreeMap;

// ------------------------------------------------------------------------------------------ observation

fn opt<T: std::fmt::Display>(v: Option<T>) -> String {
    match v {
        Some(x) => x.to_string(),
        None => "-".to_string(),
    }
}

fn g<T>(f: impl FnOnce() -> T) -> Result<T, String> {
    guard(f)
}

fn pi_all(cd: &CharacterData) -> String {
    macro_rules! one {
        ($t:ty) => {
            match g(|| cd.parse_integer::<$t>()) {
                Ok(r) => format!("{}:{}", stringify!($t), opt(r)),
                Err(_) => format!("{}:PANIC", stringify!($t)),
            }
        };
    }
    [
        one!(u8), one!(u16), one!(u32), one!(u64), one!(u128), one!(usize),
        one!(i8), one!(i16), one!(i32), one!(i64), one!(i128), one!(isize),
    ]
    .join(" ")
}

fn bits_s(v: Option<f64>) -> String {
    match v {
        Some(x) => format!("{:016x}", x.to_bits()),
        None => "-".to_string(),
    }
}

fn value_s(v: &CharacterData) -> String {
    match v {
        CharacterData::Enum(e) => format!("E:{}", *e as u16),
        CharacterData::String(s) => format!("S:{}", hex(s.as_bytes())),
        CharacterData::UnsignedInteger(n) => format!("U:{}", n),
        CharacterData::Float(f) => format!("F:{:016x}", f.to_bits()),
    }
}

fn same_value(a: &CharacterData, b: &CharacterData) -> bool {
    match (a, b) {
        (CharacterData::Enum(x), CharacterData::Enum(y)) => x == y,
        (CharacterData::String(x), CharacterData::String(y)) => x == y,
        (CharacterData::UnsignedInteger(x), CharacterData::UnsignedInteger(y)) => x == y,
        (CharacterData::Float(x), CharacterData::Float(y)) => x.to_bits() == y.to_bits() || (x.is_nan() && y.is_nan()),
        _ => false,
    }
}

struct World {
    specs: Vec<&'static CharacterDataSpec>,
    items: Vec<EnumItem>, // all enum items that occur in some spec, by discriminant order
    item_by_disc: BTreeMap<u16, EnumItem>,
    rx13: regex::Regex,
    rx16: regex::Regex,
    rx21: regex::Regex,
    rx6: regex::Regex,
}

fn find_pattern(specs: &[&'static CharacterDataSpec], needle: &str) -> regex::Regex {
    for s in specs {
        if let CharacterDataSpec::Pattern { regex, .. } = s {
            if *regex == needle {
                return regex::Regex::new(&format!("^(?:{})$", regex)).expect("regex");
            }
        }
    }
    panic!("pattern {} not found in the specification", needle);
}

fn world() -> World {
    // distinct specs (by content) reachable through element and attribute specs, in first-seen order
    let mut seen: BTreeMap<String, usize> = BTreeMap::new();
    let mut specs: Vec<&'static CharacterDataSpec> = Vec::new();
    let mut add = |c: &'static CharacterDataSpec| {
        let k = cdata_summary(c);
        if !seen.contains_key(&k) {
            seen.insert(k, specs.len());
            specs.push(c);
        }
    };
    for t in reachable() {
        if let Some(c) = t.chardata_spec() {
            add(c);
        }
        for (_, c, _) in t.attribute_spec_iter() {
            add(c);
        }
    }
    let mut item_by_disc: BTreeMap<u16, EnumItem> = BTreeMap::new();
    for s in specs.iter() {
        if let CharacterDataSpec::Enum { items } = s {
            for (i, _) in items.iter() {
                item_by_disc.insert(*i as u16, *i);
            }
        }
    }
    let items: Vec<EnumItem> = item_by_disc.values().cloned().collect();
    let rx13 = find_pattern(&specs, r"0|[\+\-]?[1-9][0-9]*|0[xX][0-9a-fA-F]+|0[bB][0-1]+|0[0-7]+");
    let rx21 = find_pattern(&specs, r"0|[\+]?[1-9][0-9]*|0[xX][0-9a-fA-F]+|0[bB][0-1]+|0[0-7]+");
    let rx6 = find_pattern(&specs, r"0|1|true|false");
    let mut rx16 = None;
    for s in specs.iter() {
        if let CharacterDataSpec::Pattern { regex, .. } = s {
            if regex.contains("INF") && regex.contains("NaN") {
                rx16 = Some(regex::Regex::new(&format!("^(?:{})$", regex)).expect("regex16"));
            }
        }
    }
    World { specs, items, item_by_disc, rx13, rx16: rx16.expect("regex 16 (Numerical) not found"), rx21, rx6 }
}

fn version_of(v: u32) -> Option<AutosarVersion> {
    AutosarVersion::from_val(v)
}

fn parse_value(w: &World, s: &str) -> Option<CharacterData> {
    let (k, r) = s.split_at(2);
    match k {
        "E:" => w.item_by_disc.get(&r.parse::<u16>().ok()?).map(|e| CharacterData::Enum(*e)),
        "S:" => String::from_utf8(unhex(r)).ok().map(CharacterData::String),
        "U:" => r.parse::<u64>().ok().map(CharacterData::UnsignedInteger),
        "F:" => u64::from_str_radix(r, 16).ok().map(|b| CharacterData::Float(f64::from_bits(b))),
        _ => None,
    }
}

#[cfg(autosar_data_verif)]
mod hook {
    use super::*;
    pub const AVAILABLE: bool = true;
    pub fn parse(t: &str, s: &CharacterDataSpec, v: AutosarVersion) -> Option<CharacterData> {
        CharacterData::verif_parse(t, s, v)
    }
    pub fn check(d: &CharacterData, s: &CharacterDataSpec, v: AutosarVersion) -> bool {
        d.verif_check_value(s, v)
    }
    pub fn ser(d: &CharacterData) -> String {
        d.verif_serialize()
    }
}
#[cfg(not(autosar_data_verif))]
mod hook {
    use super::*;
    pub const AVAILABLE: bool = false;
    pub fn parse(_t: &str, _s: &CharacterDataSpec, _v: AutosarVersion) -> Option<CharacterData> {
        None
    }
    pub fn check(_d: &CharacterData, _s: &CharacterDataSpec, _v: AutosarVersion) -> bool {
        false
    }
    pub fn ser(_d: &CharacterData) -> String {
        String::new()
    }
}

// ------------------------------------------------------------------------------------------ independent oracle

/// sign and magnitude; `mag == None` : larger than u128::MAX
#[derive(Clone, Debug, PartialEq)]
struct Exact {
    neg: bool,
    mag: Option<u128>,
}

fn digit_of(c: u8) -> Option<u32> {
    match c {
        b'0'..=b'9' => Some((c - b'0') as u32),
        b'a'..=b'z' => Some((c - b'a') as u32 + 10),
        b'A'..=b'Z' => Some((c - b'A') as u32 + 10),
        _ => None,
    }
}

/// positional value of a non-empty digit string (None: empty or a byte that is not a digit of the radix)
fn magnitude(ds: &[u8], radix: u32) -> Option<Option<u128>> {
    if ds.is_empty() {
        return None;
    }
    let mut acc: Option<u128> = Some(0);
    for c in ds {
        let d = digit_of(*c)?;
        if d >= radix {
            return None;
        }
        acc = acc.and_then(|a| a.checked_mul(radix as u128)).and_then(|a| a.checked_add(d as u128));
    }
    Some(acc)
}

/// the liberal reading: "0", or radix prefix (0x 0X 0b 0B 0) or none, then one optional sign, then >= 1 digits
fn liberal_value(t: &[u8]) -> Option<Exact> {
    if t == b"0" {
        return Some(Exact { neg: false, mag: Some(0) });
    }
    let (radix, rest): (u32, &[u8]) = if t.starts_with(b"0x") || t.starts_with(b"0X") {
        (16, &t[2..])
    } else if t.starts_with(b"0b") || t.starts_with(b"0B") {
        (2, &t[2..])
    } else if t.starts_with(b"0") {
        (8, &t[1..])
    } else {
        (10, t)
    };
    let (neg, ds) = match rest.first() {
        Some(b'+') => (false, &rest[1..]),
        Some(b'-') => (true, &rest[1..]),
        _ => (false, rest),
    };
    magnitude(ds, radix).map(|mag| Exact { neg, mag })
}

fn fits(e: &Exact, signed: bool, bits: u32) -> Option<String> {
    let m = e.mag?;
    if !signed {
        if e.neg && m != 0 {
            return None;
        }
        if bits < 128 && m >= (1u128 << bits) {
            return None;
        }
        Some(m.to_string())
    } else {
        let lim = 1u128 << (bits - 1);
        if e.neg {
            if m > lim {
                return None;
            }
            Some(if m == 0 { "0".to_string() } else { format!("-{}", m) })
        } else {
            if m >= lim {
                return None;
            }
            Some(m.to_string())
        }
    }
}

const TYPES: [(&str, bool, u32); 12] = [
    ("u8", false, 8), ("u16", false, 16), ("u32", false, 32), ("u64", false, 64), ("u128", false, 128), ("usize", false, 64),
    ("i8", true, 8), ("i16", true, 16), ("i32", true, 32), ("i64", true, 64), ("i128", true, 128), ("isize", true, 64),
];

/// correctly rounded binary64 of the natural number written by `ds` in radix 2^bpd, by scanning its bits.
/// Some(bits) | None = the rounded value is not finite.  `ds` must be digits of the radix.
fn exact_f64_of_digits(ds: &[u8], bpd: u32) -> Option<u64> {
    let mut bits: Vec<u8> = Vec::new();
    for c in ds {
        let d = digit_of(*c).unwrap();
        for i in (0..bpd).rev() {
            bits.push(((d >> i) & 1) as u8);
        }
    }
    let first = match bits.iter().position(|b| *b == 1) {
        Some(p) => p,
        None => return Some(0),
    };
    let sig = &bits[first..];
    let n = sig.len(); // value in [2^(n-1), 2^n)
    let mut q: u64 = 0;
    for i in 0..53 {
        q = (q << 1) | (if i < n { sig[i] as u64 } else { 0 });
    }
    let round = n > 53 && sig[53] == 1;
    let sticky = n > 54 && sig[54..].iter().any(|b| *b == 1);
    let mut exp = n as u64 - 1;
    if round && (sticky || q & 1 == 1) {
        q += 1;
        if q == 1u64 << 53 {
            q = 1u64 << 52;
            exp += 1;
        }
    }
    if exp > 1023 {
        return None;
    }
    Some(((1023 + exp) << 52) | (q - (1u64 << 52)))
}

/// (negative, digits, bits per digit) of the liberal prefixed reading: 0x 0X 0b 0B 0, one optional sign, >= 1 digits of the radix
fn liberal_prefixed_digits(t: &[u8]) -> Option<(bool, &[u8], u32)> {
    let (r, bpd, rest): (u32, u32, &[u8]) = if t.starts_with(b"0x") || t.starts_with(b"0X") {
        (16, 4, &t[2..])
    } else if t.starts_with(b"0b") || t.starts_with(b"0B") {
        (2, 1, &t[2..])
    } else if t.starts_with(b"0") && t.len() > 1 {
        (8, 3, &t[1..])
    } else {
        return None;
    };
    let (neg, ds) = match rest.first() {
        Some(b'+') => (false, &rest[1..]),
        Some(b'-') => (true, &rest[1..]),
        _ => (false, rest),
    };
    if !ds.is_empty() && ds.iter().all(|c| digit_of(*c).map(|d| d < r).unwrap_or(false)) {
        Some((neg, ds, bpd))
    } else {
        None
    }
}

/// number of significant bits of the natural number written by `ds` in radix 2^bpd
fn sig_bits(ds: &[u8], bpd: u32) -> usize {
    let mut n = 0usize;
    for c in ds {
        let d = digit_of(*c).unwrap();
        if n == 0 {
            n = (32 - d.leading_zeros()) as usize;
        } else {
            n += bpd as usize;
        }
    }
    n
}

/// (digits, bits per digit) when t is 0[xX]hex+ | 0[bB]bin+ | 0oct+
fn prefixed_form(t: &[u8]) -> Option<(&[u8], u32)> {
    let all = |ds: &[u8], r: u32| !ds.is_empty() && ds.iter().all(|c| digit_of(*c).map(|d| d < r).unwrap_or(false));
    if t.len() >= 2 && t[0] == b'0' && (t[1] == b'x' || t[1] == b'X') {
        return if all(&t[2..], 16) { Some((&t[2..], 4)) } else { None };
    }
    if t.len() >= 2 && t[0] == b'0' && (t[1] == b'b' || t[1] == b'B') {
        return if all(&t[2..], 2) { Some((&t[2..], 1)) } else { None };
    }
    if t.len() >= 2 && t[0] == b'0' && all(&t[1..], 8) {
        return Some((&t[1..], 3));
    }
    None
}

struct Stats {
    cases: BTreeMap<String, u64>,
    classes: BTreeMap<String, u64>,
    oracle_fail: u64,
}

impl Stats {
    fn class(&mut self, k: &str) {
        *self.classes.entry(k.to_string()).or_insert(0) += 1;
    }
}

fn fail(st: &mut Stats, class: &str, case: &str, what: &str) {
    st.oracle_fail += 1;
    println!("ORACLE-FAIL {} {} : {}", class, case, what);
}

// ------------------------------------------------------------------------------------------ one case

fn observe(w: &World, case: &str, st: &mut Stats) {
    let f: Vec<&str> = case.split(' ').collect();
    *st.cases.entry(f[0].to_string()).or_insert(0) += 1;
    match f[0] {
        "PI" | "PF" | "PB" => {
            let raw = unhex(f.get(1).unwrap_or(&""));
            let text = match String::from_utf8(raw.clone()) {
                Ok(t) => t,
                Err(_) => {
                    println!("{} => NOT-UTF8", case);
                    return;
                }
            };
            let cd = CharacterData::String(text.clone());
            match f[0] {
                "PI" => {
                    let res = pi_all(&cd);
                    println!("{} => {}", case, res);
                    // direct oracle
                    let in13 = w.rx13.is_match(&text);
                    let in21 = w.rx21.is_match(&text);
                    let lib = liberal_value(&raw);
                    st.class(if in13 { "int:in-regex13" } else if lib.is_some() { "int:liberal-only" } else { "int:no-reading" });
                    if in21 {
                        st.class("int:in-regex21");
                    }
                    if in13 && lib.is_none() {
                        fail(st, "harness", case, "text matches regex 13 but the harness has no reading for it");
                    }
                    for (part, (name, signed, bits)) in res.split(' ').zip(TYPES.iter()) {
                        let got = &part[name.len() + 1..];
                        let want = lib.as_ref().and_then(|e| fits(e, *signed, *bits));
                        if in13 {
                            // exact: Some(value) iff it fits
                            if got != want.clone().unwrap_or("-".to_string()) {
                                fail(st, "integer-exact", case, &format!("{}: got {} expected {}", name, got, want.clone().unwrap_or("-".into())));
                            }
                            if want.is_some() {
                                st.class("int:in-form-fits");
                            } else {
                                st.class("int:in-form-does-not-fit");
                            }
                        } else if got != "-" {
                            // never a different number
                            st.class("int:outside-form-accepted");
                            if Some(got.to_string()) != want {
                                fail(st, "integer-wrong-number", case, &format!("{}: got {} but the text reads {:?}", name, got, lib));
                            }
                        }
                    }
                }
                "PF" => {
                    let got = g(|| cd.parse_float());
                    let std = text.parse::<f64>().ok();
                    match got {
                        Ok(r) => println!("{} => {} std={}", case, bits_s(r), bits_s(std)),
                        Err(_) => println!("{} => PANIC std={}", case, bits_s(std)),
                    }
                    let got = got.unwrap_or(None);
                    let in16 = w.rx16.is_match(&text);
                    if let Some((ds, bpd)) = prefixed_form(&raw) {
                        let want = exact_f64_of_digits(ds, bpd);
                        let big = sig_bits(ds, bpd) > 64; // value >= 2^64
                        st.class(if big { "float:prefixed>=2^64" } else { "float:prefixed" });
                        if !in16 {
                            fail(st, "harness", case, "prefixed form not matched by regex 16");
                        }
                        if got.map(|x| x.to_bits()) != want {
                            fail(st, "float-prefixed", case, &format!("got {} expected {} (exact integer arithmetic)", bits_s(got), opt(want.map(|b| format!("{:016x}", b)))));
                        }
                    } else if text == "0" {
                        st.class("float:zero");
                        if got.map(|x| x.to_bits()) != Some(0) {
                            fail(st, "float-zero", case, "expected +0.0");
                        }
                    } else if text == "INF" || text == "-INF" || text == "NaN" {
                        st.class("float:special");
                        let ok = match (text.as_str(), got) {
                            ("INF", Some(x)) => x == f64::INFINITY,
                            ("-INF", Some(x)) => x == f64::NEG_INFINITY,
                            ("NaN", Some(x)) => x.is_nan(),
                            _ => false,
                        };
                        if !ok {
                            fail(st, "float-special", case, &format!("got {}", bits_s(got)));
                        }
                    } else {
                        // decimal forms: the std conversion is the reference (oracle: correctly rounded).
                        // outside the lexical forms the result may be nothing, or the liberal reading:
                        // radix prefix, one optional sign, digits (exact), or the decimal reading of std
                        let libf = liberal_prefixed_digits(&raw).map(|(neg, ds, bpd)| exact_f64_of_digits(ds, bpd).map(|b| if neg { b | (1u64 << 63) } else { b }));
                        st.class(if in16 {
                            "float:decimal-in-regex16"
                        } else if libf.is_some() {
                            "float:liberal-prefixed-outside-form"
                        } else if std.is_some() {
                            "float:std-accepts-outside-form"
                        } else {
                            "float:rejected"
                        });
                        let same = match (got, std) {
                            (Some(a), Some(b)) => a.to_bits() == b.to_bits() || (a.is_nan() && b.is_nan()),
                            (None, None) => true,
                            _ => false,
                        };
                        let ok = if in16 {
                            same
                        } else {
                            got.is_none() || same || (libf.is_some() && libf.unwrap() == got.map(|x| x.to_bits()))
                        };
                        if !ok {
                            fail(st, "float-decimal", case, &format!("got {} but str::parse::<f64> gives {} and the liberal prefixed reading {:?}", bits_s(got), bits_s(std), libf));
                        }
                        if in16 && got.is_none() {
                            fail(st, "float-decimal", case, "text in the Numerical pattern is not converted");
                        }
                    }
                }
                _ => {
                    let got = g(|| cd.parse_bool());
                    let s = match got {
                        Ok(Some(true)) => "T",
                        Ok(Some(false)) => "F",
                        Ok(None) => "-",
                        Err(_) => "PANIC",
                    };
                    println!("{} => {}", case, s);
                    let in6 = w.rx6.is_match(&text);
                    st.class(if in6 { "bool:in-regex6" } else { "bool:outside" });
                    let want = match text.as_str() {
                        "true" | "1" => "T",
                        "false" | "0" => "F",
                        _ => "-",
                    };
                    if s != want || (in6 != (want != "-")) {
                        fail(st, "bool", case, &format!("got {} expected {}", s, want));
                    }
                }
            }
        }
        "PIU" | "PFU" | "PBU" => {
            let n: u64 = f[1].parse().unwrap();
            let cd = CharacterData::UnsignedInteger(n);
            match f[0] {
                "PIU" => {
                    let res = pi_all(&cd);
                    println!("{} => {}", case, res);
                    let e = Exact { neg: false, mag: Some(n as u128) };
                    for (part, (name, signed, bits)) in res.split(' ').zip(TYPES.iter()) {
                        let got = &part[name.len() + 1..];
                        let want = fits(&e, *signed, *bits).unwrap_or("-".into());
                        if got != want {
                            fail(st, "integer-from-u64", case, &format!("{}: got {} expected {}", name, got, want));
                        }
                    }
                }
                "PFU" => {
                    let got = g(|| cd.parse_float()).unwrap_or(None);
                    println!("{} => {}", case, bits_s(got));
                    let hx = format!("{:x}", n);
                    let want = exact_f64_of_digits(hx.as_bytes(), 4);
                    st.class(if n >= 1u64 << 53 { "float:u64>=2^53" } else { "float:u64<2^53" });
                    if got.map(|x| x.to_bits()) != want {
                        fail(st, "float-from-u64", case, &format!("got {} expected {:?}", bits_s(got), want));
                    }
                }
                _ => println!("{} => {}", case, opt(g(|| cd.parse_bool()).unwrap_or(None))),
            }
        }
        "PIF" | "PFF" => {
            let b = u64::from_str_radix(f[1], 16).unwrap();
            let cd = CharacterData::Float(f64::from_bits(b));
            if f[0] == "PIF" {
                println!("{} => {}", case, pi_all(&cd));
            } else {
                let got = g(|| cd.parse_float()).unwrap_or(None);
                println!("{} => {}", case, bits_s(got));
                if got.map(|x| x.to_bits()) != Some(b) {
                    fail(st, "float-from-float", case, "not the identity on the bits");
                }
            }
        }
        "PIE" | "PFE" => {
            let cd = match w.item_by_disc.get(&f[1].parse::<u16>().unwrap()) {
                Some(e) => CharacterData::Enum(*e),
                None => {
                    println!("{} => NO-SUCH-ITEM", case);
                    return;
                }
            };
            if f[0] == "PIE" {
                println!("{} => {}", case, pi_all(&cd));
            } else {
                println!("{} => {}", case, bits_s(g(|| cd.parse_float()).unwrap_or(None)));
            }
        }
        "TS" => {
            let v = match parse_value(w, f[1]) {
                Some(v) => v,
                None => {
                    println!("{} => BAD-VALUE", case);
                    return;
                }
            };
            let ts = g(|| v.to_string());
            let ser = if hook::AVAILABLE { g(|| hook::ser(&v)).map(|s| hex(s.as_bytes())).unwrap_or("PANIC".into()) } else { "NOHOOK".to_string() };
            let std = match &v {
                CharacterData::UnsignedInteger(n) => hex(n.to_string().as_bytes()),
                CharacterData::Float(x) => hex(x.to_string().as_bytes()),
                _ => "na".to_string(),
            };
            println!("{} => {} ser={} std={}", case, ts.as_ref().map(|s| hex(s.as_bytes())).unwrap_or("PANIC".into()), ser, std);
            // direct oracle = the PROPERTY, not the spelling: the text written by to_string / serialize_internal, parsed with
            // the same value type (CharacterData::parse with the real Float / UnsignedInteger spec; std when the hook is not
            // compiled in), must give the same value AT BIT LEVEL (NaN: any NaN).  Which text is written ("inf" or "INF",
            // "1e21" or "1000000000000000000000") is left to the model correspondence.  Enum items and strings have one
            // defined text (table entry / the string itself).
            let reparse = |text: &str| -> Option<CharacterData> {
                let kind_spec = w.specs.iter().find(|sp| match (&v, **sp) {
                    (CharacterData::Float(_), CharacterDataSpec::Float) => true,
                    (CharacterData::UnsignedInteger(_), CharacterDataSpec::UnsignedInteger) => true,
                    _ => false,
                });
                match (kind_spec, hook::AVAILABLE) {
                    (Some(sp), true) => g(|| hook::parse(text, sp, AutosarVersion::LATEST)).unwrap_or(None),
                    _ => match &v {
                        CharacterData::Float(_) => text.parse::<f64>().ok().map(CharacterData::Float),
                        CharacterData::UnsignedInteger(_) => text.parse::<u64>().ok().map(CharacterData::UnsignedInteger),
                        _ => None,
                    },
                }
            };
            let numeric = matches!(v, CharacterData::Float(_) | CharacterData::UnsignedInteger(_));
            if let CharacterData::Float(x) = &v {
                st.class(if x.is_nan() {
                    "format:float-nan"
                } else if x.is_infinite() {
                    "format:float-inf"
                } else if *x == 0.0 {
                    if x.is_sign_negative() { "format:float-negative-zero" } else { "format:float-zero" }
                } else if x.is_subnormal() {
                    "format:float-subnormal"
                } else if x.abs() == f64::MAX {
                    "format:float-max-finite"
                } else {
                    "format:float-normal"
                });
            }
            if let Ok(t) = &ts {
                if numeric {
                    let back = reparse(t);
                    if !back.as_ref().map(|b| same_value(b, &v)).unwrap_or(false) {
                        fail(st, "to-string-roundtrip", case, &format!("to_string = {:?}, parsed back with the same value type as {:?}", t, back.as_ref().map(value_s)));
                    }
                } else {
                    let want = match &v {
                        CharacterData::Enum(e) => e.to_str().to_string(),
                        CharacterData::String(s) => s.clone(),
                        _ => unreachable!(),
                    };
                    if *t != want {
                        fail(st, "to-string", case, &format!("got {:?} expected {:?}", t, want));
                    }
                }
            }
            if hook::AVAILABLE {
                if let Ok(stext) = g(|| hook::ser(&v)) {
                    if numeric {
                        let back = reparse(&stext);
                        if !back.as_ref().map(|b| same_value(b, &v)).unwrap_or(false) {
                            fail(st, "serialize-roundtrip", case, &format!("serialize_internal = {:?}, parsed back with the same value type as {:?}", stext, back.as_ref().map(value_s)));
                        }
                    } else if let CharacterData::Enum(e) = &v {
                        if stext != e.to_str() {
                            fail(st, "serialize", case, "serialize_internal of an enum item is not its table text");
                        }
                    } else if let CharacterData::String(sv) = &v {
                        // the escaped text, read back the way every xml reader does (the five predefined entities,
                        // &amp; last), must be the string again; and it must not contain a bare markup character
                        let back = stext.replace("&lt;", "<").replace("&gt;", ">").replace("&quot;", "\"").replace("&apos;", "'").replace("&amp;", "&");
                        st.class(if sv.contains('&') { "format:string-with-ampersand" } else { "format:string-plain" });
                        if back != *sv || stext.contains('<') {
                            fail(st, "serialize-roundtrip", case, &format!("serialize_internal = {:?}, unescaped back to {:?}", stext, back));
                        }
                    }
                }
            }
            if let (Ok(ts), CharacterData::UnsignedInteger(n)) = (&ts, &v) {
                // u64 print -> parse, through the library's own integer reading
                let back = CharacterData::String(ts.clone()).parse_integer::<u64>();
                if back != Some(*n) && !(ts.starts_with('0') && ts.len() > 1) {
                    fail(st, "u64-print-parse", case, &format!("printed {:?} read back as {:?}", ts, back));
                }
            }
        }
        "PARSE" | "CHK" | "RT" => {
            if !hook::AVAILABLE {
                println!("{} => NOHOOK", case);
                return;
            }
            let si: usize = f[1].parse().unwrap();
            let ver = match version_of(f[2].parse().unwrap()) {
                Some(v) => v,
                None => {
                    println!("{} => BAD-VERSION", case);
                    return;
                }
            };
            let spec = match w.specs.get(si) {
                Some(s) => *s,
                None => {
                    println!("{} => BAD-SPEC", case);
                    return;
                }
            };
            if f[0] == "PARSE" {
                let text = match String::from_utf8(unhex(f.get(3).unwrap_or(&""))) {
                    Ok(t) => t,
                    Err(_) => {
                        println!("{} => NOT-UTF8", case);
                        return;
                    }
                };
                let r = g(|| hook::parse(&text, spec, ver));
                let extra = if let CharacterDataSpec::Float = spec { format!(" std={}", bits_s(text.parse::<f64>().ok())) } else { String::new() };
                match &r {
                    Ok(Some(v)) => println!("{} => {}{}", case, value_s(v), extra),
                    Ok(None) => println!("{} => -{}", case, extra),
                    Err(_) => println!("{} => PANIC{}", case, extra),
                }
                // direct oracle: what parse accepts is exactly what check_value accepts for the value the text denotes
                // (spec tables read directly: item list + version mask, max_length inclusive, check_fn), numbers = std
                let got = r.unwrap_or(None);
                let want: Option<CharacterData> = match spec {
                    CharacterDataSpec::Enum { items } => items
                        .iter()
                        .find(|(i, _)| i.to_str() == text)
                        .filter(|(_, mask)| mask & (ver as u32) != 0)
                        .map(|(i, _)| CharacterData::Enum(*i)),
                    CharacterDataSpec::Pattern { check_fn, max_length, .. } => {
                        if max_length.map(|m| text.len() <= m).unwrap_or(true) && check_fn(text.as_bytes()) {
                            Some(CharacterData::String(text.clone()))
                        } else {
                            None
                        }
                    }
                    CharacterDataSpec::String { max_length, .. } => {
                        if max_length.map(|m| text.len() <= m).unwrap_or(true) {
                            Some(CharacterData::String(text.clone()))
                        } else {
                            None
                        }
                    }
                    CharacterDataSpec::UnsignedInteger => text.parse::<u64>().ok().map(CharacterData::UnsignedInteger),
                    CharacterDataSpec::Float => text.parse::<f64>().ok().map(CharacterData::Float),
                };
                let same = match (&got, &want) {
                    (Some(a), Some(b)) => same_value(a, b),
                    (None, None) => true,
                    _ => false,
                };
                st.class(match spec {
                    CharacterDataSpec::Enum { .. } => "parse:enum",
                    CharacterDataSpec::Pattern { .. } => "parse:pattern",
                    CharacterDataSpec::String { .. } => "parse:string",
                    CharacterDataSpec::UnsignedInteger => "parse:uint",
                    CharacterDataSpec::Float => "parse:float",
                });
                if !same {
                    fail(st, "parse", case, &format!("got {:?} but the specification entry admits {:?}", got.as_ref().map(value_s), want.as_ref().map(value_s)));
                }
                if let Some(v) = &got {
                    if g(|| hook::check(v, spec, ver)) != Ok(true) {
                        fail(st, "parse-check", case, "the parsed value is rejected by check_value with the same spec and version");
                    }
                }
                return;
            }
            let v = match parse_value(w, f[3]) {
                Some(v) => v,
                None => {
                    println!("{} => BAD-VALUE", case);
                    return;
                }
            };
            let ok = g(|| hook::check(&v, spec, ver));
            if f[0] == "CHK" {
                println!("{} => {}", case, match ok { Ok(true) => "1", Ok(false) => "0", Err(_) => "PANIC" });
                // direct oracle: check_value against the specification entry read directly
                let want = match (spec, &v) {
                    (CharacterDataSpec::Enum { items }, CharacterData::Enum(e)) => items.iter().any(|(i, mask)| i == e && mask & (ver as u32) != 0),
                    (CharacterDataSpec::Pattern { check_fn, max_length, .. }, CharacterData::String(s)) => {
                        max_length.map(|m| s.len() <= m).unwrap_or(true) && check_fn(s.as_bytes())
                    }
                    (CharacterDataSpec::String { max_length, .. }, CharacterData::String(s)) => max_length.map(|m| s.len() <= m).unwrap_or(true),
                    (CharacterDataSpec::UnsignedInteger, CharacterData::UnsignedInteger(_)) => true,
                    (CharacterDataSpec::Float, CharacterData::Float(_)) => true,
                    _ => false,
                };
                if ok != Ok(want) {
                    fail(st, "check-value", case, &format!("got {:?} but the specification entry says {}", ok, want));
                }
                return;
            }
            // RT: format, then parse with the same value type
            if ok != Ok(true) {
                println!("{} => skip", case);
                return;
            }
            let text = v.to_string();
            let back = g(|| hook::parse(&text, spec, ver)).unwrap_or(None);
            let extra = if let CharacterData::Float(x) = &v {
                let t = x.to_string(); // std, computed by the harness itself
                format!(" stdfmt={} stdparse={}", hex(t.as_bytes()), bits_s(t.parse::<f64>().ok()))
            } else {
                String::new()
            };
            println!("{} => {}{}", case, back.as_ref().map(value_s).unwrap_or("-".into()), extra);
            st.class(match &v {
                CharacterData::Enum(_) => "roundtrip:enum",
                CharacterData::String(_) => "roundtrip:string",
                CharacterData::UnsignedInteger(_) => "roundtrip:u64",
                CharacterData::Float(_) => "roundtrip:float",
            });
            if !back.as_ref().map(|b| same_value(b, &v)).unwrap_or(false) {
                fail(st, "format-parse", case, &format!("to_string = {:?}, parsed back as {:?}", text, back.as_ref().map(value_s)));
            }
        }
        "EV" => {
            // Element::set_character_data / character_data with a value of any kind on an element of every spec kind
            let slot: usize = f[1].parse().unwrap();
            match parse_value(w, f[2]) {
                Some(v) => element_value_case(w, slot, &v, case, st),
                None => println!("{} => BAD-VALUE", case),
            }
        }
        "XS" => {
            // the string as element character data and as an attribute value, written by ArxmlFile::serialize and read back
            // by AutosarModel::load_buffer (no model side: the observation is decided by the oracle alone)
            let sv = match String::from_utf8(unhex(f.get(1).unwrap_or(&""))) {
                Ok(t) => t,
                Err(_) => {
                    println!("{} => NOT-UTF8", case);
                    return;
                }
            };
            let r = g(|| xml_string_roundtrip(&sv));
            match r {
                Ok(Ok((elem, attr))) => {
                    println!("{} => NOMODEL elem={} attr={}", case, elem.as_ref().map(|t| hex(t.as_bytes())).unwrap_or("-".into()), attr.as_ref().map(|t| hex(t.as_bytes())).unwrap_or("-".into()));
                    // the loader trims element text and attribute values of a non-preserving string type (C01's domain): compare
                    // modulo edge white space for such values
                    let edge = sv != sv.trim();
                    st.class(if edge { "xmlstring:edge-whitespace" } else if sv.contains('&') { "xmlstring:with-ampersand" } else { "xmlstring:other" });
                    if elem.as_deref().map(|t| t.trim()) != Some(sv.trim()) || (!edge && elem.as_deref() != Some(sv.as_str())) {
                        fail(st, "xml-string-roundtrip", case, &format!("element text {:?} came back from serialize + load as {:?}", sv, elem));
                    }
                    if attr.as_deref().map(|t| t.trim()) != Some(sv.trim()) || (!edge && attr.as_deref() != Some(sv.as_str())) {
                        fail(st, "xml-string-roundtrip", case, &format!("attribute value {:?} came back from serialize + load as {:?}", sv, attr));
                    }
                }
                Ok(Err(e)) => println!("{} => NOMODEL SETUP-ERROR {}", case, e),
                Err(_) => println!("{} => NOMODEL PANIC", case),
            }
        }
        _ => println!("{} => UNKNOWN-CASE", case),
    }
}

// ------------------------------------------------------------------------------------------ element-level values

/// the element-level targets: for every CharacterDataSpec kind the nearest element (from the root, latest version) whose
/// character data has that kind: (label, path from the root as (name, is_named), spec)
fn element_targets() -> Vec<(&'static str, Vec<(ElementName, bool)>, &'static CharacterDataSpec)> {
    use std::collections::{HashMap, VecDeque};
    let latest = AutosarVersion::LATEST;
    let mut parent: HashMap<(u32, u32), ((u32, u32), ElementName, bool)> = HashMap::new();
    let mut types: HashMap<(u32, u32), ElementType> = HashMap::new();
    let mut order: Vec<ElementType> = Vec::new();
    let mut q = VecDeque::new();
    let root = ElementType::ROOT;
    types.insert(crate::spec::et_ids(&root), root);
    q.push_back(root);
    while let Some(t) = q.pop_front() {
        let tid = crate::spec::et_ids(&t);
        for (name, ct, mask, _) in t.sub_element_spec_iter() {
            if mask & (latest as u32) == 0 || name == ElementName::ShortName {
                continue;
            }
            let cid = crate::spec::et_ids(&ct);
            if types.contains_key(&cid) {
                continue;
            }
            types.insert(cid, ct);
            parent.insert(cid, (tid, name, ct.is_named_in_version(latest)));
            order.push(ct);
            q.push_back(ct);
        }
    }
    let wanted: Vec<(&'static str, Box<dyn Fn(&CharacterDataSpec) -> bool>)> = vec![
        ("enum", Box::new(|c| matches!(c, CharacterDataSpec::Enum { .. }))),
        ("pattern-integer", Box::new(|c| matches!(c, CharacterDataSpec::Pattern { regex, .. } if regex.starts_with("0|[\\+\\-]?[1-9]")))),
        ("pattern-numerical", Box::new(|c| matches!(c, CharacterDataSpec::Pattern { regex, .. } if regex.contains("INF") && regex.contains("NaN")))),
        ("string", Box::new(|c| matches!(c, CharacterDataSpec::String { .. }))),
        ("uint", Box::new(|c| matches!(c, CharacterDataSpec::UnsignedInteger))),
        ("float", Box::new(|c| matches!(c, CharacterDataSpec::Float))),
    ];
    let mut out = Vec::new();
    for (label, pred) in wanted {
        let found = order.iter().find(|t| t.content_mode() == ContentMode::Characters && !t.is_ref() && t.chardata_spec().map(|c| pred(c)).unwrap_or(false));
        if let Some(t) = found {
            let mut path = Vec::new();
            let mut cur = crate::spec::et_ids(t);
            while let Some((p, name, named)) = parent.get(&cur) {
                path.push((*name, *named));
                cur = *p;
            }
            path.reverse();
            out.push((label, path, t.chardata_spec().unwrap()));
        }
    }
    out
}

/// the natural number a float denotes exactly (None: negative, fractional, not finite, or >= 2^128); -0.0 is 0
fn exact_nat(x: f64) -> Option<u128> {
    let b = x.to_bits();
    if x == 0.0 {
        return Some(0);
    }
    if !x.is_finite() || (b >> 63) == 1 {
        return None;
    }
    let exp = ((b >> 52) & 0x7ff) as i32;
    if exp == 0 {
        return None;
    }
    let m = (b & ((1u64 << 52) - 1)) | (1u64 << 52);
    let e = exp - 1075;
    if e >= 0 {
        if e > 75 { None } else { Some((m as u128) << e) }
    } else if -e >= 53 || m & ((1u64 << (-e)) - 1) != 0 {
        None
    } else {
        Some((m >> (-e)) as u128)
    }
}

/// the stored value is the handed value: same kind and same bits / text, or another kind that denotes EXACTLY the same number / text
fn denotes_same(handed: &CharacterData, stored: &CharacterData) -> bool {
    use CharacterData::*;
    match (handed, stored) {
        (Float(x), UnsignedInteger(n)) => exact_nat(*x) == Some(*n as u128),
        (UnsignedInteger(n), Float(y)) => exact_nat(*y) == Some(*n as u128),
        (UnsignedInteger(n), String(s)) | (String(s), UnsignedInteger(n)) => s.parse::<u128>().ok() == Some(*n as u128),
        (Float(x), String(s)) | (String(s), Float(x)) => s.parse::<f64>().ok().map(|y| y.to_bits() == x.to_bits() || (y.is_nan() && x.is_nan())).unwrap_or(false),
        (Enum(e), String(s)) | (String(s), Enum(e)) => s == e.to_str(),
        (a, b) => same_value(a, b),
    }
}

fn element_value_case(w: &World, slot: usize, handed: &CharacterData, case: &str, st: &mut Stats) {
    use autosar_data::AutosarModel;
    let targets = element_targets();
    let (label, path, spec) = match targets.get(slot) {
        Some(t) => t,
        None => {
            println!("{} => NOMODEL NO-TARGET", case);
            return;
        }
    };
    let build = |m: &AutosarModel| -> Result<autosar_data::Element, String> {
        let mut cur = m.root_element();
        for (i, (name, named)) in path.iter().enumerate() {
            cur = if *named { cur.create_named_sub_element(*name, &format!("n{}", i)) } else { cur.create_sub_element(*name) }.map_err(|e| format!("{:?} at {}", e, name))?;
        }
        Ok(cur)
    };
    let walk = |m: &AutosarModel| -> Option<autosar_data::Element> {
        let mut cur = m.root_element();
        for (name, _) in path.iter() {
            cur = cur.get_sub_element(*name)?;
        }
        Some(cur)
    };
    // a valid value of the element's own kind that is in place before the call
    let baseline: Option<CharacterData> = match spec {
        CharacterDataSpec::Enum { items } => items.iter().find(|(_, m)| m & (AutosarVersion::LATEST as u32) != 0).map(|(i, _)| CharacterData::Enum(*i)),
        CharacterDataSpec::Pattern { .. } => Some(CharacterData::String("1".to_string())),
        CharacterDataSpec::String { .. } => Some(CharacterData::String("base".to_string())),
        CharacterDataSpec::UnsignedInteger => Some(CharacterData::UnsignedInteger(7)),
        CharacterDataSpec::Float => Some(CharacterData::Float(1.25)),
    };
    let _ = w;
    for with_base in [false, true] {
        let r = g(|| -> Result<String, String> {
            let m = AutosarModel::new();
            let file = m.create_file("a.arxml", AutosarVersion::LATEST).map_err(|e| format!("{:?}", e))?;
            let el = build(&m)?;
            let mut before: Option<CharacterData> = None;
            if with_base {
                if let Some(b) = &baseline {
                    if el.set_character_data(b.clone()).is_ok() {
                        before = el.character_data();
                    }
                }
            }
            let res = el.set_character_data(handed.clone());
            let after = el.character_data();
            let mut line = format!("{}[{}] set={} stored={}", label, if with_base { "over-value" } else { "empty" }, if res.is_ok() { "ok" } else { "err" }, after.as_ref().map(value_s).unwrap_or("-".into()));
            match (&res, &after) {
                (Err(_), a) => {
                    let same = match (&before, a) {
                        (None, None) => true,
                        (Some(x), Some(y)) => same_value(x, y),
                        _ => false,
                    };
                    if !same {
                        return Err(format!("FAIL the call failed but character_data() changed from {:?} to {:?}", before.as_ref().map(value_s), a.as_ref().map(value_s)));
                    }
                }
                (Ok(()), None) => return Err("FAIL the call succeeded but character_data() is empty".to_string()),
                (Ok(()), Some(stored)) => {
                    if !denotes_same(handed, stored) {
                        return Err(format!("FAIL the call succeeded but the stored value {} is not the value handed in {}", value_s(stored), value_s(handed)));
                    }
                    // the accepted value must be a valid value of the element's spec kind
                    let kind_ok = matches!(
                        (spec, stored),
                        (CharacterDataSpec::Enum { .. }, CharacterData::Enum(_))
                            | (CharacterDataSpec::Pattern { .. }, CharacterData::String(_))
                            | (CharacterDataSpec::String { .. }, CharacterData::String(_))
                            | (CharacterDataSpec::UnsignedInteger, CharacterData::UnsignedInteger(_))
                            | (CharacterDataSpec::Float, CharacterData::Float(_))
                    );
                    if !kind_ok {
                        return Err(format!("FAIL the stored value {} has not the kind of the element's specification", value_s(stored)));
                    }
                    // and it survives serialize + strict load
                    let text = file.serialize().map_err(|e| format!("{:?}", e))?;
                    let m2 = AutosarModel::new();
                    match m2.load_buffer(text.as_bytes(), "b.arxml", true) {
                        Err(e) => return Err(format!("FAIL the file written after the call is rejected by a strict load: {:?}", e)),
                        Ok(_) => {
                            let back = walk(&m2).and_then(|e| e.character_data());
                            line.push_str(&format!(" reload={}", back.as_ref().map(value_s).unwrap_or("-".into())));
                            let same = match (&back, stored) {
                                (Some(CharacterData::String(a)), CharacterData::String(b)) => a.trim() == b.trim(),
                                (Some(a), b) => same_value(a, b),
                                (None, CharacterData::String(b)) => b.trim().is_empty(),
                                (None, _) => false,
                            };
                            if !same {
                                return Err(format!("FAIL stored {} but serialize + strict load gives {:?}", value_s(stored), back.as_ref().map(value_s)));
                            }
                        }
                    }
                }
            }
            Ok(line)
        });
        st.class(&format!("element:{}<-{}", label, &value_s(handed)[..1]));
        match r {
            Ok(Ok(line)) => println!("{} => NOMODEL {}", case, line),
            Ok(Err(e)) if e.starts_with("FAIL") => {
                println!("{} => NOMODEL {}[{}] {}", case, label, if with_base { "over-value" } else { "empty" }, e);
                fail(st, "element-value", case, &format!("{} element {}: {}", label, path.last().map(|p| p.0.to_string()).unwrap_or_default(), &e[5..]));
            }
            Ok(Err(e)) => println!("{} => NOMODEL SETUP-ERROR {}", case, e),
            Err(_) => {
                println!("{} => NOMODEL PANIC", case);
                fail(st, "element-value", case, "panic");
            }
        }
    }
}

/// AR-PACKAGE p with UUID = s and LONG-NAME/L-4 text = s; serialize the file, load the text into a fresh model, read both back
fn xml_string_roundtrip(s: &str) -> Result<(Option<String>, Option<String>), String> {
    use autosar_data::{AutosarModel, ElementName};
    let e = |x: autosar_data::AutosarDataError| format!("{:?}", x);
    let m = AutosarModel::new();
    let file = m.create_file("a.arxml", AutosarVersion::LATEST).map_err(e)?;
    let pkgs = m.root_element().create_sub_element(ElementName::ArPackages).map_err(e)?;
    let pkg = pkgs.create_named_sub_element(ElementName::ArPackage, "p").map_err(e)?;
    pkg.set_attribute(AttributeName::Uuid, CharacterData::String(s.to_string())).map_err(e)?;
    let l4 = pkg.create_sub_element(ElementName::LongName).map_err(e)?.create_sub_element(ElementName::L4).map_err(e)?;
    l4.insert_character_content_item(s, 0).map_err(e)?;
    let text = file.serialize().map_err(e)?;
    let m2 = AutosarModel::new();
    m2.load_buffer(text.as_bytes(), "b.arxml", false).map_err(e)?;
    let pkg2 = m2.get_element_by_path("/p").ok_or("package not found after load")?;
    let attr = pkg2.attribute_value(AttributeName::Uuid).and_then(|c| c.string_value());
    let l42 = pkg2.get_sub_element(ElementName::LongName).and_then(|x| x.get_sub_element(ElementName::L4)).ok_or("L-4 not found after load")?;
    let elem = match l42.content_item_count() {
        0 => Some(String::new()),
        1 => l42.content().next().and_then(|c| match c {
            autosar_data::ElementContent::CharacterData(cd) => cd.string_value(),
            _ => None,
        }),
        _ => None,
    };
    Ok((elem, attr))
}

// ------------------------------------------------------------------------------------------ generator

fn pow2(k: u32) -> (bool, Vec<u8>) {
    // 2^k as a big-endian byte vector (k up to 200)
    let mut v = vec![0u8; (k / 8 + 1) as usize];
    v[0] = 1 << (k % 8);
    (false, v)
}

/// big-endian magnitude arithmetic, enough for +-1
fn big_add1(v: &[u8]) -> Vec<u8> {
    let mut r = v.to_vec();
    for i in (0..r.len()).rev() {
        if r[i] == 255 {
            r[i] = 0;
        } else {
            r[i] += 1;
            return r;
        }
    }
    r.insert(0, 1);
    r
}

fn big_sub1(v: &[u8]) -> Vec<u8> {
    let mut r = v.to_vec();
    for i in (0..r.len()).rev() {
        if r[i] == 0 {
            r[i] = 255;
        } else {
            r[i] -= 1;
            break;
        }
    }
    r
}

fn big_is_zero(v: &[u8]) -> bool {
    v.iter().all(|b| *b == 0)
}

fn big_bits(v: &[u8]) -> Vec<u8> {
    let mut bits: Vec<u8> = v.iter().flat_map(|b| (0..8).rev().map(move |i| (b >> i) & 1)).collect();
    while bits.len() > 1 && bits[0] == 0 {
        bits.remove(0);
    }
    bits
}

fn big_to_radix(v: &[u8], bpd: usize, upper: u8) -> String {
    // radix 2^bpd; upper: 0 lower, 1 upper, 2 mixed
    let bits = big_bits(v);
    let pad = (bpd - bits.len() % bpd) % bpd;
    let mut all = vec![0u8; pad];
    all.extend(bits);
    let mut s = String::new();
    for (n, ch) in all.chunks(bpd).enumerate() {
        let d = ch.iter().fold(0u32, |a, b| a * 2 + *b as u32);
        let c = std::char::from_digit(d, 16).unwrap();
        let c = match upper {
            1 => c.to_ascii_uppercase(),
            2 if n % 2 == 0 => c.to_ascii_uppercase(),
            _ => c,
        };
        s.push(c);
    }
    s
}

fn big_to_dec(v: &[u8]) -> String {
    // repeated division by 10
    let mut n: Vec<u8> = v.to_vec();
    let mut out: Vec<u8> = Vec::new();
    loop {
        let mut rem = 0u32;
        let mut any = false;
        for b in n.iter_mut() {
            let cur = rem * 256 + *b as u32;
            *b = (cur / 10) as u8;
            rem = cur % 10;
            if *b != 0 {
                any = true;
            }
        }
        out.push(b'0' + rem as u8);
        if !any {
            break;
        }
    }
    out.reverse();
    String::from_utf8(out).unwrap()
}

fn u64_big(n: u64) -> Vec<u8> {
    n.to_be_bytes().to_vec()
}

/// every lexical form of the (signed) number; the first group are the AUTOSAR forms, the rest deliberately odd ones
fn forms(neg: bool, mag: &[u8], rich: bool, out: &mut Vec<String>) {
    let dec = big_to_dec(mag);
    let zero = big_is_zero(mag);
    if neg {
        out.push(format!("-{}", dec));
        if rich {
            out.push(format!("0x-{}", big_to_radix(mag, 4, 0)));
            out.push(format!("0-{}", big_to_radix(mag, 3, 0)));
            out.push(format!("0b-{}", big_to_radix(mag, 1, 0)));
            out.push(format!("-0{}", dec));
            out.push(format!("-0x{}", big_to_radix(mag, 4, 0)));
        }
        return;
    }
    out.push(dec.clone());
    out.push(format!("+{}", dec));
    out.push(format!("0x{}", big_to_radix(mag, 4, 0)));
    out.push(format!("0X{}", big_to_radix(mag, 4, 1)));
    out.push(format!("0b{}", big_to_radix(mag, 1, 0)));
    out.push(format!("0{}", big_to_radix(mag, 3, 0)));
    if rich {
        out.push(format!("0x{}", big_to_radix(mag, 4, 2)));
        out.push(format!("0X{}", big_to_radix(mag, 4, 0)));
        out.push(format!("0B{}", big_to_radix(mag, 1, 0)));
        out.push(format!("0x000{}", big_to_radix(mag, 4, 1)));
        out.push(format!("0b0{}", big_to_radix(mag, 1, 0)));
        out.push(format!("000{}", big_to_radix(mag, 3, 0)));
        out.push(format!("0{}", dec)); // decimal digits behind a leading zero: read as octal (or rejected)
        out.push(format!("0x+{}", big_to_radix(mag, 4, 0)));
        out.push(format!("0+{}", big_to_radix(mag, 3, 0)));
        if !zero {
            out.push(format!("{}.0", dec));
            out.push(format!("{}e0", dec));
        }
    }
}

const EDIT_BYTES: &[&str] = &["0", "1", "7", "8", "9", "a", "f", "F", "g", "x", "X", "b", "B", "+", "-", " ", ".", "e", "E", "_", "\t", "\u{e9}", "\u{ff11}", "o", "I", "N"];

fn neighbours(t: &str, rng: &mut SplitMix64, all_positions: bool, all_edits: bool, out: &mut Vec<String>) {
    let chars: Vec<char> = t.chars().collect();
    let n = chars.len();
    let positions: Vec<usize> = if all_positions || n <= 6 { (0..=n).collect() } else { (0..4).map(|_| rng.below(n as u64 + 1) as usize).chain([0, n]).collect() };
    for p in positions {
        // delete
        if p < n {
            let mut c = chars.clone();
            c.remove(p);
            out.push(c.into_iter().collect());
        }
        let picks: Vec<&str> = if all_edits { EDIT_BYTES.to_vec() } else { (0..if all_positions { 8 } else { 4 }).map(|_| *rng.pick(EDIT_BYTES)).collect() };
        for e in picks {
            let ec: Vec<char> = e.chars().collect();
            // insert
            let mut c = chars.clone();
            c.splice(p..p, ec.iter().cloned());
            out.push(c.into_iter().collect());
            // replace
            if p < n {
                let mut c = chars.clone();
                c.splice(p..p + 1, ec.iter().cloned());
                out.push(c.into_iter().collect());
            }
        }
    }
}

fn log_uniform(rng: &mut SplitMix64) -> u64 {
    let bits = rng.below(65);
    if bits == 0 {
        0
    } else {
        let top = 1u64 << (bits - 1);
        top | (rng.next() & (top - 1))
    }
}

fn special_floats(rng: &mut SplitMix64, n_random: usize) -> Vec<u64> {
    let mut v: Vec<u64> = vec![
        0, 0x8000000000000000, 1, 2, 0x000fffffffffffff, 0x000ffffffffffffe, 0x0008000000000000, 0x8000000000000001, 0x800fffffffffffff,
        0x0010000000000000, 0x0010000000000001, 0x7fefffffffffffff, 0xffefffffffffffff, 0x7ff0000000000000, 0xfff0000000000000,
        0x7ff8000000000000, 0xfff8000000000000, 0x7ff0000000000001, 0x7ff4000000000000, 0x7fffffffffffffff, 0xffffffffffffffff,
        0x3ff0000000000000, 0xbff0000000000000, 0x3fb999999999999a, 0x3fd5555555555555, 0x400921fb54442d18,
    ];
    for e in [1u64, 2, 52, 53, 54, 63, 64, 100, 1022, 1023, 1024, 1025, 1075, 1076, 1077, 1086, 1087, 1088, 1089, 2045, 2046] {
        let b = e << 52;
        for d in [0u64, 1, 2] {
            v.push(b + d);
            v.push(b - d);
            v.push((b + d) | 0x8000000000000000);
        }
    }
    // around 2^53 and 2^64 and the decimal/scientific switch points of Display
    for x in [9007199254740992.0f64, 18446744073709551616.0, 1e15, 1e16, 1e17, 1e21, 1e22, 1e23, 1e-5, 1e-7, 0.1, 0.3, 1e300, 1e-300, 123456789.125, 5e-324] {
        let b = x.to_bits();
        for d in 0..3u64 {
            v.push(b + d);
            v.push(b.saturating_sub(d));
            v.push(b.saturating_sub(d) | 0x8000000000000000);
        }
    }
    for _ in 0..n_random {
        v.push(rng.next());
        // random finite "nice" decimals
        let m = rng.below(1000000) as f64;
        let e = rng.below(40) as i32 - 20;
        v.push((m * 10f64.powi(e)).to_bits());
    }
    v.sort();
    v.dedup();
    v
}

fn gen(w: &World, seed: u64, thorough: bool) -> Vec<String> {
    let mut rng = SplitMix64(seed ^ 0xC20C20C20);
    let mut cases: Vec<String> = Vec::new();
    let mut texts: Vec<String> = Vec::new();

    // ---- boundary values of every width, every lexical form
    let ks: Vec<u32> = if thorough { (0..=131).collect() } else { (0..=12).chain([15, 16, 17, 31, 32, 33, 52, 53, 54, 62, 63, 64, 65, 66, 126, 127, 128, 129, 130]).collect() };
    let mut values: Vec<(bool, Vec<u8>)> = vec![(false, vec![0])];
    for k in ks.iter() {
        let (_, p) = pow2(*k);
        for m in [p.clone(), big_add1(&p), big_sub1(&p)] {
            values.push((false, m.clone()));
            if !big_is_zero(&m) {
                values.push((true, m));
            }
        }
    }
    for (neg, m) in values.iter() {
        forms(*neg, m, true, &mut texts);
    }
    // ---- u64 values where `as f64` has to round: ties, just below, just above, for every shift 1..11
    let mut u64s: Vec<u64> = Vec::new();
    for s in 1..=11u32 {
        for q in [1u64 << 52, (1u64 << 52) + 1, (1u64 << 53) - 1, (1u64 << 53) - 2, (1u64 << 52) | (rng.next() & ((1u64 << 52) - 1))] {
            let base = q << s;
            let half = 1u64 << (s - 1);
            for d in [half.wrapping_sub(1), half, half + 1, 0, (1u64 << s) - 1] {
                if let Some(v) = base.checked_add(d) {
                    u64s.push(v);
                }
            }
        }
    }
    for k in 0..64u32 {
        let p = 1u64 << k;
        u64s.extend([p, p - 1, p.wrapping_add(1)]);
    }
    u64s.extend([0, u64::MAX, u64::MAX - 1, u64::MAX - 1023, u64::MAX - 1024, u64::MAX - 1025, u64::MAX - 2047, u64::MAX - 2048]);
    let n_rand = if thorough { 3000 } else { 300 };
    for _ in 0..n_rand {
        u64s.push(log_uniform(&mut rng));
    }
    u64s.sort();
    u64s.dedup();
    for (i, v) in u64s.iter().enumerate() {
        forms(false, &u64_big(*v), i % 7 == 0, &mut texts);
    }
    // ---- values >= 2^64 for the float reading: 65..1100 bits in hex / octal / binary
    for bits in [65u32, 66, 67, 68, 70, 72, 96, 127, 128, 129, 192, 256, 512, 1000, 1023, 1024, 1025, 1030, 1100] {
        for variant in 0..3 {
            let mut m = pow2(bits - 1).1;
            match variant {
                0 => {}
                1 => m = big_sub1(&pow2(bits).1),
                _ => {
                    for b in m.iter_mut().skip(1) {
                        *b = rng.next() as u8;
                    }
                }
            }
            texts.push(format!("0x{}", big_to_radix(&m, 4, 0)));
            texts.push(format!("0{}", big_to_radix(&m, 3, 0)));
            texts.push(format!("0b{}", big_to_radix(&m, 1, 0)));
        }
    }
    // ---- numbers longer than 64 bits, systematically, in every radix (hex, octal, binary):
    //      heads (the leading 64 bits = 53-bit significand q + 11 low bits): exact tie (low = 0x400) with even q and with
    //      odd q (incl. q = 2^53-1, which carries into the exponent), just below the tie (0x3ff), just above it (0x401)
    //      tails (the bits below the 64): all zeros | a single 1 at each of the first 12 dropped positions FOLLOWED BY
    //      ZEROS | ...0001 | 1000...0001 | all ones         (sticky must be accumulated over all of them)
    //      lengths 65, 66, 72, 80, 128, 1100 bits (the last one is too large for f64: None), plus the overflow boundary
    let push_radix = |bits: &[u8], texts: &mut Vec<String>| {
        let mut bytes = vec![0u8; (bits.len() + 7) / 8];
        let off = bytes.len() * 8 - bits.len();
        for (i, b) in bits.iter().enumerate() {
            if *b == 1 {
                bytes[(off + i) / 8] |= 1 << (7 - (off + i) % 8);
            }
        }
        texts.push(format!("0x{}", big_to_radix(&bytes, 4, 0)));
        texts.push(format!("0{}", big_to_radix(&bytes, 3, 0)));
        texts.push(format!("0b{}", big_to_radix(&bytes, 1, 0)));
    };
    let qs = [1u64 << 52, (1u64 << 53) - 2, (1u64 << 52) + 1, (1u64 << 53) - 1, ((1u64 << 52) | (rng.next() & ((1u64 << 52) - 1))) & !1, (1u64 << 52) | (rng.next() & ((1u64 << 52) - 1)) | 1];
    for dropped in [1usize, 2, 8, 16, 64, 1036, 959, 960, 961] {
        let boundary = dropped >= 959 && dropped <= 961;
        for q in qs.iter().take(if boundary { 4 } else { 6 }) {
            for low in [0x400u64, 0x3ff, 0x401] {
                let mant = (q << 11) | low;
                let head: Vec<u8> = (0..64).rev().map(|i| ((mant >> i) & 1) as u8).collect();
                let mut tails: Vec<Vec<u8>> = vec![vec![0; dropped], vec![1; dropped]];
                let mut last = vec![0u8; dropped];
                last[dropped - 1] = 1;
                tails.push(last.clone());
                if dropped >= 2 {
                    last[0] = 1;
                    tails.push(last);
                }
                if !boundary {
                    for j in 0..dropped.min(12) {
                        let mut t = vec![0u8; dropped];
                        t[j] = 1;
                        tails.push(t);
                    }
                }
                tails.sort();
                tails.dedup();
                for t in tails {
                    let mut bits = head.clone();
                    bits.extend(t);
                    push_radix(&bits, &mut texts);
                }
            }
        }
    }
    // ---- fixed oddities
    for t in [
        "", " ", "+", "-", "0x", "0X", "0b", "0B", "00", "000", "0+7", "0-7", "0x-1", "0x+1", "0b+1", "0b-1", "++1", "+-1", "-+1", "--1", "0-0", "-0", "+0", " 1", "1 ",
        "\t1", "1\n", "1_000", "0x_1", "0x1_", "\u{ff11}", "\u{663}", "1\u{e9}", "0x\u{e9}", "0o17", "0O17", "0xg", "0b2", "08", "09", "0x0x1", "00x1", "0b0b1", "0X0x1",
        "1e3", "1E3", "0e0", "0.0", "0.5", "00.12", "0.12", "07.5", "08.5", ".0", ".5", "5.", "1.", "-.5", "+.5", "1e", "e5", "1e+5", "1e-5", "1.5e+10", "-1.5E-10", "+1.25", "-12.5",
        "INF", "-INF", "+INF", "NaN", "-NaN", "+NaN", "inf", "-inf", "Inf", "infinity", "Infinity", "-Infinity", "INFINITY", "nan", "NAN", "nAn", "infinit", "INFI", "NaNs", "iNF",
        "0x1.8p3", "0x1p3", "1e400", "-1e400", "1e-400", "4.9e-324", "2.4703282292062327e-324", "2.4703282292062328e-324", "2.2250738585072014e-308", "1.7976931348623157e308",
        "1.7976931348623158e308", "1.7976931348623159e308", "9007199254740993", "9007199254740992.5", "9007199254740993.0000000001", "18446744073709551616", "18446744073709551615.5",
        "179769313486231570000000000000000000000000000000000000000000000000000000000000000000000000000000000000000000000000000000000000000000000000000000000000000000000000000000000000000000000000000000000000000000000000000000000000000000000000000000000000000000000000000000000000000000000000000000000000000000000000",
        "true", "false", "1", "0", "TRUE", "True", "FALSE", "tru", "truee", "true ", " true", "t", "f", "yes", "no", "01", "10", "0x1", "1.0", "+1", "-0", "on", "off",
    ] {
        texts.push(t.to_string());
    }
    for (c, n) in [('1', 39), ('1', 40), ('9', 38), ('9', 39), ('9', 77), ('9', 78), ('1', 200), ('1', 1000), ('0', 100), ('7', 22), ('7', 43), ('7', 200)] {
        let s: String = std::iter::repeat(c).take(n).collect();
        texts.push(s.clone());
        texts.push(format!("-{}", s));
        texts.push(format!("0{}", s));
        if c != '9' {
            texts.push(format!("0b{}", s));
        }
        texts.push(format!("0x{}", s));
        texts.push(format!("0x{}ff", "0".repeat(n)));
    }
    texts.push(format!("0x{}", "f".repeat(300)));
    texts.push(format!("0{}", "0".repeat(300)));
    // ---- members of the published patterns and their one-edit neighbours
    let members: Vec<&str> = vec![
        "0", "7", "10", "+7", "-7", "-128", "127", "255", "256", "65535", "0x1F", "0Xab", "0xFF", "0x100", "0b101", "0B1", "017", "0377", "0400", "00",
        "4294967295", "4294967296", "-2147483648", "2147483647", "18446744073709551615", "18446744073709551616", "-9223372036854775808", "9223372036854775807",
        "1.5", "-1.5", "10.25", "1e5", "1.5e-3", "+2E+2", "0.0", ".0", "INF", "-INF", "NaN", "true", "false", "1", "0x7fffffffffffffff", "0xffffffffffffffff",
        "01777777777777777777777", "02000000000000000000000", "0b1111111111111111111111111111111111111111111111111111111111111111",
    ];
    for m in members.iter() {
        texts.push(m.to_string());
        neighbours(m, &mut rng, m.len() <= 8 || thorough, thorough, &mut texts);
    }
    // a sample of the generated forms gets neighbours too
    let base: Vec<String> = texts.iter().filter(|t| t.len() >= 2 && t.len() <= 24).cloned().collect();
    let n_nb = if thorough { 1500 } else { 70 };
    for _ in 0..n_nb {
        let t = rng.pick(&base).clone();
        neighbours(&t, &mut rng, false, false, &mut texts);
    }
    let mut seen = std::collections::BTreeSet::new();
    texts.retain(|t| seen.insert(t.clone()));
    // decimal float texts produced from bit patterns by std (the TEXT is an input; results are printed as bits)
    let floats = special_floats(&mut rng, if thorough { 2000 } else { 200 });
    let mut ftexts: Vec<String> = Vec::new();
    for b in floats.iter() {
        let x = f64::from_bits(*b);
        ftexts.push(x.to_string());
        if x.is_finite() {
            ftexts.push(format!("{:e}", x));
            ftexts.push(format!("{:E}", x));
        }
    }
    ftexts.retain(|t| seen.insert(t.clone()));
    for t in texts.iter() {
        let h = hex(t.as_bytes());
        cases.push(format!("PI {}", h));
        cases.push(format!("PF {}", h));
        if thorough || t.len() <= 5 || cases.len() % 8 == 0 {
            cases.push(format!("PB {}", h));
        }
    }
    for t in ftexts.iter() {
        cases.push(format!("PF {}", hex(t.as_bytes())));
    }
    // ---- non-string values
    for v in u64s.iter() {
        cases.push(format!("PIU {}", v));
        cases.push(format!("PFU {}", v));
        cases.push(format!("TS U:{}", v));
    }
    cases.push("PBU 1".to_string());
    for b in floats.iter() {
        cases.push(format!("PFF {:016x}", b));
        cases.push(format!("TS F:{:016x}", b));
    }
    cases.push("PIF 3ff0000000000000".to_string());
    let some_items: Vec<u16> = w.items.iter().step_by(if thorough { 1 } else { 9 }).map(|e| *e as u16).collect();
    for i in some_items.iter() {
        cases.push(format!("TS E:{}", i));
    }
    cases.push(format!("PIE {}", some_items[0]));
    cases.push(format!("PFE {}", some_items[0]));
    let strings: Vec<String> = vec![
        "", "a", "plain text", "a<b", "a>b", "a&b", "a'b", "a\"b", "<>&'\"", "&amp;", "&lt;x&gt;", " lead", "trail ", "tab\there", "line\nbreak", "caf\u{e9}", "\u{1F600}",
        "\u{ff11}\u{ff12}", "]]>", "<![CDATA[x]]>", "&#38;", "a&&b<<", "'", "\"", "0", "true",
        // entity-shaped text and near misses: an '&' is escaped whatever follows it
        "&lt;", "&gt;", "&quot;", "&apos;", "a&amp;b", "&amp;amp;", "&amp;lt;", "x&quot;y&apos;z", "&lt;&gt;", "&lt", "&amp", "&ampx;", "&LT;", "&Amp;", "& lt;", "&l t;",
        "&#60;", "&#x26;", "&;", "&", "&&amp;", "&amp;&", "&amp;&amp;", "&&", "&ltx", "&apos", "&quot;&", "&gt;=", "R&amp;D", "AT&amp;T &lt;tm&gt;",
    ]
    .into_iter()
    .map(String::from)
    .collect();
    for s in strings.iter() {
        cases.push(format!("TS S:{}", hex(s.as_bytes())));
        cases.push(format!("XS {}", hex(s.as_bytes())));
    }
    // ---- element level: every value kind x boundary values handed to an element of every spec kind
    {
        let mut vals: Vec<String> = Vec::new();
        for n in [0u64, 1, 7, (1u64 << 53) - 1, 1u64 << 53, (1u64 << 53) + 1, (1u64 << 63) - 1, 1u64 << 63, (1u64 << 63) + 1, u64::MAX - 2048, u64::MAX - 1, u64::MAX] {
            vals.push(format!("U:{}", n));
        }
        for x in [0.0f64, -0.0, 1.0, 7.0, 0.5, 1.5, -1.0, -7.0, 9007199254740991.0, 9007199254740992.0, 9007199254740994.0, 9223372036854775808.0,
            18446744073709549568.0, 18446744073709551616.0, 18446744073709555712.0, 36893488147419103232.0, 1e300, -1e300, 5e-324, 1e-7,
            f64::INFINITY, f64::NEG_INFINITY, f64::NAN, f64::MAX] {
            vals.push(format!("F:{:016x}", x.to_bits()));
        }
        for t in ["", "0", "1", "7", "+7", "-1", "007", "0x10", "0b1", "1.5", "1e3", "1E3", "INF", "-INF", "NaN", "inf", "abc", " 7", "7 ", "true",
            "9007199254740993", "18446744073709551615", "18446744073709551616", "18446744073709551617", "18446744073709551616.0", "1.8446744073709552e19"] {
            vals.push(format!("S:{}", hex(t.as_bytes())));
        }
        let targets = element_targets();
        for (slot, (_, _, spec)) in targets.iter().enumerate() {
            for v in vals.iter() {
                cases.push(format!("EV {} {}", slot, v));
            }
            // enum items: one of the element's own list (when it has one), one foreign
            if let CharacterDataSpec::Enum { items } = spec {
                for (i, _) in items.iter().take(3) {
                    cases.push(format!("EV {} E:{}", slot, *i as u16));
                }
            }
            cases.push(format!("EV {} E:{}", slot, some_items[0]));
            cases.push(format!("EV {} E:{}", slot, some_items[some_items.len() / 2]));
        }
    }
    // ---- parse / check_value / round trip with the real specs
    let versions: Vec<u32> = (0..32).map(|i| 1u32 << i).filter(|b| AutosarVersion::from_val(*b).is_some()).collect();
    let vfirst = versions[0];
    let vlast = *versions.last().unwrap();
    let mut n_enum_specs = 0;
    for (si, spec) in w.specs.iter().enumerate() {
        match spec {
            CharacterDataSpec::Enum { items } => {
                n_enum_specs += 1;
                let full = thorough || n_enum_specs % 16 == 1;
                let take = if full { items.len() } else { 1 };
                let mut chosen: Vec<usize> = (0..items.len()).collect();
                if !full && items.len() > take {
                    chosen = vec![rng.below(items.len() as u64) as usize];
                }
                for ii in chosen {
                    let (item, mask) = items[ii];
                    // a version in which the item is allowed, one in which it is not, and a random one
                    let mut vs: Vec<u32> = Vec::new();
                    if let Some(v) = versions.iter().find(|v| mask & **v != 0) {
                        vs.push(*v);
                    }
                    if let Some(v) = versions.iter().rev().find(|v| mask & **v != 0) {
                        vs.push(*v);
                    }
                    if let Some(v) = versions.iter().find(|v| mask & **v == 0) {
                        vs.push(*v);
                    }
                    vs.push(*rng.pick(&versions));
                    vs.sort();
                    vs.dedup();
                    for v in vs {
                        cases.push(format!("PARSE {} {} {}", si, v, hex(item.to_str().as_bytes())));
                        cases.push(format!("CHK {} {} E:{}", si, v, item as u16));
                        cases.push(format!("RT {} {} E:{}", si, v, item as u16));
                    }
                }
                // an item that is not in the list, a text that is no item, case / whitespace variants
                let foreign = *rng.pick(&w.items);
                cases.push(format!("PARSE {} {} {}", si, vlast, hex(foreign.to_str().as_bytes())));
                cases.push(format!("CHK {} {} E:{}", si, vlast, foreign as u16));
                let t0 = items[0].0.to_str();
                let variants = [t0.to_lowercase(), format!("{} ", t0), format!(" {}", t0), t0[..t0.len() - 1].to_string(), format!("{}X", t0), String::new()];
                for (vi, t) in variants.iter().enumerate() {
                    if full || vi == n_enum_specs % 6 {
                        cases.push(format!("PARSE {} {} {}", si, vlast, hex(t.as_bytes())));
                    }
                }
                if full {
                    cases.push(format!("CHK {} {} S:{}", si, vlast, hex(t0.as_bytes())));
                    cases.push(format!("CHK {} {} U:1", si, vlast));
                }
            }
            CharacterDataSpec::Pattern { max_length, regex, .. } => {
                let mut ts: Vec<String> = texts.iter().filter(|t| t.len() <= 12).step_by(if thorough { 7 } else { 151 }).cloned().collect();
                ts.extend(strings.iter().cloned());
                for m in ["0", "1", "true", "false", "ABC", "abc", "a1_b", "A", "_x", "/a/b", "/a/b/c_d", "a/b", "2024-01-31", "2024-01-31T12:00:00Z", "%d", "%08.3f", "1.2.3", "1.2.3-rc.1+b",
                    "ANY", "ALL", "STRING", "ARRAY", "MAX-TEXT-SIZE", "-1", "192.168.0.1", "256.1.1.1", "01:23:45:67:89:ab", "a.b[0].c", "A[0]", "0x1F", "0b101", "017", "+7", "-7", "1.5e3", "INF", "-INF", "NaN",
                    "blueprint-val", "a b", "-a_b c", "Ab_c", "ab_", "1:2:3:4:5:6:7:8", "UNSPECIFIED", "PTR"] {
                    ts.push(m.to_string());
                }
                if let Some(ml) = max_length {
                    for n in [ml - 1, *ml, ml + 1] {
                        ts.push("a".repeat(n));
                        ts.push(format!("A{}", "b".repeat(n - 1)));
                    }
                }
                let _ = regex;
                for t in ts {
                    let v = if rng.below(2) == 0 { vfirst } else { vlast };
                    cases.push(format!("PARSE {} {} {}", si, v, hex(t.as_bytes())));
                    cases.push(format!("CHK {} {} S:{}", si, v, hex(t.as_bytes())));
                    if thorough || cases.len() % 2 == 0 {
                        cases.push(format!("RT {} {} S:{}", si, v, hex(t.as_bytes())));
                    }
                }
                cases.push(format!("CHK {} {} U:1", si, vlast));
                cases.push(format!("CHK {} {} F:3ff0000000000000", si, vlast));
            }
            CharacterDataSpec::String { .. } => {
                for s in strings.iter().chain(texts.iter().filter(|t| t.len() <= 10).step_by(97)) {
                    cases.push(format!("PARSE {} {} {}", si, vlast, hex(s.as_bytes())));
                    cases.push(format!("CHK {} {} S:{}", si, vlast, hex(s.as_bytes())));
                    cases.push(format!("RT {} {} S:{}", si, vfirst, hex(s.as_bytes())));
                }
                cases.push(format!("CHK {} {} U:1", si, vlast));
                cases.push(format!("CHK {} {} E:{}", si, vlast, some_items[0]));
                cases.push(format!("CHK {} {} F:0000000000000000", si, vlast));
            }
            CharacterDataSpec::UnsignedInteger => {
                for t in texts.iter().filter(|t| t.len() <= 24).step_by(if thorough { 1 } else { 9 }) {
                    cases.push(format!("PARSE {} {} {}", si, vlast, hex(t.as_bytes())));
                }
                for v in u64s.iter() {
                    cases.push(format!("RT {} {} U:{}", si, vfirst, v));
                }
                cases.push(format!("CHK {} {} U:0", si, vlast));
                cases.push(format!("CHK {} {} S:30", si, vlast));
                cases.push(format!("CHK {} {} F:0000000000000000", si, vlast));
                cases.push(format!("CHK {} {} E:{}", si, vlast, some_items[0]));
            }
            CharacterDataSpec::Float => {
                for t in texts.iter().filter(|t| t.len() <= 24).step_by(if thorough { 1 } else { 9 }).chain(ftexts.iter()) {
                    cases.push(format!("PARSE {} {} {}", si, vlast, hex(t.as_bytes())));
                }
                for b in floats.iter() {
                    cases.push(format!("RT {} {} F:{:016x}", si, vfirst, b));
                }
                cases.push(format!("CHK {} {} F:7ff8000000000000", si, vlast));
                cases.push(format!("CHK {} {} U:0", si, vlast));
                cases.push(format!("CHK {} {} S:30", si, vlast));
            }
        }
    }
    cases
}

// ------------------------------------------------------------------------------------------ entry

pub fn main(args: &[String]) {
    if std::env::var("AVH_LOUD").is_ok() {
        let _ = std::panic::take_hook(); // back to the default hook: print panic messages (debugging the harness)
    }
    let w = world();
    let mut st = Stats { cases: BTreeMap::new(), classes: BTreeMap::new(), oracle_fail: 0 };
    println!("HOOK {}", hook::AVAILABLE as u32);
    for (i, s) in w.specs.iter().enumerate() {
        println!("SPEC {} {}", i, cdata_summary(s));
    }
    for (i, (label, path, spec)) in element_targets().iter().enumerate() {
        println!("ETARGET {} {} /{} {}", i, label, path.iter().map(|p| p.0.to_string()).collect::<Vec<_>>().join("/"), &cdata_summary(spec).chars().take(60).collect::<String>());
    }
    match args.first().map(|s| s.as_str()) {
        Some("run") => {
            let seed: u64 = args.get(1).and_then(|s| s.parse().ok()).unwrap_or(1);
            let thorough = args.get(2).map(|s| s == "thorough").unwrap_or(false);
            let cases = gen(&w, seed, thorough);
            for c in cases.iter() {
                observe(&w, c, &mut st);
            }
        }
        Some("eval") => {
            for l in read_lines(&args[1]) {
                let c = l.split(" => ").next().unwrap().trim();
                if !c.is_empty() {
                    observe(&w, c, &mut st);
                }
            }
        }
        _ => {
            eprintln!("usage: avh values run <seed> <tier> | eval <file>");
            std::process::exit(2);
        }
    }
    for (k, v) in st.cases.iter() {
        println!("STAT case {} {}", k, v);
    }
    for (k, v) in st.classes.iter() {
        println!("STAT class {} {}", k, v);
    }
    println!("STAT oracle_fail {}", st.oracle_fail);
}
