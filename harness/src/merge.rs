//! C09 (merging files) and the load half of C11: generator of MASTER models split into 2-4 partial files, direct
//! property oracles on the real library, and emission of the same cases as element-tree scripts for the
//! correspondence with the Coq model (Tree/Load.v).
//!   avh merge probe
//!   avh merge gen <seed> <tier> <out-cases> <out-script>        (writes cases + tree scripts; prints STAT lines)
//!   avh merge oracle <dump> <cases> [k]                             (C09 oracle (i)-(iv) + C11-load on every failing load)
//!   avh merge c11 <dump> <script>                               (C11-load oracle on any tree script: failed loads leave no trace)
//!   avh merge min <dump> <cases> <k> <out>                           (greedy minimisation of a failing case: drop files / elements)
use crate::tree::{err_name, Exec, Names, Op};
use crate::util::*;
use autosar_data::*;
use autosar_data_specification::{ContentMode, ElementType};
use std::collections::{BTreeMap, BTreeSet};
use std::str::FromStr;

// ------------------------------------------------------------------------------------------------ description
#[derive(Clone, Debug)]
pub struct D {
    pub name: String,
    pub item: Option<String>,
    pub attrs: Vec<(String, String)>,
    pub text: Option<String>,
    pub kids: Vec<D>,
    pub files: u32, // bit mask of the files that contain this element
    pub uid: u32,
}

impl D {
    fn new(name: &str) -> D {
        D { name: name.to_string(), item: None, attrs: vec![], text: None, kids: vec![], files: 0, uid: 0 }
    }
    fn named(name: &str, item: &str) -> D {
        let mut d = D::new(name);
        d.item = Some(item.to_string());
        d
    }
    fn leaf(name: &str, text: &str) -> D {
        let mut d = D::new(name);
        d.text = Some(text.to_string());
        d
    }
    fn attr(mut self, a: &str, v: &str) -> D {
        self.attrs.push((a.to_string(), v.to_string()));
        self
    }
    fn kid(mut self, k: D) -> D {
        self.kids.push(k);
        self
    }
    fn count(&self) -> usize {
        1 + self.kids.iter().map(|k| k.count()).sum::<usize>()
    }
    fn number(&mut self, next: &mut u32) {
        self.uid = *next;
        *next += 1;
        for k in self.kids.iter_mut() {
            k.number(next);
        }
    }
}

fn esc(s: &str) -> String {
    s.replace('&', "&amp;").replace('<', "&lt;").replace('>', "&gt;")
}

fn write_d(d: &D, indent: usize, out: &mut String) {
    let pad = "  ".repeat(indent);
    out.push_str(&pad);
    out.push('<');
    out.push_str(&d.name);
    for (a, v) in &d.attrs {
        out.push_str(&format!(" {}=\"{}\"", a, esc(v)));
    }
    if d.item.is_none() && d.text.is_none() && d.kids.is_empty() {
        out.push_str("/>\n");
        return;
    }
    out.push('>');
    if let Some(t) = &d.text {
        out.push_str(&esc(t));
        out.push_str(&format!("</{}>\n", d.name));
        return;
    }
    out.push('\n');
    if let Some(i) = &d.item {
        out.push_str(&format!("{}  <SHORT-NAME>{}</SHORT-NAME>\n", pad, esc(i)));
    }
    for k in &d.kids {
        write_d(k, indent + 1, out);
    }
    out.push_str(&format!("{}</{}>\n", pad, d.name));
}

pub fn version_file(v: u32) -> &'static str {
    AutosarVersion::from_val(v).map(|x| x.filename()).unwrap_or("AUTOSAR_00050.xsd")
}

pub fn file_text(root: &D, version: u32) -> String {
    let mut r = root.clone();
    r.attrs = vec![
        ("xsi:schemaLocation".to_string(), format!("http://autosar.org/schema/r4.0 {}", version_file(version))),
        ("xmlns".to_string(), "http://autosar.org/schema/r4.0".to_string()),
        ("xmlns:xsi".to_string(), "http://www.w3.org/2001/XMLSchema-instance".to_string()),
    ];
    let mut s = String::from("<?xml version=\"1.0\" encoding=\"utf-8\"?>\n");
    write_d(&r, 0, &mut s);
    s
}

/// projection of the master onto file `f` (ancestor closed by construction of the assignment), with the sibling order
/// of the file: `perm_seed` != 0 permutes the children of unordered containers
fn project(d: &D, f: u32, ty: Option<ElementType>, rng: &mut SplitMix64, permute: bool) -> Option<D> {
    if d.files & (1 << f) == 0 {
        return None;
    }
    let mut r = d.clone();
    r.kids = vec![];
    let mut kids: Vec<D> = vec![];
    for k in &d.kids {
        let kty = ty.and_then(|t| ElementName::from_str(&k.name).ok().and_then(|n| t.find_sub_element(n, u32::MAX)).map(|x| x.0));
        if let Some(p) = project(k, f, kty, rng, permute) {
            kids.push(p);
        }
    }
    if permute && kids.len() > 1 {
        if let Some(t) = ty {
            if !t.is_ordered() {
                if t.content_mode() == ContentMode::Bag {
                    shuffle(&mut kids, rng);
                } else {
                    // permute only runs of equal element names (the schema fixes the order of different names)
                    let mut i = 0;
                    while i < kids.len() {
                        let mut j = i + 1;
                        while j < kids.len() && kids[j].name == kids[i].name {
                            j += 1;
                        }
                        if j - i > 1 {
                            shuffle(&mut kids[i..j], rng);
                        }
                        i = j;
                    }
                }
            }
        }
    }
    r.kids = kids;
    Some(r)
}

fn shuffle<T>(v: &mut [T], rng: &mut SplitMix64) {
    for i in (1..v.len()).rev() {
        let j = rng.below(i as u64 + 1) as usize;
        v.swap(i, j);
    }
}

// ------------------------------------------------------------------------------------------------ master shapes
const PKG_NAMES: &[&str] = &["p1", "p10", "p1b", "q", "a", "a_1", "Pkg"];
const EL_NAMES: &[&str] = &["a", "a1", "a10", "a1b", "b", "Sig", "Sig_1", "x_1", "c", "p1"];
const DEFREFS: &[&str] = &["/D/M/C1", "/D/M/C10", "/D/M/C1b", "/D/M/P", "/D/M/P1"];

struct MasterGen<'a> {
    rng: &'a mut SplitMix64,
    budget: usize,
    sig_paths: Vec<String>,
    isig_paths: Vec<String>,
}

impl<'a> MasterGen<'a> {
    fn pick<'b>(&mut self, l: &'b [&'b str]) -> &'b str {
        l[self.rng.below(l.len() as u64) as usize]
    }
    fn unique(&mut self, used: &mut BTreeSet<String>, pool: &[&str]) -> String {
        for _ in 0..20 {
            let n = self.pick(pool).to_string();
            if used.insert(n.clone()) {
                return n;
            }
        }
        let n = format!("u{}", used.len());
        used.insert(n.clone());
        n
    }
    fn ecuc_container(&mut self, name: &str, depth: usize) -> D {
        let mut c = D::named("ECUC-CONTAINER-VALUE", name)
            .kid(D::leaf("DEFINITION-REF", self.pick(DEFREFS)).attr("DEST", "ECUC-PARAM-CONF-CONTAINER-DEF"));
        let np = self.rng.below(3) as usize;
        if np > 0 {
            let mut pv = D::new("PARAMETER-VALUES");
            let mut used = BTreeSet::new();
            for _ in 0..np {
                let dr = self.unique(&mut used, DEFREFS);
                if self.rng.below(2) == 0 {
                    pv.kids.push(
                        D::new("ECUC-NUMERICAL-PARAM-VALUE")
                            .kid(D::leaf("DEFINITION-REF", &dr).attr("DEST", "ECUC-INTEGER-PARAM-DEF"))
                            .kid(D::leaf("VALUE", &format!("{}", self.rng.below(100)))),
                    );
                } else {
                    pv.kids.push(
                        D::new("ECUC-TEXTUAL-PARAM-VALUE")
                            .kid(D::leaf("DEFINITION-REF", &dr).attr("DEST", "ECUC-ENUMERATION-PARAM-DEF"))
                            .kid(D::leaf("VALUE", self.pick(&["ON", "OFF", "v1"]))),
                    );
                }
                self.budget = self.budget.saturating_sub(1);
            }
            c.kids.push(pv);
        }
        if depth < 2 && self.rng.below(3) == 0 && self.budget > 0 {
            let mut sc = D::new("SUB-CONTAINERS");
            let mut used = BTreeSet::new();
            for _ in 0..1 + self.rng.below(2) {
                let n = self.unique(&mut used, EL_NAMES);
                sc.kids.push(self.ecuc_container(&n, depth + 1));
                self.budget = self.budget.saturating_sub(1);
            }
            c.kids.push(sc);
        }
        c
    }
    fn element(&mut self, name: &str, pkg_path: &str) -> D {
        let path = format!("{}/{}", pkg_path, name);
        let kind = self.rng.below(10);
        match kind {
            0 | 1 => {
                self.sig_paths.push(path);
                let mut d = D::named("SYSTEM-SIGNAL", name);
                if self.rng.below(3) == 0 {
                    d.kids.push(D::new("LONG-NAME").kid(D::leaf("L-4", "long name").attr("L", "EN")));
                }
                d
            }
            2 | 3 => {
                self.isig_paths.push(path);
                let mut d = D::named("I-SIGNAL", name);
                if !self.sig_paths.is_empty() || self.rng.below(3) == 0 {
                    let t = if self.sig_paths.is_empty() || self.rng.below(5) == 0 {
                        "/nowhere/Sig".to_string()
                    } else {
                        self.sig_paths[self.rng.below(self.sig_paths.len() as u64) as usize].clone()
                    };
                    d.kids.push(D::leaf("SYSTEM-SIGNAL-REF", &t).attr("DEST", "SYSTEM-SIGNAL"));
                }
                d
            }
            4 => {
                let mut d = D::named("SYSTEM", name);
                let n = self.rng.below(3);
                if n > 0 {
                    let mut fe = D::new("FIBEX-ELEMENTS");
                    for k in 0..n {
                        let t = if self.isig_paths.is_empty() {
                            format!("/nowhere/I{}", k)
                        } else {
                            self.isig_paths[self.rng.below(self.isig_paths.len() as u64) as usize].clone()
                        };
                        if fe.kids.iter().any(|x: &D| x.kids[0].text.as_deref() == Some(&t)) {
                            continue;
                        }
                        fe.kids.push(D::new("FIBEX-ELEMENT-REF-CONDITIONAL").kid(D::leaf("FIBEX-ELEMENT-REF", &t).attr("DEST", "I-SIGNAL")));
                        self.budget = self.budget.saturating_sub(1);
                    }
                    d.kids.push(fe);
                }
                d
            }
            5 | 6 => {
                let mut d = D::named("ECUC-MODULE-CONFIGURATION-VALUES", name)
                    .kid(D::leaf("DEFINITION-REF", "/D/M").attr("DEST", "ECUC-MODULE-DEF"));
                let n = 1 + self.rng.below(3);
                let mut cs = D::new("CONTAINERS");
                let mut used = BTreeSet::new();
                for _ in 0..n {
                    let cn = self.unique(&mut used, EL_NAMES);
                    cs.kids.push(self.ecuc_container(&cn, 0));
                    self.budget = self.budget.saturating_sub(1);
                }
                d.kids.push(cs);
                d
            }
            7 => {
                let mut d = D::named("APPLICATION-SW-COMPONENT-TYPE", name);
                let n = self.rng.below(4);
                if n > 0 {
                    let mut ports = D::new("PORTS");
                    let mut used = BTreeSet::new();
                    for _ in 0..n {
                        let pn = self.unique(&mut used, EL_NAMES);
                        ports.kids.push(D::named(if self.rng.below(2) == 0 { "P-PORT-PROTOTYPE" } else { "R-PORT-PROTOTYPE" }, &pn));
                        self.budget = self.budget.saturating_sub(1);
                    }
                    d.kids.push(ports);
                }
                d
            }
            8 => {
                let mut d = D::named("SENDER-RECEIVER-INTERFACE", name);
                let n = self.rng.below(3);
                if n > 0 {
                    let mut de = D::new("DATA-ELEMENTS");
                    let mut used = BTreeSet::new();
                    for _ in 0..n {
                        let pn = self.unique(&mut used, EL_NAMES);
                        de.kids.push(D::named("VARIABLE-DATA-PROTOTYPE", &pn));
                        self.budget = self.budget.saturating_sub(1);
                    }
                    d.kids.push(de);
                }
                d
            }
            _ => {
                let mut d = D::named(if self.rng.below(2) == 0 { "COMPU-METHOD" } else { "UNIT" }, name);
                if self.rng.below(2) == 0 {
                    d.kids.push(D::leaf("CATEGORY", "IDENTICAL"));
                }
                d
            }
        }
    }
    fn package(&mut self, name: &str, parent_path: &str, depth: usize) -> D {
        let path = format!("{}/{}", parent_path, name);
        let mut p = D::named("AR-PACKAGE", name);
        let nel = if self.budget == 0 { 0 } else { self.rng.below(4) as usize };
        if nel > 0 {
            let mut els = D::new("ELEMENTS");
            let mut used = BTreeSet::new();
            for _ in 0..nel {
                if self.budget == 0 {
                    break;
                }
                self.budget -= 1;
                let n = self.unique(&mut used, EL_NAMES);
                els.kids.push(self.element(&n, &path));
            }
            if !els.kids.is_empty() {
                p.kids.push(els);
            }
        }
        if depth < 2 && self.budget > 0 && self.rng.below(10) < 6 {
            let mut sub = D::new("AR-PACKAGES");
            // sub-packages and elements of one package share the path namespace
            let mut used: BTreeSet<String> = p.kids.iter().filter(|k| k.name == "ELEMENTS").flat_map(|e| e.kids.iter().filter_map(|x| x.item.clone())).collect();
            for _ in 0..1 + self.rng.below(2) {
                let n = self.unique(&mut used, PKG_NAMES);
                sub.kids.push(self.package(&n, &path, depth + 1));
            }
            p.kids.push(sub);
        }
        p
    }
}

pub fn gen_master(rng: &mut SplitMix64, max_elements: usize) -> D {
    let mut g = MasterGen { rng, budget: max_elements, sig_paths: vec![], isig_paths: vec![] };
    let mut pk = D::new("AR-PACKAGES");
    let mut used = BTreeSet::new();
    let n = 1 + g.rng.below(3);
    for _ in 0..n {
        let name = g.unique(&mut used, PKG_NAMES);
        pk.kids.push(g.package(&name, "", 0));
    }
    let mut root = D::new("AUTOSAR").kid(pk);
    let mut next = 0;
    root.number(&mut next);
    root
}

/// which children of a container may differ between files: the library's flag of the PARENT's type; SHORT-NAME and the
/// DEFINITION-REF key never split off
fn splittable_child(parent_ty: Option<ElementType>, version: AutosarVersion, kid: &D) -> bool {
    if kid.name == "SHORT-NAME" || kid.name == "DEFINITION-REF" {
        return false;
    }
    parent_ty.map(|t| t.splittable_in(version)).unwrap_or(false)
}

fn kid_type(ty: Option<ElementType>, k: &D) -> Option<ElementType> {
    ty.and_then(|t| ElementName::from_str(&k.name).ok().and_then(|n| t.find_sub_element(n, u32::MAX)).map(|x| x.0))
}

/// ancestor-closed assignment of the elements to `nfiles` files that splits only below splittable parents
fn assign(d: &mut D, mask: u32, ty: Option<ElementType>, version: AutosarVersion, versions: &[u32], rng: &mut SplitMix64, stats: &mut (u64, u64)) {
    d.files = mask;
    let kinds: Vec<(bool, Option<ElementType>)> = d.kids.iter().map(|k| (splittable_child(ty, version, k), kid_type(ty, k))).collect();
    // files whose version knows the child element at all
    let supported: Vec<u32> = d
        .kids
        .iter()
        .map(|k| {
            let mut m = 0u32;
            for (f, v) in versions.iter().enumerate() {
                let ok = ty.and_then(|t| ElementName::from_str(&k.name).ok().and_then(|n| t.find_sub_element(n, *v))).is_some();
                if ok {
                    m |= 1 << f;
                }
            }
            m
        })
        .collect();
    for ((k, (sp, kty)), sup) in d.kids.iter_mut().zip(kinds).zip(supported) {
        let bits: Vec<u32> = (0..8).filter(|b| mask & (1 << b) != 0).collect();
        let m = if sp && bits.len() > 1 {
            stats.0 += 1;
            let container = matches!(k.name.as_str(), "AR-PACKAGES" | "ELEMENTS" | "CONTAINERS" | "SUB-CONTAINERS" | "PARAMETER-VALUES" | "PORTS" | "FIBEX-ELEMENTS" | "DATA-ELEMENTS");
            let r = if container && rng.below(100) < 85 { 0 } else { rng.below(10) };
            if r < 3 {
                mask // shared by all
            } else if r < 7 {
                1 << bits[rng.below(bits.len() as u64) as usize] // exclusive
            } else {
                let mut m = 0;
                for b in &bits {
                    if rng.below(2) == 0 {
                        m |= 1 << b;
                    }
                }
                if m == 0 { 1 << bits[0] } else { m }
            }
        } else {
            mask
        };
        // a version-specific element below a splittable parent lives only in the files that know it
        let m = if sp { m & sup } else { m };
        if m != mask {
            stats.1 += 1;
        }
        assign(k, m, kty, version, versions, rng, stats);
    }
}

// ------------------------------------------------------------------------------------------------ cases
#[derive(Clone, Debug)]
pub struct CaseFile {
    pub name: String,
    pub strict: bool,
    pub text: Vec<u8>,
}
#[derive(Clone, Debug)]
pub struct Case {
    pub id: usize,
    pub kind: String,
    pub files: Vec<CaseFile>,
    pub orders: Vec<Vec<usize>>,
}

pub fn write_cases(cases: &[Case]) -> String {
    let mut s = String::new();
    for c in cases {
        s.push_str(&format!("CASE {} {}\n", c.id, c.kind));
        for f in &c.files {
            s.push_str(&format!("FILE {} {} {}\n", hex(f.name.as_bytes()), f.strict as u8, hex(&f.text)));
        }
        for o in &c.orders {
            s.push_str(&format!("ORDER {}\n", o.iter().map(|x| x.to_string()).collect::<Vec<_>>().join(" ")));
        }
        s.push_str("END\n");
    }
    s
}

pub fn read_cases(path: &str) -> Vec<Case> {
    let mut res: Vec<Case> = vec![];
    for l in read_lines(path) {
        let w: Vec<&str> = l.split_whitespace().collect();
        if w.is_empty() {
            continue;
        }
        match w[0] {
            "CASE" => res.push(Case { id: w[1].parse().unwrap(), kind: w.get(2).unwrap_or(&"split").to_string(), files: vec![], orders: vec![] }),
            "FILE" => res.last_mut().unwrap().files.push(CaseFile {
                name: String::from_utf8_lossy(&unhex(w[1])).to_string(),
                strict: w[2] == "1",
                text: unhex(w.get(3).unwrap_or(&"")),
            }),
            "ORDER" => res.last_mut().unwrap().orders.push(w[1..].iter().map(|x| x.parse().unwrap()).collect()),
            _ => {}
        }
    }
    res
}

fn permutations(n: usize) -> Vec<Vec<usize>> {
    fn go(cur: &mut Vec<usize>, used: &mut Vec<bool>, n: usize, out: &mut Vec<Vec<usize>>) {
        if cur.len() == n {
            out.push(cur.clone());
            return;
        }
        for i in 0..n {
            if !used[i] {
                used[i] = true;
                cur.push(i);
                go(cur, used, n, out);
                cur.pop();
                used[i] = false;
            }
        }
    }
    let mut out = vec![];
    go(&mut vec![], &mut vec![false; n], n, &mut out);
    out
}

// ------------------------------------------------------------------------------------------------ canonical content
/// structural key of an element below its parent: stable across the files of one master
fn seg(e: &Element, parent_split: bool, ordinal: usize) -> String {
    let n = e.element_name().to_str();
    if e.is_identifiable() {
        return format!("{}:{}", n, e.item_name().unwrap_or_default());
    }
    if let Some(dr) = e.get_sub_element(ElementName::DefinitionRef).and_then(|d| d.character_data()).and_then(|c| c.string_value()) {
        return format!("{}@{}", n, dr);
    }
    if parent_split && e.element_type().splittable() == 0 {
        // an element without a name or definition reference below a splittable parent: identified by its content
        return format!("{}={}", n, crate::tree::text_digest(&e.serialize()));
    }
    format!("{}#{}", n, ordinal)
}

/// multi-valued BSW parameters: several siblings of one kind with the same DEFINITION-REF. The library pairs them by
/// position, so the k-th sibling with a DEFINITION-REF key is a different element from the first: key `name@defref~k`
/// (k >= 1; the first keeps `name@defref`). Other keys are left alone (a repeated name stays a reported duplicate).
fn multi_key(s: String, seen: &mut BTreeMap<String, usize>) -> String {
    if !s.contains('@') || s.contains(':') && s.find(':') < s.find('@') {
        return s;
    }
    let k = *seen.get(&s).unwrap_or(&0);
    seen.insert(s.clone(), k + 1);
    if k == 0 { s } else { format!("{}~{}", s, k) }
}

#[derive(Clone, Debug, PartialEq, Eq)]
pub struct Entry {
    pub values: String,        // attributes (sorted), character data items, comment
    pub files: Vec<String>,    // effective membership as file names, sorted
    pub ordered_kids: Option<Vec<String>>, // child keys in order, when the order is content (ordered parent)
    pub kid_order: Vec<String>, // child keys in order (reported, not compared, for unordered parents)
}

pub type Canon = BTreeMap<String, Vec<Entry>>; // key path -> entries (more than one = duplicate)

fn values_of(e: &Element, is_root: bool) -> String {
    let mut attrs: Vec<String> =
        e.attributes().filter(|a| !(is_root && a.attrname == AttributeName::xsiSchemalocation)).map(|a| format!("{}={}", a.attrname.to_str(), crate::tree::show_cdata(&a.content))).collect();
    attrs.sort();
    let cd: Vec<String> = e
        .content()
        .filter_map(|c| match c {
            ElementContent::CharacterData(d) => Some(crate::tree::show_cdata(&d)),
            _ => None,
        })
        .collect();
    format!("a=[{}] c=[{}] cm={}", attrs.join(","), cd.join(","), e.comment().unwrap_or_default())
}

fn canon_walk(e: &Element, path: &str, is_root: bool, fnames: &dyn Fn(&ArxmlFile) -> String, out: &mut Canon) {
    let ty = e.element_type();
    let split = ty.splittable() != 0;
    let mut kid_keys = vec![];
    let mut counts: BTreeMap<String, usize> = BTreeMap::new();
    let mut seen: BTreeMap<String, usize> = BTreeMap::new();
    let kids: Vec<Element> = e.sub_elements().collect();
    for k in &kids {
        let nm = k.element_name().to_str().to_string();
        let ord = *counts.get(&nm).unwrap_or(&0);
        counts.insert(nm, ord + 1);
        let s = multi_key(seg(k, split, ord), &mut seen);
        let kp = format!("{}/{}", path, s);
        kid_keys.push(s);
        canon_walk(k, &kp, false, fnames, out);
    }
    let mut files: Vec<String> = match e.file_membership() {
        Ok((_, set)) => set.iter().map(|w| w.upgrade().map(|f| fnames(&f)).unwrap_or("<dead>".to_string())).collect(),
        Err(err) => vec![format!("<err:{}>", err_name(&err))],
    };
    files.sort();
    out.entry(path.to_string()).or_default().push(Entry {
        values: values_of(e, is_root),
        files,
        ordered_kids: if ty.is_ordered() { Some(kid_keys.clone()) } else { None },
        kid_order: kid_keys,
    });
}

pub fn canon_of(m: &AutosarModel) -> Canon {
    let files: Vec<ArxmlFile> = m.files().collect();
    let fnames = move |f: &ArxmlFile| -> String {
        if files.iter().any(|x| x == f) {
            f.filename().to_string_lossy().to_string()
        } else {
            format!("<unregistered:{}>", f.filename().to_string_lossy())
        }
    };
    let mut c = Canon::new();
    canon_walk(&m.root_element(), "", true, &fnames, &mut c);
    c
}

/// canonical key of every element of the model (same walk as canon_walk)
fn element_keys(m: &AutosarModel) -> Vec<(Element, String)> {
    fn keys(e: &Element, path: &str, out: &mut Vec<(Element, String)>) {
        let split = e.element_type().splittable() != 0;
        let mut counts: BTreeMap<String, usize> = BTreeMap::new();
        let mut seen: BTreeMap<String, usize> = BTreeMap::new();
        for k in e.sub_elements() {
            let nm = k.element_name().to_str().to_string();
            let ord = *counts.get(&nm).unwrap_or(&0);
            counts.insert(nm, ord + 1);
            let kp = format!("{}/{}", path, multi_key(seg(&k, split, ord), &mut seen));
            keys(&k, &kp, out);
        }
        out.push((e.clone(), path.to_string()));
    }
    let mut ks = vec![];
    keys(&m.root_element(), "", &mut ks);
    ks
}

/// the per-file view ArxmlFile::elements_dfs as the sorted list of canonical keys (with the depth the iterator reports)
fn file_dfs_keys(m: &AutosarModel, f: &ArxmlFile) -> Vec<String> {
    let ks = element_keys(m);
    let mut v: Vec<String> = f
        .elements_dfs()
        .map(|(d, e)| format!("{} d={}", ks.iter().find(|(x, _)| *x == e).map(|(_, k)| k.as_str()).unwrap_or("<not-in-model>"), d))
        .collect();
    v.sort();
    v
}

fn load_alone(f: &CaseFile) -> Result<AutosarModel, String> {
    let m = AutosarModel::new();
    match guard(|| m.load_buffer(&f.text, &f.name, f.strict)) {
        Ok(Ok(_)) => Ok(m),
        Ok(Err(e)) => Err(format!("err:{}", e)),
        Err(_) => Err("PANIC".to_string()),
    }
}

/// content only: key -> values (membership and order dropped)
fn content_of(c: &Canon) -> BTreeMap<String, Vec<(String, Option<Vec<String>>)>> {
    c.iter().map(|(k, v)| (k.clone(), v.iter().map(|e| (e.values.clone(), e.ordered_kids.clone())).collect())).collect()
}

pub struct OracleOut {
    pub fails: Vec<String>,
    pub loads_ok: u64,
    pub loads_err: BTreeMap<String, u64>,
    pub orders: u64,
    pub elements: u64,
    pub text_equal: u64,
    pub text_differs_order_only: u64,
    pub order_dependent_sibling_order: u64,
    pub c11_checked: u64,
}

/// full canonical observation of a model through the tree harness (used for "nothing changed")
fn observe_exec(ex: &Exec) -> Vec<String> {
    let mut v = vec![];
    ex.observe(&mut |s: &str| v.push(s.to_string()));
    v
}

/// a shared parent with a multi-valued parameter (a `~k` child key whose base key is in both files) whose child key
/// lists are not aligned (neither equal nor one a prefix of the other): the inputs of the known finding
/// C09-multivalued-defref-misaligned. Computed from the files alone.
fn multikey_misaligned(c: &Case) -> bool {
    let alone: Vec<Canon> = c.files.iter().filter_map(|f| load_alone(f).ok().map(|m| canon_of(&m))).collect();
    for i in 0..alone.len() {
        for j in i + 1..alone.len() {
            for (k, v) in &alone[i] {
                let Some(w) = alone[j].get(k) else { continue };
                let (l1, l2) = (&v[0].kid_order, &w[0].kid_order);
                let multi = l1.iter().chain(l2.iter()).any(|s| match s.rsplit_once('~') {
                    Some((base, _)) => l1.iter().any(|x| x == base) && l2.iter().any(|x| x == base),
                    None => false,
                });
                let n = l1.len().min(l2.len());
                if multi && l1[..n] != l2[..n] {
                    return true;
                }
            }
        }
    }
    false
}

/// the C09 oracle on one case; every load that returns Err is also checked for C11 (state before == state after)
pub fn oracle_case(names: &Names, c: &Case, out: &mut OracleOut) {
    let n0 = out.fails.len();
    oracle_case_inner(names, c, out);
    if out.fails.len() > n0 && multikey_misaligned(c) {
        for f in out.fails[n0..].iter_mut() {
            f.push_str(" tag=multikey-misaligned");
        }
    }
}

fn oracle_case_inner(names: &Names, c: &Case, out: &mut OracleOut) {
    // single-file loads
    let mut alone: Vec<Option<(Canon, String)>> = vec![];
    let mut alone_dfs: Vec<Vec<String>> = vec![];
    let mut alone_err: Vec<String> = vec![];
    for f in &c.files {
        match load_alone(f) {
            Ok(m) => {
                let t = m.files().next().and_then(|x| x.serialize().ok()).unwrap_or_default();
                alone_dfs.push(m.files().next().map(|x| file_dfs_keys(&m, &x)).unwrap_or_default());
                alone.push(Some((canon_of(&m), t)));
            }
            Err(e) => {
                alone_err.push(e);
                alone_dfs.push(vec![]);
                alone.push(None)
            }
        }
    }
    let expect_merge = c.kind.starts_with("split") || c.kind.starts_with("mixedver");
    if expect_merge {
        for (k, a) in alone.iter().enumerate() {
            if a.is_none() {
                out.fails.push(format!("FAIL {} invalid-case file {} does not load on its own: {:?}", c.id, k, alone_err));
                return;
            }
        }
    }
    let mut first_content: Option<(Vec<usize>, Canon)> = None;
    for order in &c.orders {
        out.orders += 1;
        let mut ex = Exec::new(names);
        ex.serialize_obs = true;
        ex.apply(&Op::NewModel);
        // probe paths: every path of every single-file load
        let mut probes: BTreeSet<String> = BTreeSet::new();
        let mut all_ok = true;
        let mut loaded: Vec<usize> = vec![];
        for &k in order {
            let f = &c.files[k];
            for (p, _) in ex.models[0].identifiable_elements() {
                probes.insert(p);
            }
            ex.probes = probes.iter().cloned().collect();
            // the observation serializes every file, which rewrites the root's xsi:schemaLocation: observe once to
            // reach the fixed point of that side effect, then take the reference observation
            let _ = observe_exec(&ex);
            let before = observe_exec(&ex);
            let snap_before = snap_of(&ex.models[0]);
            let r = ex.apply(&Op::Load(0, f.text.clone(), f.name.as_bytes().to_vec(), f.strict));
            if r.starts_with("R OK") {
                out.loads_ok += 1;
                loaded.push(k);
            } else {
                *out.loads_err.entry(r.clone()).or_insert(0) += 1;
                all_ok = false;
                if r == "R PANIC" {
                    out.fails.push(format!("FAIL {} panic order={:?} load of file {} panicked", c.id, order, k));
                    break;
                }
                // C11: a rejected load leaves no trace
                out.c11_checked += 1;
                let after = observe_exec(&ex);
                if after != before {
                    let d = first_diff(&before, &after);
                    let mut cl = changed_classes(&snap_before, &snap_of(&ex.models[0]));
                    if cl.is_empty() {
                        cl.push("other");
                    }
                    *out.loads_err.entry(format!("c11-changed {}", cl.join("+"))).or_insert(0) += 1;
                    out.fails.push(format!("FAIL {} c11-load order={:?} file={} {} changed={} state changed: {}", c.id, order, k, r, cl.join("+"), d));
                }
            }
        }
        if !expect_merge {
            // conflicting files must be rejected (whichever of them comes second), valid ones accepted
            if c.kind.starts_with("conflict-") && c.kind != "conflict-control" && all_ok {
                out.fails.push(format!("FAIL {} not-rejected order={:?} every file of a conflicting set ({}) was accepted", c.id, order, c.kind));
            }
            if c.kind == "conflict-control" && !all_ok {
                out.fails.push(format!("FAIL {} merge-rejected order={:?} a valid file was rejected", c.id, order));
            }
            continue;
        }
        if !all_ok {
            out.fails.push(format!("FAIL {} merge-rejected order={:?} a file of a valid split was rejected", c.id, order));
            continue;
        }
        let merged = &ex.models[0];
        let mc = canon_of(merged);
        out.elements += mc.len() as u64;
        // (i) every element of every file exactly once
        for (k, v) in &mc {
            if v.len() > 1 {
                out.fails.push(format!("FAIL {} duplicate order={:?} element {} occurs {} times in the merged model", c.id, order, k, v.len()));
            }
        }
        let mut expected_files: BTreeMap<String, Vec<String>> = BTreeMap::new();
        for (fi, a) in alone.iter().enumerate() {
            let (ac, _) = a.as_ref().unwrap();
            for (k, v) in ac {
                expected_files.entry(k.clone()).or_default().push(c.files[fi].name.clone());
                match mc.get(k) {
                    None => out.fails.push(format!("FAIL {} missing order={:?} element {} of file {} is not in the merged model", c.id, order, k, c.files[fi].name)),
                    Some(mv) => {
                        if mv[0].values != v[0].values {
                            let kind = if no_attrs(&mv[0].values) == no_attrs(&v[0].values) { "attrs" } else { "values" };
                            out.fails.push(format!("FAIL {} {} order={:?} element {}: file {} has {} merged has {}", c.id, kind, order, k, c.files[fi].name, v[0].values, mv[0].values));
                        }
                    }
                }
            }
        }
        for (k, v) in &mc {
            match expected_files.get(k) {
                None => out.fails.push(format!("FAIL {} extra order={:?} element {} of the merged model is in no file", c.id, order, k)),
                Some(fl) => {
                    // (ii) membership = the files that contained it
                    let mut fl = fl.clone();
                    fl.sort();
                    if v[0].files != fl {
                        out.fails.push(format!("FAIL {} membership order={:?} element {}: files [{}] expected [{}]", c.id, order, k, v[0].files.join(","), fl.join(",")));
                    }
                }
            }
        }
        // (iii) every file serialized from the merged model has the content it has on its own
        for (fi, a) in alone.iter().enumerate() {
            let (ac, atext) = a.as_ref().unwrap();
            let fobj = merged.files().find(|x| x.filename().to_string_lossy() == c.files[fi].name);
            let Some(fobj) = fobj else {
                out.fails.push(format!("FAIL {} file-missing order={:?} file {} is not registered", c.id, order, c.files[fi].name));
                continue;
            };
            // the per-file view ArxmlFile::elements_dfs: the elements (and depths) the file yields when loaded on its own
            match guard(|| file_dfs_keys(merged, &fobj)) {
                Ok(v) => {
                    if v != alone_dfs[fi] {
                        let only_alone: Vec<&String> = alone_dfs[fi].iter().filter(|k| !v.contains(k)).collect();
                        let only_merged: Vec<&String> = v.iter().filter(|k| !alone_dfs[fi].contains(k)).collect();
                        out.fails.push(format!(
                            "FAIL {} file-dfs order={:?} file {} elements_dfs in the merged model differs from the file on its own: {} elements vs {}; missing [{}] extra [{}]",
                            c.id, order, c.files[fi].name, v.len(), alone_dfs[fi].len(),
                            only_alone.iter().take(3).map(|x| trunc(x)).collect::<Vec<_>>().join(" | "),
                            only_merged.iter().take(3).map(|x| trunc(x)).collect::<Vec<_>>().join(" | ")
                        ));
                    }
                }
                Err(_) => out.fails.push(format!("FAIL {} file-dfs order={:?} file {}: PANIC in elements_dfs", c.id, order, c.files[fi].name)),
            }
            match guard(|| fobj.serialize()) {
                Ok(Ok(t)) => {
                    if &t == atext {
                        out.text_equal += 1;
                    }
                    let re = CaseFile { name: c.files[fi].name.clone(), strict: c.files[fi].strict, text: t.clone().into_bytes() };
                    match load_alone(&re) {
                        Ok(m2) => {
                            let c2 = canon_of(&m2);
                            if content_of(&c2) != content_of(ac) {
                                let d = canon_diff(ac, &c2);
                                let kind = if content_no_attrs(&c2) == content_no_attrs(ac) { "file-attrs" } else { "file-content" };
                                out.fails.push(format!("FAIL {} {} order={:?} file {} serialized from the merged model differs from the file on its own: {}", c.id, kind, order, c.files[fi].name, d));
                            } else if &t != atext {
                                out.text_differs_order_only += 1;
                            }
                        }
                        Err(e) => out.fails.push(format!("FAIL {} file-reload order={:?} file {} serialized from the merged model does not load: {}", c.id, order, c.files[fi].name, e)),
                    }
                }
                Ok(Err(e)) => out.fails.push(format!("FAIL {} file-serialize order={:?} file {}: {}", c.id, order, c.files[fi].name, err_name(&e))),
                Err(_) => out.fails.push(format!("FAIL {} file-serialize order={:?} file {}: PANIC", c.id, order, c.files[fi].name)),
            }
        }
        // (iv) independent of the load order
        match &first_content {
            None => first_content = Some((order.clone(), mc)),
            Some((o1, c1)) => {
                if content_of(c1) != content_of(&mc) || c1.iter().any(|(k, v)| mc.get(k).map(|w| w[0].files != v[0].files).unwrap_or(true)) {
                    let attrs_only = content_no_attrs(c1) == content_no_attrs(&mc) && !c1.iter().any(|(k, v)| mc.get(k).map(|w| w[0].files != v[0].files).unwrap_or(true));
                    let kind = if attrs_only { "order-attrs" } else { "order-dependent" };
                    out.fails.push(format!("FAIL {} {} orders {:?} vs {:?}: {}", c.id, kind, o1, order, canon_diff(c1, &mc)));
                } else if c1.iter().any(|(k, v)| mc.get(k).map(|w| w[0].kid_order != v[0].kid_order).unwrap_or(false)) {
                    out.order_dependent_sibling_order += 1;
                }
            }
        }
    }
}

/// semantic snapshot of a model for the classification of what a rejected load changed
struct Snap {
    canon: Canon,
    idents: Vec<(String, String)>, // path -> canonical key of the element it denotes
    local: BTreeMap<String, Vec<bool>>, // key -> is the membership local (explicit)?
}
fn snap_of(m: &AutosarModel) -> Snap {
    let canon = canon_of(m);
    let ks = element_keys(m);
    let mut idents: Vec<(String, String)> = m
        .identifiable_elements()
        .map(|(p, w)| (p, w.upgrade().and_then(|e| ks.iter().find(|(x, _)| *x == e).map(|(_, k)| k.clone())).unwrap_or("<dead>".into())))
        .collect();
    idents.sort();
    let mut local: BTreeMap<String, Vec<bool>> = BTreeMap::new();
    for (e, k) in &ks {
        local.entry(k.clone()).or_default().push(e.file_membership().map(|(l, _)| l).unwrap_or(false));
    }
    Snap { canon, idents, local }
}
/// the classes of changes between two snapshots: elements (added/removed), values (attributes, character data, comment),
/// order (of ordered content), membership (effective file sets), index (path index), local (a membership became explicit)
fn changed_classes(a: &Snap, b: &Snap) -> Vec<&'static str> {
    let mut v = vec![];
    let ka: Vec<(&String, usize)> = a.canon.iter().map(|(k, e)| (k, e.len())).collect();
    let kb: Vec<(&String, usize)> = b.canon.iter().map(|(k, e)| (k, e.len())).collect();
    if ka != kb {
        v.push("elements");
    }
    let common = |f: &dyn Fn(&Entry, &Entry) -> bool| -> bool {
        a.canon.iter().any(|(k, ea)| b.canon.get(k).map(|eb| ea.len() == eb.len() && ea.iter().zip(eb.iter()).any(|(x, y)| f(x, y))).unwrap_or(false))
    };
    if common(&|x, y| x.values != y.values) {
        v.push("values");
    }
    if common(&|x, y| x.ordered_kids != y.ordered_kids) && !v.contains(&"elements") {
        v.push("order");
    }
    if common(&|x, y| x.files != y.files) {
        v.push("membership");
    }
    if a.idents != b.idents {
        v.push("index");
    }
    if a.local.iter().any(|(k, la)| b.local.get(k).map(|lb| la != lb).unwrap_or(false)) {
        v.push("local");
    }
    v
}

/// the values of an entry without the attributes
fn no_attrs(values: &str) -> &str {
    match values.find("] c=[") {
        Some(i) => &values[i + 2..],
        None => values,
    }
}
fn content_no_attrs(c: &Canon) -> BTreeMap<String, Vec<(String, Option<Vec<String>>)>> {
    c.iter().map(|(k, v)| (k.clone(), v.iter().map(|e| (no_attrs(&e.values).to_string(), e.ordered_kids.clone())).collect())).collect()
}

fn first_diff(a: &[String], b: &[String]) -> String {
    for i in 0..a.len().max(b.len()) {
        let x = a.get(i).map(|s| s.as_str()).unwrap_or("<end>");
        let y = b.get(i).map(|s| s.as_str()).unwrap_or("<end>");
        if x != y {
            return format!("line {}: before `{}` after `{}`", i, trunc(x), trunc(y));
        }
    }
    "no difference".to_string()
}
fn trunc(s: &str) -> String {
    if s.len() > 160 { format!("{}..", &s[..160]) } else { s.to_string() }
}

fn canon_diff(a: &Canon, b: &Canon) -> String {
    for (k, v) in a {
        match b.get(k) {
            None => return format!("{} only on the first side", k),
            Some(w) => {
                if v.len() != w.len() {
                    return format!("{} occurs {} vs {} times", k, v.len(), w.len());
                }
                if v[0].values != w[0].values {
                    return format!("{} values {} vs {}", k, v[0].values, w[0].values);
                }
                if v[0].ordered_kids != w[0].ordered_kids {
                    return format!("{} child order {:?} vs {:?}", k, v[0].ordered_kids, w[0].ordered_kids);
                }
                if v[0].files != w[0].files {
                    return format!("{} files {:?} vs {:?}", k, v[0].files, w[0].files);
                }
            }
        }
    }
    for k in b.keys() {
        if !a.contains_key(k) {
            return format!("{} only on the second side", k);
        }
    }
    "equal".to_string()
}

// ------------------------------------------------------------------------------------------------ generation of cases
fn split_case(id: usize, rng: &mut SplitMix64, max_elements: usize, max_files: usize, mixed_versions: bool, stats: &mut BTreeMap<String, u64>) -> Case {
    let mut master = gen_master(rng, max_elements);
    let nfiles = 2 + rng.below(max_files as u64 - 1) as usize;
    let uniform = if rng.below(4) == 0 { 0x80000u32 } else { 0x20000 };
    let versions: Vec<u32> = (0..nfiles)
        .map(|_| if mixed_versions { *rng.pick(&[0x20000u32, 0x80000, 0x100000, 0x2000, 0x80, 0x4]) } else { uniform })
        .collect();
    let minv = AutosarVersion::from_val(*versions.iter().min().unwrap()).unwrap();
    let mut st = (0u64, 0u64);
    if !mixed_versions && uniform == 0x80000 {
        // FIBEX-ELEMENTS is splittable from 00051 on: a SYSTEM whose (unnamed) FIBEX-ELEMENT-REF-CONDITIONAL children can be split
        let mut fe = D::new("FIBEX-ELEMENTS");
        for k in 0..2 + rng.below(2) {
            fe.kids.push(D::new("FIBEX-ELEMENT-REF-CONDITIONAL").kid(D::leaf("FIBEX-ELEMENT-REF", &format!("/nowhere/X{}", k)).attr("DEST", "I-SIGNAL")));
        }
        let sys = D::named("SYSTEM", "zz_sys").kid(fe);
        let pkg = &mut master.kids[0].kids[0];
        if let Some(els) = pkg.kids.iter_mut().find(|k| k.name == "ELEMENTS") {
            els.kids.push(sys);
        } else {
            pkg.kids.insert(0, D::new("ELEMENTS").kid(sys));
        }
        let mut next = 0;
        master.number(&mut next);
        *stats.entry("masters_with_unnamed_children_below_splittable_parent".into()).or_insert(0) += 1;
    }
    if mixed_versions && rng.below(3) == 0 {
        // a root-level element that exists only in newer versions (AUTOSAR is splittable)
        master.kids.insert(0, D::new("FILE-INFO-COMMENT").kid(D::new("SDGS").kid(D::new("SDG").attr("GID", "info").kid(D::leaf("SD", "x").attr("GID", "k")))));
        let mut next = 0;
        master.number(&mut next);
        *stats.entry("masters_with_version_specific_root_child".into()).or_insert(0) += 1;
    }
    assign(&mut master, (1u32 << nfiles) - 1, Some(ElementType::ROOT), minv, &versions, rng, &mut st);
    if master.kids[0].name == "FILE-INFO-COMMENT" && master.kids[0].files != 0 && rng.below(2) == 0 {
        // the packages live only in the files that do NOT have the version-specific root child
        let rest = ((1u32 << nfiles) - 1) & !master.kids[0].files;
        if rest != 0 {
            fn restrict(d: &mut D, m: u32) {
                d.files &= m;
                for k in d.kids.iter_mut() {
                    restrict(k, m);
                }
            }
            restrict(&mut master.kids[1], rest);
            *stats.entry("masters_root_child_and_packages_in_disjoint_files".into()).or_insert(0) += 1;
        }
    }
    *stats.entry("split_points".into()).or_insert(0) += st.0;
    *stats.entry("split_decisions_partial".into()).or_insert(0) += st.1;
    *stats.entry("master_elements".into()).or_insert(0) += master.count() as u64;
    let permute = rng.below(10) < 6;
    if permute {
        *stats.entry("cases_with_permuted_siblings".into()).or_insert(0) += 1;
    }
    // attribute decoration: in some cases the shared packages and elements carry a UUID (and S) that differs per file
    // (not in the cases that exercise the known finding about unnamed elements: one finding per case)
    let decorate = !mixed_versions && uniform != 0x80000 && rng.below(5) == 0;
    fn deco(d: &mut D, f: usize, below_elements: bool, n: &mut u64) {
        let shared = d.files & (d.files - 1) != 0;
        if shared && d.item.is_some() && (d.name == "AR-PACKAGE" || below_elements) {
            d.attrs.push(("UUID".to_string(), format!("f{}-{}", f, d.uid)));
            if d.uid % 3 == 0 {
                d.attrs.push(("S".to_string(), format!("s{}", f)));
            }
            *n += 1;
        }
        let be = d.name == "ELEMENTS";
        for k in d.kids.iter_mut() {
            deco(k, f, be, n);
        }
    }
    let mut files = vec![];
    let mut ndeco = 0u64;
    for f in 0..nfiles {
        let mut p = project(&master, f as u32, Some(ElementType::ROOT), rng, permute && f > 0).unwrap();
        if decorate {
            deco(&mut p, f, false, &mut ndeco);
        }
        files.push(CaseFile { name: format!("f{}.arxml", f), strict: true, text: file_text(&p, versions[f]).into_bytes() });
    }
    let decorate = decorate && ndeco > 0;
    if decorate {
        *stats.entry("split_cases_with_attribute_decoration".into()).or_insert(0) += 1;
        *stats.entry("decorated_shared_elements".into()).or_insert(0) += ndeco;
    }
    let orders = if nfiles <= 3 { permutations(nfiles) } else {
        let all = permutations(nfiles);
        let mut o: Vec<Vec<usize>> = vec![all[0].clone(), all[all.len() - 1].clone()];
        for _ in 0..6 {
            o.push(all[rng.below(all.len() as u64) as usize].clone());
        }
        o.sort();
        o.dedup();
        o
    };
    Case { id, kind: if mixed_versions { "mixedver".into() } else if decorate { "split-attrs".into() } else { "split".into() }, files, orders }
}

/// cases whose second (or later) file must be rejected: syntax error, overlapping paths, non-splittable divergence,
/// import conflict, duplicate file name
fn conflict_case(id: usize, rng: &mut SplitMix64, stats: &mut BTreeMap<String, u64>) -> Case {
    let mut master = gen_master(rng, 6);
    assign_all(&mut master, 1);
    let base = file_text(&master, 0x20000);
    let kind = rng.below(9);
    // attribute decoration of the shared elements on the path to the conflict (UUID differs per file, or only the rejected
    // file has one): a rejected load must not leave them on the model's elements
    let deco = rng.below(2) == 0;
    let (ua, ub) = if deco {
        match rng.below(3) {
            0 => (String::new(), format!(" UUID=\"b-{}\"", rng.below(1000))),
            1 => (format!(" UUID=\"a-{}\"", rng.below(1000)), format!(" UUID=\"b-{}\"", rng.below(1000))),
            _ => (String::new(), format!(" S=\"s{}\" UUID=\"b-{}\"", rng.below(10), rng.below(1000))),
        }
    } else {
        (String::new(), String::new())
    };
    let hdr = |body: &str| -> String {
        format!("<?xml version=\"1.0\" encoding=\"utf-8\"?>\n<AUTOSAR xsi:schemaLocation=\"http://autosar.org/schema/r4.0 AUTOSAR_00050.xsd\" xmlns=\"http://autosar.org/schema/r4.0\" xmlns:xsi=\"http://www.w3.org/2001/XMLSchema-instance\">\n{}</AUTOSAR>\n", body)
    };
    // the first package and its first element, if any
    let p0 = master.kids[0].kids[0].clone();
    let pname = p0.item.clone().unwrap();
    let first_el = p0.kids.iter().find(|k| k.name == "ELEMENTS").and_then(|e| e.kids.first().cloned());
    let (label, second): (&str, String) = match kind {
        0 => {
            // syntax error at a random stage: truncated text / broken end tag / unknown element
            let t = match rng.below(3) {
                0 => base[..base.len() * (1 + rng.below(8) as usize) / 10].to_string(),
                1 => base.replacen("</AR-PACKAGE>", "</AR-PACKAGES>", 1),
                _ => base.replacen("<ELEMENTS>", "<ELEMENTZ>", 1).replacen("<AR-PACKAGES>", "<AR-PACKAGEZ>", 1),
            };
            ("syntax", t)
        }
        1 => {
            // overlapping path: the same path names an element of another kind
            let (en, other) = match &first_el {
                Some(e) => (e.item.clone().unwrap_or("a".into()), if e.name == "UNIT" { "COMPU-METHOD" } else { "UNIT" }),
                None => ("a".to_string(), "UNIT"),
            };
            let extra = if rng.below(2) == 0 { "<UNIT><SHORT-NAME>zz_new</SHORT-NAME></UNIT>" } else { "" };
            ("overlap", hdr(&format!(
                "<AR-PACKAGES><AR-PACKAGE><SHORT-NAME>{}</SHORT-NAME><ELEMENTS>{}<{}><SHORT-NAME>{}</SHORT-NAME></{}></ELEMENTS></AR-PACKAGE><AR-PACKAGE><SHORT-NAME>zz_pkg</SHORT-NAME></AR-PACKAGE></AR-PACKAGES>",
                pname, extra, other, en, other
            )))
        }
        2 => {
            // divergence below a non-splittable parent: DATA-ELEMENTS of one interface with different prototypes
            ("nonsplit", hdr(&format!(
                "<AR-PACKAGES><AR-PACKAGE{ub}><SHORT-NAME>{}</SHORT-NAME><ELEMENTS><UNIT><SHORT-NAME>zz_u</SHORT-NAME></UNIT><SENDER-RECEIVER-INTERFACE{ub}><SHORT-NAME>zz_if</SHORT-NAME><DATA-ELEMENTS><VARIABLE-DATA-PROTOTYPE><SHORT-NAME>other</SHORT-NAME></VARIABLE-DATA-PROTOTYPE></DATA-ELEMENTS></SENDER-RECEIVER-INTERFACE></ELEMENTS></AR-PACKAGE></AR-PACKAGES>",
                pname
            )))
        }
        7 | 8 => {
            // three files: a1 has the package E = pname with a non-splittable interface, a2 lacks E (so E gets the explicit
            // set {a1}), b shares E, imports a new element below it and conflicts deeper (after the import)
            ("late3", hdr(&format!(
                "<AR-PACKAGES><AR-PACKAGE{ub}><SHORT-NAME>{}</SHORT-NAME><ELEMENTS><UNIT><SHORT-NAME>zz_new</SHORT-NAME></UNIT><CAN-CLUSTER><SHORT-NAME>zz_extra</SHORT-NAME></CAN-CLUSTER><SENDER-RECEIVER-INTERFACE{ub}><SHORT-NAME>zz_if</SHORT-NAME><DATA-ELEMENTS><VARIABLE-DATA-PROTOTYPE><SHORT-NAME>other</SHORT-NAME></VARIABLE-DATA-PROTOTYPE></DATA-ELEMENTS></SENDER-RECEIVER-INTERFACE></ELEMENTS></AR-PACKAGE></AR-PACKAGES>",
                pname
            )))
        }
        3 => {
            // import conflict: the two files choose different alternatives of a choice
            ("choice", hdr(&format!(
                "<AR-PACKAGES><AR-PACKAGE><SHORT-NAME>zz_new</SHORT-NAME></AR-PACKAGE><AR-PACKAGE{ub}><SHORT-NAME>{}</SHORT-NAME><ELEMENTS><COMPU-METHOD{ub}><SHORT-NAME>zz_cm</SHORT-NAME><COMPU-INTERNAL-TO-PHYS><COMPU-SCALES><COMPU-SCALE><COMPU-CONST><VT>x</VT></COMPU-CONST></COMPU-SCALE></COMPU-SCALES></COMPU-INTERNAL-TO-PHYS></COMPU-METHOD></ELEMENTS></AR-PACKAGE></AR-PACKAGES>",
                pname
            )))
        }
        4 => ("dupname", base.clone()),
        5 => {
            // the same path twice inside ONE file: two packages with the same name, or a package and an element
            let body = match rng.below(3) {
                0 => "<AR-PACKAGES><AR-PACKAGE><SHORT-NAME>zz_d</SHORT-NAME></AR-PACKAGE><AR-PACKAGE><SHORT-NAME>zz_d</SHORT-NAME><ELEMENTS><UNIT><SHORT-NAME>u</SHORT-NAME></UNIT></ELEMENTS></AR-PACKAGE></AR-PACKAGES>".to_string(),
                1 => "<AR-PACKAGES><AR-PACKAGE><SHORT-NAME>zz_d</SHORT-NAME><ELEMENTS><UNIT><SHORT-NAME>u</SHORT-NAME></UNIT><UNIT><SHORT-NAME>v</SHORT-NAME></UNIT><UNIT><SHORT-NAME>u</SHORT-NAME></UNIT></ELEMENTS></AR-PACKAGE></AR-PACKAGES>".to_string(),
                _ => "<AR-PACKAGES><AR-PACKAGE><SHORT-NAME>zz_d</SHORT-NAME><ELEMENTS><UNIT><SHORT-NAME>u</SHORT-NAME></UNIT></ELEMENTS><AR-PACKAGES><AR-PACKAGE><SHORT-NAME>u</SHORT-NAME></AR-PACKAGE></AR-PACKAGES></AR-PACKAGE></AR-PACKAGES>".to_string(),
            };
            ("dupfile", hdr(&body))
        }
        _ => {
            // a valid second file (control): nothing must be rejected, nothing is checked for C11
            ("control", hdr("<AR-PACKAGES><AR-PACKAGE><SHORT-NAME>zz_only</SHORT-NAME></AR-PACKAGE></AR-PACKAGES>"))
        }
    };
    *stats.entry(format!("conflict_{}", label)).or_insert(0) += 1;
    let mut files = vec![CaseFile { name: "f0.arxml".into(), strict: true, text: base.clone().into_bytes() }];
    // for the non-splittable / choice conflicts the first file must contain the counterpart
    let first_text = match kind {
        2 | 7 | 8 => hdr(&format!(
            "<AR-PACKAGES><AR-PACKAGE{ua}><SHORT-NAME>{}</SHORT-NAME><ELEMENTS><SENDER-RECEIVER-INTERFACE{ua}><SHORT-NAME>zz_if</SHORT-NAME><DATA-ELEMENTS><VARIABLE-DATA-PROTOTYPE><SHORT-NAME>one</SHORT-NAME></VARIABLE-DATA-PROTOTYPE></DATA-ELEMENTS></SENDER-RECEIVER-INTERFACE><UNIT><SHORT-NAME>aa_u</SHORT-NAME></UNIT></ELEMENTS></AR-PACKAGE></AR-PACKAGES>",
            pname
        )),
        1 if first_el.is_none() => hdr(&format!(
            "<AR-PACKAGES><AR-PACKAGE><SHORT-NAME>{}</SHORT-NAME><ELEMENTS><COMPU-METHOD><SHORT-NAME>a</SHORT-NAME></COMPU-METHOD></ELEMENTS></AR-PACKAGE></AR-PACKAGES>",
            pname
        )),
        3 => hdr(&format!(
            "<AR-PACKAGES><AR-PACKAGE{ua}><SHORT-NAME>{}</SHORT-NAME><ELEMENTS><COMPU-METHOD{ua}><SHORT-NAME>zz_cm</SHORT-NAME><COMPU-INTERNAL-TO-PHYS><COMPU-SCALES><COMPU-SCALE><COMPU-RATIONAL-COEFFS><COMPU-NUMERATOR><V>1</V></COMPU-NUMERATOR></COMPU-RATIONAL-COEFFS></COMPU-SCALE></COMPU-SCALES></COMPU-INTERNAL-TO-PHYS></COMPU-METHOD><UNIT><SHORT-NAME>aa_u</SHORT-NAME></UNIT></ELEMENTS></AR-PACKAGE></AR-PACKAGES>",
            pname
        )),
        _ => String::new(),
    };
    if !first_text.is_empty() {
        files[0].text = first_text.into_bytes();
    }
    if kind >= 7 {
        // the middle file: other packages only (a sibling package with elements, sometimes a second one)
        let extra = if rng.below(2) == 0 { "<AR-PACKAGE><SHORT-NAME>zz_mid2</SHORT-NAME></AR-PACKAGE>" } else { "" };
        let mid = hdr(&format!(
            "<AR-PACKAGES><AR-PACKAGE><SHORT-NAME>zz_mid</SHORT-NAME><ELEMENTS><SYSTEM><SHORT-NAME>zz_sys</SHORT-NAME></SYSTEM></ELEMENTS></AR-PACKAGE>{}</AR-PACKAGES>",
            extra
        ));
        files.push(CaseFile { name: "f1.arxml".into(), strict: true, text: mid.into_bytes() });
        files.push(CaseFile { name: "f2.arxml".into(), strict: rng.below(4) != 0, text: second.into_bytes() });
        if deco {
            *stats.entry("conflict_cases_with_attribute_decoration".into()).or_insert(0) += 1;
        }
        // the rejected file last; both orders of the two accepted files (E is restricted by a2 / imported with {a1})
        return Case { id, kind: format!("conflict-{}", label), files, orders: vec![vec![0, 1, 2], vec![1, 0, 2]] };
    }
    if deco && (kind == 2 || kind == 3) {
        *stats.entry("conflict_cases_with_attribute_decoration".into()).or_insert(0) += 1;
    }
    let second_name = if kind == 4 { "f0.arxml" } else { "f1.arxml" };
    files.push(CaseFile { name: second_name.into(), strict: rng.below(4) != 0, text: second.into_bytes() });
    let orders = if kind == 4 { vec![vec![0, 1]] } else { vec![vec![0, 1], vec![1, 0]] };
    Case { id, kind: format!("conflict-{}", label), files, orders }
}

/// multi-valued BSW parameters: a shared ECUC container whose PARAMETER-VALUES / REFERENCE-VALUES hold two or more
/// siblings with the same DEFINITION-REF in several files.
///  - split-multi: the sibling lists are aligned (equal, or one a prefix of the other; the longer one may continue with
///    further values of the same parameter and with other parameters): a valid split, the k-th value pairs with the k-th
///  - split-multi-misaligned: the same values, but another parameter sits at a different place / only one file has a
///    parameter before the group (a valid split of an unordered, splittable parent)
///  - conflict-multi-swapped: the k-th values differ (the same two values in the other order): a value conflict, to be
///    rejected in both load orders; conflict-multi-text: the plain value conflict of a single-valued parameter
fn multi_case(id: usize, rng: &mut SplitMix64, stats: &mut BTreeMap<String, u64>) -> Case {
    let refs = rng.below(3) == 0;
    let nvals = 2 + rng.below(2) as usize;
    let equal_values = rng.below(3) == 0;
    let p = *rng.pick(&["/D/M/C/P", "/D/M/C/P1", "/D/M/C/Multi"]);
    let mk = |dr: &str, v: &str| -> D {
        if refs {
            D::new("ECUC-REFERENCE-VALUE")
                .kid(D::leaf("DEFINITION-REF", dr).attr("DEST", "ECUC-REFERENCE-DEF"))
                .kid(D::leaf("VALUE-REF", &format!("/Pkg/target{}", v)).attr("DEST", "ECUC-CONTAINER-VALUE"))
        } else {
            D::new("ECUC-NUMERICAL-PARAM-VALUE")
                .kid(D::leaf("DEFINITION-REF", dr).attr("DEST", "ECUC-INTEGER-PARAM-DEF"))
                .kid(D::leaf("VALUE", v))
        }
    };
    let vals: Vec<String> = (0..nvals + 1).map(|k| if equal_values { "7".to_string() } else { format!("{}", 10 + k) }).collect();
    let group = |n: usize| -> Vec<D> { (0..n).map(|k| mk(p, &vals[k])).collect() };
    let a = || mk("/D/M/C/A", "1");
    let b = || mk("/D/M/C/B", "2");
    let q = || mk("/D/M/C/Q", "3");
    let variant = rng.below(10);
    let nfiles = if variant < 6 && rng.below(3) == 0 { 3 } else { 2 };
    // the lists of the files
    let (label, kind, lists): (&str, &str, Vec<Vec<D>>) = match variant {
        0 | 1 => {
            // equal lists, optionally with the same other parameters around the group
            let around = rng.below(2) == 0;
            let l = || -> Vec<D> {
                let mut v = vec![];
                if around { v.push(a()); }
                v.extend(group(nvals));
                if around { v.push(q()); }
                v
            };
            ("equal", "split-multi", (0..nfiles).map(|_| l()).collect())
        }
        2 | 3 => {
            // one list is a prefix of the other: fewer values of the parameter
            let mut ls: Vec<Vec<D>> = (0..nfiles).map(|f| group(if f == 0 { nvals - 1 } else if f == 1 { nvals } else { nvals + 1 })).collect();
            if rng.below(2) == 0 { ls.swap(0, 1); }
            ("prefix", "split-multi", ls)
        }
        4 | 5 => {
            // the longer list continues with other parameters
            let mut ls: Vec<Vec<D>> = (0..nfiles)
                .map(|f| {
                    let mut v = vec![a()];
                    v.extend(group(nvals));
                    if f >= 1 { v.push(b()); }
                    if f >= 2 { v.push(q()); }
                    v
                })
                .collect();
            if rng.below(2) == 0 { ls.swap(0, 1); }
            ("prefix-others", "split-multi", ls)
        }
        6 => {
            // another parameter at a different place
            let mut l0 = group(nvals);
            l0.insert(1, q());
            let mut l1 = vec![q()];
            l1.extend(group(nvals));
            ("moved", "split-multi-misaligned", vec![l0, l1])
        }
        7 => {
            // a parameter before the group in one file only, one after the group in the other only
            let mut l0 = vec![a()];
            l0.extend(group(nvals));
            let mut l1 = group(nvals);
            l1.push(b());
            ("exclusive-before", "split-multi-misaligned", vec![l0, l1])
        }
        8 => {
            // a prefix, and the shorter list continues with its own parameter
            let mut l0 = group(nvals - 1);
            l0.push(b());
            ("exclusive-after-prefix", "split-multi-misaligned", vec![l0, group(nvals)])
        }
        _ => {
            if rng.below(2) == 0 {
                let l0 = vec![mk(p, "10"), mk(p, "11")];
                let l1 = vec![mk(p, "11"), mk(p, "10")];
                ("swapped", "conflict-multi-swapped", vec![l0, l1])
            } else {
                // the plain value conflict: one (single-valued) parameter with two different values
                ("text", "conflict-multi-text", vec![vec![a(), mk(p, "10")], vec![a(), mk(p, "99")]])
            }
        }
    };
    *stats.entry(format!("multi_{}", label)).or_insert(0) += 1;
    *stats.entry(format!("multi_{}", if refs { "reference_values" } else { "parameter_values" })).or_insert(0) += 1;
    if equal_values && variant < 9 {
        *stats.entry("multi_cases_with_equal_values".into()).or_insert(0) += 1;
    }
    let nested = rng.below(3) == 0;
    let nf = lists.len();
    let mut files = vec![];
    for (f, l) in lists.into_iter().enumerate() {
        let mut vs = D::new(if refs { "REFERENCE-VALUES" } else { "PARAMETER-VALUES" });
        vs.kids = l;
        let mut c = D::named("ECUC-CONTAINER-VALUE", "c").kid(D::leaf("DEFINITION-REF", "/D/M/C").attr("DEST", "ECUC-PARAM-CONF-CONTAINER-DEF"));
        if nested {
            let inner = D::named("ECUC-CONTAINER-VALUE", "sub").kid(D::leaf("DEFINITION-REF", "/D/M/C/S").attr("DEST", "ECUC-PARAM-CONF-CONTAINER-DEF")).kid(vs);
            c.kids.push(D::new("SUB-CONTAINERS").kid(inner));
        } else {
            c.kids.push(vs);
        }
        let mut cs = D::new("CONTAINERS").kid(c);
        if f > 0 {
            // every later file has a container of its own
            cs.kids.push(D::named("ECUC-CONTAINER-VALUE", &format!("own{}", f)).kid(D::leaf("DEFINITION-REF", "/D/M/C").attr("DEST", "ECUC-PARAM-CONF-CONTAINER-DEF")));
        }
        let m = D::named("ECUC-MODULE-CONFIGURATION-VALUES", "m").kid(D::leaf("DEFINITION-REF", "/D/M").attr("DEST", "ECUC-MODULE-DEF")).kid(cs);
        let mut els = D::new("ELEMENTS").kid(m);
        if f == 0 {
            els.kids.push(D::named("UNIT", "u0"));
        }
        let mut root = D::new("AUTOSAR").kid(D::new("AR-PACKAGES").kid(D::named("AR-PACKAGE", "Pkg").kid(els)));
        let mut next = 0;
        root.number(&mut next);
        assign_all(&mut root, 1);
        files.push(CaseFile { name: format!("f{}.arxml", f), strict: true, text: file_text(&root, 0x20000).into_bytes() });
    }
    Case { id, kind: kind.into(), files, orders: permutations(nf) }
}

fn hdr50(body: &str) -> String {
    format!("<?xml version=\"1.0\" encoding=\"utf-8\"?>\n<AUTOSAR xsi:schemaLocation=\"http://autosar.org/schema/r4.0 AUTOSAR_00050.xsd\" xmlns=\"http://autosar.org/schema/r4.0\" xmlns:xsi=\"http://www.w3.org/2001/XMLSchema-instance\">\n{}</AUTOSAR>\n", body)
}

/// elements WITHOUT any content that only one file has, in front of siblings the files share (or that another file owns):
/// the per-file views (ArxmlFile::elements_dfs) must skip the foreign empty element and nothing else
fn emptyleaf_case(id: usize, rng: &mut SplitMix64, stats: &mut BTreeMap<String, u64>) -> Case {
    let variant = rng.below(5);
    let subs = |n: u64| -> String { (0..n).map(|k| format!("<AR-PACKAGE><SHORT-NAME>Sub{}</SHORT-NAME><ELEMENTS><UNIT><SHORT-NAME>u{}</SHORT-NAME></UNIT></ELEMENTS></AR-PACKAGE>", k, k)).collect() };
    let n0 = 1 + rng.below(2);
    let n1 = n0 + rng.below(2);
    let (label, t0, t1): (&str, String, String) = match variant {
        0 => (
            // an empty ELEMENTS of file 1 in front of the shared AR-PACKAGES
            "elements",
            format!("<AR-PACKAGES><AR-PACKAGE><SHORT-NAME>Pkg</SHORT-NAME><AR-PACKAGES>{}</AR-PACKAGES></AR-PACKAGE></AR-PACKAGES>", subs(n0)),
            format!("<AR-PACKAGES><AR-PACKAGE><SHORT-NAME>Pkg</SHORT-NAME><ELEMENTS/><AR-PACKAGES>{}</AR-PACKAGES></AR-PACKAGE></AR-PACKAGES>", subs(n1)),
        ),
        1 => (
            // an empty ADMIN-DATA of file 1 below the root, in front of the shared AR-PACKAGES
            "root-admin-data",
            format!("<AR-PACKAGES>{}</AR-PACKAGES>", subs(n0)),
            format!("<ADMIN-DATA/><AR-PACKAGES>{}</AR-PACKAGES>", subs(n1)),
        ),
        2 => (
            // each file has an empty element of its own
            "both",
            format!("<AR-PACKAGES><AR-PACKAGE><SHORT-NAME>Pkg</SHORT-NAME><ADMIN-DATA/><AR-PACKAGES>{}</AR-PACKAGES></AR-PACKAGE></AR-PACKAGES>", subs(n0)),
            format!("<AR-PACKAGES><AR-PACKAGE><SHORT-NAME>Pkg</SHORT-NAME><ELEMENTS/><AR-PACKAGES>{}</AR-PACKAGES></AR-PACKAGE></AR-PACKAGES>", subs(n1)),
        ),
        3 => (
            // an empty PARAMETER-VALUES of file 1 in front of the shared SUB-CONTAINERS
            "parameter-values",
            "<AR-PACKAGES><AR-PACKAGE><SHORT-NAME>Pkg</SHORT-NAME><ELEMENTS><ECUC-MODULE-CONFIGURATION-VALUES><SHORT-NAME>m</SHORT-NAME><CONTAINERS><ECUC-CONTAINER-VALUE><SHORT-NAME>c</SHORT-NAME><SUB-CONTAINERS><ECUC-CONTAINER-VALUE><SHORT-NAME>s0</SHORT-NAME></ECUC-CONTAINER-VALUE></SUB-CONTAINERS></ECUC-CONTAINER-VALUE></CONTAINERS></ECUC-MODULE-CONFIGURATION-VALUES></ELEMENTS></AR-PACKAGE></AR-PACKAGES>".to_string(),
            "<AR-PACKAGES><AR-PACKAGE><SHORT-NAME>Pkg</SHORT-NAME><ELEMENTS><ECUC-MODULE-CONFIGURATION-VALUES><SHORT-NAME>m</SHORT-NAME><CONTAINERS><ECUC-CONTAINER-VALUE><SHORT-NAME>c</SHORT-NAME><PARAMETER-VALUES/><SUB-CONTAINERS><ECUC-CONTAINER-VALUE><SHORT-NAME>s0</SHORT-NAME></ECUC-CONTAINER-VALUE><ECUC-CONTAINER-VALUE><SHORT-NAME>s1</SHORT-NAME></ECUC-CONTAINER-VALUE></SUB-CONTAINERS></ECUC-CONTAINER-VALUE></CONTAINERS></ECUC-MODULE-CONFIGURATION-VALUES></ELEMENTS></AR-PACKAGE></AR-PACKAGES>".to_string(),
        ),
        _ => (
            // an empty sub-package list of file 1 in a package whose ELEMENTS both files have, and empty packages' lists
            "nested",
            format!("<AR-PACKAGES><AR-PACKAGE><SHORT-NAME>A</SHORT-NAME><AR-PACKAGES>{}</AR-PACKAGES></AR-PACKAGE><AR-PACKAGE><SHORT-NAME>Pkg</SHORT-NAME><AR-PACKAGES>{}</AR-PACKAGES></AR-PACKAGE></AR-PACKAGES>", subs(1), subs(n0)),
            format!("<AR-PACKAGES><AR-PACKAGE><SHORT-NAME>A</SHORT-NAME><ELEMENTS/><AR-PACKAGES>{}</AR-PACKAGES></AR-PACKAGE><AR-PACKAGE><SHORT-NAME>Pkg</SHORT-NAME><ADMIN-DATA/><ELEMENTS/><AR-PACKAGES>{}</AR-PACKAGES></AR-PACKAGE><AR-PACKAGE><SHORT-NAME>Z</SHORT-NAME></AR-PACKAGE></AR-PACKAGES>", subs(1), subs(n1)),
        ),
    };
    *stats.entry(format!("emptyleaf_{}", label)).or_insert(0) += 1;
    let files = vec![
        CaseFile { name: "f0.arxml".into(), strict: true, text: hdr50(&t0).into_bytes() },
        CaseFile { name: "f1.arxml".into(), strict: true, text: hdr50(&t1).into_bytes() },
    ];
    Case { id, kind: "split-emptyleaf".into(), files, orders: permutations(2) }
}

/// rejected merges whose file carries, at a level that is merged BEFORE the conflict is reached (an ancestor of the
/// conflict or an earlier sibling), an extra sub element below a parent that is not splittable (CATEGORY / DESC /
/// ADMIN-DATA / LOWER-LIMIT below the shared element): the rollback must take it out again
fn reject_extra_case(id: usize, rng: &mut SplitMix64, stats: &mut BTreeMap<String, u64>) -> Case {
    let variant = rng.below(4);
    let pick_extra = |rng: &mut SplitMix64| -> &'static str {
        *rng.pick(&["<CATEGORY>EXTRA</CATEGORY>", "<DESC><L-2 L=\"EN\">extra</L-2></DESC>", "<ADMIN-DATA><LANGUAGE>EN</LANGUAGE></ADMIN-DATA>", "<LONG-NAME><L-4 L=\"EN\">extra</L-4></LONG-NAME>"])
    };
    // the extras of the two files are different kinds of elements, so each one is new for the model when its file comes second
    let (x0, x1) = loop {
        let a = if rng.below(3) == 0 { "" } else { pick_extra(rng) };
        let b = pick_extra(rng);
        if a.split('>').next() != b.split('>').next() {
            break (a, b);
        }
    };
    let scale = |lim: &str, alt: &str| format!("<COMPU-INTERNAL-TO-PHYS><COMPU-SCALES><COMPU-SCALE>{}{}</COMPU-SCALE></COMPU-SCALES></COMPU-INTERNAL-TO-PHYS>", lim, alt);
    let ratio = "<COMPU-RATIONAL-COEFFS><COMPU-NUMERATOR><V>1</V></COMPU-NUMERATOR></COMPU-RATIONAL-COEFFS>";
    let konst = "<COMPU-CONST><VT>x</VT></COMPU-CONST>";
    let (label, e0, e1): (&str, String, String) = match variant {
        0 => (
            // the extra below the COMPU-METHOD (an ancestor of the conflict), the conflict in its COMPU-SCALE
            "choice-ancestor",
            format!("<COMPU-METHOD><SHORT-NAME>zz_cm</SHORT-NAME>{}{}</COMPU-METHOD>", x0, scale("", ratio)),
            format!("<COMPU-METHOD><SHORT-NAME>zz_cm</SHORT-NAME>{}{}</COMPU-METHOD><UNIT><SHORT-NAME>zz_new</SHORT-NAME></UNIT>", x1, scale("", konst)),
        ),
        1 => (
            // the extra below an earlier sibling (a UNIT both files have), the conflict in the COMPU-METHOD behind it
            "choice-sibling",
            format!("<UNIT><SHORT-NAME>aa_u</SHORT-NAME>{}</UNIT><COMPU-METHOD><SHORT-NAME>zz_cm</SHORT-NAME>{}</COMPU-METHOD>", x0, scale("", ratio)),
            format!("<UNIT><SHORT-NAME>aa_u</SHORT-NAME>{}</UNIT><COMPU-METHOD><SHORT-NAME>zz_cm</SHORT-NAME>{}</COMPU-METHOD>", x1, scale("", konst)),
        ),
        2 => (
            // the extra in the COMPU-SCALE itself, imported just before the alternative that does not fit
            "choice-same-level",
            format!("<COMPU-METHOD><SHORT-NAME>zz_cm</SHORT-NAME>{}</COMPU-METHOD>", scale("", ratio)),
            format!("<COMPU-METHOD><SHORT-NAME>zz_cm</SHORT-NAME>{}{}</COMPU-METHOD>", x1, scale("<LOWER-LIMIT>1</LOWER-LIMIT>", konst)),
        ),
        _ => (
            // diverging identifiable children below the non-splittable DATA-ELEMENTS, the extra below the interface and
            // below an earlier sibling
            "nonsplit",
            format!("<UNIT><SHORT-NAME>aa_u</SHORT-NAME>{}</UNIT><SENDER-RECEIVER-INTERFACE><SHORT-NAME>zz_if</SHORT-NAME>{}<DATA-ELEMENTS><VARIABLE-DATA-PROTOTYPE><SHORT-NAME>one</SHORT-NAME></VARIABLE-DATA-PROTOTYPE></DATA-ELEMENTS></SENDER-RECEIVER-INTERFACE>", x0, x0),
            format!("<UNIT><SHORT-NAME>aa_u</SHORT-NAME>{}</UNIT><SENDER-RECEIVER-INTERFACE><SHORT-NAME>zz_if</SHORT-NAME>{}<DATA-ELEMENTS><VARIABLE-DATA-PROTOTYPE><SHORT-NAME>other</SHORT-NAME></VARIABLE-DATA-PROTOTYPE></DATA-ELEMENTS></SENDER-RECEIVER-INTERFACE>", x1, x1),
        ),
    };
    *stats.entry(format!("conflict_extra_{}", label)).or_insert(0) += 1;
    let wrap = |els: &str| hdr50(&format!("<AR-PACKAGES><AR-PACKAGE><SHORT-NAME>Pkg</SHORT-NAME><ELEMENTS>{}</ELEMENTS></AR-PACKAGE></AR-PACKAGES>", els));
    let files = vec![
        CaseFile { name: "f0.arxml".into(), strict: true, text: wrap(&e0).into_bytes() },
        CaseFile { name: "f1.arxml".into(), strict: rng.below(4) != 0, text: wrap(&e1).into_bytes() },
    ];
    Case { id, kind: format!("conflict-extra-{}", label), files, orders: permutations(2) }
}

fn assign_all(d: &mut D, mask: u32) {
    d.files = mask;
    for k in d.kids.iter_mut() {
        assign_all(k, mask);
    }
}

/// the cases as element-tree scripts (one script per case and load order) for `avh tree run` / `avm_tree`
pub fn cases_to_script(cases: &[Case], first_script: usize) -> (String, usize) {
    let mut s = String::new();
    let mut n = first_script;
    for c in cases {
        // probe paths: all paths of all files (single loads), plus neighbours
        let mut probes: BTreeSet<String> = BTreeSet::new();
        for f in &c.files {
            if let Ok(m) = load_alone(f) {
                for (p, _) in m.identifiable_elements() {
                    probes.insert(format!("{}0", p));
                    probes.insert(p);
                }
                for e in m.elements_dfs().map(|(_, e)| e) {
                    if e.is_reference() {
                        if let Some(CharacterData::String(t)) = e.character_data() {
                            probes.insert(t);
                        }
                    }
                }
            }
        }
        for o in &c.orders {
            s.push_str(&format!("SCRIPT {}\n", n));
            n += 1;
            let pl: Vec<String> = probes.iter().filter(|p| !p.is_empty() && p.len() < 80).map(|p| hex(p.as_bytes())).collect();
            s.push_str(&format!("PATHS {}\n", pl.join(" ")));
            s.push_str("OBSERVE serialize\n");
            s.push_str(&Op::NewModel.line());
            s.push('\n');
            for &k in o {
                let f = &c.files[k];
                s.push_str(&Op::Load(0, f.text.clone(), f.name.as_bytes().to_vec(), f.strict).line());
                s.push('\n');
            }
        }
    }
    (s, n)
}

fn gen_main(args: &[String]) {
    let seed: u64 = args[0].parse().unwrap();
    let tier = &args[1];
    let thorough = tier == "thorough";
    let mut rng = SplitMix64(seed.wrapping_mul(0x9E3779B97F4A7C15) ^ 0xC09);
    let mut stats: BTreeMap<String, u64> = BTreeMap::new();
    let mut cases = vec![];
    let (n_small, n_random, n_mixed, n_conflict) = if thorough { (400, 1500, 400, 400) } else { (120, 300, 60, 120) };
    for _ in 0..n_small {
        let id = cases.len();
        cases.push(split_case(id, &mut rng, if thorough { 12 } else { 8 }, if thorough { 4 } else { 3 }, false, &mut stats));
    }
    for _ in 0..n_random {
        let id = cases.len();
        let mut c = split_case(id, &mut rng, if thorough { 12 } else { 8 }, 4, false, &mut stats);
        // random orders only
        let all = c.orders.clone();
        c.orders = vec![all[rng.below(all.len() as u64) as usize].clone(), all[rng.below(all.len() as u64) as usize].clone()];
        c.orders.dedup();
        cases.push(c);
    }
    for _ in 0..n_mixed {
        let id = cases.len();
        cases.push(split_case(id, &mut rng, 8, 3, true, &mut stats));
    }
    for _ in 0..n_conflict {
        let id = cases.len();
        cases.push(conflict_case(id, &mut rng, &mut stats));
    }
    // multi-valued parameters (appended: the cases above keep their ids and contents)
    for _ in 0..if thorough { 200 } else { 60 } {
        let id = cases.len();
        cases.push(multi_case(id, &mut rng, &mut stats));
    }
    // empty one-file-only elements in front of shared siblings; rejected files with an extra element that is imported
    // before the conflict (appended as well)
    for _ in 0..if thorough { 80 } else { 25 } {
        let id = cases.len();
        cases.push(emptyleaf_case(id, &mut rng, &mut stats));
    }
    for _ in 0..if thorough { 120 } else { 40 } {
        let id = cases.len();
        cases.push(reject_extra_case(id, &mut rng, &mut stats));
    }
    std::fs::write(&args[2], write_cases(&cases)).unwrap();
    // scripts for the correspondence: a sample of the cases (every k-th), all their orders
    let step = if thorough { 3 } else { 4 };
    let sample: Vec<Case> = cases.iter().filter(|c| c.id % step == 0 || c.kind.starts_with("conflict") || c.kind.contains("multi") || c.kind == "split-emptyleaf").cloned().collect();
    let (script, n) = cases_to_script(&sample, 0);
    std::fs::write(&args[3], script).unwrap();
    println!("STAT cases={} scripts={} orders={}", cases.len(), n, cases.iter().map(|c| c.orders.len()).sum::<usize>());
    for (k, v) in &stats {
        println!("STAT {}={}", k, v);
    }
}

fn run_oracle(names: &Names, cases: &[Case]) -> OracleOut {
    let mut out = OracleOut {
        fails: vec![], loads_ok: 0, loads_err: BTreeMap::new(), orders: 0, elements: 0, text_equal: 0,
        text_differs_order_only: 0, order_dependent_sibling_order: 0, c11_checked: 0,
    };
    for c in cases {
        let n0 = out.fails.len();
        let r = guard(|| {
            let mut o2 = OracleOut {
                fails: vec![], loads_ok: 0, loads_err: BTreeMap::new(), orders: 0, elements: 0, text_equal: 0,
                text_differs_order_only: 0, order_dependent_sibling_order: 0, c11_checked: 0,
            };
            oracle_case(names, c, &mut o2);
            o2
        });
        match r {
            Ok(o2) => {
                out.fails.extend(o2.fails);
                out.loads_ok += o2.loads_ok;
                for (k, v) in o2.loads_err {
                    *out.loads_err.entry(k).or_insert(0) += v;
                }
                out.orders += o2.orders;
                out.elements += o2.elements;
                out.text_equal += o2.text_equal;
                out.text_differs_order_only += o2.text_differs_order_only;
                out.order_dependent_sibling_order += o2.order_dependent_sibling_order;
                out.c11_checked += o2.c11_checked;
            }
            Err(e) => out.fails.push(format!("FAIL {} oracle-panic {}", c.id, e)),
        }
        let _ = n0;
    }
    out
}

fn oracle_main(args: &[String]) {
    let dump = &args[0];
    let names = Names::load(dump);
    let mut cases = read_cases(&args[1]);
    if args.len() > 2 {
        let k: usize = args[2].parse().unwrap();
        cases.retain(|c| c.id == k);
    }
    let out = run_oracle(&names, &cases);
    for f in &out.fails {
        println!("{}", f);
    }
    println!("STAT cases={} orders={} loads_ok={} merged_elements={} c11_checked={}", cases.len(), out.orders, out.loads_ok, out.elements, out.c11_checked);
    println!("STAT file_text_identical={} file_text_differs_in_sibling_order_only={} merged_sibling_order_depends_on_load_order={}", out.text_equal, out.text_differs_order_only, out.order_dependent_sibling_order);
    for (k, v) in &out.loads_err {
        println!("STAT rejected {}={}", k.replace(' ', "_"), v);
    }
    println!("STAT fails={}", out.fails.len());
}

/// C11-load on an arbitrary tree script: the observation after a load that returned Err equals the one before
fn c11_main(args: &[String]) {
    let dump = args[0].clone();
    let mut checked = 0u64;
    let mut byerr: BTreeMap<String, u64> = BTreeMap::new();
    for (idx, probes, ops) in crate::tree::read_scripts(&args[1]) {
        let names = Names::load(&dump);
        let r = guard(|| {
            let mut lines = vec![];
            let mut ex = Exec::new(&names);
            ex.serialize_obs = probes.iter().any(|p| p == "\u{1}OBSERVE-serialize");
            ex.probes = probes.iter().filter(|p| !p.starts_with('\u{1}')).cloned().collect();
            let mut n = 0u64;
            let mut errs: Vec<String> = vec![];
            for (j, op) in ops.iter().enumerate() {
                if let Op::Load(..) = op {
                    // (observe twice: serializing the files rewrites the root's xsi:schemaLocation, see oracle_case)
                    let _ = observe_exec(&ex);
                    let before = observe_exec(&ex);
                    let snaps_before: Vec<Snap> = ex.models.iter().map(snap_of).collect();
                    let r = ex.apply(op);
                    if r.starts_with("R ERR") {
                        n += 1;
                        errs.push(r.clone());
                        let after = observe_exec(&ex);
                        if before != after {
                            let mut cl: Vec<&'static str> = vec![];
                            for (sb, m) in snaps_before.iter().zip(ex.models.iter()) {
                                for c in changed_classes(sb, &snap_of(m)) {
                                    if !cl.contains(&c) {
                                        cl.push(c);
                                    }
                                }
                            }
                            if cl.is_empty() {
                                cl.push("other");
                            }
                            lines.push(format!("C11FAIL script={} op={} {} changed={} {}", idx, j, r.replace(' ', "_"), cl.join("+"), first_diff(&before, &after)));
                        }
                    }
                    if r == "R PANIC" {
                        lines.push(format!("C11PANIC script={} op={}", idx, j));
                        break;
                    }
                } else {
                    let r = ex.apply(op);
                    if r == "R PANIC" || r == "R HANG" {
                        break;
                    }
                }
            }
            (lines, n, errs)
        });
        if let Ok((lines, n, errs)) = r {
            checked += n;
            for e in errs {
                *byerr.entry(e.replace(' ', "_")).or_insert(0) += 1;
            }
            for l in lines {
                println!("{}", l);
            }
        }
    }
    println!("STAT c11_failed_loads_checked={}", checked);
    for (k, v) in byerr {
        println!("STAT c11 {}={}", k, v);
    }
}

/// greedy minimisation of a failing case: drop whole files, then elements (by deleting element subtrees from the texts
/// through the library: load alone, remove, serialize)
fn min_main(args: &[String]) {
    let names = Names::load(&args[0]);
    let cases = read_cases(&args[1]);
    let k: usize = args[2].parse().unwrap();
    let Some(mut c) = cases.into_iter().find(|c| c.id == k) else {
        eprintln!("no such case");
        std::process::exit(2)
    };
    let kind_of = |c: &Case| -> Option<String> {
        let out = run_oracle(&names, std::slice::from_ref(c));
        out.fails.first().map(|f| f.split_whitespace().nth(2).unwrap_or("").to_string())
    };
    let Some(kind) = kind_of(&c) else {
        println!("case {} does not fail", k);
        std::fs::write(&args[3], write_cases(&[c])).unwrap();
        return;
    };
    // fewer orders
    for o in c.orders.clone() {
        let mut c2 = c.clone();
        c2.orders = vec![o];
        if kind_of(&c2).as_deref() == Some(&kind) {
            c = c2;
            break;
        }
    }
    if kind == "order-dependent" && c.orders.len() > 2 {
        'outer: for i in 0..c.orders.len() {
            for j in i + 1..c.orders.len() {
                let mut c2 = c.clone();
                c2.orders = vec![c.orders[i].clone(), c.orders[j].clone()];
                if kind_of(&c2).as_deref() == Some(&kind) {
                    c = c2;
                    break 'outer;
                }
            }
        }
    }
    // drop files
    let mut changed = true;
    while changed && c.files.len() > 2 {
        changed = false;
        for i in 0..c.files.len() {
            let mut c2 = c.clone();
            c2.files.remove(i);
            c2.orders = c2.orders.iter().map(|o| o.iter().filter(|&&x| x != i).map(|&x| if x > i { x - 1 } else { x }).collect::<Vec<usize>>()).collect();
            c2.orders.sort();
            c2.orders.dedup();
            if kind_of(&c2).as_deref() == Some(&kind) {
                c = c2;
                changed = true;
                break;
            }
        }
    }
    // drop elements: remove one identifiable element (same path in every file that has it)
    let mut changed = true;
    let mut rounds = 0;
    while changed && rounds < 60 {
        changed = false;
        rounds += 1;
        let mut paths: BTreeSet<String> = BTreeSet::new();
        for f in &c.files {
            if let Ok(m) = load_alone(f) {
                for (p, _) in m.identifiable_elements() {
                    paths.insert(p);
                }
            }
        }
        let mut plist: Vec<String> = paths.into_iter().collect();
        plist.sort_by_key(|p| std::cmp::Reverse(p.len()));
        for p in plist {
            let mut c2 = c.clone();
            let mut ok = true;
            for f in c2.files.iter_mut() {
                if let Ok(m) = load_alone(f) {
                    if let Some(e) = m.get_element_by_path(&p) {
                        if let Ok(Some(par)) = e.parent() {
                            if par.remove_sub_element(e).is_err() {
                                ok = false;
                            }
                        }
                        match m.files().next().map(|x| x.serialize()) {
                            Some(Ok(t)) => f.text = t.into_bytes(),
                            _ => ok = false,
                        }
                    }
                }
            }
            if ok && kind_of(&c2).as_deref() == Some(&kind) {
                c = c2;
                changed = true;
                break;
            }
        }
    }
    std::fs::write(&args[3], write_cases(&[c.clone()])).unwrap();
    println!("MIN case={} kind={} files={} bytes={}", c.id, kind, c.files.len(), c.files.iter().map(|f| f.text.len()).sum::<usize>());
    for f in &c.files {
        println!("--- {} (strict={})\n{}", f.name, f.strict, String::from_utf8_lossy(&f.text));
    }
    println!("orders: {:?}", c.orders);
}

fn probe_main() {
    // properties of the containers the generator uses
    let mut ty = ElementType::ROOT;
    let chain = ["AR-PACKAGES", "AR-PACKAGE", "ELEMENTS"];
    println!("ROOT split={:x} ordered={} mode={:?}", ty.splittable(), ty.is_ordered(), ty.content_mode());
    for n in chain {
        let (t, _) = ty.find_sub_element(ElementName::from_str(n).unwrap(), u32::MAX).unwrap();
        println!("{} split={:x} ordered={} mode={:?}", n, t.splittable(), t.is_ordered(), t.content_mode());
        ty = t;
    }
    let elements = ty;
    let paths: &[&[&str]] = &[
        &["SYSTEM"], &["SYSTEM", "FIBEX-ELEMENTS"], &["SYSTEM", "FIBEX-ELEMENTS", "FIBEX-ELEMENT-REF-CONDITIONAL"],
        &["I-SIGNAL"], &["SYSTEM-SIGNAL"],
        &["ECUC-MODULE-CONFIGURATION-VALUES"], &["ECUC-MODULE-CONFIGURATION-VALUES", "CONTAINERS"],
        &["ECUC-MODULE-CONFIGURATION-VALUES", "CONTAINERS", "ECUC-CONTAINER-VALUE"],
        &["ECUC-MODULE-CONFIGURATION-VALUES", "CONTAINERS", "ECUC-CONTAINER-VALUE", "PARAMETER-VALUES"],
        &["ECUC-MODULE-CONFIGURATION-VALUES", "CONTAINERS", "ECUC-CONTAINER-VALUE", "SUB-CONTAINERS"],
        &["ECUC-MODULE-CONFIGURATION-VALUES", "CONTAINERS", "ECUC-CONTAINER-VALUE", "REFERENCE-VALUES"],
        &["APPLICATION-SW-COMPONENT-TYPE"], &["APPLICATION-SW-COMPONENT-TYPE", "PORTS"],
        &["SENDER-RECEIVER-INTERFACE"], &["SENDER-RECEIVER-INTERFACE", "DATA-ELEMENTS"],
        &["COMPU-METHOD"], &["COMPU-METHOD", "COMPU-INTERNAL-TO-PHYS"], &["COMPU-METHOD", "COMPU-INTERNAL-TO-PHYS", "COMPU-SCALES"],
        &["COMPU-METHOD", "COMPU-INTERNAL-TO-PHYS", "COMPU-SCALES", "COMPU-SCALE"],
        &["ECU-INSTANCE"], &["ECU-INSTANCE", "COMM-CONTROLLERS"], &["I-SIGNAL-I-PDU"], &["I-SIGNAL-I-PDU", "I-SIGNAL-TO-PDU-MAPPINGS"],
    ];
    for p in paths {
        let mut t = elements;
        let mut ok = true;
        for n in p.iter() {
            match t.find_sub_element(ElementName::from_str(n).unwrap(), u32::MAX) {
                Some((x, _)) => t = x,
                None => {
                    ok = false;
                    break;
                }
            }
        }
        if ok {
            println!("{} split={:x} ordered={} mode={:?} named={}", p.join("/"), t.splittable(), t.is_ordered(), t.content_mode(), t.is_named());
        } else {
            println!("{} NOT FOUND", p.join("/"));
        }
    }
}

pub fn main(args: &[String]) {
    match args.first().map(|s| s.as_str()) {
        Some("probe") => probe_main(),
        Some("probe2") => probe2_main(),
        Some("gen") => gen_main(&args[1..]),
        Some("oracle") => oracle_main(&args[1..]),
        Some("c11") => c11_main(&args[1..]),
        Some("min") => min_main(&args[1..]),
        _ => {
            eprintln!("usage: avh merge probe|gen|oracle|c11|min ...");
            std::process::exit(2)
        }
    }
}

pub fn probe2_main() {
    for (name, et, mask, _) in ElementType::ROOT.sub_element_spec_iter() {
        println!("AUTOSAR/{} mask={:x} split={:x} mode={:?}", name.to_str(), mask, et.splittable(), et.content_mode());
    }
    let mut ty = ElementType::ROOT;
    for n in ["AR-PACKAGES", "AR-PACKAGE"] {
        ty = ty.find_sub_element(ElementName::from_str(n).unwrap(), u32::MAX).unwrap().0;
    }
    for (name, et, mask, _) in ty.sub_element_spec_iter() {
        println!("AR-PACKAGE/{} mask={:x} split={:x}", name.to_str(), mask, et.splittable());
    }
    let els = ty.find_sub_element(ElementName::Elements, u32::MAX).unwrap().0;
    for kind in ["SYSTEM", "I-SIGNAL", "ECUC-CONTAINER-VALUE", "APPLICATION-SW-COMPONENT-TYPE", "SENDER-RECEIVER-INTERFACE", "SYSTEM-SIGNAL"] {
        if let Some((t, _)) = els.find_sub_element(ElementName::from_str(kind).unwrap(), u32::MAX) {
            for (name, et, mask, _) in t.sub_element_spec_iter() {
                if mask != 0x1fffff {
                    println!("{}/{} mask={:x} split={:x} mode={:?}", kind, name.to_str(), mask, et.splittable(), et.content_mode());
                }
            }
        }
    }
}
