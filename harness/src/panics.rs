//! C12 (panic / hang half) — implementation-only fuzzer: single-threaded histories of public calls on the REAL library,
//! looking ONLY for  panic | hang (a call that does not return within 3 s) | ParentElementLocked with nothing else
//! running | stack overflow (deep-nesting probes in a child process).
//!   avh panics fuzz   <dump> <seed> <tier> <outdir> [tree-script-file]
//!   avh panics replay <dump> <file>            (OP / OP2 lines of TREE_BRIEF.md + CALL lines, see `Call`)
//!   avh panics deep   <dump> <depth> <action>  (child process of `fuzz`; also usable by hand)
//! State space: (a) the histories of the generic tree generator (script file of `avh tree gen`), (b) models grown through
//! the API at LATEST with a preference for sub-elements that do not exist in 4.0.1, (c) documents with an empty SHORT-NAME,
//! text-less references, version-foreign content loaded LENIENTLY (the text of a grown model with the schema version of
//! the header replaced), several files of different versions in one model, a second model; then a battery of calls:
//! every read-only method on handles (live, stale, foreign), every mutating method with boundary arguments (positions 0,
//! len-1, len, len+1, usize::MAX; empty / huge / non-identifier strings; any ElementName; wrong-kind CharacterData), the
//! model / file methods, the specification-type methods with arbitrary index lists, CharacterData helpers.
//! Every library call runs under catch_unwind with a panic hook that records file:line; a watchdog thread detects hangs.
use crate::tree::{read_scripts, Exec, Names, Op, Val};
use crate::util::*;
use autosar_data::*;
use autosar_data_specification::CharacterDataSpec;
use std::collections::BTreeMap;
use std::str::FromStr;
use std::sync::{mpsc, Mutex};

static PANIC_SITE: Mutex<String> = Mutex::new(String::new());
static CURRENT: Mutex<String> = Mutex::new(String::new());

fn install_hook() {
    std::panic::set_hook(Box::new(|info| {
        let loc = info.location().map(|l| format!("{}:{}", l.file(), l.line())).unwrap_or_else(|| "?".into());
        if std::env::var("AVH_LOUD").is_ok() {
            eprintln!("panic at {}", loc);
        }
        if let Ok(mut g) = PANIC_SITE.lock() {
            *g = loc;
        }
    }));
}
fn take_site() -> String {
    let mut g = PANIC_SITE.lock().unwrap();
    let s = g.clone();
    g.clear();
    if s.is_empty() {
        return "?".into();
    }
    // crate-relative, wherever the repository lives (a sandbox copy must give the same site names)
    for c in ["autosar-data-specification/src/", "autosar-data/src/"] {
        if let Some(k) = s.find(c) {
            return s[k..].to_string();
        }
    }
    s
}
fn set_current(s: &str) {
    if let Ok(mut g) = CURRENT.lock() {
        *g = s.to_string();
    }
}
fn get_current() -> String {
    CURRENT.lock().map(|g| g.clone()).unwrap_or_default()
}

const ALL_VERSIONS: usize = 21;
fn version_n(k: usize) -> Option<AutosarVersion> {
    AutosarVersion::from_val(1u32 << k)
}

/// calls outside the operation alphabet of tree.rs
#[derive(Clone, Debug)]
pub enum Call {
    /// every read-only method of Element on the handle
    QElem(usize),
    QModel(usize),
    QFile(usize),
    /// calc_element_insert_range for EVERY ElementName in three versions
    RangeAll(usize),
    Range(usize, u16, u32),
    Cmp(usize, usize),
    GetSubAt(usize, usize),
    DfsDepth(usize, usize),
    SetAttrString(usize, u16, Vec<u8>),
    SetFilename(usize, Vec<u8>),
    GetByPath(usize, Vec<u8>),
    RefsTo(usize, Vec<u8>),
    LoadFile(usize, Vec<u8>),
    ModelDfsDepth(usize, usize),
    FileDfsDepth(usize, usize),
    /// ElementType methods of the handle's type with an index list: `true` = exactly a list find_sub_element returned
    /// for this type (the documented precondition), `false` = perturbed / arbitrary
    SpecIdx(usize, Vec<usize>, Vec<usize>, bool),
    /// CharacterData helpers on a text
    CData(Vec<u8>),
    /// forget a model / its files in the harness (Drop of the last strong handles the harness holds, except element handles)
    DropModel(usize),
}

fn xh(b: &[u8]) -> String {
    format!("x{}", hex(b))
}
fn unxh(s: &str) -> Vec<u8> {
    unhex(s.strip_prefix('x').unwrap_or(s))
}
fn idxs(l: &[usize]) -> String {
    if l.is_empty() { "-".into() } else { l.iter().map(|x| x.to_string()).collect::<Vec<_>>().join(",") }
}
fn unidxs(s: &str) -> Vec<usize> {
    if s == "-" { vec![] } else { s.split(',').map(|x| x.parse().unwrap()).collect() }
}

impl Call {
    pub fn line(&self) -> String {
        use Call::*;
        match self {
            QElem(h) => format!("CALL q_elem {}", h),
            QModel(m) => format!("CALL q_model {}", m),
            QFile(f) => format!("CALL q_file {}", f),
            RangeAll(h) => format!("CALL range_all {}", h),
            Range(h, n, v) => format!("CALL range {} {} {}", h, n, v),
            Cmp(a, b) => format!("CALL cmp {} {}", a, b),
            GetSubAt(h, p) => format!("CALL get_sub_at {} {}", h, p),
            DfsDepth(h, d) => format!("CALL dfs_depth {} {}", h, d),
            SetAttrString(h, a, s) => format!("CALL set_attr_string {} {} {}", h, a, xh(s)),
            SetFilename(f, s) => format!("CALL set_filename {} {}", f, xh(s)),
            GetByPath(m, s) => format!("CALL get_by_path {} {}", m, xh(s)),
            RefsTo(m, s) => format!("CALL refs_to {} {}", m, xh(s)),
            LoadFile(m, s) => format!("CALL load_file {} {}", m, xh(s)),
            ModelDfsDepth(m, d) => format!("CALL model_dfs_depth {} {}", m, d),
            FileDfsDepth(f, d) => format!("CALL file_dfs_depth {} {}", f, d),
            SpecIdx(h, a, b, ok) => format!("CALL {} {} {} {}", if *ok { "spec_idx" } else { "spec_idx_bad" }, h, idxs(a), idxs(b)),
            CData(s) => format!("CALL cdata {}", xh(s)),
            DropModel(m) => format!("CALL drop_model {}", m),
        }
    }
    pub fn parse(l: &str) -> Option<Call> {
        use Call::*;
        let w: Vec<&str> = l.split_whitespace().collect();
        if w.len() < 2 || w[0] != "CALL" {
            return None;
        }
        let u = |k: usize| -> usize { w[k + 2].parse().unwrap() };
        Some(match w[1] {
            "q_elem" => QElem(u(0)),
            "q_model" => QModel(u(0)),
            "q_file" => QFile(u(0)),
            "range_all" => RangeAll(u(0)),
            "range" => Range(u(0), w[3].parse().unwrap(), w[4].parse().unwrap()),
            "cmp" => Cmp(u(0), u(1)),
            "get_sub_at" => GetSubAt(u(0), u(1)),
            "dfs_depth" => DfsDepth(u(0), u(1)),
            "set_attr_string" => SetAttrString(u(0), w[3].parse().unwrap(), unxh(w[4])),
            "set_filename" => SetFilename(u(0), unxh(w[3])),
            "get_by_path" => GetByPath(u(0), unxh(w[3])),
            "refs_to" => RefsTo(u(0), unxh(w[3])),
            "load_file" => LoadFile(u(0), unxh(w[3])),
            "model_dfs_depth" => ModelDfsDepth(u(0), u(1)),
            "file_dfs_depth" => FileDfsDepth(u(0), u(1)),
            "spec_idx" => SpecIdx(u(0), unidxs(w[3]), unidxs(w[4]), true),
            "spec_idx_bad" => SpecIdx(u(0), unidxs(w[3]), unidxs(w[4]), false),
            "cdata" => CData(unxh(w[2])),
            "drop_model" => DropModel(u(0)),
            other => panic!("unknown call {}", other),
        })
    }
    fn name(&self) -> String {
        self.line().split_whitespace().nth(1).unwrap().to_string()
    }
}

#[derive(Clone, Debug)]
pub enum Step {
    O(Op),
    C(Call),
}
impl Step {
    pub fn line(&self) -> String {
        match self {
            Step::O(o) => o.line(),
            Step::C(c) => c.line(),
        }
    }
    fn opname(&self) -> String {
        match self {
            Step::O(o) => o.line().split_whitespace().nth(1).unwrap().to_string(),
            Step::C(c) => c.name(),
        }
    }
}

/// outcome of one step
#[derive(Clone, Debug, PartialEq)]
enum Out {
    Fine(String),
    Panic { site: String, method: String },
    Locked { method: String },
    Bad(String),
}

/// result bookkeeping of a composite call: the first panic / spurious lock error
struct Acc {
    out: Option<Out>,
    n: u64,
}
impl Acc {
    fn run<T>(&mut self, method: &str, f: impl FnOnce() -> T) -> Option<T> {
        if matches!(self.out, Some(Out::Panic { .. })) {
            return None;
        }
        set_current(method);
        self.n += 1;
        match guard(f) {
            Ok(v) => Some(v),
            Err(_) => {
                self.out = Some(Out::Panic { site: take_site(), method: method.to_string() });
                None
            }
        }
    }
    fn res<T>(&mut self, method: &str, f: impl FnOnce() -> Result<T, AutosarDataError>) -> Option<T> {
        match self.run(method, f) {
            Some(Ok(v)) => Some(v),
            Some(Err(AutosarDataError::ParentElementLocked)) => {
                if self.out.is_none() {
                    self.out = Some(Out::Locked { method: method.to_string() });
                }
                None
            }
            _ => None,
        }
    }
    fn finish(self) -> Out {
        match self.out {
            Some(o) => o,
            None => Out::Fine(format!("C OK n={}", self.n)),
        }
    }
}

const ATTRS_PROBE: &[&str] = &["DEST", "UUID", "T", "S", "xmlns", "SHORT-LABEL", "INDEX", "BASE"];
const STRS: &[&str] = &["", "a", "Sig", "p1", "1a", "a b", "a/b", "/a/b", "/p1", "/", "//", "\u{fc}x", "a-b", "0", "-1", "0x1F", "1e400", "true", "\u{0}", " ", "&amp;", "<", "AUTOSAR_4-0-1.xsd",
    // names whose numeric suffix does not fit u64 / is at the boundary (Element::cmp decomposes names into (base, index))
    "Frame_18446744073709551616", "Frame_18446744073709551615", "Frame_99999999999999999999999", "Frame_2", "Frame_02", "18446744073709551616",
    "Ma\u{df}18446744073709551616"];

fn q_elem(ex: &Exec, k: usize) -> Out {
    let Some(e) = ex.handles.get(k).cloned() else { return Out::Bad("handle".into()) };
    let mut a = Acc { out: None, n: 0 };
    a.res("parent", || e.parent());
    a.res("named_parent", || e.named_parent());
    a.run("element_name", || e.element_name());
    let et = a.run("element_type", || e.element_type());
    a.run("item_name", || e.item_name());
    a.run("is_identifiable", || e.is_identifiable());
    a.run("is_reference", || e.is_reference());
    a.res("path", || e.path());
    a.res("model", || e.model());
    a.run("content_type", || e.content_type());
    let len = a.run("content_item_count", || e.content_item_count()).unwrap_or(0);
    a.run("character_data", || e.character_data());
    a.run("content", || e.content().count());
    a.run("position", || e.position());
    a.run("sub_elements", || e.sub_elements().count());
    a.run("elements_dfs", || e.elements_dfs().take(100000).count());
    a.run("elements_dfs.next_sibling", || {
        let mut it = e.elements_dfs();
        let x = it.next_sibling();
        let _ = it.next();
        let _ = it.next();
        let y = it.next_sibling();
        let _ = it.next_sibling();
        let _ = it.next_sibling();
        (x.is_some(), y.is_some(), it.count())
    });
    for d in [0usize, 1, 2, usize::MAX] {
        a.run("elements_dfs_with_max_depth", || e.elements_dfs_with_max_depth(d).take(100000).count());
    }
    a.run("attributes", || e.attributes().count());
    for an in ATTRS_PROBE {
        if let Ok(an) = AttributeName::from_str(an) {
            a.run("attribute_value", || e.attribute_value(an));
        }
    }
    a.run("serialize", || e.serialize().len());
    let valid = a.run("list_valid_sub_elements", || e.list_valid_sub_elements()).unwrap_or_default();
    a.res("file_membership", || e.file_membership());
    a.run("xml_path", || e.xml_path());
    a.run("comment", || e.comment());
    let mv = a.res("min_version", || e.min_version());
    a.res("get_reference_target", || e.get_reference_target());
    for p in [0usize, 1, len.wrapping_sub(1), len, len + 1, usize::MAX] {
        a.run("get_sub_element_at", || e.get_sub_element_at(p));
    }
    for v in valid.iter().take(60) {
        a.run("get_sub_element", || e.get_sub_element(v.element_name));
        for vk in [0usize, 4, 11, 20] {
            if let Some(ver) = version_n(vk) {
                a.res("calc_element_insert_range", || e.calc_element_insert_range(v.element_name, ver));
            }
        }
        if let Some(ver) = mv {
            a.res("calc_element_insert_range", || e.calc_element_insert_range(v.element_name, ver));
        }
    }
    a.run("downgrade.upgrade", || e.downgrade().upgrade().is_some());
    a.run("Debug", || format!("{:?}", e).len());
    a.run("cmp(self)", || e.cmp(&e));
    a.run("eq/hash", || {
        let mut s = std::collections::HashSet::new();
        s.insert(e.clone());
        s.contains(&e)
    });
    if let Some(et) = et {
        a.run("ElementType::*", || {
            let _ = (et.is_named(), et.is_ref(), et.content_mode(), et.chardata_spec().is_some(), et.is_ordered(), et.splittable(), et.std_restriction());
            for k in 0..ALL_VERSIONS {
                if let Some(v) = version_n(k) {
                    let _ = (et.is_named_in_version(v), et.splittable_in(v));
                }
            }
            let n = et.sub_element_spec_iter().take(100000).count();
            let m = et.attribute_spec_iter().count();
            let _ = et.reference_dest_value(&et);
            let _ = format!("{:?}", et);
            (n, m)
        });
    }
    a.finish()
}

fn q_model(ex: &Exec, k: usize) -> Out {
    let Some(m) = ex.models.get(k).cloned() else { return Out::Bad("model".into()) };
    let mut a = Acc { out: None, n: 0 };
    a.run("files", || m.files().count());
    a.run("root_element", || m.root_element());
    a.run("serialize_files", || m.serialize_files().len());
    a.run("elements_dfs", || m.elements_dfs().take(100000).count());
    for d in [0usize, 1, usize::MAX] {
        a.run("elements_dfs_with_max_depth", || m.elements_dfs_with_max_depth(d).take(100000).count());
    }
    a.run("identifiable_elements", || m.identifiable_elements().count());
    a.run("check_references", || m.check_references().len());
    for s in STRS {
        a.run("get_element_by_path", || m.get_element_by_path(s));
        a.run("get_references_to", || m.get_references_to(s).len());
    }
    a.run("Debug", || format!("{:?}", m).len());
    a.run("eq", || m == m.clone());
    a.finish()
}

fn q_file(ex: &Exec, k: usize) -> Out {
    let Some(f) = ex.files.get(k).cloned() else { return Out::Bad("file".into()) };
    let mut a = Acc { out: None, n: 0 };
    a.run("filename", || f.filename());
    a.run("version", || f.version());
    a.res("model", || f.model());
    a.run("elements_dfs", || f.elements_dfs().take(100000).count());
    for d in [0usize, 1, usize::MAX] {
        a.run("elements_dfs_with_max_depth", || f.elements_dfs_with_max_depth(d).take(100000).count());
    }
    a.res("serialize", || f.serialize());
    a.run("xml_standalone", || f.xml_standalone());
    a.run("downgrade.upgrade", || f.downgrade().upgrade().is_some());
    a.run("Debug", || format!("{:?}", f).len());
    for k in 0..ALL_VERSIONS {
        if let Some(v) = version_n(k) {
            a.run("check_version_compatibility", || f.check_version_compatibility(v).1);
        }
    }
    a.finish()
}

fn exec_call(ex: &mut Exec, c: &Call) -> Out {
    use Call::*;
    let names = ex.names;
    let mut a = Acc { out: None, n: 0 };
    match c {
        QElem(h) => return q_elem(ex, *h),
        QModel(m) => return q_model(ex, *m),
        QFile(f) => return q_file(ex, *f),
        RangeAll(h) => {
            let Some(e) = ex.handles.get(*h).cloned() else { return Out::Bad("handle".into()) };
            let vers: Vec<AutosarVersion> = [0usize, 9, 20].iter().filter_map(|k| version_n(*k)).collect();
            for n in 0..names.el.len() {
                if let Some(nm) = names.elname(n as u16) {
                    for v in &vers {
                        a.res("calc_element_insert_range", || e.calc_element_insert_range(nm, *v));
                        if matches!(a.out, Some(Out::Panic { .. })) {
                            return a.finish();
                        }
                    }
                }
            }
        }
        Range(h, n, v) => {
            let (Some(e), Some(nm), Some(ver)) = (ex.handles.get(*h).cloned(), names.elname(*n), AutosarVersion::from_val(*v)) else { return Out::Bad("args".into()) };
            a.res("calc_element_insert_range", || e.calc_element_insert_range(nm, ver));
        }
        Cmp(x, y) => {
            let (Some(e), Some(o)) = (ex.handles.get(*x).cloned(), ex.handles.get(*y).cloned()) else { return Out::Bad("handle".into()) };
            a.run("cmp", || (e.cmp(&o), o.cmp(&e), e == o, e.partial_cmp(&o)));
        }
        GetSubAt(h, p) => {
            let Some(e) = ex.handles.get(*h).cloned() else { return Out::Bad("handle".into()) };
            a.run("get_sub_element_at", || e.get_sub_element_at(*p));
        }
        DfsDepth(h, d) => {
            let Some(e) = ex.handles.get(*h).cloned() else { return Out::Bad("handle".into()) };
            a.run("elements_dfs_with_max_depth", || e.elements_dfs_with_max_depth(*d).take(100000).count());
        }
        SetAttrString(h, at, s) => {
            let (Some(e), Some(an)) = (ex.handles.get(*h).cloned(), names.atname(*at)) else { return Out::Bad("args".into()) };
            let s = String::from_utf8_lossy(s).to_string();
            a.res("set_attribute_string", || e.set_attribute_string(an, &s));
        }
        SetFilename(f, s) => {
            let Some(f) = ex.files.get(*f).cloned() else { return Out::Bad("file".into()) };
            let s = String::from_utf8_lossy(s).to_string();
            a.res("set_filename", || f.set_filename(&s));
        }
        GetByPath(m, s) => {
            let Some(m) = ex.models.get(*m).cloned() else { return Out::Bad("model".into()) };
            let s = String::from_utf8_lossy(s).to_string();
            a.run("get_element_by_path", || m.get_element_by_path(&s));
        }
        RefsTo(m, s) => {
            let Some(m) = ex.models.get(*m).cloned() else { return Out::Bad("model".into()) };
            let s = String::from_utf8_lossy(s).to_string();
            a.run("get_references_to", || m.get_references_to(&s).len());
        }
        LoadFile(m, s) => {
            let Some(m) = ex.models.get(*m).cloned() else { return Out::Bad("model".into()) };
            let s = String::from_utf8_lossy(s).to_string();
            a.res("load_file", || m.load_file(&s, false).map(|_| ()));
        }
        ModelDfsDepth(m, d) => {
            let Some(m) = ex.models.get(*m).cloned() else { return Out::Bad("model".into()) };
            a.run("elements_dfs_with_max_depth", || m.elements_dfs_with_max_depth(*d).take(100000).count());
        }
        FileDfsDepth(f, d) => {
            let Some(f) = ex.files.get(*f).cloned() else { return Out::Bad("file".into()) };
            a.run("elements_dfs_with_max_depth", || f.elements_dfs_with_max_depth(*d).take(100000).count());
        }
        SpecIdx(h, i1, i2, _) => {
            let Some(e) = ex.handles.get(*h).cloned() else { return Out::Bad("handle".into()) };
            let Some(et) = a.run("element_type", || e.element_type()) else { return a.finish() };
            a.run("ElementType::get_sub_element_version_mask", || et.get_sub_element_version_mask(i1));
            a.run("ElementType::get_sub_element_multiplicity", || et.get_sub_element_multiplicity(i1).is_some());
            a.run("ElementType::find_common_group", || et.find_common_group(i1, i2).content_mode());
            a.run("ElementType::get_sub_element_container_mode", || et.get_sub_element_container_mode(i1));
        }
        CData(s) => {
            let s = String::from_utf8_lossy(s).to_string();
            let cd = CharacterData::String(s.clone());
            a.run("CharacterData::parse_integer", || (cd.parse_integer::<u8>(), cd.parse_integer::<i8>(), cd.parse_integer::<u64>(), cd.parse_integer::<i64>(), cd.parse_integer::<i128>()));
            a.run("CharacterData::parse_float", || cd.parse_float());
            a.run("CharacterData::parse_bool", || cd.parse_bool());
            a.run("CharacterData::accessors", || (cd.enum_value(), cd.string_value(), cd.unsigned_integer_value(), cd.float_value(), cd.to_string().len(), format!("{:?}", cd).len()));
            for v in [CharacterData::UnsignedInteger(u64::MAX), CharacterData::Float(f64::NAN), CharacterData::Float(-0.0), CharacterData::Float(1e308)] {
                a.run("CharacterData::num", || (v.parse_integer::<u32>(), v.parse_float(), v.parse_bool(), v.to_string().len()));
            }
            a.run("ElementName::from_str", || (ElementName::from_str(&s).is_ok(), AttributeName::from_str(&s).is_ok(), EnumItem::from_str(&s).is_ok(), AutosarVersion::from_str(&s).is_ok()));
        }
        DropModel(m) => {
            if *m >= ex.models.len() || ex.models.len() < 2 {
                return Out::Bad("model".into());
            }
            // the harness forgets its strong handles to the model and its files (element handles stay: they keep only
            // their own subtree alive, everything reachable only through the model is dropped now)
            let mm = ex.models[*m].clone();
            let files: Vec<ArxmlFile> = mm.files().collect();
            a.run("drop(files)", || {
                for f in &files {
                    mm.remove_file(f);
                }
            });
        }
    }
    a.finish()
}

/// handle / model / file numbers of the operation exist (anything else is a malformed script, not a library call)
fn op_in_range(ex: &Exec, op: &Op) -> bool {
    use Op::*;
    let h = |k: &usize| *k < ex.handles.len();
    let m = |k: &usize| *k < ex.models.len();
    let f = |k: &usize| *k < ex.files.len();
    match op {
        CreateSub(a, _) | CreateSubAt(a, _, _) | CreateNamed(a, _, _) | CreateNamedAt(a, _, _, _) | RemoveKind(a, _) | SetItemName(a, _)
        | SetCData(a, _) | RemoveCData(a) | InsertCItem(a, _, _) | RemoveCItem(a, _) | SetAttr(a, _, _) | RemoveAttr(a, _) | SetComment(a, _)
        | GetOrCreate(a, _) | GetOrCreateNamed(a, _, _) | Sort(a) | SerializeElem(a) | CmpKids(a) => h(a),
        Copy(a, b) | CopyAt(a, b, _) | Move(a, b) | MoveAt(a, b, _) | Remove(a, b) | SetRefTarget(a, b) => h(a) && h(b),
        NewModel => true,
        CreateFile(x, _, _) | SortModel(x) | Duplicate(x) | Load(x, _, _, _) => m(x),
        RemoveFile(x, y) => m(x) && f(y),
        AddToFile(a, y) | RemoveFromFile(a, y) => h(a) && f(y),
        SetVersion(y, _) | CheckCompat(y, _) | SerializeFile(y) => f(y),
    }
}

/// is `dest` a proper ancestor of the parent of `mv` (the shape of the known spurious lock conflict)?
fn dest_above_parent(ex: &Exec, dest: usize, mv: usize) -> bool {
    let (Some(d), Some(m)) = (ex.handles.get(dest), ex.handles.get(mv)) else { return false };
    let Ok(Some(p)) = m.parent() else { return false };
    let mut cur = p.parent().ok().flatten();
    let mut n = 0;
    while let Some(c) = cur {
        if c == *d {
            return true;
        }
        n += 1;
        if n > 100000 {
            break;
        }
        cur = c.parent().ok().flatten();
    }
    false
}

fn exec_step(ex: &mut Exec, s: &Step) -> Out {
    match s {
        Step::O(op) => {
            set_current(&s.opname());
            if !op_in_range(ex, op) {
                return Out::Bad("index".into());
            }
            let shape = match op {
                Op::Move(d, m) | Op::MoveAt(d, m, _) => guard(|| dest_above_parent(ex, *d, *m)).unwrap_or(false),
                _ => false,
            };
            let r = ex.apply(op);
            if r == "R PANIC" {
                let site = take_site();
                if site.starts_with("src/") {
                    Out::Bad(format!("harness-panic {}", site))
                } else {
                    Out::Panic { site, method: s.opname() }
                }
            } else if r.contains("ParentElementLocked") {
                Out::Locked { method: if shape { "move-to-ancestor".into() } else { "other".into() } }
            } else {
                Out::Fine(r)
            }
        }
        Step::C(c) => match exec_call(ex, c) {
            Out::Panic { site, method } if site.starts_with("src/") => Out::Bad(format!("harness-panic {} in {}", site, method)),
            o => o,
        },
    }
}

// ------------------------------------------------------------------------------------------------ generation
struct Fz<'a> {
    rng: SplitMix64,
    ex: Exec<'a>,
    /// handles of the last few steps: a later step reuses them with probability 1/3 (failed calls are followed up)
    recent: Vec<usize>,
}

const DOCS: &[(&str, &str)] = &[
    // an identifiable element without item name (accepted even strictly: the empty SHORT-NAME is never validated)
    ("noname", "<AR-PACKAGES><AR-PACKAGE><SHORT-NAME>A</SHORT-NAME><AR-PACKAGES><AR-PACKAGE><SHORT-NAME/></AR-PACKAGE></AR-PACKAGES></AR-PACKAGE><AR-PACKAGE><SHORT-NAME>B</SHORT-NAME><AR-PACKAGES></AR-PACKAGES></AR-PACKAGE><AR-PACKAGE><SHORT-NAME>C</SHORT-NAME><AR-PACKAGES></AR-PACKAGES></AR-PACKAGE></AR-PACKAGES>"),
    // references: without text, without DEST, to itself, dangling; a referenced element
    ("refs", "<AR-PACKAGES><AR-PACKAGE><SHORT-NAME>P</SHORT-NAME><ELEMENTS><SYSTEM-SIGNAL><SHORT-NAME>S</SHORT-NAME></SYSTEM-SIGNAL><I-SIGNAL><SHORT-NAME>I</SHORT-NAME><SYSTEM-SIGNAL-REF DEST=\"SYSTEM-SIGNAL\">/P/S</SYSTEM-SIGNAL-REF></I-SIGNAL><I-SIGNAL><SHORT-NAME>J</SHORT-NAME><SYSTEM-SIGNAL-REF DEST=\"SYSTEM-SIGNAL\"/></I-SIGNAL><I-SIGNAL><SHORT-NAME>K</SHORT-NAME><SYSTEM-SIGNAL-REF>/P/S</SYSTEM-SIGNAL-REF></I-SIGNAL><I-SIGNAL><SHORT-NAME>L</SHORT-NAME><SYSTEM-SIGNAL-REF DEST=\"I-SIGNAL\">/P/L/X</SYSTEM-SIGNAL-REF></I-SIGNAL></ELEMENTS></AR-PACKAGE></AR-PACKAGES>"),
    // mixed content with text runs, empty elements of every content kind
    ("mixed", "<AR-PACKAGES><AR-PACKAGE><SHORT-NAME>M</SHORT-NAME><DESC><L-2 L=\"EN\">text <TT TYPE=\"SGMLTAG\">tt</TT> more <SUB>s</SUB></L-2><L-2 L=\"DE\"/></DESC><CATEGORY/><ADMIN-DATA><LANGUAGE/><SDGS><SDG GID=\"g\"><SD GID=\"x\"/><SD/></SDG></SDGS></ADMIN-DATA><ELEMENTS/></AR-PACKAGE></AR-PACKAGES>"),
    // duplicate names, a SHORT-NAME that is not first, two SHORT-NAMEs (lenient only)
    ("dups", "<AR-PACKAGES><AR-PACKAGE><SHORT-NAME>D</SHORT-NAME><ELEMENTS><SYSTEM-SIGNAL><SHORT-NAME>S</SHORT-NAME></SYSTEM-SIGNAL><SYSTEM-SIGNAL><SHORT-NAME>S</SHORT-NAME></SYSTEM-SIGNAL><SYSTEM-SIGNAL><DYNAMIC-LENGTH>true</DYNAMIC-LENGTH><SHORT-NAME>T</SHORT-NAME></SYSTEM-SIGNAL><SYSTEM-SIGNAL><SHORT-NAME>U</SHORT-NAME><SHORT-NAME>V</SHORT-NAME></SYSTEM-SIGNAL></ELEMENTS></AR-PACKAGE><AR-PACKAGE><SHORT-NAME>D</SHORT-NAME></AR-PACKAGE></AR-PACKAGES>"),
    // only valid in new versions below an old header: FILE-INFO-COMMENT, adaptive elements
    ("foreign", "<FILE-INFO-COMMENT><SDGS/></FILE-INFO-COMMENT><AR-PACKAGES><AR-PACKAGE><SHORT-NAME>F</SHORT-NAME><ELEMENTS><ADAPTIVE-APPLICATION-SW-COMPONENT-TYPE><SHORT-NAME>Ad</SHORT-NAME></ADAPTIVE-APPLICATION-SW-COMPONENT-TYPE><MACHINE><SHORT-NAME>Ma</SHORT-NAME></MACHINE></ELEMENTS></AR-PACKAGE></AR-PACKAGES>"),
    // invalid SHORT-NAMEs (kept by a lenient load), empty references next to their possible targets
    ("badnames", "<AR-PACKAGES><AR-PACKAGE><SHORT-NAME>a-b</SHORT-NAME><ELEMENTS><SYSTEM-SIGNAL><SHORT-NAME>S</SHORT-NAME></SYSTEM-SIGNAL><SYSTEM-SIGNAL><SHORT-NAME>1x</SHORT-NAME></SYSTEM-SIGNAL><I-SIGNAL><SHORT-NAME>I</SHORT-NAME><SYSTEM-SIGNAL-REF DEST=\"SYSTEM-SIGNAL\"/></I-SIGNAL><I-SIGNAL><SHORT-NAME>J J</SHORT-NAME><SYSTEM-SIGNAL-REF DEST=\"SYSTEM-SIGNAL\">/a-b/S</SYSTEM-SIGNAL-REF></I-SIGNAL></ELEMENTS></AR-PACKAGE><AR-PACKAGE><SHORT-NAME>ok</SHORT-NAME><ELEMENTS><I-SIGNAL><SHORT-NAME>K</SHORT-NAME><SYSTEM-SIGNAL-REF DEST=\"SYSTEM-SIGNAL\"/></I-SIGNAL></ELEMENTS></AR-PACKAGE></AR-PACKAGES>"),
    // SHORT-NAMEs that end in a multi-byte character, with and without a numeric suffix (kept by a lenient load only): Element::cmp /
    // sort() decompose such names into (prefix, index); siblings of the same kind so that the names are really compared
    ("nonascii", "<AR-PACKAGES><AR-PACKAGE><SHORT-NAME>Ma\u{df}2</SHORT-NAME><ELEMENTS><SYSTEM-SIGNAL><SHORT-NAME>Ma\u{df}10</SHORT-NAME></SYSTEM-SIGNAL><SYSTEM-SIGNAL><SHORT-NAME>Ma\u{df}2</SHORT-NAME></SYSTEM-SIGNAL><SYSTEM-SIGNAL><SHORT-NAME>T\u{fc}r</SHORT-NAME></SYSTEM-SIGNAL><SYSTEM-SIGNAL><SHORT-NAME>Ma\u{df}</SHORT-NAME></SYSTEM-SIGNAL><SYSTEM-SIGNAL><SHORT-NAME>\u{20ac}7</SHORT-NAME></SYSTEM-SIGNAL><SYSTEM-SIGNAL><SHORT-NAME>Gr\u{f6}\u{df}e1</SHORT-NAME></SYSTEM-SIGNAL></ELEMENTS></AR-PACKAGE><AR-PACKAGE><SHORT-NAME>Ma\u{df}10</SHORT-NAME></AR-PACKAGE><AR-PACKAGE><SHORT-NAME>T\u{fc}r</SHORT-NAME></AR-PACKAGE></AR-PACKAGES>"),
    // valid identifiers (strict loads accept them) whose numeric suffix is at / beyond the u64 boundary, next to ordinary ones:
    // siblings of the same kind, so that sort() / cmp() compare them
    ("bignum", "<AR-PACKAGES><AR-PACKAGE><SHORT-NAME>Frame_18446744073709551616</SHORT-NAME><ELEMENTS><SYSTEM-SIGNAL><SHORT-NAME>Frame_18446744073709551616</SHORT-NAME></SYSTEM-SIGNAL><SYSTEM-SIGNAL><SHORT-NAME>Frame_18446744073709551615</SHORT-NAME></SYSTEM-SIGNAL><SYSTEM-SIGNAL><SHORT-NAME>Frame_2</SHORT-NAME></SYSTEM-SIGNAL><SYSTEM-SIGNAL><SHORT-NAME>Frame_99999999999999999999999</SHORT-NAME></SYSTEM-SIGNAL><SYSTEM-SIGNAL><SHORT-NAME>Frame_</SHORT-NAME></SYSTEM-SIGNAL><SYSTEM-SIGNAL><SHORT-NAME>Frame_02</SHORT-NAME></SYSTEM-SIGNAL></ELEMENTS></AR-PACKAGE><AR-PACKAGE><SHORT-NAME>Frame_2</SHORT-NAME></AR-PACKAGE><AR-PACKAGE><SHORT-NAME>Frame_18446744073709551617</SHORT-NAME></AR-PACKAGE></AR-PACKAGES>"),
    ("empty", ""),
];

fn wrap_doc(body: &str, ver: AutosarVersion) -> Vec<u8> {
    format!(
        "<?xml version=\"1.0\" encoding=\"utf-8\"?>\n<AUTOSAR xsi:schemaLocation=\"http://autosar.org/schema/r4.0 {}\" xmlns=\"http://autosar.org/schema/r4.0\" xmlns:xsi=\"http://www.w3.org/2001/XMLSchema-instance\">{}</AUTOSAR>\n",
        ver.filename(),
        body
    )
    .into_bytes()
}

impl<'a> Fz<'a> {
    fn ph(&mut self) -> usize {
        let n = self.ex.handles.len().max(1);
        if !self.recent.is_empty() && self.rng.below(3) == 0 {
            let k = self.recent[self.rng.below(self.recent.len() as u64) as usize];
            if k < n {
                return k;
            }
        }
        self.rng.below(n as u64) as usize
    }
    fn note(&mut self, s: &Step) {
        let l = s.line();
        let w: Vec<&str> = l.split_whitespace().collect();
        if w[0] == "OP" {
            for x in w.iter().skip(2).take(2) {
                if let Ok(k) = x.parse::<usize>() {
                    if k < self.ex.handles.len() {
                        self.recent.push(k);
                    }
                }
            }
        }
        let n = self.recent.len();
        if n > 6 {
            self.recent.drain(0..n - 6);
        }
    }
    /// a handle satisfying `f` (any handle when there is none, and in one of five cases anyway)
    fn pw(&mut self, f: impl Fn(&Element) -> bool) -> usize {
        if self.rng.below(5) == 0 {
            return self.ph();
        }
        let c: Vec<usize> = (0..self.ex.handles.len()).filter(|k| guard(|| f(&self.ex.handles[*k])).unwrap_or(false)).collect();
        if c.is_empty() { self.ph() } else { c[self.rng.below(c.len() as u64) as usize] }
    }
    fn pm(&mut self) -> usize {
        self.rng.below(self.ex.models.len().max(1) as u64) as usize
    }
    fn pf(&mut self) -> usize {
        self.rng.below(self.ex.files.len().max(1) as u64) as usize
    }
    fn pos_for(&mut self, h: usize) -> usize {
        let len = self.ex.handles.get(h).map(|e| e.content_item_count()).unwrap_or(0);
        match self.rng.below(8) {
            0 => 0,
            1 => len,
            2 => len + 1,
            3 => usize::MAX,
            4 => len.wrapping_sub(1),
            5 => usize::MAX - 1,
            _ => self.rng.below(len as u64 + 2) as usize,
        }
    }
    fn text(&mut self) -> Vec<u8> {
        match self.rng.below(14) {
            0 => vec![b'a'; 5000],
            1 => {
                let mut v = b"/".to_vec();
                v.extend(vec![b'p'; 200]);
                v
            }
            _ => self.rng.pick(STRS).as_bytes().to_vec(),
        }
    }
    fn some_path(&mut self) -> Vec<u8> {
        let ex: Vec<String> = self.ex.models.iter().flat_map(|m| m.identifiable_elements().map(|(p, _)| p)).collect();
        if !ex.is_empty() && self.rng.below(3) != 0 {
            let mut p = ex[self.rng.below(ex.len() as u64) as usize].clone();
            match self.rng.below(4) {
                0 => p.push_str("/x"),
                1 => p.push('0'),
                _ => {}
            }
            p.into_bytes()
        } else {
            self.text()
        }
    }
    fn value(&mut self, spec: Option<&CharacterDataSpec>) -> Val {
        let wrong = self.rng.below(4) == 0;
        match (spec, wrong) {
            (Some(CharacterDataSpec::Enum { items }), false) if !items.is_empty() => Val::E(items[self.rng.below(items.len() as u64) as usize].0 as u16),
            (Some(CharacterDataSpec::UnsignedInteger), false) => Val::U(*self.rng.pick(&[0u64, 1, u64::MAX])),
            (Some(CharacterDataSpec::Float), false) => Val::F(*self.rng.pick(&[0u64, 0x7ff8000000000000, 0x3ff0000000000000, 0xfff0000000000000])),
            _ => match self.rng.below(5) {
                0 => Val::E(self.rng.below(self.ex.names.en.len() as u64) as u16),
                1 => Val::U(*self.rng.pick(&[0u64, 42, u64::MAX])),
                2 => Val::F(*self.rng.pick(&[0u64, 0x7ff8000000000000, 0x7ff0000000000000, 0x400921fb54442d18])),
                3 => Val::S(self.some_path()),
                _ => Val::S(self.text()),
            },
        }
    }
    /// an element name for `h`: valid one (preferring names that do not exist in 4.0.1 when `newer`), or any
    fn name_for(&mut self, h: usize, newer: bool) -> (u16, bool) {
        let Some(e) = self.ex.handles.get(h).cloned() else { return (0, false) };
        let valid = guard(|| e.list_valid_sub_elements()).unwrap_or_default();
        if valid.is_empty() || self.rng.below(10) == 0 {
            return (self.rng.below(self.ex.names.el.len() as u64) as u16, self.rng.below(2) == 0);
        }
        let mut cand: Vec<&ValidSubElementInfo> = valid.iter().filter(|v| v.is_allowed).collect();
        if cand.is_empty() || self.rng.below(8) == 0 {
            cand = valid.iter().collect();
        }
        if newer && self.rng.below(2) == 0 {
            let et = e.element_type();
            let nw: Vec<&ValidSubElementInfo> = cand.iter().copied().filter(|v| et.find_sub_element(v.element_name, 1).is_none()).collect();
            if !nw.is_empty() {
                cand = nw;
            }
        }
        let v = cand[self.rng.below(cand.len() as u64) as usize];
        (v.element_name as u16, v.is_named)
    }
    fn item(&mut self) -> Vec<u8> {
        if self.rng.below(6) == 0 { self.text() } else { self.rng.pick(&["a", "b", "Sig", "p1", "p10", "a_1", "x"]).as_bytes().to_vec() }
    }

    /// one growth step (mostly valid creations, values)
    fn grow_step(&mut self) -> Option<Step> {
        if self.ex.handles.is_empty() {
            return None;
        }
        let h = if self.rng.below(3) == 0 { self.ex.handles.len() - 1 - self.rng.below(self.ex.handles.len().min(6) as u64) as usize } else { self.ph() };
        let e = self.ex.handles[h].clone();
        if matches!(e.content_type(), ContentType::CharacterData) && e.element_name() != ElementName::ShortName {
            if e.is_reference() && self.rng.below(2) == 0 {
                let t = self.ph();
                return Some(Step::O(Op::SetRefTarget(h, t)));
            }
            let et = e.element_type();
            let v = self.value(et.chardata_spec());
            return Some(Step::O(Op::SetCData(h, v)));
        }
        let (n, named) = self.name_for(h, true);
        Some(Step::O(if named { Op::CreateNamed(h, n, self.item()) } else { Op::CreateSub(h, n) }))
    }

    /// one battery step: any call, any handle, boundary arguments
    fn battery_step(&mut self) -> Step {
        let r = self.rng.below(100);
        let h = self.ph();
        let o = self.ph();
        if r < 14 {
            Step::C(Call::QElem(h))
        } else if r < 16 {
            Step::C(Call::QModel(self.pm()))
        } else if r < 18 {
            Step::C(Call::QFile(self.pf()))
        } else if r < 30 {
            let (n, named) = self.name_for(h, true);
            let at = self.rng.below(3) == 0;
            let p = self.pos_for(h);
            let flip = self.rng.below(10) == 0;
            Step::O(match (named != flip, at) {
                (true, false) => Op::CreateNamed(h, n, self.item()),
                (true, true) => Op::CreateNamedAt(h, n, self.item(), p),
                (false, false) => Op::CreateSub(h, n),
                (false, true) => Op::CreateSubAt(h, n, p),
            })
        } else if r < 34 {
            let (n, named) = self.name_for(h, false);
            Step::O(if named { Op::GetOrCreateNamed(h, n, self.item()) } else { Op::GetOrCreate(h, n) })
        } else if r < 46 {
            // move / copy: any pair, or a pair that fits
            let mut src = o;
            if self.rng.below(3) != 0 {
                if let Some(d) = self.ex.handles.get(h).cloned() {
                    let valid: Vec<ElementName> = guard(|| d.list_valid_sub_elements()).unwrap_or_default().iter().map(|v| v.element_name).collect();
                    let c: Vec<usize> = (0..self.ex.handles.len()).filter(|k| valid.contains(&self.ex.handles[*k].element_name())).collect();
                    if !c.is_empty() {
                        src = c[self.rng.below(c.len() as u64) as usize];
                    }
                }
            }
            let p = self.pos_for(h);
            Step::O(match self.rng.below(4) {
                0 => Op::Move(h, src),
                1 => Op::MoveAt(h, src, p),
                2 => Op::Copy(h, src),
                _ => Op::CopyAt(h, src, p),
            })
        } else if r < 52 {
            match self.rng.below(3) {
                0 => Step::O(Op::Remove(h, o)),
                1 => {
                    let kids: Vec<usize> = self.ex.handles.get(h).map(|e| e.sub_elements().filter_map(|s| self.ex.hidx.get(&s).copied()).collect()).unwrap_or_default();
                    if kids.is_empty() { Step::O(Op::Remove(h, o)) } else { Step::O(Op::Remove(h, kids[self.rng.below(kids.len() as u64) as usize])) }
                }
                _ => {
                    let (n, _) = self.name_for(h, false);
                    Step::O(Op::RemoveKind(h, n))
                }
            }
        } else if r < 57 {
            let h = self.pw(|e| e.is_identifiable());
            Step::O(Op::SetItemName(h, self.item()))
        } else if r < 66 {
            match self.rng.below(9) {
                0 => {
                    let h = self.pw(|e| e.character_data().is_some());
                    Step::O(Op::RemoveCData(h))
                }
                1 => {
                    let h = self.pw(|e| e.content_type() == ContentType::Mixed);
                    let p = self.pos_for(h);
                    Step::O(Op::InsertCItem(h, self.text(), p))
                }
                2 => {
                    let h = self.pw(|e| e.content_type() == ContentType::Mixed && e.content_item_count() > 0);
                    Step::O(Op::RemoveCItem(h, self.pos_for(h)))
                }
                3 | 4 => {
                    let h = self.pw(|e| e.is_reference());
                    let t = self.pw(|e| e.is_identifiable());
                    Step::O(Op::SetRefTarget(h, t))
                }
                _ => {
                    let h = self.pw(|e| matches!(e.content_type(), ContentType::CharacterData | ContentType::Mixed));
                    let spec = self.ex.handles.get(h).map(|e| e.element_type());
                    let v = self.value(spec.as_ref().and_then(|t| t.chardata_spec()));
                    Step::O(Op::SetCData(h, v))
                }
            }
        } else if r < 72 {
            let specs: Vec<(AttributeName, &CharacterDataSpec, bool)> = self.ex.handles.get(h).map(|e| e.element_type().attribute_spec_iter().collect()).unwrap_or_default();
            let (an, spec) = if specs.is_empty() || self.rng.below(4) == 0 {
                (self.rng.below(self.ex.names.at.len() as u64) as u16, None)
            } else {
                let s = specs[self.rng.below(specs.len() as u64) as usize];
                (s.0 as u16, Some(s.1))
            };
            match self.rng.below(4) {
                0 => Step::O(Op::RemoveAttr(h, an)),
                1 => Step::C(Call::SetAttrString(h, an, self.text())),
                _ => Step::O(Op::SetAttr(h, an, self.value(spec))),
            }
        } else if r < 80 {
            // files and versions
            let m = self.pm();
            let f = self.pf();
            let v = 1u32 << self.rng.below(ALL_VERSIONS as u64);
            match self.rng.below(9) {
                0 | 1 if self.ex.files.len() < 6 => Step::O(Op::CreateFile(m, format!("n{}.arxml", self.rng.below(4)).into_bytes(), v)),
                2 => Step::O(Op::RemoveFile(m, f)),
                3 | 4 => {
                    let h = self.pw(|e| e.parent().ok().flatten().map(|p| p.element_type().splittable() != 0).unwrap_or(false));
                    Step::O(Op::AddToFile(h, f))
                }
                5 => {
                    let h = self.pw(|e| e.parent().ok().flatten().map(|p| p.element_type().splittable() != 0).unwrap_or(false));
                    Step::O(Op::RemoveFromFile(h, f))
                }
                6 => Step::O(Op::SetVersion(f, v)),
                7 => Step::C(Call::SetFilename(f, if self.rng.below(2) == 0 { b"n1.arxml".to_vec() } else { self.text() })),
                _ => Step::O(Op::CheckCompat(f, v)),
            }
        } else if r < 88 {
            let m = self.pm();
            match self.rng.below(8) {
                0 | 1 => Step::O(Op::Sort(h)),
                2 => Step::O(Op::SortModel(m)),
                3 if self.ex.models.len() < 4 => Step::O(Op::Duplicate(m)),
                4 if self.ex.models.len() < 4 => Step::O(Op::NewModel),
                5 => Step::O(Op::SerializeFile(self.pf())),
                6 => Step::O(Op::SetComment(h, if self.rng.below(2) == 0 { None } else { Some(self.text()) })),
                _ => Step::O(Op::CmpKids(h)),
            }
        } else if r < 93 {
            self.load_step()
        } else {
            match self.rng.below(10) {
                0 => Step::C(Call::Cmp(h, o)),
                1 => Step::C(Call::GetSubAt(h, self.pos_for(h))),
                2 => Step::C(Call::DfsDepth(h, *self.rng.pick(&[0usize, 1, 3, usize::MAX]))),
                3 => Step::C(Call::GetByPath(self.pm(), self.some_path())),
                4 => Step::C(Call::RefsTo(self.pm(), self.some_path())),
                5 => Step::C(Call::LoadFile(self.pm(), b"/nonexistent/dir/file.arxml".to_vec())),
                6 => Step::C(Call::ModelDfsDepth(self.pm(), *self.rng.pick(&[0usize, 1, usize::MAX]))),
                7 => Step::C(Call::FileDfsDepth(self.pf(), *self.rng.pick(&[0usize, 1, usize::MAX]))),
                8 => Step::C(Call::CData(self.text())),
                _ => {
                    let valid = self.ex.handles.get(h).map(|e| e.element_type());
                    // index lists: the one find_sub_element returns for a valid child, a perturbed one, garbage
                    let mut i1: Vec<usize> = vec![];
                    if let (Some(et), Some(e)) = (valid, self.ex.handles.get(h).cloned()) {
                        let l = guard(|| e.list_valid_sub_elements()).unwrap_or_default();
                        if !l.is_empty() {
                            let v = &l[self.rng.below(l.len() as u64) as usize];
                            if let Some((_, ix)) = et.find_sub_element(v.element_name, u32::MAX) {
                                i1 = ix;
                            }
                        }
                    }
                    let mut good = !i1.is_empty();
                    match self.rng.below(4) {
                        0 => {}
                        1 => {
                            i1.push(0);
                            good = false;
                        }
                        2 => {
                            good = false;
                            if let Some(l) = i1.last_mut() {
                                *l += 1000;
                            } else {
                                i1.push(7);
                            }
                        }
                        _ => {
                            good = false;
                            i1 = vec![*self.rng.pick(&[0usize, 1, 99999, usize::MAX]); 1 + self.rng.below(3) as usize];
                        }
                    }
                    let i2 = if good || self.rng.below(2) == 0 { i1.clone() } else { vec![0] };
                    Step::C(Call::SpecIdx(h, i1, i2, good))
                }
            }
        }
    }

    /// load a document: hand-written ones, or the text of a file of the current state under another schema version
    fn load_step(&mut self) -> Step {
        let m = self.pm();
        let strict = self.rng.below(4) == 0;
        let name = format!("l{}.arxml", self.rng.below(5)).into_bytes();
        let ver = version_n(self.rng.below(ALL_VERSIONS as u64) as usize).unwrap_or(AutosarVersion::LATEST);
        if !self.ex.files.is_empty() && self.rng.below(2) == 0 {
            let f = self.pf();
            if let Ok(Ok(t)) = guard(|| self.ex.files[f].serialize()) {
                if t.len() < 60000 {
                    let own = self.ex.files[f].version().filename();
                    let t2 = t.replacen(own, ver.filename(), 1);
                    return Step::O(Op::Load(m, t2.into_bytes(), name, strict));
                }
            }
        }
        let (_, body) = DOCS[self.rng.below(DOCS.len() as u64) as usize];
        Step::O(Op::Load(m, wrap_doc(body, ver), name, strict))
    }
}

// ------------------------------------------------------------------------------------------------ running a case
enum Msg {
    Pre(String, String),
    Post(Out),
    Done,
}

struct Finding {
    kind: &'static str,
    site: String,
    op: String,
    method: String,
    lines: Vec<String>,
}

/// runs `job` (which emits steps through the callback) in a worker thread with a watchdog
fn run_case(dump: &str, job: impl FnOnce(&Names, &mut dyn FnMut(&mut Exec, &Step) -> bool) + Send + 'static, timeout_ms: u64) -> (Vec<String>, Vec<Finding>, u64, BTreeMap<String, (u64, u64)>) {
    let (tx, rx) = mpsc::channel::<Msg>();
    let dump = dump.to_string();
    std::thread::Builder::new()
        .stack_size(256 * 1024 * 1024)
        .spawn(move || {
            let names = Names::load(&dump);
            let tx2 = tx.clone();
            let mut emit = move |ex: &mut Exec, s: &Step| -> bool {
                let _ = tx2.send(Msg::Pre(s.line(), s.opname()));
                let o = exec_step(ex, s);
                let pure = matches!(s, Step::C(Call::SpecIdx(..)) | Step::C(Call::CData(..)));
                let stop = matches!(o, Out::Panic { .. }) && !pure;
                let _ = tx2.send(Msg::Post(o));
                !stop
            };
            let _ = guard(std::panic::AssertUnwindSafe(|| job(&names, &mut emit)));
            let _ = tx.send(Msg::Done);
        })
        .unwrap();
    let mut lines: Vec<String> = vec![];
    let mut finds: Vec<Finding> = vec![];
    let mut cur_op = String::new();
    let mut pending = false;
    let mut nsteps = 0u64;
    let mut okerr: BTreeMap<String, (u64, u64)> = BTreeMap::new();
    loop {
        match rx.recv_timeout(std::time::Duration::from_millis(timeout_ms)) {
            Ok(Msg::Pre(l, op)) => {
                lines.push(l);
                cur_op = op;
                pending = true;
                nsteps += 1;
            }
            Ok(Msg::Post(o)) => {
                pending = false;
                match o {
                    Out::Panic { site, method } => finds.push(Finding { kind: "panic", site, op: cur_op.clone(), method, lines: lines.clone() }),
                    Out::Locked { method } => finds.push(Finding { kind: "spurious-parent-locked", site: "-".into(), op: cur_op.clone(), method, lines: lines.clone() }),
                    Out::Bad(w) if w.starts_with("harness-panic") => finds.push(Finding { kind: "harness-panic", site: w, op: cur_op.clone(), method: "-".into(), lines: lines.clone() }),
                    Out::Fine(r) => {
                        let e = okerr.entry(cur_op.clone()).or_insert((0, 0));
                        if r.starts_with("R ERR") { e.1 += 1 } else { e.0 += 1 }
                    }
                    Out::Bad(_) => okerr.entry("badscript".into()).or_insert((0, 0)).1 += 1,
                }
            }
            Ok(Msg::Done) => break,
            Err(_) => {
                if pending {
                    finds.push(Finding { kind: "hang", site: "-".into(), op: cur_op.clone(), method: get_current(), lines: lines.clone() });
                }
                break;
            }
        }
    }
    (lines, finds, nsteps, okerr)
}

fn run_steps(ex: &mut Exec, steps: &[Step], emit: &mut dyn FnMut(&mut Exec, &Step) -> bool) -> bool {
    for s in steps {
        if !emit(ex, s) {
            return false;
        }
    }
    true
}

fn elidx(names: &Names, s: &str) -> u16 {
    names.elidx(s)
}

/// the case families of the fuzzer
fn case_job(kind: u64, seed: u64, tier: String, base: Vec<Op>) -> impl FnOnce(&Names, &mut dyn FnMut(&mut Exec, &Step) -> bool) + Send + 'static {
    move |names, emit| {
        let mut fz = Fz { rng: SplitMix64(seed), ex: Exec::new(names), recent: vec![] };
        let thorough = tier == "thorough";
        let nbat = if kind == 5 || kind == 6 { 25 } else if thorough { 160 } else { 70 };
        macro_rules! go {
            ($s:expr) => {{
                let s = $s;
                if !emit(&mut fz.ex, &s) {
                    return;
                }
            }};
        }
        match kind {
            0 => {
                // a history of the generic tree generator
                for op in &base {
                    go!(Step::O(op.clone()));
                }
            }
            1 | 2 => {
                // grown at LATEST (kind 2: two files of different versions from the start)
                go!(Step::O(Op::NewModel));
                go!(Step::O(Op::CreateFile(0, b"f0.arxml".to_vec(), 0x100000)));
                if kind == 2 {
                    let v = 1u32 << fz.rng.below(ALL_VERSIONS as u64);
                    go!(Step::O(Op::CreateFile(0, b"f1.arxml".to_vec(), v)));
                }
                go!(Step::O(Op::CreateSub(0, elidx(names, "AR-PACKAGES"))));
                for nm in ["p1", "p10"] {
                    go!(Step::O(Op::CreateNamed(1, elidx(names, "AR-PACKAGE"), nm.as_bytes().to_vec())));
                }
                let n = 20 + fz.rng.below(if thorough { 120 } else { 50 });
                for _ in 0..n {
                    if let Some(s) = fz.grow_step() {
                        go!(s);
                    }
                }
                if kind == 1 && fz.rng.below(2) == 0 {
                    // the regression of fix 1b7bb3a: an older file joins a model that holds newer-only children
                    let v = 1u32 << fz.rng.below(9);
                    go!(Step::O(Op::CreateFile(0, b"old.arxml".to_vec(), v)));
                }
            }
            3 => {
                // documents: hand-written ones under every schema version, lenient and strict, into one or two models
                go!(Step::O(Op::NewModel));
                let n = 1 + fz.rng.below(4);
                for _ in 0..n {
                    if fz.ex.models.len() < 2 && fz.rng.below(3) == 0 {
                        go!(Step::O(Op::NewModel));
                    }
                    let s = fz.load_step();
                    go!(s);
                }
            }
            6 => {
                // many siblings ordered by INDEX: two SUB-CONTAINERS lists with 21..40 ECUC-CONTAINER-VALUEs whose INDEX values mix
                // one-digit, two-digit, equal, missing and > u64::MAX numbers (the INDEX pattern allows them; slice::sort_by uses
                // insertion sort up to 20 items and panics on an inconsistent order beyond that), then sort / cmp / sort_model
                const FIXED: [&str; 21] = ["17", "15", "16", "8", "18446744073709552469", "18446744073709551673", "18446744073709551616", "14", "9", "7",
                    "18446744073709552532", "5", "11", "10", "15", "18446744073709552577", "2", "9", "13", "16", "18446744073709552051"];
                macro_rules! mk {
                    ($op:expr) => {{
                        let h = fz.ex.handles.len();
                        go!(Step::O($op));
                        if fz.ex.handles.len() == h {
                            return;
                        }
                        h
                    }};
                }
                go!(Step::O(Op::NewModel));
                go!(Step::O(Op::CreateFile(0, b"f0.arxml".to_vec(), 0x100000)));
                let pk = mk!(Op::CreateSub(0, elidx(names, "AR-PACKAGES")));
                let p1 = mk!(Op::CreateNamed(pk, elidx(names, "AR-PACKAGE"), b"p1".to_vec()));
                let el = mk!(Op::CreateSub(p1, elidx(names, "ELEMENTS")));
                let cfg = mk!(Op::CreateNamed(el, elidx(names, "ECUC-MODULE-CONFIGURATION-VALUES"), b"Config".to_vec()));
                let cs = mk!(Op::CreateSub(cfg, elidx(names, "CONTAINERS")));
                let mut lists = vec![];
                for g in 0..2u64 {
                    let cv = mk!(Op::CreateNamed(cs, elidx(names, "ECUC-CONTAINER-VALUE"), format!("Values{}", g).into_bytes()));
                    let sc = mk!(Op::CreateSub(cv, elidx(names, "SUB-CONTAINERS")));
                    lists.push(sc);
                    let n = if g == 0 { 21 } else { 21 + fz.rng.below(20) as usize };
                    let rot = fz.rng.below(21) as usize;
                    for i in 0..n {
                        let value: Option<String> = if g == 0 && fz.rng.below(8) != 0 {
                            Some(FIXED[(i + if fz.rng.below(2) == 0 { 0 } else { rot }) % 21].to_string())
                        } else {
                            match fz.rng.below(10) {
                                0 => None,
                                1 | 2 | 3 => Some((2 + fz.rng.below(8)).to_string()),
                                4 | 5 | 6 => Some((10 + fz.rng.below(8)).to_string()),
                                7 => Some("9".to_string()),
                                _ => Some(format!("1844674407370955{}", 1616 + fz.rng.below(1000))),
                            }
                        };
                        let c = mk!(Op::CreateNamed(sc, elidx(names, "ECUC-CONTAINER-VALUE"), format!("C{}_{}", g, i).into_bytes()));
                        if let Some(v) = value {
                            let ix = mk!(Op::CreateSub(c, elidx(names, "INDEX")));
                            go!(Step::O(Op::SetCData(ix, Val::S(v.into_bytes()))));
                        }
                    }
                }
                for sc in &lists {
                    go!(Step::O(Op::CmpKids(*sc)));
                    go!(Step::O(Op::Sort(*sc)));
                }
                go!(Step::O(Op::SortModel(0)));
                go!(Step::O(Op::SerializeFile(0)));
                go!(Step::O(Op::Duplicate(0)));
                if fz.ex.models.len() > 1 {
                    go!(Step::O(Op::SortModel(1)));
                }
            }
            5 => {
                // small scope, exhaustive: one hand-written document, then whole sweeps of one operation kind over every
                // handle (pair): a call that fails half-way is always followed by the calls that trip over what it left
                go!(Step::O(Op::NewModel));
                let d = fz.rng.below(DOCS.len() as u64 - 1) as usize;
                let ver = version_n(*fz.rng.pick(&[20usize, 20, 17, 11, 0])).unwrap_or(AutosarVersion::LATEST);
                go!(Step::O(Op::Load(0, wrap_doc(DOCS[d].1, ver), b"d.arxml".to_vec(), false)));
                // every sweep kind once, in a random order
                let mut order: Vec<u64> = (0..8).collect();
                for i in (1..order.len()).rev() {
                    let j = fz.rng.below(i as u64 + 1) as usize;
                    order.swap(i, j);
                }
                for kind in order {
                    let nh = fz.ex.handles.len().min(40);
                    let mut k = 0u64;
                    match kind {
                        0 | 1 | 2 => {
                            // pairs (destination, element) where the element's kind is valid in the destination
                            for a in 0..nh {
                                let valid: Vec<ElementName> = guard(|| fz.ex.handles[a].list_valid_sub_elements()).unwrap_or_default().iter().map(|v| v.element_name).collect();
                                if valid.is_empty() {
                                    continue;
                                }
                                for b in 0..nh {
                                    if a != b && valid.contains(&fz.ex.handles[b].element_name()) {
                                        k += 1;
                                        let p = fz.pos_for(a);
                                        go!(Step::O(match (kind, k % 2) {
                                            (0, _) => Op::Move(a, b),
                                            (1, 0) => Op::MoveAt(a, b, p),
                                            (1, _) => Op::MoveAt(a, b, 0),
                                            (_, 0) => Op::Copy(a, b),
                                            (_, _) => Op::CopyAt(a, b, p),
                                        }));
                                    }
                                }
                            }
                        }
                        3 => {
                            for a in 0..nh {
                                if fz.ex.handles[a].is_reference() {
                                    for b in 0..nh {
                                        if fz.ex.handles[b].is_identifiable() {
                                            go!(Step::O(Op::SetRefTarget(a, b)));
                                        }
                                    }
                                }
                            }
                        }
                        4 => {
                            for a in 0..nh {
                                if fz.ex.handles[a].is_identifiable() {
                                    k += 1;
                                    go!(Step::O(Op::SetItemName(a, format!("r{}", k).into_bytes())));
                                }
                            }
                        }
                        5 => {
                            for a in 0..nh {
                                let kids: Vec<usize> = fz.ex.handles[a].sub_elements().filter_map(|s| fz.ex.hidx.get(&s).copied()).collect();
                                if let Some(c) = kids.last() {
                                    go!(Step::O(Op::Remove(a, *c)));
                                }
                            }
                        }
                        6 => {
                            for a in 0..nh {
                                go!(Step::O(Op::Sort(a)));
                                go!(Step::O(Op::SerializeElem(a)));
                            }
                        }
                        _ => {
                            for a in 0..nh {
                                let spec = fz.ex.handles[a].element_type();
                                if spec.chardata_spec().is_some() {
                                    let v = fz.value(spec.chardata_spec());
                                    go!(Step::O(Op::SetCData(a, v)));
                                    if fz.rng.below(3) == 0 {
                                        go!(Step::O(Op::RemoveCData(a)));
                                    }
                                }
                            }
                        }
                    }
                }
            }
            _ => {
                // grown, serialized, re-loaded leniently under an older schema version into a fresh and into the same model
                go!(Step::O(Op::NewModel));
                go!(Step::O(Op::CreateFile(0, b"f0.arxml".to_vec(), 0x100000)));
                go!(Step::O(Op::CreateSub(0, elidx(names, "AR-PACKAGES"))));
                go!(Step::O(Op::CreateNamed(1, elidx(names, "AR-PACKAGE"), b"p1".to_vec())));
                let n = 15 + fz.rng.below(40);
                for _ in 0..n {
                    if let Some(s) = fz.grow_step() {
                        go!(s);
                    }
                }
                if let Ok(Ok(t)) = guard(|| fz.ex.files[0].serialize()) {
                    let v = version_n(fz.rng.below(12) as usize).unwrap_or(AutosarVersion::LATEST);
                    let t2 = t.replacen(AutosarVersion::LATEST.filename(), v.filename(), 1);
                    go!(Step::O(Op::NewModel));
                    go!(Step::O(Op::Load(1, t2.clone().into_bytes(), b"old.arxml".to_vec(), false)));
                    if fz.rng.below(2) == 0 {
                        go!(Step::O(Op::Load(0, t2.into_bytes(), b"old2.arxml".to_vec(), false)));
                    }
                }
            }
        }
        // ---- the battery
        for _ in 0..nbat {
            let s = fz.battery_step();
            fz.note(&s);
            go!(s);
        }
        // read-only sweep over every handle, model and file of the final state
        let nh = fz.ex.handles.len();
        for h in 0..nh.min(400) {
            go!(Step::C(Call::QElem(h)));
        }
        for m in 0..fz.ex.models.len() {
            go!(Step::C(Call::QModel(m)));
        }
        for f in 0..fz.ex.files.len() {
            go!(Step::C(Call::QFile(f)));
        }
        if fz.rng.below(6) == 0 && nh > 0 {
            let h = fz.ph();
            go!(Step::C(Call::RangeAll(h)));
        }
        if fz.ex.models.len() >= 2 && fz.rng.below(3) == 0 {
            go!(Step::C(Call::DropModel(0)));
            for h in 0..nh.min(400) {
                go!(Step::C(Call::QElem(h)));
            }
        }
    }
}

fn write_script(outdir: &str, tag: &str, lines: &[String]) -> String {
    let p = format!("{}/{}.txt", outdir, tag);
    let mut t = String::from("SCRIPT 0\nPATHS \n");
    for l in lines {
        t.push_str(l);
        t.push('\n');
    }
    std::fs::write(&p, t).unwrap();
    p
}

fn fuzz_main(args: &[String]) {
    let dump = args[0].clone();
    let seed: u64 = args[1].parse().unwrap();
    let tier = args[2].clone();
    let outdir = args[3].clone();
    std::fs::create_dir_all(&outdir).unwrap();
    let base_scripts = if args.len() > 4 { read_scripts(&args[4]) } else { vec![] };
    let ncases: u64 = std::env::var("AVH_PANICS_CASES").ok().and_then(|x| x.parse().ok()).unwrap_or(if tier == "thorough" { 900 } else { 150 });
    let mut seen: BTreeMap<(String, String, String), u64> = BTreeMap::new();
    let mut nsteps = 0u64;
    let mut kinds: BTreeMap<u64, u64> = BTreeMap::new();
    let mut opmix: BTreeMap<String, (u64, u64)> = BTreeMap::new();
    let mut nhang = 0u64;
    let mut done = 0u64;
    for k in 0..ncases {
        // a hung call leaves its thread behind (possibly spinning): after a few of them the remaining cases would only
        // measure the scheduler, and the failures are already recorded
        if nhang >= 6 {
            println!("STAT stopped_after_hangs={} at_case={}", nhang, k);
            break;
        }
        done += 1;
        let cseed = seed.wrapping_mul(0x9E3779B97F4A7C15).wrapping_add(k * 104729 + 17);
        let (kind, base) = if !base_scripts.is_empty() && k % 3 == 0 {
            let s = &base_scripts[((k / 3) as usize) % base_scripts.len()];
            (0u64, s.2.clone())
        } else {
            (1 + (k % 6), vec![])
        };
        *kinds.entry(kind).or_insert(0) += 1;
        let (_lines, finds, n, okerr) = run_case(&dump, case_job(kind, cseed, tier.clone(), base), 3000);
        nsteps += n;
        for (k2, v) in okerr {
            let e = opmix.entry(k2).or_insert((0, 0));
            e.0 += v.0;
            e.1 += v.1;
        }
        for f in finds {
            if f.kind == "hang" {
                nhang += 1;
            }
            let key = (f.kind.to_string(), f.site.clone(), f.op.clone());
            let c = seen.entry(key).or_insert(0);
            *c += 1;
            if *c <= 2 {
                let p = write_script(&outdir, &format!("case{}_{}_{}", k, f.kind, *c), &f.lines);
                println!("FAIL C12 kind={} site={} op={} method={} case={} script={}", f.kind, f.site, f.op, f.method.replace(' ', "_"), k, p);
            }
        }
    }
    for ((kind, site, op), c) in &seen {
        println!("STAT finding kind={} site={} op={} count={}", kind, site, op, c);
    }
    for (k, c) in &kinds {
        println!("STAT family={} cases={}", k, c);
    }
    for (k, v) in &opmix {
        println!("STAT op={} ok={} err={}", k, v.0, v.1);
    }
    println!("STAT cases={} steps={}", done, nsteps);
    std::process::exit(0);
}

fn parse_steps(path: &str) -> Vec<Step> {
    let mut v = vec![];
    for l in read_lines(path) {
        if l.starts_with("OP") {
            if let Some(o) = Op::parse(&l) {
                v.push(Step::O(o));
            }
        } else if l.starts_with("CALL") {
            if let Some(c) = Call::parse(&l) {
                v.push(Step::C(c));
            }
        }
    }
    v
}

fn replay_main(args: &[String]) {
    let dump = args[0].clone();
    let steps = parse_steps(&args[1]);
    let verbose = args.len() > 2 && args[2] == "-v";
    let (lines, finds, n, _) = run_case(
        &dump,
        move |names, emit| {
            let mut ex = Exec::new(names);
            run_steps(&mut ex, &steps, emit);
        },
        3000,
    );
    if verbose {
        for l in &lines {
            println!("{}", l);
        }
    }
    for f in &finds {
        println!("FAIL C12 kind={} site={} op={} method={} step={}", f.kind, f.site, f.op, f.method.replace(' ', "_"), f.lines.len());
    }
    println!("STAT steps={} findings={}", n, finds.len());
    std::process::exit(0);
}

// ------------------------------------------------------------------------------------------------ deep nesting
/// runs in the MAIN thread of a child process (default stack): builds `depth` nested AR-PACKAGEs through the API and
/// performs `action`; prints DEEP-OK at the end.  A stack overflow kills the process (SIGSEGV / SIGABRT).
fn deep_child(args: &[String]) {
    let depth: usize = args[1].parse().unwrap();
    let action = args[2].as_str();
    let model = AutosarModel::new();
    let file = model.create_file("deep.arxml", AutosarVersion::LATEST).unwrap();
    let mut cur = model.root_element();
    let top = cur.create_sub_element(ElementName::ArPackages).unwrap();
    cur = top.clone();
    let mut pkgs: Vec<Element> = vec![];
    for k in 0..depth {
        let p = cur.create_named_sub_element(ElementName::ArPackage, &format!("p{}", k)).unwrap();
        cur = p.create_sub_element(ElementName::ArPackages).unwrap();
        if k == 0 || k + 1 == depth {
            pkgs.push(p);
        }
    }
    println!("DEEP-BUILT {}", depth);
    match action {
        "build" => {}
        "path" => {
            let p = pkgs.last().unwrap().path().unwrap();
            println!("len {}", p.len());
            let _ = pkgs.last().unwrap().model().unwrap();
            let _ = pkgs.last().unwrap().file_membership().unwrap();
            let _ = pkgs.last().unwrap().xml_path();
        }
        "dfs" => println!("n {}", model.elements_dfs().count()),
        "sort" => model.sort(),
        "serialize" => println!("len {}", file.serialize().unwrap().len()),
        "check" => println!("n {}", file.check_version_compatibility(AutosarVersion::Autosar_4_0_1).0.len()),
        "references" => println!("n {}", model.check_references().len()),
        "rename" => pkgs[0].set_item_name("renamed").unwrap(),
        "remove" => top.remove_sub_element(pkgs[0].clone()).unwrap(),
        "remove_file" => model.remove_file(&file),
        "copy" => {
            let t = pkgs.last().unwrap().get_sub_element(ElementName::ArPackages).unwrap();
            let c = t.create_copied_sub_element(&pkgs[0]);
            println!("copy ok={}", c.is_ok());
        }
        "move" => {
            let m2 = AutosarModel::new();
            m2.create_file("o.arxml", AutosarVersion::LATEST).unwrap();
            let t = m2.root_element().create_sub_element(ElementName::ArPackages).unwrap();
            t.move_element_here(&pkgs[0]).unwrap();
        }
        "duplicate" => {
            let d = model.duplicate();
            println!("dup ok={}", d.is_ok());
        }
        "add_file" => {
            let f2 = model.create_file("second.arxml", AutosarVersion::LATEST).unwrap();
            pkgs[0].add_to_file(&f2).unwrap();
            pkgs[0].remove_from_file(&file).unwrap();
        }
        "drop" => {
            drop(pkgs);
            drop(cur);
            drop(top);
            drop(file);
            drop(model);
        }
        other => panic!("action {}", other),
    }
    println!("DEEP-OK {} {}", depth, action);
    // leave without running destructors: only the "drop" action is about Drop
    std::process::exit(0);
}

const DEEP_ACTIONS: &[&str] = &["build", "path", "dfs", "sort", "serialize", "check", "references", "rename", "remove", "remove_file", "copy", "move", "duplicate", "add_file", "drop"];

fn deep_main(args: &[String]) {
    // driver: one child per (depth, action), all running at the same time
    let depths: Vec<usize> = if args.len() > 1 { args[1].split(',').map(|x| x.parse().unwrap()).collect() } else { vec![1000, 10000] };
    let exe = std::env::current_exe().unwrap();
    let mut kids = vec![];
    for d in depths {
        for a in DEEP_ACTIONS {
            let t0 = std::time::Instant::now();
            let c = std::process::Command::new(&exe)
                .args(["panics", "deep-child", &args[0], &d.to_string(), a])
                .stdout(std::process::Stdio::piped())
                .stderr(std::process::Stdio::piped())
                .spawn();
            kids.push((d, *a, t0, c));
        }
    }
    for (d, a, t0, c) in kids {
        match c.and_then(|c| c.wait_with_output()) {
            Ok(o) => {
                let so = String::from_utf8_lossy(&o.stdout).to_string();
                let se = String::from_utf8_lossy(&o.stderr).to_string();
                let ok = so.contains("DEEP-OK");
                let built = so.contains("DEEP-BUILT");
                #[cfg(unix)]
                let sig = std::os::unix::process::ExitStatusExt::signal(&o.status);
                #[cfg(not(unix))]
                let sig: Option<i32> = None;
                if ok {
                    println!("DEEP ok depth={} action={} ms={}", d, a, t0.elapsed().as_millis());
                } else if sig.is_some() || se.contains("overflowed its stack") {
                    println!("FAIL C12 kind=stack-overflow site=- op=deep-{} depth={} built={} signal={}", a, d, built as u8, sig.unwrap_or(0));
                } else {
                    println!("FAIL C12 kind=panic site=deep op=deep-{} depth={} built={} status={:?} stderr={}", a, d, built as u8, o.status.code(), se.lines().last().unwrap_or("").replace(' ', "_"));
                }
            }
            Err(e) => println!("FAIL C12 kind=harness-error site=- op=deep-{} depth={} error={}", a, d, e.to_string().replace(' ', "_")),
        }
    }
    std::process::exit(0);
}

// ---------------------------------------------------------------------------------------------------- mixup probe
// Element::check_version_compatibility reads `self.element_type().get_sub_element_version_mask(&indices).unwrap()` with the
// indices that the RECALCULATED type (parent's stored type + own name) returned.  After a move / copy the stored type may be
// another type of the same name (C07/C17 class attach-keeps-stored-type): the index list of one type is used on another.
// `avh panics mixup <dump> [limit] [outdir]`: static search over the specification for (stored type c1, recalculated type c2, child name)
// where that lookup panics or returns None, then the scenario is built through the public API and the call is made.
fn mx_subs_in(t: autosar_data_specification::ElementType, v: u32) -> Vec<(ElementName, autosar_data_specification::ElementType, u32, u32)> {
    let mut seen = std::collections::HashSet::new();
    let mut out = vec![];
    for (n, et, m, nm) in t.sub_element_spec_iter() {
        if m & v != 0 && seen.insert(n) {
            out.push((n, et, m, nm));
        }
    }
    out
}

fn mixup_main(args: &[String]) {
    use autosar_data_specification::ElementType;
    use std::collections::{HashMap, HashSet, VecDeque};
    let limit: usize = args.get(1).map(|x| x.parse().unwrap()).unwrap_or(20);
    let ver = AutosarVersion::LATEST;
    let v = ver as u32;
    let versions: Vec<AutosarVersion> = (0..32).filter_map(|k| AutosarVersion::from_val(1u32 << k)).collect();
    // reachability in v: type -> (parent type, name, named)
    let mut reach: HashMap<ElementType, (ElementType, ElementName, bool)> = HashMap::new();
    let mut q = VecDeque::new();
    let mut seen: HashSet<ElementType> = HashSet::new();
    q.push_back(ElementType::ROOT);
    seen.insert(ElementType::ROOT);
    let mut order = vec![ElementType::ROOT];
    while let Some(t) = q.pop_front() {
        for (n, et, _m, nm) in mx_subs_in(t, v) {
            if seen.insert(et) {
                reach.insert(et, (t, n, nm & v != 0));
                q.push_back(et);
                order.push(et);
            }
        }
    }
    let path_of = |t: ElementType| -> Option<Vec<(ElementName, bool)>> {
        let mut p = vec![];
        let mut cur = t;
        while cur != ElementType::ROOT {
            let (par, n, named) = reach.get(&cur)?;
            p.push((*n, *named));
            cur = *par;
        }
        p.reverse();
        Some(p)
    };
    let mut by_name: BTreeMap<String, Vec<(ElementType, ElementType, ElementName, bool)>> = BTreeMap::new();
    for t in &order {
        for (n, et, _m, nm) in mx_subs_in(*t, v) {
            by_name.entry(n.to_str().to_string()).or_default().push((*t, et, n, nm & v != 0));
        }
    }
    let prev = std::panic::take_hook();
    std::panic::set_hook(Box::new(|_| {}));
    let mut cands = vec![];
    let mut pairs = 0u64;
    for (_nm, l) in &by_name {
        let mut types: Vec<ElementType> = vec![];
        for (_, c, _, _) in l {
            if !types.contains(c) {
                types.push(*c);
            }
        }
        if types.len() < 2 {
            continue;
        }
        for (p1, c1, name, named1) in l {
            for (p2, c2v, _, _) in l {
                if c1 == c2v {
                    continue;
                }
                pairs += 1;
                for (sn, st, _m, snm) in mx_subs_in(*c1, v) {
                    if sn == ElementName::ShortName {
                        continue;
                    }
                    for t in &versions {
                        let tv = *t as u32;
                        // Element::recalc_element_type under the new parent
                        let c2 = p2.find_sub_element(*name, tv).map(|(e, _)| e).unwrap_or(*c1);
                        if c2 == *c1 {
                            continue;
                        }
                        let found = c2.find_sub_element(sn, tv).or(c2.find_sub_element(sn, u32::MAX));
                        if let Some((_, idx)) = found {
                            let c1c = *c1;
                            let idx2 = idx.clone();
                            let r = std::panic::catch_unwind(move || c1c.get_sub_element_version_mask(&idx2));
                            let bad = match &r { Ok(Some(_)) => None, Ok(None) => Some("none"), Err(_) => Some("panic") };
                            if let Some(kind) = bad {
                                cands.push((kind, *p1, *c1, *name, *named1, *p2, c2, sn, st, snm & v != 0, *t, idx));
                            }
                        }
                    }
                }
            }
        }
    }
    println!("STAT mixup static: name/type pairs={} candidates={}", pairs, cands.len());
    // second family: (stored type c1, destination type c2) of one name where c1 lists a sub-element c2 does not know at all,
    // built with that sub-element and (if there is one) a sub-element both types know
    type Scen = (String, ElementType, ElementType, ElementName, bool, ElementType, ElementType, Vec<(ElementName, bool)>, Option<AutosarVersion>);
    let mut scens: Vec<Scen> = vec![];
    let mut seen_key: HashSet<String> = HashSet::new();
    for (kind, p1, c1, name, named1, p2, c2, sn, _st, snamed, t, _idx) in &cands {
        if seen_key.insert(format!("A{:?}{:?}{}{:?}", c1, c2, sn.to_str(), kind)) {
            scens.push((format!("mask-{}", kind), *p1, *c1, *name, *named1, *p2, *c2, vec![(*sn, *snamed)], Some(*t)));
        }
    }
    let mut richer = 0usize;
    for (_nm, l) in &by_name {
        for (p1, c1, name, named1) in l {
            for (p2, c2, _, _) in l {
                if c1 == c2 || !seen_key.insert(format!("B{:?}{:?}", c1, c2)) {
                    continue;
                }
                let subs = mx_subs_in(*c1, v);
                let only: Vec<(ElementName, bool)> = subs.iter().filter(|(sn, _, _, _)| *sn != ElementName::ShortName && c2.find_sub_element(*sn, u32::MAX).is_none())
                    .map(|(sn, _, _, nm)| (*sn, nm & v != 0)).take(2).collect();
                if only.is_empty() {
                    continue;
                }
                let both: Vec<(ElementName, bool)> = subs.iter().filter(|(sn, _, _, _)| *sn != ElementName::ShortName && c2.find_sub_element(*sn, v).is_some())
                    .map(|(sn, _, _, nm)| (*sn, nm & v != 0)).take(2).collect();
                let mut kids = only;
                kids.extend(both);
                richer += 1;
                if richer <= 300 {
                    scens.push(("richer".to_string(), *p1, *c1, *name, *named1, *p2, *c2, kids, None));
                }
            }
        }
    }
    println!("STAT mixup static: richer-source pairs={} (first 300 built)", richer);
    // dynamic: every scenario through the public API (operations of the tree harness, so that it is a replayable script), as a move
    // and as a copy, followed by a battery on the attached element, its new parent, the model and the file
    std::panic::set_hook(prev);
    install_hook();
    let names = Names::load(&args[0]);
    let outdir = args.get(2).cloned().unwrap_or_else(|| ".".to_string());
    let mut shown = 0usize;
    let mut confirmed = 0usize;
    let mut tried = 0usize;
    let mut calls = 0u64;
    let hn = |r: &str| -> Option<usize> { r.strip_prefix("R OK h").and_then(|x| x.parse::<usize>().ok()) };
    for (fam, p1, c1, name, named1, p2, c2, kids, tver) in &scens {
        if tried >= 900 {
            break;
        }
        let (Some(path1), Some(path2)) = (path_of(*p1), path_of(*p2)) else { continue };
        'how: for how in ["move", "copy"] {
            let mut ex = Exec::new(&names);
            let mut steps: Vec<Step> = vec![];
            let mut ctr = 0usize;
            let push = |ex: &mut Exec, steps: &mut Vec<Step>, op: Op| -> String {
                let r = ex.apply(&op);
                steps.push(Step::O(op));
                r
            };
            push(&mut ex, &mut steps, Op::NewModel);
            push(&mut ex, &mut steps, Op::CreateFile(0, b"f0.arxml".to_vec(), v));
            let mut ends = vec![];
            for path in [&path1, &path2] {
                let mut cur = 0usize;
                for (n, named) in path.iter() {
                    let existing = ex.handles[cur].sub_elements().find(|s| s.element_name() == *n).and_then(|c| ex.hidx.get(&c).copied());
                    cur = match existing {
                        Some(c) => c,
                        None => {
                            let r = if *named {
                                ctr += 1;
                                push(&mut ex, &mut steps, Op::CreateNamed(cur, *n as u16, format!("n{}", ctr).into_bytes()))
                            } else {
                                push(&mut ex, &mut steps, Op::CreateSub(cur, *n as u16))
                            };
                            let Some(c) = hn(&r) else { continue 'how };
                            c
                        }
                    };
                }
                ends.push(cur);
                if ends.len() == 1 {
                    // the element with the stored type c1 and its children
                    if ex.handles[cur].element_type() != *p1 {
                        continue 'how;
                    }
                    let r = if *named1 {
                        ctr += 1;
                        push(&mut ex, &mut steps, Op::CreateNamed(cur, *name as u16, format!("n{}", ctr).into_bytes()))
                    } else {
                        push(&mut ex, &mut steps, Op::CreateSub(cur, *name as u16))
                    };
                    let Some(x) = hn(&r) else { continue 'how };
                    if ex.handles[x].element_type() != *c1 {
                        continue 'how;
                    }
                    let mut made = 0;
                    for (sn, snamed) in kids {
                        let r = if *snamed {
                            ctr += 1;
                            push(&mut ex, &mut steps, Op::CreateNamed(x, *sn as u16, format!("n{}", ctr).into_bytes()))
                        } else {
                            push(&mut ex, &mut steps, Op::CreateSub(x, *sn as u16))
                        };
                        if hn(&r).is_some() {
                            made += 1;
                        }
                    }
                    if made == 0 {
                        continue 'how;
                    }
                    ends.push(x);
                }
            }
            let (h1, x, h2) = (ends[0], ends[1], ends[2]);
            if ex.handles[h2].element_type() != *p2 || h2 == h1 {
                continue;
            }
            let r = push(&mut ex, &mut steps, if how == "move" { Op::Move(h2, x) } else { Op::Copy(h2, x) });
            let Some(y) = hn(&r) else { continue };
            tried += 1;
            // the battery: every call must return
            let text = guard(|| ex.files[0].serialize()).ok().and_then(|r| r.ok()).unwrap_or_default();
            let mut battery: Vec<Step> = vec![
                Step::O(Op::Sort(y)), Step::O(Op::Sort(h2)), Step::O(Op::SortModel(0)), Step::O(Op::SerializeFile(0)),
                Step::C(Call::QElem(y)), Step::C(Call::QModel(0)), Step::C(Call::QFile(0)), Step::O(Op::Duplicate(0)),
            ];
            if !text.is_empty() {
                battery.push(Step::O(Op::Load(0, text.into_bytes(), b"self.arxml".to_vec(), false)));
                battery.push(Step::O(Op::SortModel(0)));
                battery.push(Step::C(Call::QModel(0)));
            }
            let mut bad: Option<(String, String, String)> = None;
            for st in battery {
                let out = exec_step(&mut ex, &st);
                calls += 1;
                steps.push(st.clone());
                if let Out::Panic { site, method } = out {
                    bad = Some((site, st.opname(), method));
                    break;
                }
            }
            if let Some((site, op, method)) = &bad {
                confirmed += 1;
                let lines: Vec<String> = steps.iter().map(|o| o.line()).collect();
                let pth = write_script(&outdir, &format!("mixup-{}-{}", how, confirmed), &lines);
                if confirmed <= 6 {
                    println!("MIXUP-SCRIPT {}", pth);
                }
                println!("FAIL C12 kind=panic site={} op={} method={} case=mixup-{} script={}", site, op, method.replace(' ', "_"), fam, pth);
            }
            if shown < limit && (bad.is_some() || shown < 2) {
                shown += 1;
                println!("MIXUP {} family={} how={} name={} stored={:?} destination={:?} kids={} target={:?} p1={} p2={}",
                    if bad.is_some() { "PANIC" } else { "ok" }, fam, how, name.to_str(), c1, c2,
                    kids.iter().map(|(n, _)| n.to_str()).collect::<Vec<_>>().join(","), tver,
                    path1.iter().map(|(n, _)| n.to_str()).collect::<Vec<_>>().join("/"),
                    path2.iter().map(|(n, _)| n.to_str()).collect::<Vec<_>>().join("/"));
            }
        }
    }
    println!("STAT mixup calls={}", calls);
    let prev = std::panic::take_hook();
    std::panic::set_hook(prev);
    println!("STAT mixup dynamic: scenarios tried={} panics confirmed={}", tried, confirmed);
}

pub fn main(args: &[String]) {
    if args.is_empty() {
        eprintln!("usage: avh panics fuzz|replay|deep ...");
        std::process::exit(2);
    }
    match args[0].as_str() {
        "deep-child" => {
            // default hook: the message of an ordinary panic goes to stderr
            let _ = std::panic::take_hook();
            deep_child(&args[1..])
        }
        "fuzz" => {
            install_hook();
            fuzz_main(&args[1..])
        }
        "replay" => {
            install_hook();
            replay_main(&args[1..])
        }
        "deep" => deep_main(&args[1..]),
        "mixup" => mixup_main(&args[1..]),
        _ => {
            eprintln!("usage: avh panics fuzz|replay|deep ...");
            std::process::exit(2)
        }
    }
}
